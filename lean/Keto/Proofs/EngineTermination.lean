/-
  Termination of the engine model: with `Call.need` fuel `build` never answers `diverged`
  (neither while the check is constructed nor when the returned thunk is run), and more fuel
  does not change anything.

  The first part is an instance of a generic invariant theorem (`build_inv`) for result
  predicates that need not hold for every error (`QOk2`, weaker than `QOk` of EngineSound) over
  calls that satisfy a predicate closed under the calls `build` makes (`Closed`); it is reused
  by EngineNoSchemaError.

  Helper lemmas only; the property theorems live in Keto/Props/C15.lean.
-/
import Keto.Model.Engine
import Keto.Spec.Fuel
import Keto.Proofs.EngineSound

namespace Keto

/-! ### the generic invariant -/

/-- What the loops need to know about `Q` (unlike `QOk`: only the storage error). -/
structure QOk2 (Q : Res → Prop) : Prop where
  nm : Q Res.nm
  unk : Q Res.unk
  isM : Q Res.isM
  storage : Q (Res.error .storage)
  /-- the failing operand of an `and` -/
  and : ∀ r, Q r → Q ⟨.notMember, r.err⟩
  inv : ∀ r, Q r → Q (invertRes r)

/-- "the result does not carry the error `k`" -/
def NE (k : ErrKind) : Res → Prop := fun r => r.err ≠ some k

theorem invertRes_err_eq (r : Res) : (invertRes r).err = r.err := by
  unfold invertRes
  split
  · next e h => rw [h]
  · next h =>
    split
    · rw [h]
    · rw [h]
    · rfl

theorem NE.ok {k : ErrKind} (hk : k ≠ .storage) : QOk2 (NE k) where
  nm := by intro h; cases h
  unk := by intro h; cases h
  isM := by intro h; cases h
  storage := by
    intro h
    apply hk
    cases h
    rfl
  and := fun _ h => h
  inv := fun r h => by
    unfold NE
    rw [invertRes_err_eq]
    exact h

theorem ttuPages_inv2 {Q : Res → Prop} (hQ : QOk2 Q) (E : Env) (rec : VKey → Ctx → World → Res × World) :
    ∀ (ps : List (List Tuple)),
      (∀ p, p ∈ ps → ∀ t, t ∈ p → ∀ n o r, t.sub = .set n o r → ∀ c w, Q (rec (n, o, r) c w).1) →
      ∀ g c w, GInv Q g → GInv Q (ttuPages E rec ps g c w).1
  | [], _, _, _, _, hg => hg
  | p :: ps, h, g, c, w, hg => by
    simp only [ttuPages]
    split
    · exact hg
    · split
      · exact GInv.some hQ.storage
      · exact ttuPages_inv2 hQ E rec ps (fun p' hp' => h p' (List.mem_cons_of_mem _ hp')) _ _ _
          (ttuRows_inv rec p (h p (List.mem_cons_self ..)) _ _ _ GInv.none)

theorem andLoop_inv2 {Q : Res → Prop} (hQ : QOk2 Q) :
    ∀ (ths : List Thunk), (∀ th, th ∈ ths → TInv Q th) → TInv Q (andLoop ths)
  | [], _, _, _ => hQ.isM
  | th :: ths, h, c, w => by
    simp only [andLoop]
    split
    · exact hQ.and _ (h th (List.mem_cons_self ..) c w)
    · exact andLoop_inv2 hQ ths (fun th' ht' => h th' (List.mem_cons_of_mem _ ht')) c _

theorem opRun_inv2 {Q : Res → Prop} (hQ : QOk2 Q) (op : Op) (ths : List Thunk)
    (h : ∀ th, th ∈ ths → TInv Q th) : TInv Q (opRun op ths) := by
  cases op with
  | or => exact orRun_inv hQ.nm ths h
  | and =>
    intro c w
    show Q (andRun ths c w).1
    unfold andRun
    split
    · exact hQ.nm
    · exact andLoop_inv2 hQ ths h c w

theorem expandRun_inv2 {Q : Res → Prop} (hQ : QOk2 Q) (E : Env) (rec : Tuple → Ctx → World → Res × World)
    (t : Tuple)
    (hrec : ∀ n o r, (⟨t.ns, t.obj, t.rel, .set n o r⟩ : Tuple) ∈ E.T → ∀ c w, Q (rec ⟨n, o, r, t.sub⟩ c w).1) :
    TInv Q (expandRun E rec t) := by
  intro c w
  unfold expandRun
  extract_lets cw fw sets over w2 sets' gw
  split
  · exact hQ.storage
  · split
    · exact hQ.isM
    · apply GInv.gResult hQ.nm
      show GInv Q (expandLoop rec t.sub sets' none cw.1 w2).1
      refine expandLoop_inv _ _ _ ?_ _ _ _ GInv.none
      intro s hs c w
      have hs' : s ∈ sets := by
        simp only [sets'] at hs
        split at hs
        · exact List.mem_of_mem_take hs
        · exact hs
      obtain ⟨n, o, r⟩ := s
      exact hrec n o r (mem_subjectSetsOf hs') c w

theorem directStep_inv2 {Q : Res → Prop} (hQ : QOk2 Q) (E : Env) (t : Tuple) (d : Int) (g : Option Res) (w : World)
    (hg : GInv Q g) : GInv Q (directStep E t d g w).1 := by
  unfold directStep
  split
  · exact hg
  · split
    · exact hg
    · extract_lets fw
      split
      · exact GInv.some hQ.storage
      · refine GInv.none.gAdd ?_
        split
        · exact hQ.isM
        · exact hQ.nm

theorem build_isAllowed_inv2 {Q : Res → Prop} (hQ : QOk2 Q) (E : Env) (n : Nat) (t : Tuple) (d : Int) (skip : Bool)
    (ctx : Ctx) (w : World)
    (hbad : ¬ d ≤ 0 → astRelationFor E.cfg t.ns t.rel = .bad → Q (Res.error .schema))
    (hrw : ¬ d ≤ 0 → ∀ R rw, astRelationFor E.cfg t.ns t.rel = .rel R → R.rewrite = some rw →
      TInv Q (build E n (.rewrite t rw d) ctx w).1)
    (hexp : ¬ d ≤ 0 → ∀ n' o r, (⟨t.ns, t.obj, t.rel, .set n' o r⟩ : Tuple) ∈ E.T →
      ∀ c w, TInv Q (build E n (.isAllowed ⟨n', o, r, t.sub⟩ (d - 1) true) c w).1) :
    TInv Q (build E (n+1) (.isAllowed t d skip) ctx w).1 := by
  intro c' w'
  rw [build]
  split
  · exact hQ.unk
  · next hd =>
    split
    · next hlk => exact hbad hd hlk
    · next lk hlk =>
      extract_lets rel? rw? strict gw1 gw2 canSS er gw3
      show Q (gResult gw3.1)
      refine GInv.gResult hQ.nm ?_
      have hrwq : ∀ rw, rw? = some rw → TInv Q (build E n (.rewrite t rw d) ctx w).1 := by
        intro rw h
        simp only [rw?, rel?] at h
        split at h
        · next R hR => exact hrw hd R rw hR h
        · cases h
      clear_value rw? rel?
      have h1 : GInv Q gw1.1 := by
        simp only [gw1]
        split
        · next rw => exact GInv.none.gAddT (hrwq rw rfl) _ _
        · exact GInv.none
      have h2 : GInv Q gw2.1 := by
        simp only [gw2]
        split
        · exact directStep_inv2 hQ E t _ _ _ h1
        · exact h1
      simp only [gw3]
      split
      · split
        · exact h2
        · split
          · next x hx => rw [← hx]; exact h2
          · refine GInv.none.gAdd ?_
            simp only [er]
            refine expandRun_inv2 hQ E _ t ?_ _ _
            intro n' o r hm c w
            exact hexp hd n' o r hm c w c _
      · exact h2

theorem mem_comps {b : Bool} {cs : List Child} {r : String}
    (h : r ∈ (if b = true then computedRels cs else [])) : Child.computed r ∈ cs := by
  split at h
  · exact mem_computedRels h
  · cases h

theorem mem_rest {b : Bool} {cs : List Child} {ch : Child}
    (h : ch ∈ (if b = true then cs.filter (fun c => !c.isComputed) else cs)) : ch ∈ cs := by
  split at h
  · exact (List.mem_filter.1 h).1
  · exact h

theorem build_rewrite_inv2 {Q : Res → Prop} (hQ : QOk2 Q) (E : Env) (n : Nat) (t : Tuple) (rw : Rewrite) (d : Int)
    (ctx : Ctx) (w : World)
    (hcomp : ¬ d ≤ 0 → ∀ r, Child.computed r ∈ rw.children →
      ∀ c w, TInv Q (build E n (.isAllowed { t with rel := r } (d - 1) true) c w).1)
    (hch : ¬ d ≤ 0 → ∀ ch, ch ∈ rw.children → ∀ c w, TInv Q (build E n (.child t ch d false) c w).1) :
    TInv Q (build E (n+1) (.rewrite t rw d) ctx w).1 := by
  rw [build]
  split
  · exact TInv.const hQ.unk
  · next hd =>
    extract_lets isOr comps rest rels sc bw ths
    show TInv Q (opRun rw.op (sc ++ ths))
    refine opRun_inv2 hQ _ _ ?_
    intro th hth
    rw [List.mem_append] at hth
    cases hth with
    | inl h =>
      simp only [sc] at h
      split at h
      · cases h
      · rw [List.mem_singleton] at h
        subst h
        intro c w'
        dsimp only
        split
        · exact hQ.storage
        · split
          · exact hQ.isM
          · refine GInv.gResult hQ.nm (relLoop_inv _ _ ?_ _ _ _ GInv.none)
            intro r hr c w
            exact hcomp hd r (mem_comps hr) c w c _
    | inr h =>
      have hall := buildChildren_all2 (R := fun _ th => TInv Q th)
        (fun ch c w' => build E n (Call.child t ch d false) c w') (rw.op == .and) rest
        (fun ch hm c w => hch hd ch (mem_rest hm) c w) ctx w
      simp only [ths] at h
      split at h
      · have hall' := hall.imp (R' := fun _ th => TInv Q th) (f := withFresh)
          (fun _ _ h => TInv.withFresh h)
        obtain ⟨ch, _, hR⟩ := hall'.right th h
        exact hR
      · obtain ⟨ch, _, hR⟩ := hall.right th h
        exact hR

theorem build_child_ttu_inv2 {Q : Res → Prop} (hQ : QOk2 Q) (E : Env) (n : Nat) (t : Tuple) (rel crel : String)
    (d : Int) (inv : Bool) (ctx : Ctx) (w : World)
    (h : ¬ d < 0 → ∀ n' o r, (⟨t.ns, t.obj, rel, .set n' o r⟩ : Tuple) ∈ E.T →
      ∀ c w, TInv Q (build E n (.isAllowed ⟨n', o, crel, t.sub⟩ (d - 1) false) c w).1) :
    TInv Q (build E (n+1) (.child t (.ttu rel crel) d inv) ctx w).1 := by
  rw [build]
  dsimp only
  split
  · exact TInv.const hQ.unk
  · next hd =>
    intro c w'
    dsimp only
    refine GInv.gResult hQ.nm (ttuPages_inv2 hQ E _ _ ?_ _ _ _ GInv.none)
    intro p hp x hx n' o r hs c w
    obtain ⟨hxT, h1, h2, h3⟩ := mem_rowsOf (mem_pagesOf _ _ _ _ hp x hx)
    refine h hd n' o r ?_ c w c _
    rw [← h1, ← h2, ← h3, ← hs]
    exact hxT

theorem build_invert_inv2 {Q : Res → Prop} (hQ : QOk2 Q) (E : Env) (n : Nat) (t : Tuple) (ch : Child) (d : Int)
    (ctx : Ctx) (w : World)
    (h : ¬ d < 0 → ∀ c w, TInv Q (build E n (.child t ch d true) c w).1) :
    TInv Q (build E (n+1) (.invert t ch d) ctx w).1 := by
  rw [build]
  split
  · exact TInv.const hQ.unk
  · next hd =>
    intro c w'
    exact hQ.inv _ (h hd _ _ _ _)

/-- A predicate on (fuel, call) that is closed under the calls `build` makes, together with what
    `Q` has to allow where `build` gives up (`diverged`) or the lookup fails (`schema`). -/
structure Closed (E : Env) (Q : Res → Prop) (Ok : Nat → Call → Prop) : Prop where
  zero : ∀ call, Ok 0 call → Q (Res.error .diverged)
  bad : ∀ n t d skip, Ok (n+1) (.isAllowed t d skip) → ¬ d ≤ 0 →
    astRelationFor E.cfg t.ns t.rel = .bad → Q (Res.error .schema)
  isAllowed_rw : ∀ n t d skip, Ok (n+1) (.isAllowed t d skip) → ¬ d ≤ 0 →
    ∀ R rw, astRelationFor E.cfg t.ns t.rel = .rel R → R.rewrite = some rw → Ok n (.rewrite t rw d)
  isAllowed_exp : ∀ n t d skip, Ok (n+1) (.isAllowed t d skip) → ¬ d ≤ 0 →
    ∀ n' o r, (⟨t.ns, t.obj, t.rel, .set n' o r⟩ : Tuple) ∈ E.T → Ok n (.isAllowed ⟨n', o, r, t.sub⟩ (d - 1) true)
  rewrite_sc : ∀ n t rw d, Ok (n+1) (.rewrite t rw d) → ¬ d ≤ 0 →
    ∀ r, Child.computed r ∈ rw.children → Ok n (.isAllowed { t with rel := r } (d - 1) true)
  rewrite_ch : ∀ n t rw d, Ok (n+1) (.rewrite t rw d) → ¬ d ≤ 0 →
    ∀ ch, ch ∈ rw.children → Ok n (.child t ch d false)
  ttu : ∀ n t rel crel d inv, Ok (n+1) (.child t (.ttu rel crel) d inv) → ¬ d < 0 →
    ∀ n' o r, (⟨t.ns, t.obj, rel, .set n' o r⟩ : Tuple) ∈ E.T → Ok n (.isAllowed ⟨n', o, crel, t.sub⟩ (d - 1) false)
  computed : ∀ n t rel d inv, Ok (n+1) (.child t (.computed rel) d inv) → ¬ d < 0 →
    Ok n (.isAllowed { t with rel := rel } (d - 1) false)
  crewrite : ∀ n t op cs d inv, Ok (n+1) (.child t (.rewrite op cs) d inv) →
    Ok n (.rewrite t ⟨op, cs⟩ (if inv then d else d - 1))
  cinvert : ∀ n t c d inv, Ok (n+1) (.child t (.invert c) d inv) → Ok n (.invert t c d)
  invert : ∀ n t c d, Ok (n+1) (.invert t c d) → ¬ d < 0 → Ok n (.child t c d true)

/-- Every result of a call that satisfies `Ok` (construction and any later run of the thunk)
    satisfies `Q`. -/
theorem build_inv {Q : Res → Prop} (hQ : QOk2 Q) (E : Env) {Ok : Nat → Call → Prop} (hC : Closed E Q Ok) :
    ∀ (fuel : Nat) (call : Call) (ctx : Ctx) (w : World), Ok fuel call → TInv Q (build E fuel call ctx w).1 := by
  intro fuel
  induction fuel with
  | zero =>
    intro call ctx w hok c' w'
    rw [build]
    exact hC.zero call hok
  | succ n ih =>
    intro call ctx w hok
    cases call with
    | isAllowed t d skip =>
      exact build_isAllowed_inv2 hQ E n t d skip ctx w (hC.bad n t d skip hok)
        (fun hd R rw hR hrw => ih _ _ _ (hC.isAllowed_rw n t d skip hok hd R rw hR hrw))
        (fun hd n' o r hm c w => ih _ c w (hC.isAllowed_exp n t d skip hok hd n' o r hm))
    | rewrite t rw d =>
      exact build_rewrite_inv2 hQ E n t rw d ctx w
        (fun hd r hr c w => ih _ c w (hC.rewrite_sc n t rw d hok hd r hr))
        (fun hd ch hm c w => ih _ c w (hC.rewrite_ch n t rw d hok hd ch hm))
    | child t ch d inv =>
      cases ch with
      | ttu rel crel =>
        exact build_child_ttu_inv2 hQ E n t rel crel d inv ctx w
          (fun hd n' o r hm c w => ih _ c w (hC.ttu n t rel crel d inv hok hd n' o r hm))
      | computed rel =>
        rw [build]
        split
        · exact TInv.const hQ.unk
        · next hd => exact ih _ _ _ (hC.computed n t rel d inv hok hd)
      | rewrite op cs =>
        rw [build]
        exact ih _ _ _ (hC.crewrite n t op cs d inv hok)
      | invert c =>
        rw [build]
        exact ih _ _ _ (hC.cinvert n t c d inv hok)
    | invert t c d =>
      exact build_invert_inv2 hQ E n t c d ctx w
        (fun hd c' w' => ih _ c' w' (hC.invert n t c d hok hd))

/-! ### enough fuel: no `diverged` -/

theorem allowedFuel_pos (H : Nat) (d : Int) : 1 ≤ allowedFuel H d := by
  unfold allowedFuel
  omega

theorem allowedFuel_step (H : Nat) (d : Int) (hd : ¬ d ≤ 0) :
    allowedFuel H d = allowedFuel H (d - 1) + H + 1 := by
  unfold allowedFuel
  have e : d.toNat = (d - 1).toNat + 1 := by omega
  rw [e, Nat.succ_mul]
  omega

theorem allowedFuel_mono (H : Nat) {d d' : Int} (h : d ≤ d') : allowedFuel H d ≤ allowedFuel H d' := by
  unfold allowedFuel
  have e : d.toNat ≤ d'.toNat := by omega
  exact Nat.add_le_add_right (Nat.mul_le_mul_right _ e) _

theorem height_le_heightList : ∀ {cs : List Child} {ch : Child}, ch ∈ cs → ch.height ≤ Child.heightList cs
  | [], _, h => by cases h
  | c :: cs, ch, h => by
    simp only [Child.heightList]
    cases h with
    | head => exact Nat.le_max_left ..
    | tail _ h' => exact Nat.le_trans (height_le_heightList h') (Nat.le_max_right ..)

theorem le_foldr_max {α : Type} (f : α → Nat) : ∀ {l : List α} {a : α}, a ∈ l → f a ≤ (l.map f).foldr max 0
  | [], _, h => by cases h
  | b :: l, a, h => by
    simp only [List.map_cons, List.foldr_cons]
    cases h with
    | head => exact Nat.le_max_left ..
    | tail _ h' => exact Nat.le_trans (le_foldr_max f h') (Nat.le_max_right ..)

/-- A relation the lookup finds is a relation of a namespace of the configuration. -/
theorem astRelationFor_rel {c : Cfg} {ns rel : String} {R : Relation} (h : astRelationFor c ns rel = .rel R) :
    ∃ N, N ∈ c ∧ N.name = ns ∧ R ∈ N.relations ∧ R.name = rel := by
  unfold astRelationFor at h
  split at h
  · cases h
  · split at h
    · cases h
    · next N hN =>
      split at h
      · cases h
      · split at h
        · next r hr =>
          cases h
          have h1 := List.find?_some hN
          have h2 := List.find?_some hr
          simp only [beq_iff_eq] at h1 h2
          exact ⟨N, List.mem_of_find?_eq_some hN, h1, List.mem_of_find?_eq_some hr, h2⟩
        · cases h

theorem height_le_cfg {c : Cfg} {ns rel : String} {R : Relation} {rw : Rewrite}
    (hR : astRelationFor c ns rel = .rel R) (hrw : R.rewrite = some rw) : rw.height ≤ Cfg.height c := by
  obtain ⟨N, hN, _, hRN, _⟩ := astRelationFor_rel hR
  have h1 : R.height ≤ N.height := le_foldr_max Relation.height hRN
  have h2 : N.height ≤ Cfg.height c := le_foldr_max Namespace.height hN
  have h3 : R.height = rw.height := by
    unfold Relation.height
    rw [hrw]
  omega

/-- `Call.need` is closed under the calls `build` makes (when `H` bounds the configuration). -/
theorem need_closed (E : Env) (H : Nat) (hH : Cfg.height E.cfg ≤ H) :
    Closed E (NE .diverged) (fun n call => call.need H ≤ n) where
  zero := by
    intro call h
    have : 1 ≤ call.need H := by
      cases call with
      | isAllowed t d s => exact allowedFuel_pos H d
      | rewrite t rw d => simp only [Call.need]; omega
      | child t ch d inv =>
        have := allowedFuel_pos H (d - 1)
        simp only [Call.need]
        omega
      | invert t c d => simp only [Call.need]; omega
    omega
  bad := by
    intro _ _ _ _ _ _ _ h
    cases h
  isAllowed_rw := by
    intro n t d skip hok hd R rw hR hrw
    have h1 := height_le_cfg hR hrw
    have h2 := allowedFuel_step H d hd
    simp only [Rewrite.height, Child.height] at h1
    simp only [Call.need] at hok ⊢
    omega
  isAllowed_exp := by
    intro n t d skip hok hd n' o r _
    have h2 := allowedFuel_step H d hd
    simp only [Call.need] at hok ⊢
    omega
  rewrite_sc := by
    intro n t rw d hok _ r _
    simp only [Call.need] at hok ⊢
    omega
  rewrite_ch := by
    intro n t rw d hok _ ch hm
    have := height_le_heightList hm
    simp only [Call.need] at hok ⊢
    omega
  ttu := by
    intro n t rel crel d inv hok _ n' o r _
    simp only [Call.need, Child.height] at hok ⊢
    omega
  computed := by
    intro n t rel d inv hok _
    simp only [Call.need, Child.height] at hok ⊢
    omega
  crewrite := by
    intro n t op cs d inv hok
    have hm : allowedFuel H ((if inv then d else d - 1) - 1) ≤ allowedFuel H (d - 1) := by
      apply allowedFuel_mono
      split <;> omega
    simp only [Call.need, Child.height] at hok ⊢
    omega
  cinvert := by
    intro n t c d inv hok
    simp only [Call.need, Child.height] at hok ⊢
    omega
  invert := by
    intro n t c d hok _
    simp only [Call.need] at hok ⊢
    omega

/-- With `Call.need` fuel, neither the construction of a check nor any later run of the returned
    thunk (in any context and world) answers `diverged`. -/
theorem build_no_diverge (E : Env) (fuel : Nat) (call : Call) (ctx : Ctx) (w : World)
    (h : call.need (Cfg.height E.cfg) ≤ fuel) : TInv (NE .diverged) (build E fuel call ctx w).1 :=
  build_inv (NE.ok (by decide)) E (need_closed E _ (Nat.le_refl _)) fuel call ctx w h

theorem check_no_diverge (E : Env) (g : Int) (fuel : Nat) (q : Tuple) (r : Int)
    (h : fuel ≥ checkFuel E.cfg (effDepth r g)) : (check E g fuel q r).1.err ≠ some .diverged :=
  build_no_diverge E fuel (.isAllowed q (effDepth r g) false) {} {} h {} _

/-! ### more fuel changes nothing -/

theorem buildChildren_congr {f g : Child → Ctx → World → Thunk × World} (isAnd : Bool) :
    ∀ (cs : List Child), (∀ ch, ch ∈ cs → ∀ c w, f ch c w = g ch c w) →
      ∀ c w, buildChildren f isAnd cs c w = buildChildren g isAnd cs c w
  | [], _, _, _ => rfl
  | ch :: cs, h, c, w => by
    simp only [buildChildren]
    rw [h ch (List.mem_cons_self ..)]
    rw [buildChildren_congr isAnd cs (fun ch' hc' => h ch' (List.mem_cons_of_mem _ hc'))]

theorem build_succ_eq (E : Env) (H : Nat) (hH : Cfg.height E.cfg ≤ H) :
    ∀ (n : Nat) (call : Call), call.need H ≤ n → ∀ ctx w, build E (n+1) call ctx w = build E n call ctx w := by
  have hC := need_closed E H hH
  intro n
  induction n with
  | zero =>
    intro call h
    have := hC.zero call h
    exact absurd rfl this
  | succ m ih =>
    intro call hok ctx w
    cases call with
    | isAllowed t d skip =>
      conv => lhs; rw [build]
      conv => rhs; rw [build]
      split
      · rfl
      · next hd =>
        have e1 : ∀ t' c w', build E (m+1) (.isAllowed t' (d - 1) true) c w' = build E m (.isAllowed t' (d - 1) true) c w' := by
          intro t' c w'
          refine ih _ ?_ c w'
          have h2 := allowedFuel_step H d hd
          simp only [Call.need] at hok ⊢
          omega
        cases hlk : astRelationFor E.cfg t.ns t.rel with
        | bad => rfl
        | none =>
          simp only [e1, Option.bind]
        | rel R =>
          cases hrw : R.rewrite with
          | none => simp only [e1, Option.bind, hrw]
          | some rw =>
            have e2 : build E (m+1) (.rewrite t rw d) ctx w = build E m (.rewrite t rw d) ctx w :=
              ih _ (hC.isAllowed_rw _ t d skip hok hd R rw hlk hrw) ctx w
            simp only [e1, e2, Option.bind, hrw]
    | rewrite t rw d =>
      conv => lhs; rw [build]
      conv => rhs; rw [build]
      split
      · rfl
      · next hd =>
        have e1 : ∀ r c w', build E (m+1) (.isAllowed { t with rel := r } (d - 1) true) c w'
            = build E m (.isAllowed { t with rel := r } (d - 1) true) c w' := by
          intro r c w'
          refine ih _ ?_ c w'
          simp only [Call.need] at hok ⊢
          omega
        have ech := buildChildren_congr
          (f := fun ch c w' => build E (m+1) (.child t ch d false) c w')
          (g := fun ch c w' => build E m (.child t ch d false) c w') (rw.op == .and)
          (if (rw.op == .or) = true then rw.children.filter (fun c => !c.isComputed) else rw.children)
          (fun ch hm c w' => ih _ (hC.rewrite_ch _ t rw d hok hd ch (mem_rest hm)) c w') ctx w
        simp only [e1]
        rw [ech]
    | child t ch d inv =>
      cases ch with
      | ttu rel crel =>
        conv => lhs; rw [build]
        conv => rhs; rw [build]
        dsimp only
        split
        · rfl
        · next hd =>
          have e1 : ∀ s c w', build E (m+1) (.isAllowed s (d - 1) false) c w'
              = build E m (.isAllowed s (d - 1) false) c w' := by
            intro s c w'
            refine ih _ ?_ c w'
            simp only [Call.need, Child.height] at hok ⊢
            omega
          simp only [e1]
      | computed rel =>
        conv => lhs; rw [build]
        conv => rhs; rw [build]
        split
        · rfl
        · next hd => exact ih _ (hC.computed _ t rel d inv hok hd) ctx w
      | rewrite op cs =>
        conv => lhs; rw [build]
        conv => rhs; rw [build]
        exact ih _ (hC.crewrite _ t op cs d inv hok) ctx w
      | invert c =>
        conv => lhs; rw [build]
        conv => rhs; rw [build]
        exact ih _ (hC.cinvert _ t c d inv hok) ctx w
    | invert t c d =>
      conv => lhs; rw [build]
      conv => rhs; rw [build]
      split
      · rfl
      · next hd =>
        have e1 : ∀ c' w', build E (m+1) (.child t c d true) c' w' = build E m (.child t c d true) c' w' :=
          fun c' w' => ih _ (hC.invert _ t c d hok hd) c' w'
        simp only [e1]

theorem build_add_eq (E : Env) (n : Nat) (call : Call) (h : call.need (Cfg.height E.cfg) ≤ n) (ctx : Ctx) (w : World) :
    ∀ k, build E (n + k) call ctx w = build E n call ctx w
  | 0 => rfl
  | k+1 => by
    rw [← Nat.add_assoc, build_succ_eq E _ (Nat.le_refl _) (n + k) call (by omega), build_add_eq E n call h ctx w k]

/-- Fuel is an artefact: any two amounts of fuel `≥ Call.need` give the same thunk and world. -/
theorem build_fuel_irrelevant (E : Env) (fuel₁ fuel₂ : Nat) (call : Call)
    (h₁ : call.need (Cfg.height E.cfg) ≤ fuel₁) (h₂ : call.need (Cfg.height E.cfg) ≤ fuel₂) :
    build E fuel₁ call = build E fuel₂ call := by
  funext ctx w
  have e₁ := build_add_eq E _ call (Nat.le_refl _) ctx w (fuel₁ - call.need (Cfg.height E.cfg))
  have e₂ := build_add_eq E _ call (Nat.le_refl _) ctx w (fuel₂ - call.need (Cfg.height E.cfg))
  rw [Nat.add_sub_cancel' h₁] at e₁
  rw [Nat.add_sub_cancel' h₂] at e₂
  rw [e₁, e₂]

theorem check_fuel_irrelevant (E : Env) (g : Int) (fuel₁ fuel₂ : Nat) (q : Tuple) (r : Int)
    (h₁ : fuel₁ ≥ checkFuel E.cfg (effDepth r g)) (h₂ : fuel₂ ≥ checkFuel E.cfg (effDepth r g)) :
    check E g fuel₁ q r = check E g fuel₂ q r := by
  unfold check
  rw [build_fuel_irrelevant E fuel₁ fuel₂ (.isAllowed q (effDepth r g) false) h₁ h₂]

end Keto
