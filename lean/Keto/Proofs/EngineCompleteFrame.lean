/-
  Completeness of the engine model, part 2: storage queries (converse directions of the lemmas of
  EngineSound), the heap of visited sets (`vis`, `Valid`, `Frame`; `fresh`, `initVisited`,
  `checkAndAdd`), groups, and the state-dependent outcome predicate `RunOK`.

  Helper lemmas only; the property theorems live in Keto/Props/C01complete.lean.
-/
import Keto.Model.Engine
import Keto.Proofs.EngineSound
import Keto.Proofs.EngineCompleteLogic

namespace Keto

/-! ### storage queries -/

theorem subjectSetsOf_of_mem {T : List Tuple} {ns : String} {obj : Nat} {rel : String} {n : String} {o : Nat}
    {r : String} (h : (⟨ns, obj, rel, .set n o r⟩ : Tuple) ∈ T) : (n, o, r) ∈ subjectSetsOf T ns obj rel := by
  unfold subjectSetsOf
  rw [List.mem_filterMap]
  exact ⟨_, h, by simp⟩

theorem rowsOf_of_mem {T : List Tuple} {ns : String} {obj : Nat} {rel : String} {t : Tuple}
    (h : t ∈ T) (h1 : t.ns = ns) (h2 : t.obj = obj) (h3 : t.rel = rel) : t ∈ rowsOf T ns obj rel := by
  unfold rowsOf
  rw [List.mem_filter]
  exact ⟨h, by simp [h1, h2, h3]⟩

/-- Every row is on some page (whatever the fuel: the last page takes the rest). -/
theorem pagesOf_cover (ps : Nat) : ∀ (fuel : Nat) (rows : List Tuple) (t : Tuple), t ∈ rows →
    ∃ p, p ∈ pagesOf ps fuel rows ∧ t ∈ p
  | 0, rows, t, ht => ⟨rows, by simp [pagesOf], ht⟩
  | fuel+1, rows, t, ht => by
    simp only [pagesOf]
    split
    · exact ⟨rows, by simp, ht⟩
    · rw [← List.take_append_drop ps rows, List.mem_append] at ht
      cases ht with
      | inl h => exact ⟨_, List.mem_cons_self .., h⟩
      | inr h =>
        obtain ⟨p, hp, htp⟩ := pagesOf_cover ps fuel _ t h
        exact ⟨p, List.mem_cons_of_mem _ hp, htp⟩

theorem computedRels_of_mem : ∀ {cs : List Child} {r : String}, Child.computed r ∈ cs → r ∈ computedRels cs
  | [], _, h => by cases h
  | .computed r' :: cs, r, h => by
    simp only [computedRels]
    cases h with
    | head => exact List.mem_cons_self ..
    | tail _ h' => exact List.mem_cons_of_mem _ (computedRels_of_mem h')
  | .ttu _ _ :: cs, r, h => by
    simp only [computedRels]
    cases h with
    | tail _ h' => exact computedRels_of_mem h'
  | .rewrite _ _ :: cs, r, h => by
    simp only [computedRels]
    cases h with
    | tail _ h' => exact computedRels_of_mem h'
  | .invert _ :: cs, r, h => by
    simp only [computedRels]
    cases h with
    | tail _ h' => exact computedRels_of_mem h'

/-! ### groups -/

/-- A group only ever holds a decisive result. -/
def GDec (g : Option Res) : Prop := ∀ x, g = some x → x.decisive = true

theorem GDec.none : GDec none := fun _ h => by cases h

theorem GDec.gAdd {g : Option Res} (r : Res) (h : GDec g) : GDec (gAdd g r) := by
  unfold Keto.gAdd
  cases g with
  | some x => exact h
  | none =>
    simp only
    split
    · next hd => intro x hx; cases hx; exact hd
    · exact GDec.none

theorem gAdd_eq_none {g : Option Res} {r : Res} (h : gAdd g r = none) : g = none ∧ r.decisive = false := by
  unfold gAdd at h
  cases g with
  | some x => cases h
  | none =>
    simp only at h
    split at h
    · cases h
    · next hd => exact ⟨rfl, by simpa using hd⟩

theorem gResult_nondec {g : Option Res} (hg : GDec g) (h : (gResult g).decisive = false) : g = none := by
  cases g with
  | none => rfl
  | some x =>
    have := hg x rfl
    simp only [gResult, Option.getD] at h
    rw [this] at h
    cases h

theorem decisive_error (k : ErrKind) : (Res.error k).decisive = true := rfl
theorem decisive_isM : Res.isM.decisive = true := rfl

/-! ### the heap of visited sets -/

/-- The visited set the context refers to (empty if it has not been created yet). -/
def vis (ctx : Ctx) (w : World) : List VKey :=
  match ctx.vref with
  | none => []
  | some r => w.heap.getD r []

/-- The context's reference points into the heap. -/
def Valid (ctx : Ctx) (w : World) : Prop := ∀ r, ctx.vref = some r → r < w.heap.length

/-- From `w` to `w'`: limit events and the heap only grow; every cell that exists in `w`, except
    the cell `o`, is unchanged. -/
structure Frame (o : Option Nat) (w w' : World) : Prop where
  lim : w.limitHits ≤ w'.limitHits
  len : w.heap.length ≤ w'.heap.length
  keep : ∀ i, i < w.heap.length → o ≠ some i → w'.heap[i]? = w.heap[i]?

theorem Frame.refl (o : Option Nat) (w : World) : Frame o w w :=
  ⟨Nat.le_refl _, Nat.le_refl _, fun _ _ _ => rfl⟩

theorem Frame.of_heap_eq {o : Option Nat} {w w' : World} (hh : w'.heap = w.heap)
    (hl : w.limitHits ≤ w'.limitHits) : Frame o w w' :=
  ⟨hl, by rw [hh]; exact Nat.le_refl _, fun _ _ _ => by rw [hh]⟩

theorem Frame.trans {o : Option Nat} {w w1 w2 : World} (h1 : Frame o w w1) (h2 : Frame o w1 w2) :
    Frame o w w2 :=
  ⟨Nat.le_trans h1.lim h2.lim, Nat.le_trans h1.len h2.len,
    fun i hi ho => by rw [h2.keep i (Nat.lt_of_lt_of_le hi h1.len) ho, h1.keep i hi ho]⟩

theorem Frame.weaken {o : Option Nat} {w w' : World} (h : Frame none w w') : Frame o w w' :=
  ⟨h.lim, h.len, fun i hi _ => h.keep i hi (by intro e; cases e)⟩

/-- A step that only touches a cell created after `w`. -/
theorem Frame.trans_new {o : Option Nat} {w w1 w2 : World} {j : Nat} (h1 : Frame o w w1)
    (h2 : Frame (some j) w1 w2) (hj : w.heap.length ≤ j) : Frame o w w2 :=
  ⟨Nat.le_trans h1.lim h2.lim, Nat.le_trans h1.len h2.len,
    fun i hi ho => by
      rw [h2.keep i (Nat.lt_of_lt_of_le hi h1.len) (by intro e; cases e; omega), h1.keep i hi ho]⟩

theorem Frame.trans_none {o : Option Nat} {w w1 w2 : World} (h1 : Frame o w w1) (h2 : Frame none w1 w2) :
    Frame o w w2 :=
  h1.trans h2.weaken

theorem Valid.frame {c : Ctx} {o : Option Nat} {w w' : World} (hv : Valid c w) (h : Frame o w w') : Valid c w' :=
  fun r hr => Nat.lt_of_lt_of_le (hv r hr) h.len

theorem Valid.of_none {c : Ctx} {w : World} (h : c.vref = none) : Valid c w :=
  fun r hr => by rw [h] at hr; cases hr

theorem vis_of_none {c : Ctx} {w : World} (h : c.vref = none) : vis c w = [] := by
  unfold vis; rw [h]

/-- The visited set of a context other than the one that is being worked on does not change. -/
theorem vis_frame {c : Ctx} {o : Option Nat} {w w' : World} (h : Frame o w w') (hv : Valid c w)
    (hne : o ≠ c.vref ∨ o = none) : vis c w' = vis c w := by
  unfold vis
  cases hc : c.vref with
  | none => rfl
  | some r =>
    simp only [List.getD_eq_getElem?_getD]
    rw [h.keep r (hv r hc)]
    intro e
    cases hne with
    | inl h' => exact h' (by rw [hc, e])
    | inr h' => rw [h'] at e; cases e

theorem vis_heap_eq {c : Ctx} {w w' : World} (hh : w'.heap = w.heap) : vis c w' = vis c w := by
  unfold vis; rw [hh]

/-! `World.lim`, `World.call` -/

@[simp] theorem World.lim_heap (w : World) : w.lim.heap = w.heap := rfl
@[simp] theorem World.lim_limitHits (w : World) : w.lim.limitHits = w.limitHits + 1 := rfl
@[simp] theorem World.call_heap (E : Env) (w : World) : (w.call E).2.heap = w.heap := rfl
@[simp] theorem World.call_limitHits (E : Env) (w : World) : (w.call E).2.limitHits = w.limitHits := rfl

theorem Frame.ofLim (o : Option Nat) (w : World) : Frame o w w.lim :=
  Frame.of_heap_eq rfl (Nat.le_succ _)

theorem Frame.ofCall (o : Option Nat) (E : Env) (w : World) : Frame o w (w.call E).2 :=
  Frame.of_heap_eq rfl (Nat.le_refl _)

/-! `fresh`, `initVisited`, `checkAndAdd` -/

theorem fresh_vref (w : World) : (fresh w).1.vref = some w.heap.length := rfl

theorem fresh_frame (w : World) : Frame none w (fresh w).2 where
  lim := Nat.le_refl _
  len := by simp [fresh]
  keep := fun i hi _ => by
    show (w.heap ++ [[]])[i]? = _
    rw [List.getElem?_append_left hi]

theorem fresh_valid (w : World) : Valid (fresh w).1 (fresh w).2 := by
  intro r hr
  rw [fresh_vref] at hr
  cases hr
  simp [fresh]

theorem fresh_vis (w : World) : vis (fresh w).1 (fresh w).2 = [] := by
  unfold vis
  rw [fresh_vref]
  simp [fresh, List.getD_eq_getElem?_getD]

@[simp] theorem fresh_limitHits (w : World) : (fresh w).2.limitHits = w.limitHits := rfl

/-- What `initVisited` gives: a context with a reference; either the old one, or a fresh empty
    cell (and then the old context had none). -/
theorem initVisited_spec (c : Ctx) (w : World) (hv : Valid c w) :
    let cw := initVisited c w
    (∃ r, cw.1.vref = some r) ∧ Valid cw.1 cw.2 ∧ Frame none w cw.2 ∧ cw.2.limitHits = w.limitHits ∧
    vis cw.1 cw.2 = vis c w ∧
    ((cw.1 = c ∧ cw.2 = w) ∨ (c.vref = none ∧ cw.1.vref = some w.heap.length)) := by
  unfold initVisited
  cases hc : c.vref with
  | some r =>
    exact ⟨⟨r, hc⟩, hv, Frame.refl _ _, rfl, rfl, Or.inl ⟨rfl, rfl⟩⟩
  | none =>
    refine ⟨⟨_, fresh_vref w⟩, fresh_valid w, fresh_frame w, rfl, ?_, Or.inr ⟨rfl, fresh_vref w⟩⟩
    rw [fresh_vis, vis_of_none hc]

theorem checkAndAdd_spec (c : Ctx) (s : VKey) (w : World) (r : Nat) (hc : c.vref = some r)
    (hr : r < w.heap.length) :
    let vw := checkAndAdd c s w
    (vw.1 = true → s ∈ vis c w ∧ vw.2 = w) ∧
    (vw.1 = false → s ∉ vis c w ∧ vis c vw.2 = s :: vis c w ∧ Frame (some r) w vw.2 ∧
      vw.2.limitHits = w.limitHits) := by
  unfold checkAndAdd
  have hvis : vis c w = w.heap.getD r [] := by unfold vis; rw [hc]
  simp only [hc, Option.getD_some]
  split
  · next hcont =>
    refine ⟨fun _ => ⟨?_, rfl⟩, fun h => Bool.noConfusion h⟩
    rw [hvis]
    simpa using hcont
  · next hcont =>
    refine ⟨fun h => Bool.noConfusion h, fun _ => ⟨?_, ?_, ?_, rfl⟩⟩
    · rw [hvis]
      simpa using hcont
    · unfold vis
      rw [hc]
      simp only [List.getD_eq_getElem?_getD, List.getElem?_set_self hr, Option.getD_some]
    · refine ⟨Nat.le_refl _, by simp, fun i _ hne => ?_⟩
      show (w.heap.set r _)[i]? = _
      rw [List.getElem?_set_ne]
      intro e
      exact hne (by rw [e])

/-! ### outcomes -/

/-- What a run at `(c, w)` with outcome `out` establishes for the visited set of `c`, when `P V`
    says "the claim of the call is derivable avoiding `V`": if the result is not decisive and no
    limit event has happened (up to now), the new marks are dead and the claim is not derivable. -/
structure RunOK (E : Env) (sub : Subject) (P : List VKey → Prop) (c : Ctx) (w : World) (out : Res × World) :
    Prop where
  frame : Frame c.vref w out.2
  neg : out.1.decisive = false → out.2.limitHits = 0 →
    Ext E.cfg E.T sub (vis c w) (vis c out.2) ∧ ¬ P (vis c w)

/-- `P` is stable under extension of the avoided set by dead nodes. -/
def PExt (E : Env) (sub : Subject) (P : List VKey → Prop) : Prop :=
  ∀ V0 V1, Ext E.cfg E.T sub V0 V1 → P V0 → P V1

/-- A decisive outcome (or any outcome with a limit event) only needs the frame. -/
theorem RunOK.of_decisive {E : Env} {sub : Subject} {P : List VKey → Prop} {c : Ctx} {w : World}
    {out : Res × World} (hf : Frame c.vref w out.2) (hd : out.1.decisive = true) : RunOK E sub P c w out :=
  ⟨hf, fun h => by rw [hd] at h; cases h⟩

theorem RunOK.of_lim {E : Env} {sub : Subject} {P : List VKey → Prop} {c : Ctx} {w : World}
    {out : Res × World} (hf : Frame c.vref w out.2) (hl : out.2.limitHits ≠ 0) : RunOK E sub P c w out :=
  ⟨hf, fun _ h => absurd h hl⟩

/-- A thunk built when `lh` limit events had happened: whenever it is run later. -/
def ThunkOK (E : Env) (sub : Subject) (P : List VKey → Prop) (lh : Nat) (th : Thunk) : Prop :=
  ∀ c w, Valid c w → lh ≤ w.limitHits → RunOK E sub P c w (th c w)

theorem ThunkOK.mono {E : Env} {sub : Subject} {P : List VKey → Prop} {lh lh' : Nat} {th : Thunk}
    (h : ThunkOK E sub P lh th) (hl : lh ≤ lh') : ThunkOK E sub P lh' th :=
  fun c w hv hw => h c w hv (Nat.le_trans hl hw)

/-- A thunk that runs in its own scope (operand of `and`): nothing existing is touched and a
    non-decisive result refutes the claim outright. -/
def ThunkOK0 (P : Prop) (lh : Nat) (th : Thunk) : Prop :=
  ∀ c w, lh ≤ w.limitHits →
    Frame none w (th c w).2 ∧ ((th c w).1.decisive = false → (th c w).2.limitHits = 0 → ¬ P)

theorem ThunkOK0.mono {P : Prop} {lh lh' : Nat} {th : Thunk}
    (h : ThunkOK0 P lh th) (hl : lh ≤ lh') : ThunkOK0 P lh' th :=
  fun c w hw => h c w (Nat.le_trans hl hw)

/-- Running a thunk in a fresh scope. -/
theorem ThunkOK.withFresh {E : Env} {sub : Subject} {P : List VKey → Prop} {lh : Nat} {th : Thunk}
    (h : ThunkOK E sub P lh th) : ThunkOK0 (P []) lh (withFresh th) := by
  intro c w hw
  have hr := h (fresh w).1 (fresh w).2 (fresh_valid w) hw
  constructor
  · show Frame none w (th (fresh w).1 (fresh w).2).2
    have := hr.frame
    rw [fresh_vref] at this
    exact (fresh_frame w).trans_new this (Nat.le_refl _)
  · intro hd hl
    have := (hr.neg hd hl).2
    rw [fresh_vis] at this
    exact this

end Keto
