/-
  Completeness of the engine model, part 1: pure logic (no engine).

  `MemN V k t` / `HoldsN V k ch t`: membership with a derivation of height `≤ k` whose
  subject-set expansions avoid the nodes in `V` ("derivable without going through a node that is
  already marked visited").  `Mem c T t ↔ ∃ k, MemN c T [] k t`.

  * `memN_no_revisit` ("no need to revisit"): a derivation of membership in node `s` can be chosen
    so that it does not expand through `s` again.
  * `Ext sub V0 V1`: `V1` extends `V0` by nodes that are dead w.r.t. `V0` (not derivable avoiding
    `V0`, for the fixed subject `sub`); dead nodes can be avoided (`MemN.avoid`), so `Ext` is
    transitive and derivability avoiding `V0` / avoiding `V1` coincide.

  Helper lemmas only; the property theorems live in Keto/Props/C01complete.lean.
-/
import Keto.Model.Engine
import Keto.Spec.Membership

namespace Keto

mutual
inductive MemN (c : Cfg) (T : List Tuple) (V : List VKey) : Nat → Tuple → Prop where
  | direct (k : Nat) (t : Tuple) : t ∈ T → MemN c T V (k+1) t
  | expand (k : Nat) (t : Tuple) (n : String) (o : Nat) (r : String) :
      ⟨t.ns, t.obj, t.rel, .set n o r⟩ ∈ T → (n, o, r) ∉ V → MemN c T V k ⟨n, o, r, t.sub⟩ →
      MemN c T V (k+1) t
  | rewrite (k : Nat) (t : Tuple) (R : Relation) (rw : Rewrite) :
      astRelationFor c t.ns t.rel = .rel R → R.rewrite = some rw →
      HoldsN c T V k (.rewrite rw.op rw.children) t → MemN c T V (k+1) t
inductive HoldsN (c : Cfg) (T : List Tuple) (V : List VKey) : Nat → Child → Tuple → Prop where
  | computed (k : Nat) (t : Tuple) (rel : String) :
      MemN c T V k { t with rel := rel } → HoldsN c T V (k+1) (.computed rel) t
  | ttu (k : Nat) (t : Tuple) (rel crel : String) (n : String) (o : Nat) (r : String) :
      ⟨t.ns, t.obj, rel, .set n o r⟩ ∈ T → MemN c T V k ⟨n, o, crel, t.sub⟩ →
      HoldsN c T V (k+1) (.ttu rel crel) t
  | or (k : Nat) (t : Tuple) (cs : List Child) (ch : Child) :
      ch ∈ cs → HoldsN c T V k ch t → HoldsN c T V (k+1) (.rewrite .or cs) t
  | and (k : Nat) (t : Tuple) (cs : List Child) :
      cs ≠ [] → (∀ ch, ch ∈ cs → HoldsN c T V k ch t) → HoldsN c T V (k+1) (.rewrite .and cs) t
end

variable {c : Cfg} {T : List Tuple}

/-! ### monotonicity in the height -/

theorem memN_holdsN_succ (V : List VKey) : ∀ k,
    (∀ t, MemN c T V k t → MemN c T V (k+1) t) ∧
    (∀ ch t, HoldsN c T V k ch t → HoldsN c T V (k+1) ch t) := by
  intro k
  induction k with
  | zero =>
    constructor
    · intro t h; cases h
    · intro ch t h; cases h
  | succ k ih =>
    constructor
    · intro t h
      cases h with
      | direct _ _ hm => exact .direct _ _ hm
      | expand _ _ n o r h1 h2 h3 => exact .expand _ _ n o r h1 h2 (ih.1 _ h3)
      | rewrite _ _ R rw h1 h2 h3 => exact .rewrite _ _ R rw h1 h2 (ih.2 _ _ h3)
    · intro ch t h
      cases h with
      | computed _ _ rel h1 => exact .computed _ _ rel (ih.1 _ h1)
      | ttu _ _ rel crel n o r h1 h2 => exact .ttu _ _ rel crel n o r h1 (ih.1 _ h2)
      | or _ _ cs ch hm h1 => exact .or _ _ cs ch hm (ih.2 _ _ h1)
      | and _ _ cs hne hall => exact .and _ _ cs hne (fun ch hm => ih.2 _ _ (hall ch hm))

theorem MemN.mono_k {V : List VKey} {k k' : Nat} {t : Tuple} (h : MemN c T V k t) (hk : k ≤ k') :
    MemN c T V k' t := by
  induction hk with
  | refl => exact h
  | step _ ih => exact (memN_holdsN_succ V _).1 _ ih

theorem HoldsN.mono_k {V : List VKey} {k k' : Nat} {ch : Child} {t : Tuple} (h : HoldsN c T V k ch t)
    (hk : k ≤ k') : HoldsN c T V k' ch t := by
  induction hk with
  | refl => exact h
  | step _ ih => exact (memN_holdsN_succ V _).2 _ _ ih

/-! ### changing the avoided set -/

/-- A derivation avoiding `V` also avoids `V'` if no node of `V'` outside `V` is derivable
    avoiding `V` (for the subject of the tuple). -/
theorem memN_holdsN_avoid (V V' : List VKey) (sub : Subject)
    (hdead : ∀ s, s ∈ V' → s ∈ V ∨ ∀ k, ¬ MemN c T V k ⟨s.1, s.2.1, s.2.2, sub⟩) : ∀ k,
    (∀ t, t.sub = sub → MemN c T V k t → MemN c T V' k t) ∧
    (∀ ch t, t.sub = sub → HoldsN c T V k ch t → HoldsN c T V' k ch t) := by
  intro k
  induction k with
  | zero =>
    constructor
    · intro t _ h; cases h
    · intro ch t _ h; cases h
  | succ k ih =>
    constructor
    · intro t hsub h
      cases h with
      | direct _ _ hm => exact .direct _ _ hm
      | expand _ _ n o r h1 h2 h3 =>
        refine .expand _ _ n o r h1 ?_ (ih.1 _ hsub h3)
        intro hin
        cases hdead _ hin with
        | inl h => exact h2 h
        | inr h => exact h k (by rw [← hsub]; exact h3)
      | rewrite _ _ R rw h1 h2 h3 => exact .rewrite _ _ R rw h1 h2 (ih.2 _ _ hsub h3)
    · intro ch t hsub h
      cases h with
      | computed _ _ rel h1 => exact .computed _ _ rel (ih.1 _ hsub h1)
      | ttu _ _ rel crel n o r h1 h2 => exact .ttu _ _ rel crel n o r h1 (ih.1 _ hsub h2)
      | or _ _ cs ch hm h1 => exact .or _ _ cs ch hm (ih.2 _ _ hsub h1)
      | and _ _ cs hne hall => exact .and _ _ cs hne (fun ch hm => ih.2 _ _ hsub (hall ch hm))

/-- Avoiding fewer nodes is easier. -/
theorem MemN.mono_V {V V' : List VKey} {k : Nat} {t : Tuple} (hV : ∀ s, s ∈ V' → s ∈ V)
    (h : MemN c T V k t) : MemN c T V' k t :=
  (memN_holdsN_avoid V V' t.sub (fun s hs => Or.inl (hV s hs)) k).1 t rfl h

theorem HoldsN.mono_V {V V' : List VKey} {k : Nat} {ch : Child} {t : Tuple} (hV : ∀ s, s ∈ V' → s ∈ V)
    (h : HoldsN c T V k ch t) : HoldsN c T V' k ch t :=
  (memN_holdsN_avoid V V' t.sub (fun s hs => Or.inl (hV s hs)) k).2 ch t rfl h

theorem MemN.to_nil {V : List VKey} {k : Nat} {t : Tuple} (h : MemN c T V k t) : MemN c T [] k t :=
  h.mono_V (fun _ hs => by cases hs)

theorem HoldsN.to_nil {V : List VKey} {k : Nat} {ch : Child} {t : Tuple} (h : HoldsN c T V k ch t) :
    HoldsN c T [] k ch t :=
  h.mono_V (fun _ hs => by cases hs)

/-! ### no need to revisit -/

/-- Either the derivation does not expand through `s`, or it contains a strictly lower derivation
    of membership in `s`. -/
theorem memN_holdsN_split (V : List VKey) (s : VKey) (sub : Subject) : ∀ k,
    (∀ t, t.sub = sub → MemN c T V k t →
      MemN c T (s :: V) k t ∨ ∃ j, j < k ∧ MemN c T V j ⟨s.1, s.2.1, s.2.2, sub⟩) ∧
    (∀ ch t, t.sub = sub → HoldsN c T V k ch t →
      HoldsN c T (s :: V) k ch t ∨ ∃ j, j < k ∧ MemN c T V j ⟨s.1, s.2.1, s.2.2, sub⟩) := by
  intro k
  induction k with
  | zero =>
    constructor
    · intro t _ h; cases h
    · intro ch t _ h; cases h
  | succ k ih =>
    have lift : (∃ j, j < k ∧ MemN c T V j ⟨s.1, s.2.1, s.2.2, sub⟩) →
        ∃ j, j < k + 1 ∧ MemN c T V j ⟨s.1, s.2.1, s.2.2, sub⟩ :=
      fun ⟨j, hj, hm⟩ => ⟨j, Nat.lt_succ_of_lt hj, hm⟩
    constructor
    · intro t hsub h
      cases h with
      | direct _ _ hm => exact Or.inl (.direct _ _ hm)
      | expand _ _ n o r h1 h2 h3 =>
        by_cases hs : (n, o, r) = s
        · right
          refine ⟨k, Nat.lt_succ_self k, ?_⟩
          rw [← hs, ← hsub]
          exact h3
        · cases ih.1 ⟨n, o, r, t.sub⟩ hsub h3 with
          | inl h =>
            left
            refine .expand _ _ n o r h1 ?_ h
            intro hin
            cases hin with
            | head => exact hs rfl
            | tail _ hin' => exact h2 hin'
          | inr h => exact Or.inr (lift h)
      | rewrite _ _ R rw h1 h2 h3 =>
        cases ih.2 _ _ hsub h3 with
        | inl h => exact Or.inl (.rewrite _ _ R rw h1 h2 h)
        | inr h => exact Or.inr (lift h)
    · intro ch t hsub h
      cases h with
      | computed _ _ rel h1 =>
        cases ih.1 { t with rel := rel } hsub h1 with
        | inl h => exact Or.inl (.computed _ _ rel h)
        | inr h => exact Or.inr (lift h)
      | ttu _ _ rel crel n o r h1 h2 =>
        cases ih.1 ⟨n, o, crel, t.sub⟩ hsub h2 with
        | inl h => exact Or.inl (.ttu _ _ rel crel n o r h1 h)
        | inr h => exact Or.inr (lift h)
      | or _ _ cs ch hm h1 =>
        cases ih.2 _ _ hsub h1 with
        | inl h => exact Or.inl (.or _ _ cs ch hm h)
        | inr h => exact Or.inr (lift h)
      | and _ _ cs hne hall =>
        by_cases hex : ∃ j, j < k ∧ MemN c T V j ⟨s.1, s.2.1, s.2.2, sub⟩
        · exact Or.inr (lift hex)
        · left
          refine .and _ _ cs hne (fun ch hm => ?_)
          cases ih.2 _ _ hsub (hall ch hm) with
          | inl h => exact h
          | inr h => exact absurd h hex

/-- "No need to revisit": membership in node `s` avoiding `V` is derivable without expanding
    through `s` itself (with a derivation that is not higher). -/
theorem memN_no_revisit (V : List VKey) (s : VKey) (sub : Subject) : ∀ k,
    MemN c T V k ⟨s.1, s.2.1, s.2.2, sub⟩ → MemN c T (s :: V) k ⟨s.1, s.2.1, s.2.2, sub⟩ := by
  intro k
  induction k using Nat.strongRecOn with
  | _ k ih =>
    intro h
    cases (memN_holdsN_split V s sub k).1 _ rfl h with
    | inl h' => exact h'
    | inr h' =>
      obtain ⟨j, hj, hm⟩ := h'
      exact (ih j hj hm).mono_k (Nat.le_of_lt hj)

/-! ### dead nodes, extension of the avoided set -/

/-- Node `s` (for subject `sub`) is not derivable avoiding `V`. -/
def DeadK (c : Cfg) (T : List Tuple) (sub : Subject) (V : List VKey) (s : VKey) : Prop :=
  ∀ k, ¬ MemN c T V k ⟨s.1, s.2.1, s.2.2, sub⟩

/-- `V1` extends `V0` by nodes that are dead w.r.t. `V0`. -/
structure Ext (c : Cfg) (T : List Tuple) (sub : Subject) (V0 V1 : List VKey) : Prop where
  subset : ∀ s, s ∈ V0 → s ∈ V1
  dead : ∀ s, s ∈ V1 → s ∈ V0 ∨ DeadK c T sub V0 s

theorem Ext.refl (sub : Subject) (V : List VKey) : Ext c T sub V V :=
  ⟨fun _ h => h, fun _ h => Or.inl h⟩

theorem Ext.memN {sub : Subject} {V0 V1 : List VKey} (h : Ext c T sub V0 V1) {k : Nat} {t : Tuple}
    (hsub : t.sub = sub) (hm : MemN c T V0 k t) : MemN c T V1 k t :=
  (memN_holdsN_avoid V0 V1 sub h.dead k).1 t hsub hm

theorem Ext.holdsN {sub : Subject} {V0 V1 : List VKey} (h : Ext c T sub V0 V1) {k : Nat} {ch : Child}
    {t : Tuple} (hsub : t.sub = sub) (hm : HoldsN c T V0 k ch t) : HoldsN c T V1 k ch t :=
  (memN_holdsN_avoid V0 V1 sub h.dead k).2 ch t hsub hm

theorem Ext.deadK {sub : Subject} {V0 V1 : List VKey} (h : Ext c T sub V0 V1) {s : VKey}
    (hd : DeadK c T sub V1 s) : DeadK c T sub V0 s :=
  fun k hm => hd k (h.memN rfl hm)

theorem Ext.trans {sub : Subject} {V0 V1 V2 : List VKey} (h1 : Ext c T sub V0 V1) (h2 : Ext c T sub V1 V2) :
    Ext c T sub V0 V2 where
  subset := fun s hs => h2.subset s (h1.subset s hs)
  dead := fun s hs =>
    match h2.dead s hs with
    | .inl h => h1.dead s h
    | .inr h => .inr (h1.deadK h)

/-- Marking a node that turns out to be dead. -/
theorem Ext.cons {sub : Subject} {V : List VKey} {s : VKey} (hd : DeadK c T sub V s) :
    Ext c T sub V (s :: V) where
  subset := fun _ h => List.mem_cons_of_mem _ h
  dead := fun s' hs' => by
    cases hs' with
    | head => exact .inr hd
    | tail _ h => exact .inl h

/-- What the visited-set DFS establishes for a node it marked and then found not to be a member. -/
theorem DeadK.of_marked {sub : Subject} {V : List VKey} {s : VKey} (hd : DeadK c T sub (s :: V) s) :
    DeadK c T sub V s :=
  fun k hm => hd k (memN_no_revisit V s sub k hm)

/-! ### equivalence with `Mem` -/

theorem mem_holds_of_N : ∀ k,
    (∀ t, MemN c T [] k t → Mem c T t) ∧ (∀ ch t, HoldsN c T [] k ch t → Holds c T ch t) := by
  intro k
  induction k with
  | zero =>
    constructor
    · intro t h; cases h
    · intro ch t h; cases h
  | succ k ih =>
    constructor
    · intro t h
      cases h with
      | direct _ _ hm => exact .direct _ hm
      | expand _ _ n o r h1 _ h3 => exact .expand _ n o r h1 (ih.1 _ h3)
      | rewrite _ _ R rw h1 h2 h3 => exact .rewrite _ R rw h1 h2 (ih.2 _ _ h3)
    · intro ch t h
      cases h with
      | computed _ _ rel h1 => exact .computed _ rel (ih.1 _ h1)
      | ttu _ _ rel crel n o r h1 h2 => exact .ttu _ rel crel n o r h1 (ih.1 _ h2)
      | or _ _ cs ch hm h1 => exact .or _ cs ch hm (ih.2 _ _ h1)
      | and _ _ cs hne hall => exact .and _ cs hne (fun ch hm => ih.2 _ _ (hall ch hm))

/-- A common height for finitely many derivations. -/
theorem holdsN_common {V : List VKey} {t : Tuple} : ∀ (cs : List Child),
    (∀ ch, ch ∈ cs → ∃ k, HoldsN c T V k ch t) → ∃ K, ∀ ch, ch ∈ cs → HoldsN c T V K ch t
  | [], _ => ⟨0, fun _ h => by cases h⟩
  | ch :: cs, h => by
    obtain ⟨k1, h1⟩ := h ch (List.mem_cons_self ..)
    obtain ⟨k2, h2⟩ := holdsN_common cs (fun ch' hm => h ch' (List.mem_cons_of_mem _ hm))
    refine ⟨max k1 k2, fun ch' hm => ?_⟩
    cases hm with
    | head => exact h1.mono_k (Nat.le_max_left ..)
    | tail _ hm' => exact (h2 ch' hm').mono_k (Nat.le_max_right ..)

theorem memN_of_mem {t : Tuple} (h : Mem c T t) : ∃ k, MemN c T [] k t := by
  refine Mem.rec (motive_1 := fun t _ => ∃ k, MemN c T [] k t)
    (motive_2 := fun ch t _ => ∃ k, HoldsN c T [] k ch t) ?_ ?_ ?_ ?_ ?_ ?_ ?_ h
  · intro t hm
    exact ⟨1, .direct _ _ hm⟩
  · intro t n o r h1 _ ih
    obtain ⟨k, hk⟩ := ih
    exact ⟨k+1, .expand _ _ n o r h1 (by intro h; cases h) hk⟩
  · intro t R rw h1 h2 _ ih
    obtain ⟨k, hk⟩ := ih
    exact ⟨k+1, .rewrite _ _ R rw h1 h2 hk⟩
  · intro t rel _ ih
    obtain ⟨k, hk⟩ := ih
    exact ⟨k+1, .computed _ _ rel hk⟩
  · intro t rel crel n o r h1 _ ih
    obtain ⟨k, hk⟩ := ih
    exact ⟨k+1, .ttu _ _ rel crel n o r h1 hk⟩
  · intro t cs ch hm _ ih
    obtain ⟨k, hk⟩ := ih
    exact ⟨k+1, .or _ _ cs ch hm hk⟩
  · intro t cs hne _ ih
    obtain ⟨K, hK⟩ := holdsN_common cs ih
    exact ⟨K+1, .and _ _ cs hne hK⟩

/-- The height-indexed, node-avoiding derivations with nothing to avoid are `Mem`. -/
theorem mem_iff_memN (t : Tuple) : Mem c T t ↔ ∃ k, MemN c T [] k t :=
  ⟨memN_of_mem, fun ⟨k, h⟩ => (mem_holds_of_N k).1 t h⟩

end Keto
