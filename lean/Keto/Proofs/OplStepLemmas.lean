/-
  The parser model takes a number of steps linear in the number of items: every loop
  iteration consumes an item or is the last one of its loop.
-/
import Keto.Proofs.OplParseLemmas

namespace Keto.Opl
open Keto

/-- `p'` is reached from `p` with at most `c` steps, consuming only. -/
structure Cost (p p' : P) (c : Nat) : Prop where
  steps : p'.steps ≤ p.steps + c
  len : p'.toks.length ≤ p.toks.length

theorem Cost.refl (p : P) : Cost p p 0 := ⟨Nat.le_refl _, Nat.le_refl _⟩
theorem Cost.mono {p q : P} {c c' : Nat} (h : Cost p q c) (hc : c ≤ c') : Cost p q c' := ⟨by have := h.steps; omega, h.len⟩
theorem Cost.trans {p q r : P} {a b : Nat} (h1 : Cost p q a) (h2 : Cost q r b) : Cost p r (a + b) :=
  ⟨by have := h1.steps; have := h2.steps; omega, Nat.le_trans h2.len h1.len⟩

theorem Cost.tick {p q : P} {c : Nat} (h : Cost p q c) : Cost p q.tick (c + 1) :=
  ⟨by have := h.steps; show q.steps + 1 ≤ _; omega, h.len⟩

theorem Cost.next {p q : P} {c : Nat} (h : Cost p q c) : Cost p q.next.2 (c + 1) := by
  have hs := h.steps; have hl := h.len
  unfold P.next
  cases hq : q.toks with
  | nil => exact ⟨by show q.steps + 1 ≤ _; omega, by simpa [hq] using hl⟩
  | cons i r => exact ⟨by show q.steps + 1 ≤ _; omega, by simp [hq] at hl ⊢; omega⟩

theorem Cost.addErr {p q : P} {c : Nat} (h : Cost p q c) (i : Item) (k : ErrKind) : Cost p (q.addErr i k) c := ⟨h.steps, h.len⟩
theorem Cost.addFatal {p q : P} {c : Nat} (h : Cost p q c) (i : Item) (k : ErrKind) : Cost p (q.addFatal i k) c := ⟨h.steps, h.len⟩
theorem Cost.addCheck {p q : P} {c : Nat} (h : Cost p q c) (t : TypeCheck) : Cost p (q.addCheck t) c := ⟨h.steps, h.len⟩
theorem Cost.addRelation {p q : P} {c : Nat} (h : Cost p q c) (r : Relation) : Cost p (q.addRelation r) c := ⟨h.steps, h.len⟩

def patCost : Pat → Nat
  | .lit _ => 1
  | .ident => 1
  | .item => 1
  | .opt ts => ts.length

def patsCost : List Pat → Nat
  | [] => 0
  | p :: ps => patCost p + patsCost ps

theorem matchRest_cost : ∀ (ts : List (List UInt8)) (p : P), Cost p (matchRest ts p).2 ts.length
  | [], p => Cost.refl p
  | t :: ts, p => by
    unfold matchRest
    simp only []
    split
    · exact ((Cost.refl p).next.trans (matchRest_cost ts _)).mono (by simp; omega)
    · exact ((Cost.refl p).next.addFatal _ _).mono (by simp)

theorem optional_cost (ts : List (List UInt8)) (p : P) : Cost p (optional ts p).2 ts.length := by
  unfold optional
  split
  · exact Cost.refl p
  · split
    · exact ((Cost.refl p).next.trans (matchRest_cost _ _)).mono (by simp; omega)
    · exact (Cost.refl p).mono (by omega)

theorem matchLoop_cost : ∀ (pats : List Pat) (caps : List Item) (p : P), Cost p (matchLoop pats caps p).2.2 (patsCost pats)
  | [], _, p => Cost.refl p
  | .lit t :: ps, caps, p => by
    unfold matchLoop
    simp only []
    split
    · exact ((Cost.refl p).next.trans (matchLoop_cost ps caps _)).mono (by simp [patsCost, patCost] <;> omega)
    · exact ((Cost.refl p).next.addFatal _ _).mono (by simp [patsCost, patCost])
  | .ident :: ps, caps, p => by
    unfold matchLoop
    simp only []
    split
    · exact ((Cost.refl p).next.trans (matchLoop_cost ps _ _)).mono (by simp [patsCost, patCost] <;> omega)
    · exact ((Cost.refl p).next.addFatal _ _).mono (by simp [patsCost, patCost])
  | .item :: ps, caps, p => by
    unfold matchLoop
    simp only []
    exact ((Cost.refl p).next.trans (matchLoop_cost ps _ _)).mono (by simp [patsCost, patCost] <;> omega)
  | .opt ts :: ps, caps, p => by
    unfold matchLoop
    simp only []
    split
    · exact (optional_cost ts p).trans (matchLoop_cost ps caps _)
    · exact (optional_cost ts p).mono (by simp [patsCost, patCost])

theorem mtch_cost (p : P) (pats : List Pat) : Cost p (p.mtch pats).2.2 (patsCost pats) := by
  unfold P.mtch
  split
  · exact (Cost.refl p).mono (Nat.zero_le _)
  · exact matchLoop_cost pats [] p

theorem mtchIf_cost (p : P) (typ : ItemType) (pats : List Pat) : Cost p (p.mtchIf typ pats).2.2 (patsCost pats) := by
  unfold P.mtchIf
  split
  · exact (Cost.refl p).mono (Nat.zero_le _)
  · split
    · exact (Cost.refl p).mono (Nat.zero_le _)
    · exact mtch_cost p pats

theorem Cost.mtch {p q : P} {c : Nat} (h : Cost p q c) (pats : List Pat) : Cost p (q.mtch pats).2.2 (c + patsCost pats) :=
  h.trans (mtch_cost q pats)
theorem Cost.mtchIf {p q : P} {c : Nat} (h : Cost p q c) (typ : ItemType) (pats : List Pat) :
    Cost p (q.mtchIf typ pats).2.2 (c + patsCost pats) :=
  h.trans (mtchIf_cost q typ pats)

theorem mpa_cost (pat : Pat) (hp : patCost pat = 1) (p : P) : Cost p (matchPropertyAccess pat p).2.2 5 := by
  unfold matchPropertyAccess
  simp only []
  have h1 := mtchIf_cost p .bracketLeft [.lit b!"[", pat, .lit b!"]"]
  split
  · exact h1.mono (by simp only [patsCost, hp]; decide)
  · exact (h1.trans (mtch_cost _ [.lit b!".", pat])).mono (by simp only [patsCost, hp]; decide)

theorem Cost.mpa {p q : P} {c : Nat} (h : Cost p q c) (pat : Pat) (hp : patCost pat = 1) :
    Cost p (matchPropertyAccess pat q).2.2 (c + 5) :=
  h.trans (mpa_cost pat hp q)

theorem Cost.of_exists {p q : P} {k : Nat} (h : ∃ c, Cost p q c ∧ c ≤ k) : Cost p q k := by
  obtain ⟨c, h1, h2⟩ := h
  exact h1.mono h2

/-- Backward chaining with the step count as a metavariable. -/
macro "cost_chain" : tactic => `(tactic| repeat' first
  | exact Cost.refl _
  | assumption
  | apply Cost.mtch
  | apply Cost.mtchIf
  | apply Cost.mpa
  | apply Cost.next
  | apply Cost.tick
  | apply Cost.addRelation
  | apply Cost.addFatal
  | apply Cost.addCheck
  | apply Cost.addErr
  | (show patCost _ = 1; rfl))

/-- `Cost p X k` for a concrete bound `k`. -/
macro "cost_leaf" : tactic =>
  `(tactic| (apply Cost.of_exists; apply Exists.intro; apply And.intro; focus (cost_chain);
             focus (simp [patsCost, patCost, lits])))

theorem parseComputedSubjectSet_cost (relation : Item) (p : P) : Cost p (parseComputedSubjectSet relation p).2 5 := by
  unfold parseComputedSubjectSet
  simp only []
  split <;> cost_leaf

theorem parseTupleToSubjectSet_cost (relation : Item) (p : P) : Cost p (parseTupleToSubjectSet relation p).2 30 := by
  unfold parseTupleToSubjectSet
  simp only []
  repeat' split
  all_goals cost_leaf


theorem parsePermissionExpression_cost (p : P) : Cost p (parsePermissionExpression p).2 40 := by
  unfold parsePermissionExpression
  simp only []
  repeat' split
  all_goals first
    | (refine Cost.of_exists ⟨_, Cost.trans (?_ : Cost p _ 10) (parseTupleToSubjectSet_cost _ _), by decide⟩; cost_leaf)
    | (refine Cost.of_exists ⟨_, Cost.trans (?_ : Cost p _ 10) (parseComputedSubjectSet_cost _ _), by decide⟩; cost_leaf)
    | cost_leaf

theorem matchSubjectSet_cost (p : P) : Cost p (matchSubjectSet p).2 5 := by
  unfold matchSubjectSet
  simp only []
  cost_leaf

/-- The potential: steps so far plus 100 per item still to come. -/
def phi (p : P) : Nat := p.steps + 100 * p.toks.length

theorem phi_setPanic (p : P) : phi p.setPanic = phi p := rfl

theorem Cost.phi {p q : P} {c : Nat} (h : Cost p q c) : phi q ≤ phi p + c := by
  have := h.steps; have := h.len
  unfold Opl.phi
  omega

/-- A step that consumed an item pays 100. -/
theorem phi_consumed {p q : P} {c : Nat} (h : Cost p q c) (hl : q.toks.length + 1 ≤ p.toks.length) :
    phi q + 100 ≤ phi p + c := by
  have := h.steps
  unfold Opl.phi
  omega

theorem tick_next_cost (p : P) : Cost p p.tick.next.2 2 := (Cost.refl p).tick.next

theorem exprLoop_fatal (n : Nat) (fin : ItemType) (depth : Nat) (root : Option Rewrite) (expect : Bool) (p : P)
    (h : p.fatal = true) : phi (exprLoop n fin depth root expect p).2 = phi p := by
  cases n with
  | zero => rfl
  | succ n => rw [exprLoop]; simp [h]


theorem phi_addFatal (p : P) (i : Item) (k : ErrKind) : phi (p.addFatal i k) = phi p := rfl
theorem phi_tick (p : P) : phi p.tick = phi p + 1 := by
  unfold Opl.phi
  show p.steps + 1 + 100 * p.toks.length = p.steps + 100 * p.toks.length + 1
  omega

theorem exprLoop_pot : ∀ (n : Nat) (fin : ItemType) (depth : Nat) (root : Option Rewrite) (expect : Bool) (p : P),
    phi (exprLoop n fin depth root expect p).2 ≤ phi p + 50
  | 0, _, _, _, _, p => by simp [exprLoop, phi_setPanic]
  | n+1, fin, depth, root, expect, p => by
    unfold exprLoop
    by_cases hf : p.fatal = true
    · rw [if_pos hf]; simp
    · rw [if_neg hf]
      have hq := tick_next_cost p
      have hqphi := hq.phi
      have hcons : p.tick.peek.typ ≠ .error → phi p.tick.next.2 + 100 ≤ phi p + 2 := by
        intro hne
        have h1 : p.tick.next.2.toks.length + 1 = p.toks.length := next_len_of_peek p.tick hne
        exact phi_consumed hq (by omega)
      simp only []
      split
      · rename_i hty
        have hc := hcons (typ_ne_error_of_eq hty (by decide))
        split
        · rw [phi_addFatal]; omega
        · have ih1 := exprLoop_pot n .parenRight (depth - 1) none true p.tick.next.2
          split
          · ((try dsimp only); omega)
          · have ih2 := exprLoop_pot n fin depth (some (addChild root
              (Rewrite.toChild (by assumption)))) false (exprLoop n .parenRight (depth - 1) none true p.tick.next.2).2
            ((try dsimp only); omega)
      · split
        · ((try dsimp only); omega)
        · split
          · rw [phi_tick]; omega
          · split
            · rename_i hty
              have hne : p.tick.peek.typ ≠ .error := by
                intro he
                rw [he] at hty
                simp at hty
              have hc := hcons hne
              split
              · ((try dsimp only); omega)
              · have ih := exprLoop_pot n fin depth (some ⟨if p.tick.peek.typ == .opAnd then .and else .or,
                  [Rewrite.toChild (by assumption)]⟩) true p.tick.next.2
                ((try dsimp only); omega)
            · split
              · rename_i hty
                have hc := hcons (typ_ne_error_of_eq hty (by decide))
                split
                · rw [phi_addFatal]; omega
                · split
                  · have hq2 := ((Cost.refl p.tick.next.2).next).phi
                    split
                    · rw [exprLoop_fatal _ _ _ _ _ _ rfl, phi_addFatal]; omega
                    · have ih1 := exprLoop_pot n .parenRight (depth - 1 - 1) none true p.tick.next.2.next.2
                      refine Nat.le_trans (exprLoop_pot _ _ _ _ _ _) ?_
                      omega
                  · have hppe := (parsePermissionExpression_cost p.tick.next.2).phi
                    split
                    · ((try dsimp only); omega)
                    · rename_i c hc'
                      have ih := exprLoop_pot n fin depth (some (addChild root (.invert c))) false
                        (parsePermissionExpression p.tick.next.2).2
                      ((try dsimp only); omega)
              · split
                · rw [phi_addFatal, phi_tick]; omega
                · have hppe := parsePermissionExpression_cost p.tick
                  have hppephi := hppe.phi
                  rw [phi_tick] at hppephi
                  split
                  · ((try dsimp only); omega)
                  · rename_i c hc
                    have hl := ppe_some_len p.tick c hc
                    have hst := hppe.steps
                    have ih := exprLoop_pot n fin depth (some (addChild root c)) true (parsePermissionExpression p.tick).2
                    have hcons2 : phi (parsePermissionExpression p.tick).2 + 100 ≤ phi p + 41 := by
                      have h3 : p.tick.steps = p.steps + 1 := rfl
                      rw [toks_tick] at hl
                      unfold Opl.phi
                      ((try dsimp only); omega)
                    omega


theorem parsePermissionExpressions_pot (n : Nat) (fin : ItemType) (depth : Nat) (p : P) :
    phi (parsePermissionExpressions n fin depth p).2 ≤ phi p + 50 := by
  unfold parsePermissionExpressions
  split
  · rw [phi_addFatal]; omega
  · exact exprLoop_pot n fin depth none true p

theorem parseTypeUnion_fatal (endTok : ItemType) (n : Nat) (types : List RelType) (p : P) (h : p.fatal = true) :
    phi (parseTypeUnion endTok n types p).2 = phi p := by
  cases n with
  | zero => rfl
  | succ n => rw [parseTypeUnion]; simp [h]

theorem parseTypeUnion_pot (endTok : ItemType) : ∀ (n : Nat) (types : List RelType) (p : P),
    phi (parseTypeUnion endTok n types p).2 ≤ phi p + 10
  | 0, _, p => by simp [parseTypeUnion, phi_setPanic]
  | n+1, types, p => by
    unfold parseTypeUnion
    by_cases hf : p.fatal = true
    · rw [if_pos hf]; simp
    · rw [if_neg hf]
      simp only []
      generalize htp : (if valIs (cap (p.tick.mtch [Pat.item]).2.1 0) b!"SubjectSet" = true then
          (types ++ [(matchSubjectSet (p.tick.mtch [Pat.item]).2.2).1], (matchSubjectSet (p.tick.mtch [Pat.item]).2.2).2)
        else (types ++ [(⟨bstr (cap (p.tick.mtch [Pat.item]).2.1 0).val, ""⟩ : RelType)],
              (p.tick.mtch [Pat.item]).2.2.addCheck (.nsExists (cap (p.tick.mtch [Pat.item]).2.1 0)))) = tp
      have htpc : Cost p tp.2 7 := by
        rw [← htp]
        split
        · exact Cost.of_exists ⟨_, Cost.trans (by cost_chain : Cost p (p.tick.mtch [Pat.item]).2.2 _) (matchSubjectSet_cost _),
            by simp [patsCost, patCost]⟩
        · cost_leaf
      have hnx := (htpc.next).phi
      have hlen := htpc.len
      split
      · (try dsimp only); omega
      · split
        · rename_i hty
          have hq := next_len_of_item tp.2 (typ_ne_error_of_eq hty (by decide))
          have hc := phi_consumed htpc.next (by omega)
          have ih := parseTypeUnion_pot endTok n tp.1 tp.2.next.2
          omega
        · rw [parseTypeUnion_fatal _ _ _ _ rfl, phi_addFatal]; omega

theorem phi_addRelation (p : P) (r : Relation) : phi (p.addRelation r) = phi p := rfl

theorem relatedLoop_pot : ∀ (n : Nat) (p : P), phi (relatedLoop n p) ≤ phi p + 30
  | 0, p => by simp [relatedLoop, phi_setPanic]
  | n+1, p => by
    unfold relatedLoop
    by_cases hf : p.fatal = true
    · rw [if_pos hf]; simp
    · rw [if_neg hf]
      have hq := tick_next_cost p
      have hqphi := hq.phi
      have hcons : p.tick.next.1.typ ≠ .error → phi p.tick.next.2 + 100 ≤ phi p + 2 := by
        intro hne
        have h1 : p.tick.next.2.toks.length + 1 = p.toks.length := next_len_of_item p.tick hne
        exact phi_consumed hq (by omega)
      simp only []
      split
      · rename_i hty
        have hc := hcons (typ_ne_error_of_eq hty (by decide))
        have ih := relatedLoop_pot n p.tick.next.2
        omega
      · split
        · omega
        · split
          · rename_i hty
            have hc := hcons (typ_ne_error_of_or hty (by decide) (by decide))
            split
            · have h3 : Cost p.tick.next.2 (((p.tick.next.2.mtch [Pat.lit b!":"]).2.2.next.2.mtch [Pat.lit b!"<"]).2.2) 3 := by
                cost_leaf
              have htu := parseTypeUnion_pot .angledRight n []
                (((p.tick.next.2.mtch [Pat.lit b!":"]).2.2.next.2.mtch [Pat.lit b!"<"]).2.2)
              have h3phi := h3.phi
              refine Nat.le_trans (relatedLoop_pot n _) ?_
              rw [phi_addRelation]
              omega
            · split
              · have hm : Cost p.tick.next.2 (matchSubjectSet (p.tick.next.2.mtch [Pat.lit b!":"]).2.2.next.2).2 7 :=
                  Cost.of_exists ⟨_, Cost.trans (by cost_chain : Cost p.tick.next.2 (p.tick.next.2.mtch [Pat.lit b!":"]).2.2.next.2 _)
                    (matchSubjectSet_cost _), by simp [patsCost, patCost]⟩
                have hm2 := (hm.mtch [.lit b!"[", .lit b!"]", .opt [b!","]]).phi
                refine Nat.le_trans (relatedLoop_pot n _) ?_
                rw [phi_addRelation]
                simp [patsCost, patCost] at hm2
                omega
              · split
                · have h2 : Cost p.tick.next.2 ((p.tick.next.2.mtch [Pat.lit b!":"]).2.2.next.2) 2 := by cost_leaf
                  have htu := parseTypeUnion_pot .parenRight n [] ((p.tick.next.2.mtch [Pat.lit b!":"]).2.2.next.2)
                  have h2phi := h2.phi
                  have h3 := (mtch_cost (parseTypeUnion .parenRight n [] ((p.tick.next.2.mtch [Pat.lit b!":"]).2.2.next.2)).2
                    [.lit b!"[", .lit b!"]", .opt [b!","]]).phi
                  refine Nat.le_trans (relatedLoop_pot n _) ?_
                  rw [phi_addRelation]
                  simp [patsCost, patCost] at h3
                  omega
                · have h5 : Cost p.tick.next.2 (((p.tick.next.2.mtch [Pat.lit b!":"]).2.2.next.2.addCheck
                      (.nsExists (p.tick.next.2.mtch [Pat.lit b!":"]).2.2.next.1)).mtch [.lit b!"[", .lit b!"]", .opt [b!","]]).2.2 5 := by
                    cost_leaf
                  have h5phi := h5.phi
                  refine Nat.le_trans (relatedLoop_pot n _) ?_
                  rw [phi_addRelation]
                  omega
          · rw [phi_addFatal]; omega


theorem parseRelated_pot (n : Nat) (p : P) : phi (parseRelated n p) ≤ phi p + 32 := by
  unfold parseRelated
  have h := (mtch_cost p [.lit b!":", .lit b!"{"]).phi
  have := relatedLoop_pot n (p.mtch [.lit b!":", .lit b!"{"]).2.2
  simp [patsCost, patCost] at h
  omega

theorem permitsLoop_pot : ∀ (n : Nat) (p : P), phi (permitsLoop n p) ≤ phi p + 70
  | 0, p => by simp [permitsLoop, phi_setPanic]
  | n+1, p => by
    unfold permitsLoop
    by_cases hf : p.fatal = true
    · rw [if_pos hf]; simp
    · rw [if_neg hf]
      have hq := tick_next_cost p
      have hqphi := hq.phi
      have hcons : p.tick.next.1.typ ≠ .error → phi p.tick.next.2 + 100 ≤ phi p + 2 := by
        intro hne
        have h1 : p.tick.next.2.toks.length + 1 = p.toks.length := next_len_of_item p.tick hne
        exact phi_consumed hq (by omega)
      simp only []
      split
      · omega
      · split
        · rename_i hty
          have hc := hcons (typ_ne_error_of_or hty (by decide) (by decide))
          have hm := (mtch_cost p.tick.next.2 [.lit b!":", .lit b!"(", .lit b!"ctx", .opt [b!":", b!"Context"],
              .lit b!")", .opt [b!":", b!"boolean"], .lit b!"=>"]).phi
          simp [patsCost, patCost] at hm
          have he := parsePermissionExpressions_pot n .opComma Keto.Facts.expressionNestingMaxDepth
            (p.tick.next.2.mtch [.lit b!":", .lit b!"(", .lit b!"ctx", .opt [b!":", b!"Context"],
              .lit b!")", .opt [b!":", b!"boolean"], .lit b!"=>"]).2.2
          split
          · omega
          · refine Nat.le_trans (permitsLoop_pot n _) ?_
            rw [phi_addRelation]
            omega
        · rw [phi_addFatal]; omega

theorem parsePermits_pot (n : Nat) (p : P) : phi (parsePermits n p) ≤ phi p + 72 := by
  unfold parsePermits
  have h := (mtch_cost p [.lit b!"=", .lit b!"{"]).phi
  have := permitsLoop_pot n (p.mtch [.lit b!"=", .lit b!"{"]).2.2
  simp [patsCost, patCost] at h
  omega

theorem classLoop_pot : ∀ (n : Nat) (p : P), phi (classLoop n p) ≤ phi p + 80
  | 0, p => by simp [classLoop, phi_setPanic]
  | n+1, p => by
    unfold classLoop
    by_cases hf : p.fatal = true
    · rw [if_pos hf]; simp
    · rw [if_neg hf]
      have hq := tick_next_cost p
      have hqphi := hq.phi
      have hcons : p.tick.next.1.typ ≠ .error → phi p.tick.next.2 + 100 ≤ phi p + 2 := by
        intro hne
        have h1 : p.tick.next.2.toks.length + 1 = p.toks.length := next_len_of_item p.tick hne
        exact phi_consumed hq (by omega)
      simp only []
      split
      · show phi p.tick.next.2 ≤ phi p + 80
        omega
      · split
        · rename_i hv
          have hc := hcons (valIs_typ hv)
          have h1 := parseRelated_pot n p.tick.next.2
          have ih := classLoop_pot n (parseRelated n p.tick.next.2)
          omega
        · split
          · rename_i hv
            have hc := hcons (valIs_typ hv)
            have h1 := parsePermits_pot n p.tick.next.2
            have ih := classLoop_pot n (parsePermits n p.tick.next.2)
            omega
          · split
            · rename_i hty
              have hc := hcons (typ_ne_error_of_eq hty (by decide))
              have ih := classLoop_pot n p.tick.next.2
              omega
            · rw [phi_addFatal]; omega

theorem parseClass_pot (n : Nat) (p : P) : phi (parseClass n p) ≤ phi p + 84 := by
  unfold parseClass
  simp only []
  have h := (mtch_cost p [.ident, .lit b!"implements", .lit b!"Namespace", .lit b!"{"]).phi
  simp [patsCost, patCost] at h
  refine Nat.le_trans (classLoop_pot n _) ?_
  show phi (p.mtch [.ident, .lit b!"implements", .lit b!"Namespace", .lit b!"{"]).2.2 + 80 ≤ _
  omega

theorem parseLoop_fatal (n : Nat) (p : P) (h : p.fatal = true) : phi (parseLoop n p) = phi p := by
  cases n with
  | zero => rfl
  | succ n => rw [parseLoop]; simp [h]

theorem parseLoop_pot : ∀ (n : Nat) (p : P), phi (parseLoop n p) ≤ phi p + 90
  | 0, p => by simp [parseLoop, phi_setPanic]
  | n+1, p => by
    unfold parseLoop
    by_cases hf : p.fatal = true
    · rw [if_pos hf]; simp
    · rw [if_neg hf]
      have hq := tick_next_cost p
      have hqphi := hq.phi
      have hcons : p.tick.next.1.typ ≠ .error → phi p.tick.next.2 + 100 ≤ phi p + 2 := by
        intro hne
        have h1 : p.tick.next.2.toks.length + 1 = p.toks.length := next_len_of_item p.tick hne
        exact phi_consumed hq (by omega)
      simp only []
      split
      · omega
      · split
        · rw [parseLoop_fatal _ _ rfl, phi_addFatal]; omega
        · split
          · rename_i hty
            have hc := hcons (typ_ne_error_of_eq hty (by decide))
            have h1 := parseClass_pot n p.tick.next.2
            have ih := parseLoop_pot n (parseClass n p.tick.next.2)
            omega
          · rename_i hne _
            have hne' : p.tick.next.1.typ ≠ .error := by
              intro he
              rw [he] at hne
              simp at hne
            have hc := hcons hne'
            have ih := parseLoop_pot n p.tick.next.2
            omega

/-- The parser takes at most `100·|items| + 90` steps (calls of `next` and loop iterations). -/
theorem parseItems_steps (items : List Item) : (parseItems items).steps ≤ 100 * items.length + 90 := by
  unfold parseItems
  simp only []
  have h := parseLoop_pot ((items.filter (fun i => !isComment i)).length + 2) { toks := items.filter (fun i => !isComment i) }
  have hl : (items.filter (fun i => !isComment i)).length ≤ items.length := List.length_filter_le _ _
  unfold Opl.phi at h
  simp only [] at h
  omega

end Keto.Opl
