/-
  Helper lemmas for C10 / C12: type-check errors point at items, source positions
  (`toSrcPos`) are monotone and bounded by the number of rows, `Error()` stays in range.
  (Lexer: OplLexLemmas, parser: OplParseLemmas.)
-/
import Keto.Model.Typecheck
import Keto.Proofs.OplLexLemmas
import Keto.Proofs.OplParseLemmas

namespace Keto.Opl
open Keto

/-! ### type checks -/

def TC.ok (N : Pos) (t : TC) : Prop := ∀ e ∈ t.errors, okE N e

theorem TC.ok_tick {N : Pos} {t : TC} (h : t.ok N) : t.tick.ok N := h

theorem TC.ok_err {N : Pos} {t : TC} (h : t.ok N) (i : Item) (k : ErrKind) (hi : okI N i) : (t.err i k).ok N := by
  intro e he
  cases he with
  | head => exact hi
  | tail _ h' => exact h e h'

theorem typesLoop_ok (N : Pos) (rec : String → String → TC → TC) (hrec : ∀ a b t, t.ok N → (rec a b t).ok N)
    (nss : List Namespace) (item : Item) (hi : okI N item) (relation : String) :
    ∀ (ts : List RelType) (tc : TC), tc.ok N → (typesLoop rec nss item relation ts tc).ok N
  | [], tc, h => h
  | t :: ts, tc, h => by
    unfold typesLoop
    simp only []
    apply typesLoop_ok N rec hrec nss item hi relation ts
    split
    · split
      · exact TC.ok_err (TC.ok_tick h) _ _ hi
      · exact TC.ok_tick h
    · exact hrec _ _ _ (TC.ok_tick h)

theorem recCheck_ok (N : Pos) (nss : List Namespace) (item : Item) (hi : okI N item) (relation : String) :
    ∀ (k : Nat) (ns relType : String) (tc : TC), tc.ok N → (recCheck nss item relation k ns relType tc).ok N
  | 0, _, _, tc, h => by
    unfold recCheck
    exact TC.ok_err (TC.ok_tick h) _ _ hi
  | k+1, ns, relType, tc, h => by
    unfold recCheck
    simp only []
    split
    · exact TC.ok_err (TC.ok_tick h) _ _ hi
    · exact typesLoop_ok N _ (fun a b t ht => recCheck_ok N nss item hi relation k a b t ht) nss item hi relation _ _
        (TC.ok_tick h)

theorem runCheck_ok (N : Pos) (nss : List Namespace) (c : TypeCheck) (hc : okC N c) (tc : TC) (h : tc.ok N) :
    (runCheck nss c tc).ok N := by
  unfold runCheck
  simp only []
  cases c with
  | nsExists ns =>
    simp only []
    split
    · exact TC.ok_tick h
    · exact TC.ok_err (TC.ok_tick h) _ _ hc
  | nsHasRelation ns rel =>
    simp only []
    split
    · split
      · exact TC.ok_tick h
      · exact TC.ok_err (TC.ok_tick h) _ _ hc.2
    · exact TC.ok_err (TC.ok_tick h) _ _ hc.1
  | curNsHasRelation cur rel =>
    simp only []
    split
    · split
      · exact TC.ok_tick h
      · exact TC.ok_err (TC.ok_tick h) _ _ hc
    · exact TC.ok_err (TC.ok_tick h) _ _ hc
  | allTypesHaveRelation cur relType rel =>
    exact recCheck_ok N nss relType hc rel _ _ _ _ (TC.ok_tick h)

theorem typeCheck_ok (N : Pos) (nss : List Namespace) :
    ∀ (cs : List TypeCheck) (tc : TC), (∀ c ∈ cs, okC N c) → tc.ok N → (typeCheck nss cs tc).ok N
  | [], tc, _, h => h
  | c :: cs, tc, hc, h => by
    unfold typeCheck
    exact typeCheck_ok N nss cs _ (fun c' hc' => hc c' (List.mem_cons_of_mem _ hc'))
      (runCheck_ok N nss c (hc c (List.mem_cons_self ..)) tc h)


/-! ### the type check is exponential on a self-referential SubjectSet relation -/

/-- `class N { related: { a: (SubjectSet<N,"a"> | … k times)[] } }` as the parser returns it. -/
def famNss (k : Nat) : List Namespace := [⟨"N", [⟨"a", List.replicate k ⟨"N", "a"⟩, none⟩]⟩]

theorem fam_find (k : Nat) : findRelationT (famNss k) "N" "a" = some ⟨"a", List.replicate k ⟨"N", "a"⟩, none⟩ := by
  simp [findRelationT, findNsT, findRelT, famNss]

theorem typesLoop_fam_steps (rec : String → String → TC → TC) (c : Nat) (hrec : ∀ t, t.steps + c ≤ (rec "N" "a" t).steps)
    (nss : List Namespace) (item : Item) (relation : String) :
    ∀ (k : Nat) (tc : TC), tc.steps + k * (1 + c) ≤ (typesLoop rec nss item relation (List.replicate k ⟨"N", "a"⟩) tc).steps
  | 0, tc => by simp [typesLoop]
  | k+1, tc => by
    rw [List.replicate_succ]
    unfold typesLoop
    simp only []
    have h1 : ((⟨"N", "a"⟩ : RelType).rel == "") = false := by decide
    simp only [h1, Bool.false_eq_true, if_false]
    have ih := typesLoop_fam_steps rec c hrec nss item relation k (rec "N" "a" tc.tick)
    have h2 := hrec tc.tick
    have h3 : tc.tick.steps = tc.steps + 1 := rfl
    have : (k + 1) * (1 + c) = k * (1 + c) + (1 + c) := by rw [Nat.add_mul]; simp
    omega

/-- `k` SubjectSet types on the self-referential relation: at least `k^d` steps with `d`
    levels of recursion left (no memoisation). -/
theorem recCheck_fam_steps (k : Nat) (item : Item) (relation : String) :
    ∀ (d : Nat) (tc : TC), tc.steps + k ^ d ≤ (recCheck (famNss k) item relation d "N" "a" tc).steps
  | 0, tc => by
    unfold recCheck
    show tc.steps + k ^ 0 ≤ tc.steps + 1
    simp
  | d+1, tc => by
    unfold recCheck
    simp only [fam_find]
    have h := typesLoop_fam_steps (recCheck (famNss k) item relation d) (k ^ d)
      (fun t => recCheck_fam_steps k item relation d t) (famNss k) item relation k tc.tick
    have h3 : tc.tick.steps = tc.steps + 1 := rfl
    have : k ^ (d + 1) ≤ k * (1 + k ^ d) := by
      rw [Nat.pow_succ, Nat.mul_add, Nat.mul_comm (k ^ d) k]; omega
    omega

/-! ### source positions -/

def nlCount (s : List UInt8) : Nat := (s.filter (· == 10)).length

theorem rowCount_eq (s : List UInt8) : rowCount s = nlCount s + 1 := rfl

theorem decodeBytes_nl (avail c0 c1 c2 c3 : Nat) (h : (decodeBytes avail c0 c1 c2 c3).1 = 10) :
    c0 = 10 ∧ (decodeBytes avail c0 c1 c2 c3).2 = 1 := by
  by_cases h0 : c0 < 0x80
  · unfold decodeBytes at h ⊢
    simp only [h0, if_true] at h ⊢
    exact ⟨h, trivial⟩
  · exfalso
    -- the value of `leadInfo c0`, by the range of the lead byte
    have key : ∀ (sz lo hi : Nat), leadInfo c0 = (sz, lo, hi) →
        (sz = 0 ∨ (sz = 2 ∧ 0xC2 ≤ c0 ∧ c0 < 0xE0) ∨ (sz = 3 ∧ c0 = 0xE0 ∧ lo = 0xA0) ∨ (sz = 3 ∧ 0xE1 ≤ c0 ∧ c0 < 0xF0) ∨
         (sz = 4 ∧ c0 = 0xF0 ∧ lo = 0x90) ∨ (sz = 4 ∧ 0xF1 ≤ c0 ∧ c0 ≤ 0xF4)) ∧ hi ≤ 0xBF := by
      intro sz lo hi hli
      unfold leadInfo at hli
      repeat' split at hli
      all_goals (simp only [Prod.mk.injEq, beq_iff_eq] at *; omega)
    obtain ⟨sz, lo, hi, hli⟩ : ∃ sz lo hi, leadInfo c0 = (sz, lo, hi) := ⟨_, _, _, rfl⟩
    have hk := key sz lo hi hli
    unfold decodeBytes runeError at h
    simp only [h0, if_false, hli] at h
    repeat' split at h
    all_goals (simp only [beq_iff_eq, Nat.not_lt, Nat.not_le, Bool.or_eq_true, decide_eq_true_eq, not_or] at *; omega)

theorem decodeRuneL_nl (rest : List UInt8) (h : (decodeRuneL rest).1 = 10) :
    ∃ tl, rest = 10 :: tl ∧ (decodeRuneL rest).2 = 1 := by
  have tonat : ∀ a : UInt8, a.toNat = 10 → a = 10 := by
    intro a ha
    exact UInt8.toNat_inj.mp (by simpa using ha)
  match rest, h with
  | [], h => simp [decodeRuneL, runeError] at h
  | [a], h =>
    have := decodeBytes_nl _ _ _ _ _ h
    exact ⟨[], by rw [tonat a this.1], this.2⟩
  | [a, b], h =>
    have := decodeBytes_nl _ _ _ _ _ h
    exact ⟨[b], by rw [tonat a this.1], this.2⟩
  | [a, b, c], h =>
    have := decodeBytes_nl _ _ _ _ _ h
    exact ⟨[b, c], by rw [tonat a this.1], this.2⟩
  | a :: b :: c :: d :: r, h =>
    have := decodeBytes_nl _ _ _ _ _ h
    exact ⟨b :: c :: d :: r, by rw [tonat a this.1], this.2⟩

theorem nlCount_drop_le (s : List UInt8) (k : Nat) : nlCount (s.drop k) ≤ nlCount s := by
  unfold nlCount
  exact List.Sublist.length_le ((List.drop_sublist k s).filter _)

/-- The line `srcLoop` returns is between the current line and the current line plus the
    number of newline bytes still ahead. -/
theorem srcLoop_line_bounds : ∀ (n : Nat) (rest : List UInt8) (pos line col : Nat),
    line ≤ (srcLoop n rest pos line col).line ∧ (srcLoop n rest pos line col).line ≤ line + nlCount rest
  | 0, _, _, _, _ => by simp [srcLoop]
  | n+1, rest, pos, line, col => by
    unfold srcLoop
    cases rest with
    | nil => simp
    | cons a tl =>
      simp only []
      split
      · simp
      · split
        · rename_i hnl
          have hnl' : (decodeRuneL (a :: tl)).1 = 10 := by simpa using hnl
          obtain ⟨tl', htl, hw⟩ := decodeRuneL_nl _ hnl'
          have ih := srcLoop_line_bounds n ((a :: tl).drop (decodeRuneL (a :: tl)).2) (pos - 1) (line + 1) 0
          rw [hw] at ih ⊢
          have ha : a = 10 := by cases htl; rfl
          have hc : nlCount (a :: tl) = nlCount tl + 1 := by
            unfold nlCount; rw [ha]; simp
          simp only [List.drop_succ_cons, List.drop_zero] at ih ⊢
          omega
        · have ih := srcLoop_line_bounds n ((a :: tl).drop (decodeRuneL (a :: tl)).2) (pos - 1) line (col + 1)
          have := nlCount_drop_le (a :: tl) (decodeRuneL (a :: tl)).2
          omega

/-- The line is monotone in the byte offset. -/
theorem srcLoop_line_mono : ∀ (n : Nat) (rest : List UInt8) (pos pos' line col col' : Nat), pos ≤ pos' →
    (srcLoop n rest pos line col).line ≤ (srcLoop n rest pos' line col').line
  | 0, _, _, _, _, _, _, _ => by simp [srcLoop]
  | n+1, rest, pos, pos', line, col, col', h => by
    cases rest with
    | nil => simp [srcLoop]
    | cons a tl =>
      by_cases hp : pos ≤ 1
      · have h1 : (srcLoop (n+1) (a :: tl) pos line col).line = line := by
          unfold srcLoop; simp [hp]
        rw [h1]
        exact (srcLoop_line_bounds (n+1) (a :: tl) pos' line col').1
      · have hp' : ¬ pos' ≤ 1 := by omega
        unfold srcLoop
        simp only [hp, hp', if_false]
        split
        · exact srcLoop_line_mono n _ (pos - 1) (pos' - 1) (line + 1) 0 0 (by omega)
        · exact srcLoop_line_mono n _ (pos - 1) (pos' - 1) line (col + 1) (col' + 1) (by omega)

theorem toSrcPos_line (s : List UInt8) (pos : Nat) : 1 ≤ (toSrcPos s pos).line ∧ (toSrcPos s pos).line ≤ rowCount s := by
  have := srcLoop_line_bounds s.length s pos 1 0
  unfold toSrcPos
  rw [rowCount_eq]
  omega

theorem toSrcPos_mono (s : List UInt8) (a b : Nat) (h : a ≤ b) : (toSrcPos s a).line ≤ (toSrcPos s b).line :=
  srcLoop_line_mono s.length s a b 1 0 0 h

/-- `Error()` never indexes `rows` out of range. -/
theorem renderError_no_panic (s : List UInt8) (e : PErr) : (renderError s e).panic = false := by
  have h := toSrcPos_line s e.start
  unfold renderError
  simp only []
  split
  · rfl
  · split
    · omega
    · split <;> rfl

end Keto.Opl
