/-
  Fact ties kept apart from Keto/Proofs/FactsTie.lean so that only the properties that rely on them depend on them.
-/
import Keto.Generated.Facts

namespace Keto.FactsTie
open Keto.Facts

/-- Where the UUIDs of names come from: ONE derivation, `uuid.NewV5(p.NetworkID(ctx), s)` (the network of the
    request, contextualizer applied), in the read-only mapping method; the writing method calls it. -/
def expectedUUIDDerive : List (String × String × String) := [
  ("internal/persistence/sql/uuid_mapping.go", "Persister.MapStringsToUUIDs", "calls:MapStringsToUUIDsReadOnly"),
  ("internal/persistence/sql/uuid_mapping.go", "Persister.MapStringsToUUIDsReadOnly", "NewV5:p.NetworkID(ctx)")]

theorem uuidDerive_tie : uuidDerive = expectedUUIDDerive := by decide

end Keto.FactsTie
