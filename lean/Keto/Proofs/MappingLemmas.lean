/-
  Helper lemmas for C16 (string <-> UUID mapping). Core Lean only.
-/
import Keto.Model.Mapping

namespace Keto
namespace Mapping

/-! ## Hypotheses of the theorems -/

/-- `h` is injective on the strings of `S` (no UUIDv5 collision among them). -/
def InjOn (h : String → Id) (S : List String) : Prop := ∀ a ∈ S, ∀ b ∈ S, h a = h b → a = b

/-- Every row was written by the mapper: its id is the hash of its string. -/
def Consistent (h : String → Id) (T : Table) : Prop := ∀ r ∈ T, r.1 = h r.2

instance (h : String → Id) (S : List String) : Decidable (InjOn h S) := by unfold InjOn; infer_instance

instance (h : String → Id) (T : Table) : Decidable (Consistent h T) := by unfold Consistent; infer_instance

def Table.strings (T : Table) : List String := T.map (·.2)

theorem InjOn.mono {h : String → Id} {S S' : List String} (hi : InjOn h S) (hs : ∀ a ∈ S', a ∈ S) : InjOn h S' :=
  fun a ha b hb e => hi a (hs a ha) b (hs b hb) e

/-! ## Table -/

theorem Table.find_mem {T : Table} {id : Id} {v : String} (h : T.find id = some v) : (id, v) ∈ T := by
  induction T with
  | nil => simp [Table.find] at h
  | cons r t ih =>
    obtain ⟨k, w⟩ := r
    simp only [Table.find] at h
    split at h
    · next hk =>
      have : k = id := by simpa using hk
      cases h; subst this; exact List.mem_cons_self
    · exact List.mem_cons_of_mem _ (ih h)

theorem Table.find_isSome_of_mem {T : Table} {id : Id} {v : String} (h : (id, v) ∈ T) : (T.find id).isSome := by
  induction T with
  | nil => cases h
  | cons r t ih =>
    obtain ⟨k, w⟩ := r
    simp only [Table.find]
    split
    · rfl
    · next hk =>
      cases h with
      | head => simp at hk
      | tail _ h' => exact ih h'

theorem Table.find_append (T R : Table) (id : Id) :
    (T ++ R).find id = match T.find id with | some v => some v | none => R.find id := by
  induction T with
  | nil => simp [Table.find]
  | cons r t ih =>
    obtain ⟨k, w⟩ := r
    simp only [List.cons_append, Table.find]
    split
    · rfl
    · exact ih

theorem Table.find_insertIfAbsent (T : Table) (r : Row) (id : Id) :
    (T.insertIfAbsent r).find id =
      match T.find id with | some v => some v | none => if r.1 == id then some r.2 else none := by
  unfold Table.insertIfAbsent
  split
  · next hs =>
    cases hl : T.find id with
    | some v => rfl
    | none =>
      simp only
      split
      · next hk =>
        have : r.1 = id := by simpa using hk
        rw [this, hl] at hs; cases hs
      · rfl
  · rw [Table.find_append]
    obtain ⟨k, w⟩ := r
    simp [Table.find]

theorem Table.wf_append_single {T : Table} {r : Row} (hw : T.wf) (hn : T.find r.1 = none) : (T ++ [r]).wf := by
  induction T with
  | nil => obtain ⟨k, w⟩ := r; simp [Table.wf, Table.find]
  | cons x t ih =>
    obtain ⟨a, b⟩ := x
    obtain ⟨k, w⟩ := r
    simp only [Table.wf, Bool.and_eq_true] at hw
    simp only [Table.find] at hn
    split at hn
    · cases hn
    · next hne =>
      simp only [List.cons_append, Table.wf, Bool.and_eq_true]
      refine ⟨?_, ih hw.2 hn⟩
      rw [Table.find_append]
      have h1 : Table.find t a = none := by simpa using hw.1
      rw [h1]
      have : (k == a) = false := by
        have : ¬ a = k := by simpa using hne
        simp; exact fun e => this e.symm
      simp [Table.find, this]

theorem Table.wf_insertIfAbsent {T : Table} (r : Row) (hw : T.wf) : (T.insertIfAbsent r).wf := by
  unfold Table.insertIfAbsent
  split
  · exact hw
  · next hs =>
    apply Table.wf_append_single hw
    cases hl : T.find r.1 with
    | none => rfl
    | some v => rw [hl] at hs; simp at hs

theorem Table.wf_insertRows {T : Table} (rows : List Row) (hw : T.wf) : (T.insertRows rows).wf := by
  induction rows generalizing T with
  | nil => exact hw
  | cons r rs ih => exact ih (Table.wf_insertIfAbsent r hw)

/-- Existing mappings are never changed (`ON CONFLICT DO NOTHING`). -/
theorem Table.find_insertRows_of_some {T : Table} (rows : List Row) {id : Id} {v : String}
    (h : T.find id = some v) : (T.insertRows rows).find id = some v := by
  induction rows generalizing T with
  | nil => exact h
  | cons r rs ih =>
    apply ih
    rw [Table.find_insertIfAbsent, h]

theorem Table.find_insertRows_mem {T : Table} (rows : List Row) {id : Id} {v : String}
    (h : (T.insertRows rows).find id = some v) : T.find id = some v ∨ (id, v) ∈ rows := by
  induction rows generalizing T with
  | nil => exact .inl h
  | cons r rs ih =>
    rcases ih h with h1 | h1
    · rw [Table.find_insertIfAbsent] at h1
      cases hl : T.find id with
      | some w => rw [hl] at h1; exact .inl h1
      | none =>
        rw [hl] at h1
        simp only at h1
        split at h1
        · next hk =>
          have : r.1 = id := by simpa using hk
          cases h1
          right; rw [← this]; exact List.mem_cons_self
        · cases h1
    · exact .inr (List.mem_cons_of_mem _ h1)

theorem Table.find_insertRows_isSome {T : Table} (rows : List Row) {id : Id} {v : String}
    (h : (id, v) ∈ rows) : ((T.insertRows rows).find id).isSome := by
  induction rows generalizing T with
  | nil => cases h
  | cons r rs ih =>
    cases h with
    | head =>
      have : ((T.insertIfAbsent (id, v)).find id).isSome := by
        rw [Table.find_insertIfAbsent]
        cases T.find id <;> simp
      cases hl : (T.insertIfAbsent (id, v)).find id with
      | none => rw [hl] at this; cases this
      | some w =>
        show ((Table.insertRows (T.insertIfAbsent (id, v)) rs).find id).isSome
        rw [Table.find_insertRows_of_some rs hl]; rfl
    | tail _ h' => exact ih h'

theorem Table.insertChunks_eq (T : Table) (cs : List (List Row)) : T.insertChunks cs = T.insertRows cs.flatten := by
  induction cs generalizing T with
  | nil => rfl
  | cons c cs ih =>
    simp only [Table.insertChunks, List.flatten_cons]
    rw [ih]
    clear ih
    induction c generalizing T with
    | nil => rfl
    | cons r rs ih2 => exact ih2 _

/-! ## pages -/

theorem pages_flatten {α} (n : Nat) (hn : 1 ≤ n) (fuel : Nat) (l : List α) (hf : l.length ≤ fuel) :
    (pages n fuel l).flatten = l := by
  induction fuel generalizing l with
  | zero =>
    have : l = [] := List.eq_nil_of_length_eq_zero (Nat.le_zero.mp hf)
    subst this; rfl
  | succ f ih =>
    unfold pages
    split
    · next he =>
      have : l = [] := by simpa using he
      subst this; rfl
    · next he =>
      rw [List.flatten_cons, ih, List.take_append_drop]
      have hl : l.length ≠ 0 := by
        intro h0; exact he (by simp [List.eq_nil_of_length_eq_zero h0])
      rw [List.length_drop]; omega

theorem mem_pages {α} (n : Nat) (hn : 1 ≤ n) (l : List α) (x : α) (hx : x ∈ l) :
    ∃ p ∈ pages n l.length l, x ∈ p := by
  have := pages_flatten n hn l.length l (Nat.le_refl _)
  rw [← this] at hx
  exact List.mem_flatten.mp hx

/-! ## sort / compact: only membership matters -/

theorem mem_insertSorted (r x : Row) (l : List Row) : x ∈ insertSorted r l ↔ x = r ∨ x ∈ l := by
  induction l with
  | nil => simp [insertSorted]
  | cons y ys ih =>
    unfold insertSorted
    split
    · simp
    · simp only [List.mem_cons, ih]
      constructor
      · rintro (h | h | h)
        · exact .inr (.inl h)
        · exact .inl h
        · exact .inr (.inr h)
      · rintro (h | h | h)
        · exact .inr (.inl h)
        · exact .inl h
        · exact .inr (.inr h)

theorem mem_sortById (x : Row) (l : List Row) : x ∈ sortById l ↔ x ∈ l := by
  induction l with
  | nil => simp [sortById]
  | cons y ys ih => simp [sortById, mem_insertSorted, ih]

theorem mem_compactFrom {k : Id} {l : List Row} {x : Row} (h : x ∈ compactFrom k l) : x ∈ l := by
  induction l generalizing k with
  | nil => cases h
  | cons y ys ih =>
    unfold compactFrom at h
    split at h
    · exact List.mem_cons_of_mem _ (ih h)
    · cases h with
      | head => exact List.mem_cons_self
      | tail _ h' => exact List.mem_cons_of_mem _ (ih h')

theorem compactFrom_covers {k : Id} {l : List Row} {id : Id} {v : String} (h : (id, v) ∈ l) :
    id = k ∨ ∃ v', (id, v') ∈ compactFrom k l := by
  induction l generalizing k with
  | nil => cases h
  | cons y ys ih =>
    unfold compactFrom
    cases h with
    | head =>
      split
      · next hk => left; simpa using hk
      · right; exact ⟨v, List.mem_cons_self⟩
    | tail _ h' =>
      split
      · exact ih h'
      · next hk =>
        rcases ih (k := y.1) h' with e | ⟨v', hv'⟩
        · right; refine ⟨y.2, ?_⟩; rw [e]; exact List.mem_cons_self
        · right; exact ⟨v', List.mem_cons_of_mem _ hv'⟩

theorem mem_compact {l : List Row} {x : Row} (h : x ∈ compact l) : x ∈ l := by
  cases l with
  | nil => cases h
  | cons y ys =>
    cases h with
    | head => exact List.mem_cons_self
    | tail _ h' => exact List.mem_cons_of_mem _ (mem_compactFrom h')

theorem compact_covers {l : List Row} {id : Id} {v : String} (h : (id, v) ∈ l) : ∃ v', (id, v') ∈ compact l := by
  cases l with
  | nil => cases h
  | cons y ys =>
    cases h with
    | head => exact ⟨v, List.mem_cons_self⟩
    | tail _ h' =>
      rcases compactFrom_covers (k := y.1) h' with e | ⟨v', hv'⟩
      · refine ⟨y.2, ?_⟩; rw [e]; exact List.mem_cons_self
      · exact ⟨v', List.mem_cons_of_mem _ hv'⟩

theorem mem_zip_map (h : String → Id) (ss : List String) (id : Id) (v : String) :
    (id, v) ∈ (ss.map h).zip ss ↔ v ∈ ss ∧ id = h v := by
  induction ss with
  | nil => simp
  | cons s r ih =>
    simp only [List.map_cons, List.zip_cons_cons, List.mem_cons, Prod.mk.injEq, ih]
    constructor
    · rintro (⟨e1, e2⟩ | ⟨h1, h2⟩)
      · exact ⟨.inl e2, by rw [e1, e2]⟩
      · exact ⟨.inr h1, h2⟩
    · rintro ⟨e | h1, h2⟩
      · left; exact ⟨by rw [h2, e], e⟩
      · right; exact ⟨h1, h2⟩

/-! ## mapStrings -/

/-- The ids never depend on the table, the mode or the rest of the batch. -/
theorem mapStrings_ids (E : Env) (T : Table) (ss : List String) : (mapStrings E T ss).1 = ss.map E.h := by
  unfold mapStrings mapStringsRW mapStringsReadOnly
  split
  · rfl
  · split
    · next he =>
      have : ss = [] := by simpa using he
      subst this; rfl
    · rfl

/-- The rows a read-write `MapStringsToUUIDs` tries to insert. -/
def newRows (E : Env) (ss : List String) : List Row := compact (sortById ((ss.map E.h).zip ss))

theorem mapStrings_table_rw (E : Env) (T : Table) (ss : List String) (hrw : E.readOnly = false)
    (hc : 1 ≤ E.chunk) : (mapStrings E T ss).2 = T.insertRows (newRows E ss) := by
  unfold mapStrings mapStringsRW mapStringsReadOnly
  rw [hrw]
  simp only [Bool.false_eq_true, if_false]
  split
  · next he =>
    have : ss = [] := by simpa using he
    subst this; rfl
  · simp only
    rw [Table.insertChunks_eq, pages_flatten _ hc _ _ (Nat.le_refl _)]
    rfl

theorem mem_newRows {E : Env} {ss : List String} {id : Id} {v : String} (h : (id, v) ∈ newRows E ss) :
    v ∈ ss ∧ id = E.h v :=
  (mem_zip_map E.h ss id v).mp ((mem_sortById _ _).mp (mem_compact h))

theorem newRows_covers {E : Env} {ss : List String} {s : String} (h : s ∈ ss) : ∃ v, (E.h s, v) ∈ newRows E ss :=
  compact_covers ((mem_sortById _ _).mpr ((mem_zip_map E.h ss (E.h s) s).mpr ⟨h, rfl⟩))

theorem mapStrings_table_ro (E : Env) (T : Table) (ss : List String) (hro : E.readOnly = true) :
    (mapStrings E T ss).2 = T := by
  unfold mapStrings; rw [hro]; rfl

theorem mapStrings_wf (E : Env) (T : Table) (ss : List String) (hc : 1 ≤ E.chunk) (hw : T.wf) :
    (mapStrings E T ss).2.wf := by
  cases hro : E.readOnly with
  | true => rw [mapStrings_table_ro E T ss hro]; exact hw
  | false => rw [mapStrings_table_rw E T ss hro hc]; exact Table.wf_insertRows _ hw

theorem mem_insertRows {T : Table} {rows : List Row} {r : Row} (h : r ∈ T.insertRows rows) : r ∈ T ∨ r ∈ rows := by
  induction rows generalizing T with
  | nil => exact .inl h
  | cons x xs ih =>
    rcases ih h with h1 | h1
    · unfold Table.insertIfAbsent at h1
      split at h1
      · exact .inl h1
      · rcases List.mem_append.mp h1 with h2 | h2
        · exact .inl h2
        · right; rw [List.mem_singleton.mp h2]; exact List.mem_cons_self
    · exact .inr (List.mem_cons_of_mem _ h1)

theorem mapStrings_consistent (E : Env) (T : Table) (ss : List String) (hc : 1 ≤ E.chunk)
    (hcons : Consistent E.h T) : Consistent E.h (mapStrings E T ss).2 := by
  cases hro : E.readOnly with
  | true => rw [mapStrings_table_ro E T ss hro]; exact hcons
  | false =>
    rw [mapStrings_table_rw E T ss hro hc]
    intro r hr
    rcases mem_insertRows hr with h1 | h1
    · exact hcons r h1
    · exact (mem_newRows (id := r.1) (v := r.2) h1).2

/-- The strings of the table after a mapping are old strings or strings of the batch. -/
theorem mapStrings_strings (E : Env) (T : Table) (ss : List String) (hc : 1 ≤ E.chunk) :
    ∀ v ∈ (mapStrings E T ss).2.strings, v ∈ T.strings ++ ss := by
  intro v hv
  obtain ⟨r, hr, rfl⟩ := List.mem_map.mp hv
  cases hro : E.readOnly with
  | true =>
    rw [mapStrings_table_ro E T ss hro] at hr
    exact List.mem_append_left _ (List.mem_map.mpr ⟨r, hr, rfl⟩)
  | false =>
    rw [mapStrings_table_rw E T ss hro hc] at hr
    rcases mem_insertRows hr with h1 | h1
    · exact List.mem_append_left _ (List.mem_map.mpr ⟨r, h1, rfl⟩)
    · exact List.mem_append_right _ (mem_newRows (id := r.1) (v := r.2) h1).1

/-- After a read-write mapping every string of the batch is found under its id. -/
theorem lookup_after_map (E : Env) (T : Table) (ss : List String) (hrw : E.readOnly = false)
    (hc : 1 ≤ E.chunk) (hcons : Consistent E.h T) (hinj : InjOn E.h (T.strings ++ ss))
    (s : String) (hs : s ∈ ss) : (mapStrings E T ss).2.find (E.h s) = some s := by
  rw [mapStrings_table_rw E T ss hrw hc]
  obtain ⟨v0, hv0⟩ := newRows_covers (E := E) hs
  have hsome := Table.find_insertRows_isSome (T := T) _ hv0
  cases hl : (T.insertRows (newRows E ss)).find (E.h s) with
  | none => rw [hl] at hsome; cases hsome
  | some v =>
    have hs' : s ∈ T.strings ++ ss := List.mem_append_right _ hs
    rcases Table.find_insertRows_mem _ hl with h1 | h1
    · have hm := Table.find_mem h1
      have e : E.h s = E.h v := hcons _ hm
      have hv : v ∈ T.strings ++ ss := List.mem_append_left _ (List.mem_map.mpr ⟨_, hm, rfl⟩)
      rw [hinj s hs' v hv e]
    · obtain ⟨hv, e⟩ := mem_newRows h1
      rw [hinj s hs' v (List.mem_append_right _ hv) e]

/-- A string mapped earlier stays readable under its id whatever is mapped later. -/
theorem lookup_preserved (E : Env) (T : Table) (ss : List String) (hc : 1 ≤ E.chunk) {id : Id} {v : String}
    (h : T.find id = some v) : (mapStrings E T ss).2.find id = some v := by
  cases hro : E.readOnly with
  | true => rw [mapStrings_table_ro E T ss hro]; exact h
  | false => rw [mapStrings_table_rw E T ss hro hc]; exact Table.find_insertRows_of_some _ h

/-! ## batchFromUUIDs -/

def upd (f : Id → String) (m : Row) : Id → String := fun i => if i == m.1 then m.2 else f i

def updAll : (Id → String) → List Row → Id → String
  | f, [] => f
  | f, m :: ms => updAll (upd f m) ms

def runF (T : Table) : (Id → String) → List (List Id) → Id → String
  | f, [] => f
  | f, p :: ps => runF T (updAll f (queryPage T p)) ps

theorem scatterRow_map (ids : List Id) (f : Id → String) (m : Row) :
    scatterRow ids (ids.map f) m = ids.map (upd f m) := by
  induction ids with
  | nil => rfl
  | cons i is ih => simp only [List.map_cons, scatterRow, ih, upd]

theorem scatterRows_map (ids : List Id) (f : Id → String) (ms : List Row) :
    scatterRows ids (ids.map f) ms = ids.map (updAll f ms) := by
  induction ms generalizing f with
  | nil => rfl
  | cons m ms ih => simp only [scatterRows, scatterRow_map, ih, updAll]

theorem runPages_map (T : Table) (ids : List Id) (f : Id → String) (ps : List (List Id)) :
    runPages T ids (ids.map f) ps = ids.map (runF T f ps) := by
  induction ps generalizing f with
  | nil => rfl
  | cons p ps ih => simp only [runPages, scatterRows_map, ih, runF]

theorem updAll_lookup (f : Id → String) (rows : Table) (hw : rows.wf) (id : Id) :
    updAll f rows id = (rows.find id).getD (f id) := by
  induction rows generalizing f with
  | nil => rfl
  | cons r rs ih =>
    obtain ⟨k, v⟩ := r
    simp only [Table.wf, Bool.and_eq_true] at hw
    simp only [updAll, Table.find]
    rw [ih _ hw.2]
    split
    · next hk =>
      have e : k = id := by simpa using hk
      have hn : Table.find rs id = none := by rw [← e]; simpa using hw.1
      simp [hn, upd, e]
    · next hk =>
      have : (id == k) = false := by
        have : ¬ k = id := by simpa using hk
        simp; exact fun e => this e.symm
      simp [upd, this]

theorem lookup_filter (T : Table) (p : Id → Bool) (id : Id) :
    Table.find (T.filter (fun r => p r.1)) id = if p id then T.find id else none := by
  induction T with
  | nil => simp [Table.find]
  | cons r t ih =>
    obtain ⟨k, v⟩ := r
    simp only [List.filter_cons]
    cases hp : p k with
    | true =>
      simp only [if_true, Table.find]
      by_cases hk : (k == id) = true
      · have e : k = id := by simpa using hk
        rw [← e]; simp [hp]
      · simp only [hk]; exact ih
    | false =>
      simp only [Bool.false_eq_true, if_false, Table.find]
      rw [ih]
      by_cases hk : (k == id) = true
      · have e : k = id := by simpa using hk
        rw [← e]; simp [hp]
      · simp [hk]

theorem wf_filter (T : Table) (p : Id → Bool) (hw : T.wf) : Table.wf (T.filter (fun r => p r.1)) := by
  induction T with
  | nil => rfl
  | cons r t ih =>
    obtain ⟨k, v⟩ := r
    simp only [Table.wf, Bool.and_eq_true] at hw
    simp only [List.filter_cons]
    cases hp : p k with
    | true =>
      simp only [if_true, Table.wf, Bool.and_eq_true]
      refine ⟨?_, ih hw.2⟩
      rw [lookup_filter]
      simp only [hp, if_true]
      exact hw.1
    | false => simp only [Bool.false_eq_true, if_false]; exact ih hw.2

theorem updAll_queryPage (T : Table) (hw : T.wf) (f : Id → String) (p : List Id) (id : Id) :
    updAll f (queryPage T p) id = if p.contains id then (T.find id).getD (f id) else f id := by
  unfold queryPage
  rw [updAll_lookup _ _ (wf_filter T (fun k => p.contains k) hw), lookup_filter T (fun k => p.contains k)]
  split <;> rfl

theorem ite_getD_lemma (a b : Bool) (o : Option String) (d : String) :
    (if b = true then o.getD (if a = true then o.getD d else d) else if a = true then o.getD d else d) =
      if (a || b) = true then o.getD d else d := by
  cases a <;> cases b <;> cases o <;> rfl

theorem runF_spec (T : Table) (hw : T.wf) (f : Id → String) (ps : List (List Id)) (id : Id) :
    runF T f ps id = if ps.any (fun p => p.contains id) then (T.find id).getD (f id) else f id := by
  induction ps generalizing f with
  | nil => rfl
  | cons p ps ih =>
    simp only [runF, List.any_cons]
    rw [ih, updAll_queryPage T hw]
    exact ite_getD_lemma _ _ _ _

theorem mem_distinct (x : Id) (l : List Id) : x ∈ distinct l ↔ x ∈ l := by
  induction l with
  | nil => simp [distinct]
  | cons y ys ih =>
    unfold distinct
    split
    · next hc =>
      rw [ih]
      constructor
      · exact List.mem_cons_of_mem _
      · intro h
        cases h with
        | head => simpa using hc
        | tail _ h' => exact h'
    · simp [ih]

theorem replicate_eq_map (ids : List Id) (s : String) : List.replicate ids.length s = ids.map (fun _ => s) := by
  induction ids with
  | nil => rfl
  | cons i is ih => simp [List.replicate_succ, ih]

/-- `batchFromUUIDs` is the position-wise table lookup: for every page size ≥ 1 and every enumeration
    of the distinct ids that reaches each of them. -/
theorem batchFromUUIDs_eq (T : Table) (hw : T.wf) (ids : List Id) (pageSize : Nat) (hp : 1 ≤ pageSize)
    (keyOrder : List Id → List Id) (hk : ∀ x ∈ distinct ids, x ∈ keyOrder (distinct ids)) :
    batchFromUUIDs T ids pageSize keyOrder = ids.map (fun id => (T.find id).getD "") := by
  unfold batchFromUUIDs
  split
  · next he =>
    have : ids = [] := by simpa using he
    subst this; rfl
  · simp only
    rw [replicate_eq_map, runPages_map]
    apply List.map_congr_left
    intro id hid
    rw [runF_spec T hw]
    have hmem : id ∈ keyOrder (distinct ids) := hk id ((mem_distinct id ids).mpr hid)
    obtain ⟨p, hp1, hp2⟩ := mem_pages pageSize hp _ id hmem
    have : (pages pageSize (keyOrder (distinct ids)).length (keyOrder (distinct ids))).any
        (fun p => p.contains id) = true := by
      rw [List.any_eq_true]; exact ⟨p, hp1, by simpa using hp2⟩
    rw [this]; rfl

/-! ## assignPairs -/

theorem assignPairs_flat {α β γ} (mk : α → β → β → γ) (f g : α → β) (ts : List α) (i : Nat) (pre : List β)
    (hpre : pre.length = 2 * i) :
    assignPairs mk (pre ++ ts.flatMap (fun t => [f t, g t])) i ts = some (ts.map (fun t => mk t (f t) (g t))) := by
  induction ts generalizing i pre with
  | nil => rfl
  | cons t ts ih =>
    have hrest : pre ++ (t :: ts).flatMap (fun t => [f t, g t]) =
        (pre ++ [f t, g t]) ++ ts.flatMap (fun t => [f t, g t]) := by
      simp [List.flatMap_cons]
    have h0 : (pre ++ (t :: ts).flatMap (fun t => [f t, g t]))[2 * i]? = some (f t) := by
      rw [List.getElem?_append_right (by omega)]
      simp [List.flatMap_cons, hpre]
    have h1 : (pre ++ (t :: ts).flatMap (fun t => [f t, g t]))[2 * i + 1]? = some (g t) := by
      rw [List.getElem?_append_right (by omega)]
      have : 2 * i + 1 - pre.length = 1 := by omega
      simp [List.flatMap_cons, this]
    unfold assignPairs
    rw [h0, h1, hrest, ih (i + 1) (pre ++ [f t, g t]) (by simp; omega)]
    rfl

/-! ## FromTuple / ToTuple -/

/-- The internal tuple `FromTuple` builds for a valid API tuple. -/
def toInternal (h : String → Id) (t : ApiTuple) : Tuple := mkInternal t (h (subjName t)) (h t.obj)

theorem checkTuple_valid (E : Env) (t : ApiTuple) (hv : t.valid E = true) :
    checkTuple E (some t) = .ok (t, strsOf t) := by
  unfold ApiTuple.valid at hv
  simp only [Bool.and_eq_true] at hv
  obtain ⟨h1, h2⟩ := hv
  unfold checkTuple strsOf subjName
  simp only [h1, Bool.not_true, Bool.false_eq_true, if_false]
  cases hs : t.subject with
  | none => rw [hs] at h2; cases h2
  | some sub =>
    rw [hs] at h2
    cases sub with
    | id s => rfl
    | set ss =>
      simp only at h2
      simp [h2, ApiSubject.name]

theorem collectFrom_valid (E : Env) (b : List ApiTuple) (hv : ∀ t ∈ b, t.valid E = true) :
    collectFrom E (b.map some) = .ok (b, batchStrings b) := by
  induction b with
  | nil => rfl
  | cons t ts ih =>
    simp only [List.map_cons, collectFrom]
    rw [checkTuple_valid E t (hv t List.mem_cons_self), ih (fun x hx => hv x (List.mem_cons_of_mem _ hx))]
    simp [batchStrings, List.flatMap_cons]

theorem fromTuple_valid (E : Env) (T : Table) (b : List ApiTuple) (hv : ∀ t ∈ b, t.valid E = true) :
    fromTuple E T (b.map some) = (.ok (b.map (toInternal E.h)), (mapStrings E T (batchStrings b)).2) := by
  unfold fromTuple
  rw [collectFrom_valid E b hv]
  simp only
  have hu : (mapStrings E T (batchStrings b)).1 = [] ++ b.flatMap (fun t => [E.h (subjName t), E.h t.obj]) := by
    rw [mapStrings_ids, batchStrings, List.map_flatMap]
    simp [strsOf]
  rw [hu, assignPairs_flat mkInternal (fun t => E.h (subjName t)) (fun t => E.h t.obj) b 0 [] rfl]
  rfl

def look (T : Table) (id : Id) : String := (T.find id).getD ""

theorem toTuple_eq (E : Env) (T : Table) (hw : T.wf) (hp : 1 ≤ E.pageSize)
    (hperm : ∀ l, (E.keyOrder l).Perm l) (its : List Tuple) :
    toTuple E T its = .ok (its.map (fun t => mkApi t (look T (subjId t.sub)) (look T t.obj))) := by
  unfold toTuple mapUUIDsToStrings
  simp only
  rw [batchFromUUIDs_eq T hw _ E.pageSize hp E.keyOrder (fun x hx => ((hperm _).mem_iff).mpr hx)]
  have hu : List.map (fun id => (T.find id).getD "") (its.flatMap (fun t => [subjId t.sub, t.obj])) =
      [] ++ its.flatMap (fun t => [look T (subjId t.sub), look T t.obj]) := by
    rw [List.map_flatMap]; simp [look]
  rw [hu, assignPairs_flat mkApi (fun t => look T (subjId t.sub)) (fun t => look T t.obj) its 0 [] rfl]

theorem mkApi_toInternal (h : String → Id) (t : ApiTuple) (a b : String) (hs : t.subject ≠ none)
    (ha : a = subjName t) (hb : b = t.obj) : mkApi (toInternal h t) a b = t.normalize := by
  subst ha hb
  obtain ⟨ns, obj, rel, sid, sset⟩ := t
  cases sid with
  | some s => cases sset <;> rfl
  | none =>
    cases sset with
    | none => exact absurd rfl hs
    | some ss => rfl

theorem toInternal_obj (h : String → Id) (t : ApiTuple) : (toInternal h t).obj = h t.obj := rfl

theorem toInternal_subjId (h : String → Id) (t : ApiTuple) : subjId (toInternal h t).sub = h (subjName t) := by
  obtain ⟨ns, obj, rel, sid, sset⟩ := t
  cases sid <;> cases sset <;> rfl

theorem normalize_wellFormed (t : ApiTuple) (hw : t.wellFormed = true) : t.normalize = t := by
  obtain ⟨ns, obj, rel, sid, sset⟩ := t
  cases sid <;> cases sset <;> first | rfl | (simp [ApiTuple.wellFormed] at hw)

theorem valid_subject {E : Env} {t : ApiTuple} (hv : t.valid E = true) : t.subject ≠ none := by
  unfold ApiTuple.valid at hv
  intro hn
  rw [hn] at hv
  simp at hv

theorem mem_batchStrings {b : List ApiTuple} {t : ApiTuple} (ht : t ∈ b) :
    subjName t ∈ batchStrings b ∧ t.obj ∈ batchStrings b := by
  unfold batchStrings
  constructor <;> exact List.mem_flatMap.mpr ⟨t, ht, by simp [strsOf]⟩

/-! ## FromQuery / ToQuery -/

theorem fromQuery_eq (E : Env) (T : Table) (q : ApiQuery) (hns : q.nsUnknown E = false)
    (hsn : q.setNsUnknown E = false) :
    fromQuery E T q = (q.assign (q.strings.map E.h), (mapStrings E T q.strings).2) := by
  unfold fromQuery
  simp only [hns, hsn, Bool.false_eq_true, if_false, mapStrings_ids]

theorem mapUUIDs_eq (E : Env) (T : Table) (hw : T.wf) (hp : 1 ≤ E.pageSize)
    (hperm : ∀ l, (E.keyOrder l).Perm l) (u : List Id) :
    mapUUIDsToStrings E T u = u.map (look T) := by
  unfold mapUUIDsToStrings
  rw [batchFromUUIDs_eq T hw _ E.pageSize hp E.keyOrder (fun x hx => ((hperm _).mem_iff).mpr hx)]
  rfl

/-- `ToQuery (FromQuery q) = q` once the strings of `q` are readable under their ids. -/
theorem query_roundtrip (E E' : Env) (T : Table) (q : ApiQuery)
    (hwf : T.wf) (hchunk : 1 ≤ E.chunk) (hpage : 1 ≤ E'.pageSize) (hperm : ∀ l, (E'.keyOrder l).Perm l)
    (hnss : E'.nss = E.nss) (hns : q.nsUnknown E = false) (hsn : q.setNsUnknown E = false)
    (hone : q.subjectId = none ∨ q.subjectSet = none)
    (hknown : ∀ s ∈ q.strings, (mapStrings E T q.strings).2.find (E.h s) = some s) :
    ∃ iq, (fromQuery E T q).1 = .ok iq ∧ toQuery E' (fromQuery E T q).2 iq = .ok q := by
  rw [fromQuery_eq E T q hns hsn]
  have hw' := mapStrings_wf E T q.strings hchunk hwf
  have hl : ∀ s ∈ q.strings, look (mapStrings E T q.strings).2 (E.h s) = s := by
    intro s hs; rw [look, hknown s hs]; rfl
  generalize (mapStrings E T q.strings).2 = T' at *
  have hns' : q.nsUnknown E' = false := by
    simpa [ApiQuery.nsUnknown, Env.nsKnown, hnss] using hns
  have hsn' : q.setNsUnknown E' = false := by
    simpa [ApiQuery.setNsUnknown, Env.nsKnown, hnss] using hsn
  obtain ⟨ns, obj, rel, sid, sset⟩ := q
  simp only at hone
  cases obj <;> cases sid <;> cases sset <;>
    first
    | (rcases hone with h | h <;> cases h)
    | skip
  all_goals
    simp [ApiQuery.strings] at hl
    simp [ApiQuery.nsUnknown, ApiQuery.setNsUnknown] at hns' hsn'
    simp [ApiQuery.assign, ApiQuery.strings, at?, Except.map, bind, Except.bind, pure, Except.pure,
      toQuery, mapUUIDs_eq E' T' hw' hpage hperm, subjId, hl, hns', hsn']

/-! ## ToTree -/

mutual
/-- Spec of `ToTree`: same shape, every node labelled with the table's string for its id. -/
def labelTree (T : Table) : ITree → ATree
  | .node ty sub cs =>
    .node ty (match sub with | .id u => some (look T u) | .set _ _ _ => none)
             (match sub with | .id _ => none | .set n o r => some ⟨n, look T o, r⟩) (labelTrees T cs)
def labelTrees (T : Table) : List ITree → List ATree
  | [] => []
  | c :: cs => labelTree T c :: labelTrees T cs
end

mutual
/-- Every subject-set namespace in the tree is configured. -/
def ITree.nsOk (E : Env) : ITree → Bool
  | .node _ sub cs => (match sub with | .set n _ _ => E.nsKnown n | .id _ => true) && ITree.nsOks E cs
def ITree.nsOks (E : Env) : List ITree → Bool
  | [] => true
  | c :: cs => ITree.nsOk E c && ITree.nsOks E cs
end

mutual
theorem toTree_eq (E : Env) (T : Table) (hw : T.wf) (hp : 1 ≤ E.pageSize) (hperm : ∀ l, (E.keyOrder l).Perm l) :
    ∀ t : ITree, ITree.nsOk E t = true → toTree E T t = .ok (labelTree T t)
  | .node ty sub cs, h => by
    simp only [ITree.nsOk, Bool.and_eq_true] at h
    unfold toTree
    rw [toTreeList_eq E T hw hp hperm cs h.2, mapUUIDs_eq E T hw hp hperm]
    cases sub with
    | id u => simp [labelTree, subjId]
    | set n o r =>
      have : E.nsKnown n = true := h.1
      simp [labelTree, subjId, this]
theorem toTreeList_eq (E : Env) (T : Table) (hw : T.wf) (hp : 1 ≤ E.pageSize) (hperm : ∀ l, (E.keyOrder l).Perm l) :
    ∀ ts : List ITree, ITree.nsOks E ts = true → toTreeList E T ts = .ok (labelTrees T ts)
  | [], _ => by simp [toTreeList, labelTrees]
  | c :: cs, h => by
    simp only [ITree.nsOks, Bool.and_eq_true] at h
    unfold toTreeList
    rw [toTree_eq E T hw hp hperm c h.1, toTreeList_eq E T hw hp hperm cs h.2]
    simp [labelTrees]
end

/-! ## seedOrder -/

theorem seedOrder_perm (seed : Nat) (l : List Id) : (seedOrder seed l).Perm l := by
  unfold seedOrder
  have hrot : (l.drop (seed % (l.length + 1)) ++ l.take (seed % (l.length + 1))).Perm l := by
    have := List.perm_append_comm (l₁ := l.drop (seed % (l.length + 1))) (l₂ := l.take (seed % (l.length + 1)))
    rw [List.take_append_drop] at this
    exact this
  simp only
  split
  · exact (List.reverse_perm _).trans hrot
  · exact hrot

end Mapping
end Keto
