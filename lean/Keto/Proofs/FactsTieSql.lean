/-
  Fact ties (network restriction of raw SQL: C06), kept apart from Keto/Proofs/FactsTie.lean so that only the properties that rely on
  them depend on them: a change to the code that breaks one of these tables breaks the proof obligations of
  those properties, not of every property that imports a fact tie.
-/
import Keto.Generated.Facts

namespace Keto.FactsTie
open Keto.Facts

/-- Every raw SQL statement on `keto_relation_tuples` restricts each occurrence of the
    table to the network id (or, for INSERT, writes the nid column): C06. The verdicts
    are computed by the fact translator from the string literals of the sources. -/
def expectedSqlNid : List (String × String × String) := [
  ("internal/persistence/sql/relationtuples.go", "buildDelete", "nid-predicates:1/tables:1"),
  ("internal/persistence/sql/relationtuples.go", "buildInsert", "insert-writes-nid"),
  ("internal/persistence/sql/traverser.go", "Traverser.TraverseSubjectSetExpansion", "nid-predicates:2/tables:2")
]

theorem sqlNid_tie : (sqlNid == expectedSqlNid) = true := by decide +kernel

end Keto.FactsTie
