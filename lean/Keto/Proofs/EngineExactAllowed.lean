/-
  Exactness of the engine model for ALL configurations, part 3: `checkIsAllowed` (`.isAllowed`) — the
  rewrite of the relation, the direct lookup and the subject-set expansion (`expandRun`); any fault
  oracle; strict mode for conforming stores.  Two-sided: an `isMember` answer yields a `TrN`
  derivation, an answer that is not decisive an engine-shaped refutation `FaE` w.r.t. the visited set.

  Helper lemmas only; the property theorems live in Keto/Props/C01exact.lean.
-/
import Keto.Proofs.EngineExactLoops
import Keto.Proofs.EngineCompleteAllowed

namespace Keto

/-- Outcome of a call that is evaluated while the check is constructed: the thunk is a constant
    and the construction is the run. -/
def EagerX (E : Env) (sub : Subject) (PT : Prop) (PF : List VKey → Prop) (c : Ctx) (w : World)
    (bw : Thunk × World) : Prop :=
  ∃ res, bw.1 = constT res ∧ RunX E sub PT PF c w (res, bw.2)

/-- Outcome of a call that does its work when the thunk is run: the construction leaves every
    existing visited set alone. -/
def LazyX (E : Env) (sub : Subject) (PT : Prop) (PF : List VKey → Prop) (w : World) (bw : Thunk × World) : Prop :=
  Frame none w bw.2 ∧ ThunkX E sub PT PF bw.2.limitHits bw.1

theorem EagerX.runB {E : Env} {sub : Subject} {PT : Prop} {PF : List VKey → Prop} {c : Ctx} {w : World}
    {bw : Thunk × World} (h : EagerX E sub PT PF c w bw) : RunX E sub PT PF c w (runB bw c) := by
  obtain ⟨res, he, hr⟩ := h
  unfold Keto.runB
  rw [he]
  exact hr

theorem EagerX.imp {E : Env} {sub : Subject} {PT PT' : Prop} {PF PF' : List VKey → Prop} {c : Ctx} {w : World}
    {bw : Thunk × World} (h : EagerX E sub PT PF c w bw) (hT : PT → PT') (hF : ∀ V, PF V → PF' V) :
    EagerX E sub PT' PF' c w bw := by
  obtain ⟨res, he, hr⟩ := h
  exact ⟨res, he, hr.imp hT hF⟩

/-! ### refuting a node -/

/-- The `node` rule with heights chosen: the direct tuple is absent, the relation is declared, every
    subject set of the relation is marked or dead, the rewrite (if any) is refuted. -/
theorem faE_node_of {c : Cfg} {T : List Tuple} {V : List VKey} {t : Tuple}
    (hnT : t ∉ T) (hnb : astRelationFor c t.ns t.rel ≠ .bad)
    (hexp : ∀ n o r, (⟨t.ns, t.obj, t.rel, .set n o r⟩ : Tuple) ∈ T →
      (n, o, r) ∈ V ∨ DeadF c T t.sub V (n, o, r))
    (hrw : ∀ R rw, astRelationFor c t.ns t.rel = .rel R → R.rewrite = some rw →
      ∃ k, HFaE c T k V (.rewrite rw.op rw.children) t) : ∃ k, FaE c T k V t := by
  obtain ⟨K1, hK1⟩ := common_height
    (fun K (s : VKey) => s ∈ V ∨ FaE c T K (s :: V) ⟨s.1, s.2.1, s.2.2, t.sub⟩)
    (fun _ _ _ hk hf => hf.elim Or.inl (fun h => Or.inr (h.mono_k hk)))
    (subjectSetsOf T t.ns t.obj t.rel)
    (fun s hs => by
      obtain ⟨n, o, r⟩ := s
      cases hexp n o r (mem_subjectSetsOf hs) with
      | inl h => exact ⟨0, Or.inl h⟩
      | inr h => obtain ⟨k, hk⟩ := h; exact ⟨k, Or.inr hk⟩)
  have hK2 : ∃ K2, ∀ R rw, astRelationFor c t.ns t.rel = .rel R → R.rewrite = some rw →
      HFaE c T K2 V (.rewrite rw.op rw.children) t := by
    cases hL : astRelationFor c t.ns t.rel with
    | bad => exact ⟨0, fun R rw h1 _ => by cases h1⟩
    | none => exact ⟨0, fun R rw h1 _ => by cases h1⟩
    | rel R =>
      cases hR : R.rewrite with
      | none =>
        refine ⟨0, fun R' rw' h1 h2 => ?_⟩
        cases h1
        rw [hR] at h2; cases h2
      | some rw =>
        obtain ⟨K, hK⟩ := hrw R rw hL hR
        refine ⟨K, fun R' rw' h1 h2 => ?_⟩
        cases h1
        rw [hR] at h2; cases h2
        exact hK
  obtain ⟨K2, hK2⟩ := hK2
  refine ⟨max K1 K2 + 1, .node _ _ _ hnT hnb (fun n o r hm hn => ?_) (fun R rw h1 h2 => ?_)⟩
  · cases hK1 (n, o, r) (subjectSetsOf_of_mem hm) with
    | inl h => exact absurd h hn
    | inr h => exact h.mono_k (Nat.le_max_left ..)
  · exact (hK2 R rw h1 h2).mono_k (Nat.le_max_right ..)

/-! ### subject-set expansion -/

/-- "every subject set of the relation is marked in `V` or dead w.r.t. `V`" -/
def FExpand (E : Env) (t : Tuple) (V : List VKey) : Prop :=
  ∀ n o r, (⟨t.ns, t.obj, t.rel, .set n o r⟩ : Tuple) ∈ E.T →
    (n, o, r) ∈ V ∨ DeadF E.cfg E.T t.sub V (n, o, r)

theorem initVisited_extF {E : Env} {sub : Subject} {c : Ctx} {w w' : World}
    (h : ExtF E.cfg E.T sub (vis (initVisited c w).1 (initVisited c w).2) (vis (initVisited c w).1 w')) :
    ExtF E.cfg E.T sub (vis c w) (vis c w') := by
  unfold initVisited at h
  cases hc : c.vref with
  | some r =>
    simp only [hc] at h
    exact h
  | none =>
    rw [vis_of_none hc, vis_of_none hc]
    exact ExtF.refl _ _

theorem expandRun_x (E : Env) (rec : Tuple → Ctx → World → Res × World)
    (t : Tuple) (ctx : Ctx) (w : World) (hv : Valid ctx w)
    (hrec : ∀ n o r, (⟨t.ns, t.obj, t.rel, .set n o r⟩ : Tuple) ∈ E.T → (⟨n, o, r, t.sub⟩ : Tuple) ∉ E.T →
      ∀ c w, Valid c w →
        RunX E t.sub (∃ k, TrN E.cfg E.T k ⟨n, o, r, t.sub⟩) (fun V => ∃ k, FaE E.cfg E.T k V ⟨n, o, r, t.sub⟩)
          c w (rec ⟨n, o, r, t.sub⟩ c w)) :
    RunX E t.sub (∃ k, TrN E.cfg E.T k t) (FExpand E t) ctx w (expandRun E rec t ctx w) := by
  obtain ⟨⟨r0, hr0⟩, hvc, hfr0, hlim0, hvis0, _⟩ := initVisited_spec ctx w hv
  unfold expandRun
  extract_lets cw fw sets over w2 sets' gw
  have hfrw : Frame ctx.vref w fw.2 := (hfr0.trans (Frame.ofCall none E cw.2)).weaken
  split
  · exact RunX.of_err hfrw .storage rfl
  split
  · next hany =>
    refine RunX.of_isM hfrw rfl ?_
    rw [List.any_eq_true] at hany
    obtain ⟨⟨n, o, r⟩, hs, hc⟩ := hany
    exact ⟨2, .expand 1 t n o r (mem_subjectSetsOf hs) (.direct 0 _ (contains_mem hc))⟩
  · next hany =>
    have hnone : ∀ s, s ∈ sets → (⟨s.1, s.2.1, s.2.2, t.sub⟩ : Tuple) ∉ E.T := by
      intro s hs hm
      apply hany
      rw [List.any_eq_true]
      exact ⟨s, hs, by simpa using hm⟩
    have hsub' : ∀ s, s ∈ sets' → s ∈ sets := by
      intro s hs
      simp only [sets'] at hs
      split at hs
      · exact List.mem_of_mem_take hs
      · exact hs
    have hw2h : w2.heap = cw.2.heap := by
      simp only [w2]
      split <;> rfl
    have hv2 : Valid cw.1 w2 := fun r hr => by rw [hw2h]; exact hvc r hr
    have hfr2 : Frame cw.1.vref cw.2 w2 := by
      refine Frame.of_heap_eq hw2h ?_
      simp only [w2]
      split
      · exact Nat.le_succ _
      · exact Nat.le_refl _
    have hloop := expandLoop_x E t.sub rec (∃ k, TrN E.cfg E.T k t) cw.1 r0 hr0 sets' none w2 hv2
      (fun s hs w' hv' => by
        have hs' := hsub' s hs
        obtain ⟨n, o, r⟩ := s
        refine (hrec n o r (mem_subjectSetsOf hs') (hnone _ hs') cw.1 w' hv').imp ?_ (fun _ h => h)
        rintro ⟨k, hk⟩
        exact ⟨k + 1, .expand k t n o r (mem_subjectSetsOf hs') hk⟩)
    have hfr : Frame ctx.vref w gw.2 := initVisited_frame (hfr2.trans hloop.1)
    refine ⟨hfr, fun hm hlim => ?_, fun hnd hlim => ?_⟩
    · exact GInv.gResult (QS.ok _).nm (hloop.2.2.1 hlim GInv.none) hm
    have hgn : gw.1 = none := gResult_nondec (hloop.2.1 GDec.none) hnd
    obtain ⟨_, hext, hall⟩ := hloop.2.2.2 hgn hlim
    have hlim2 : w2.limitHits = 0 := lim_zero_of_frame hloop.1 hlim
    have hover : over = false := by
      cases ho : over with
      | false => rfl
      | true =>
        simp only [w2, ho, if_true] at hlim2
        cases hlim2
    have hsets : sets' = sets := by simp only [sets', hover, Bool.false_eq_true, if_false]
    have hvis2 : vis cw.1 w2 = vis ctx w := by rw [vis_heap_eq hw2h]; exact hvis0
    refine ⟨gResult_memb_of_nondec (hloop.2.1 GDec.none) hnd, ?_, ?_⟩
    · apply initVisited_extF
      have : vis cw.1 cw.2 = vis cw.1 w2 := (vis_heap_eq hw2h).symm
      rw [this]
      exact hext
    · intro n o r hT
      have hin : (n, o, r) ∈ sets' := by rw [hsets]; exact subjectSetsOf_of_mem hT
      rw [hvis2] at hall
      exact hall _ hin

/-! ### `checkIsAllowed` -/

theorem build_isAllowed_x (E : Env) (hs : E.strict = true → conforms E.cfg E.T = true)
    (n : Nat) (t : Tuple) (d : Int) (skip : Bool) (ctx : Ctx) (w : World) (hv : Valid ctx w)
    (hpre : skip = true → t ∉ E.T)
    (hrw : ∀ R rw, astRelationFor E.cfg t.ns t.rel = .rel R → R.rewrite = some rw →
      LazyX E t.sub (∃ k, HTrN E.cfg E.T k (.rewrite rw.op rw.children) t)
        (fun V => ∃ k, HFaE E.cfg E.T k V (.rewrite rw.op rw.children) t) w
        (build E n (.rewrite t rw d) ctx w))
    (hexp : ∀ n' o r, (⟨t.ns, t.obj, t.rel, .set n' o r⟩ : Tuple) ∈ E.T → (⟨n', o, r, t.sub⟩ : Tuple) ∉ E.T →
      ∀ c w, Valid c w →
        EagerX E t.sub (∃ k, TrN E.cfg E.T k ⟨n', o, r, t.sub⟩)
          (fun V => ∃ k, FaE E.cfg E.T k V ⟨n', o, r, t.sub⟩) c w
          (build E n (.isAllowed ⟨n', o, r, t.sub⟩ (d - 1) true) c w)) :
    EagerX E t.sub (∃ k, TrN E.cfg E.T k t) (fun V => ∃ k, FaE E.cfg E.T k V t) ctx w
      (build E (n+1) (.isAllowed t d skip) ctx w) := by
  rw [build]
  split
  · exact ⟨Res.unk, rfl, RunX.of_lim (Frame.ofLim _ w) (by simp)⟩
  · split
    · exact ⟨Res.error .schema, rfl, RunX.of_err (Frame.refl _ _) .schema rfl⟩
    · next lk hlk =>
      extract_lets rel? rw? strict gw1 gw2 canSS er gw3
      refine ⟨gResult gw3.1, rfl, ?_⟩
      show RunX E t.sub _ _ ctx w (gResult gw3.1, gw3.2)
      have hnb : astRelationFor E.cfg t.ns t.rel ≠ .bad := fun h => hlk h
      -- the rewrite
      have hrwq : ∀ rw, rw? = some rw →
          ∃ R, astRelationFor E.cfg t.ns t.rel = .rel R ∧ R.rewrite = some rw := by
        intro rw h
        simp only [rw?, rel?] at h
        split at h
        · next R hR => exact ⟨R, hR, h⟩
        · cases h
      have hrwn : rw? = none → ∀ R rw, astRelationFor E.cfg t.ns t.rel = .rel R → R.rewrite ≠ some rw := by
        intro h R rw hR hrw'
        simp only [rw?, rel?, hR, Option.bind_some] at h
        rw [hrw'] at h
        cases h
      have hstrict : strict = E.strict := rfl
      have hcan : canSS = false → E.strict = true ∧
          ∃ R, astRelationFor E.cfg t.ns t.rel = .rel R ∧ containsSubjectSetExpand R = false := by
        intro h
        cases hst : E.strict with
        | false => simp [canSS, hstrict, hst] at h
        | true =>
          refine ⟨rfl, ?_⟩
          cases hlk2 : astRelationFor E.cfg t.ns t.rel with
          | rel R =>
            simp only [canSS, rel?, hstrict, hlk2, hst] at h
            exact ⟨R, rfl, by simpa using h⟩
          | none => simp [canSS, rel?, hstrict, hlk2, hst] at h
          | bad => simp [canSS, rel?, hstrict, hlk2, hst] at h
      clear_value rw? rel? strict canSS
      have h1 : Frame ctx.vref w gw1.2 ∧ Valid ctx gw1.2 ∧ GDec gw1.1 ∧
          (gw1.2.limitHits = 0 → GInv (QS (∃ k, TrN E.cfg E.T k t)) gw1.1) ∧
          (gw1.1 = none → gw1.2.limitHits = 0 →
            ExtF E.cfg E.T t.sub (vis ctx w) (vis ctx gw1.2) ∧
            ∀ rw, rw? = some rw → ∃ k, HFaE E.cfg E.T k (vis ctx w) (.rewrite rw.op rw.children) t) := by
        simp only [gw1]
        split
        · next rw =>
          obtain ⟨R, hR, hRrw⟩ := hrwq rw rfl
          obtain ⟨hfrb, hth⟩ := hrw R rw hR hRrw
          have hvb : Valid ctx (build E n (.rewrite t rw d) ctx w).2 := hv.frame hfrb
          have hrun := hth ctx _ hvb (Nat.le_refl _)
          have hvisb : vis ctx (build E n (.rewrite t rw d) ctx w).2 = vis ctx w :=
            vis_frame hfrb hv (Or.inr rfl)
          simp only [gAddT]
          refine ⟨hfrb.weaken.trans hrun.frame, hvb.frame hrun.frame, GDec.none.gAdd _, fun hlim => ?_,
            fun hnone hlim => ?_⟩
          · refine GInv.none.gAdd (fun hm => ?_)
            obtain ⟨k, hk⟩ := hrun.pos hm hlim
            exact ⟨k + 1, .rewrite k t R rw hR hRrw hk⟩
          · obtain ⟨_, hd⟩ := gAdd_eq_none hnone
            obtain ⟨_, hext, hneg⟩ := hrun.neg hd hlim
            rw [hvisb] at hext hneg
            refine ⟨hext, fun rw' hrw' => ?_⟩
            cases hrw'
            exact hneg
        · exact ⟨Frame.refl _ _, hv, GDec.none, fun _ => GInv.none,
            fun _ _ => ⟨ExtF.refl _ _, fun rw' hrw' => by cases hrw'⟩⟩
      obtain ⟨hfr1, hv1, hg1, hpos1, hneg1⟩ := h1
      -- the direct lookup
      have h2 : Frame ctx.vref gw1.2 gw2.2 ∧ gw2.2.heap = gw1.2.heap ∧ GDec gw2.1 ∧
          (GInv (QS (∃ k, TrN E.cfg E.T k t)) gw1.1 → GInv (QS (∃ k, TrN E.cfg E.T k t)) gw2.1) ∧
          (gw2.1 = none → gw2.2.limitHits = 0 → gw1.1 = none ∧ t ∉ E.T) := by
        simp only [gw2]
        split
        · have := directStep_ok E t (d - 1) gw1.1 gw1.2 ctx.vref
          exact ⟨this.1, this.2.1, this.2.2.1 hg1,
            fun hg => directStep_inv (QS.ok _) E t (d - 1) gw1.1 gw1.2 (fun hm _ => ⟨1, .direct 0 t hm⟩) hg,
            this.2.2.2⟩
        · next hcond =>
          refine ⟨Frame.refl _ _, rfl, hg1, id, fun h _ => ⟨h, ?_⟩⟩
          cases hsk : skip with
          | true => exact hpre hsk
          | false =>
            rw [hsk, hstrict] at hcond
            cases hst : E.strict with
            | false => rw [hst] at hcond; simp at hcond
            | true =>
              rw [hst] at hcond
              cases hq : rw? with
              | none => rw [hq] at hcond; simp at hcond
              | some rw' =>
                obtain ⟨R, hR, hRrw⟩ := hrwq rw' hq
                intro hm
                have := conforms_no_rewrite (hs hst) hm hR
                rw [this] at hRrw
                cases hRrw
      obtain ⟨hfr2, hheap2, hg2, hpos2, hneg2⟩ := h2
      have hv2 : Valid ctx gw2.2 := hv1.frame hfr2
      -- the expansion
      have h3 : Frame ctx.vref gw2.2 gw3.2 ∧ GDec gw3.1 ∧
          (gw3.2.limitHits = 0 → GInv (QS (∃ k, TrN E.cfg E.T k t)) gw2.1 →
            GInv (QS (∃ k, TrN E.cfg E.T k t)) gw3.1) ∧
          (gw3.1 = none → gw3.2.limitHits = 0 →
            gw2.1 = none ∧ ExtF E.cfg E.T t.sub (vis ctx gw2.2) (vis ctx gw3.2) ∧
            FExpand E t (vis ctx gw2.2)) := by
        simp only [gw3]
        cases hcs : canSS with
        | false =>
          simp only [Bool.false_eq_true, if_false]
          obtain ⟨hst, R, hR, hss⟩ := hcan hcs
          refine ⟨Frame.refl _ _, hg2, fun _ h => h, fun h _ => ⟨h, ExtF.refl _ _, ?_⟩⟩
          intro n' o r hT
          have hr : r = "" := conforms_set_rel (hs hst) hT hR hss
          subst hr
          exact Or.inr ⟨1, faE_empty_rel (hs hst) _ n' o t.sub⟩
        | true =>
        simp only [if_true]
        split
        · exact ⟨Frame.ofLim _ _, hg2, fun _ h => h, fun _ h => by simp at h⟩
        · split
          · next x hx =>
            exact ⟨Frame.refl _ _, by rw [← hx]; exact hg2, fun _ h => by rw [← hx]; exact h,
              fun h => by cases h⟩
          · next hx =>
            have hrun := expandRun_x E
              (fun t' c w' => runB (build E n (.isAllowed t' (d - 1) true) c w') c) t ctx gw2.2 hv2
              (fun n' o r hT hnT c w' hv' => (hexp n' o r hT hnT c w' hv').runB)
            refine ⟨hrun.frame, GDec.none.gAdd _, fun hlim _ => GInv.none.gAdd (fun hm => hrun.pos hm hlim),
              fun hnone hlim => ?_⟩
            have hnone' : gAdd none er.1 = none := hnone
            obtain ⟨_, hd⟩ := gAdd_eq_none hnone'
            obtain ⟨_, hext, hneg⟩ := hrun.neg hd hlim
            exact ⟨hx, hext, hneg⟩
      obtain ⟨hfr3, hg3, hpos3, hneg3⟩ := h3
      clear_value gw1 gw2 gw3
      refine ⟨(hfr1.trans hfr2).trans hfr3, fun hm hlim => ?_, fun hnd hlim => ?_⟩
      · have hlim2 : gw2.2.limitHits = 0 := lim_zero_of_frame hfr3 hlim
        have hlim1 : gw1.2.limitHits = 0 := lim_zero_of_frame hfr2 hlim2
        exact GInv.gResult (QS.ok _).nm (hpos3 hlim (hpos2 (hpos1 hlim1))) hm
      have hgn : gw3.1 = none := gResult_nondec hg3 hnd
      obtain ⟨hgn2, hext3, hnexp⟩ := hneg3 hgn hlim
      have hlim2 : gw2.2.limitHits = 0 := lim_zero_of_frame hfr3 hlim
      obtain ⟨hgn1, hnT⟩ := hneg2 hgn2 hlim2
      have hlim1 : gw1.2.limitHits = 0 := lim_zero_of_frame hfr2 hlim2
      obtain ⟨hext1, hnrw⟩ := hneg1 hgn1 hlim1
      have hvis2 : vis ctx gw2.2 = vis ctx gw1.2 := vis_heap_eq hheap2
      rw [hvis2] at hext3 hnexp
      refine ⟨gResult_memb_of_nondec hg3 hnd, hext1.trans hext3, ?_⟩
      refine faE_node_of hnT hnb (fun n' o r hT => hext1.mem_or_dead (hnexp n' o r hT)) ?_
      intro R rw hR hRrw
      cases hq : rw? with
      | none => exact absurd hRrw (hrwn hq R rw hR)
      | some rw' =>
        obtain ⟨R', hR', hRrw'⟩ := hrwq rw' hq
        rw [hR] at hR'
        cases hR'
        rw [hRrw] at hRrw'
        cases hRrw'
        exact hnrw rw hq

end Keto
