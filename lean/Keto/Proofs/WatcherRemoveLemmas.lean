/-
  Helper lemmas for Keto/Props/C19remove.lean: file removals (legacy and OPL watcher) and
  configuration reloads, over the watcher models Keto/Model/Watcher.lean.
-/
import Keto.Model.Watcher
import Keto.Proofs.WatcherLemmas

namespace Keto.W

/-! ### association lists: `del` -/

theorem get_eq_none_of_not_mem_keys {α} {k : String} {l : List (String × α)} (h : k ∉ keys l) :
    get k l = none := by
  induction l with
  | nil => rfl
  | cons x rest ih =>
    obtain ⟨k', v'⟩ := x
    have h' : ¬ k = k' ∧ k ∉ keys rest := by simpa [keys] using h
    have hk : ¬ k' = k := fun e => h'.1 e.symm
    simp [get, hk, ih h'.2]

/-- Looking up a deleted key finds nothing — provided keys are unique (`del` removes the first entry). -/
theorem get_del_same {α} (k : String) (l : List (String × α)) (h : (keys l).Nodup) :
    get k (del k l) = none := by
  induction l with
  | nil => rfl
  | cons x rest ih =>
    obtain ⟨k', v'⟩ := x
    have h' : k' ∉ keys rest ∧ (keys rest).Nodup := by simpa [keys] using h
    by_cases hk : k' = k
    · subst hk
      simp only [del, beq_self_eq_true, if_true]
      exact get_eq_none_of_not_mem_keys h'.1
    · simp [del, get, hk, ih h'.2]

theorem get_del_other {α} {k k2 : String} (l : List (String × α)) (h : k ≠ k2) :
    get k2 (del k l) = get k2 l := by
  induction l with
  | nil => rfl
  | cons x rest ih =>
    obtain ⟨k', v'⟩ := x
    by_cases h1 : k' = k
    · subst h1
      simp [del, get, h]
    · by_cases h2 : k' = k2
      · subst h2
        simp [del, get, h1]
      · simp [del, get, h1, h2, ih]

/-! ### legacy watcher -/

/-- The legacy watcher's map never holds a path twice. -/
theorem lstep_keys_nodup (parse : Parse) (s : LState) (e : Ev) (h : (keys s).Nodup) :
    (keys (lstep parse s e)).Nodup := by
  cases e with
  | remove p => exact keys_nodup_del p s h
  | change p c =>
    simp only [lstep]
    split
    · exact keys_nodup_put _ _ _ h
    · split <;> exact keys_nodup_put _ _ _ h

theorem lfoldl_keys_nodup (parse : Parse) (s : LState) (es : List Ev) (h : (keys s).Nodup) :
    (keys (es.foldl (lstep parse) s)).Nodup := by
  induction es generalizing s with
  | nil => exact h
  | cons e es ih => exact ih _ (lstep_keys_nodup parse s e h)

theorem lrun_keys_nodup (parse : Parse) (es : List Ev) : (keys (lrun parse es)).Nodup :=
  lfoldl_keys_nodup parse [] es List.nodup_nil

/-- One remove event on path `q`, seen at path `p` (needs unique keys when `q = p`). -/
theorem lvisible_lstep_remove (parse : Parse) (s : LState) (q p : String) (h : (keys s).Nodup) :
    lvisible (lstep parse s (.remove q)) p = if q == p then none else lvisible s p := by
  by_cases hq : q = p
  · subst hq
    simp [lstep, lvisible, get_del_same _ _ h]
  · simp [lstep, lvisible, get_del_other _ hq, hq]

/-- One event of any kind, seen at path `p`: the model does what `sinceStep` says. -/
theorem lvisible_lstep (parse : Parse) (s : LState) (e : Ev) (p : String) (h : (keys s).Nodup) :
    lvisible (lstep parse s e) p = sinceStep parse p (lvisible s p) e := by
  cases e with
  | remove q => rw [lvisible_lstep_remove parse s q p h]; rfl
  | change p' c =>
    rw [lvisible_lstep_change]
    simp only [evValid, sinceStep]
    by_cases hp : p' = p
    · simp only [hp, beq_self_eq_true, if_true]
      cases parse c <;> rfl
    · have hb : (p' == p) = false := by simp [hp]
      simp only [hb]
      rfl

/-- From ANY state with unique keys: what is visible for `p` after a history (removes allowed). -/
theorem lvisible_foldl_since (parse : Parse) (s : LState) (es : List Ev) (p : String)
    (h : (keys s).Nodup) :
    lvisible (es.foldl (lstep parse) s) p = es.foldl (sinceStep parse p) (lvisible s p) := by
  induction es generalizing s with
  | nil => rfl
  | cons e es ih =>
    rw [List.foldl_cons, List.foldl_cons, ih _ (lstep_keys_nodup parse s e h),
      lvisible_lstep parse s e p h]

theorem lastValidSinceRemove_snoc (parse : Parse) (p : String) (es : List Ev) (e : Ev) :
    lastValidSinceRemove parse p (es ++ [e]) = sinceStep parse p (lastValidSinceRemove parse p es) e := by
  simp [lastValidSinceRemove, List.foldl_append]

/-- Without removes the fold is `lastValid` (over whatever was there before). -/
theorem since_foldl_noRemove (parse : Parse) (p : String) (acc : Option (List String)) (es : List Ev)
    (h : noRemove es = true) :
    es.foldl (sinceStep parse p) acc =
      match lastValid parse p es with
      | some nss => some nss
      | none => acc := by
  induction es generalizing acc with
  | nil => rfl
  | cons e es ih =>
    cases e with
    | remove q => simp [noRemove] at h
    | change p' c =>
      simp only [noRemove] at h
      rw [List.foldl_cons, ih _ h, lastValid_cons]
      cases lastValid parse p es with
      | some nss => rfl
      | none =>
        simp only [sinceStep, evValid]
        by_cases hp : (p' == p) = true
        · simp only [hp, if_true]
          cases parse c <;> rfl
        · simp only [hp]
          rfl

/-! ### OPL watcher, single file with removes -/

/-- Single watched file `p`: the file table is empty or holds only `p`, whatever happens to `p`. -/
theorem ofiles_foldl_single (parse : Parse) (p : String) (s : OState) (es : List Ev)
    (hs : s.files = [] ∨ ∃ c0, s.files = [(p, c0)])
    (hes : ∀ e ∈ es, (∃ c, e = Ev.change p c) ∨ e = Ev.remove p) :
    (es.foldl (ostep parse) s).files = [] ∨ ∃ c0, (es.foldl (ostep parse) s).files = [(p, c0)] := by
  induction es generalizing s with
  | nil => exact hs
  | cons e es ih =>
    rw [List.foldl_cons]
    apply ih _ _ (fun e he => hes e (List.mem_cons_of_mem _ he))
    rw [ostep_files]
    rcases hes e List.mem_cons_self with ⟨c, rfl⟩ | rfl
    · right
      exact ⟨c, by rcases hs with h | ⟨c0, h⟩ <;> simp [filesStep, h, put]⟩
    · left
      rcases hs with h | ⟨c0, h⟩ <;> simp [filesStep, h, del]

/-! ### configuration reloads -/

theorem lfoldlC_unrelated (parse : Parse) (s : LState) (es : List CEv) (h : unrelatedOnly es = true) :
    es.foldl (lstepC parse) s = (fileEvents es).foldl (lstep parse) s := by
  induction es generalizing s with
  | nil => rfl
  | cons e es ih =>
    cases e with
    | file e => exact ih _ h
    | reload b =>
      cases b with
      | true => exact ih _ h
      | false => simp [unrelatedOnly] at h

theorem ofoldlC_unrelated (parse : Parse) (s : OState) (es : List CEv) (h : unrelatedOnly es = true) :
    es.foldl (ostepC parse) s = (fileEvents es).foldl (ostep parse) s := by
  induction es generalizing s with
  | nil => rfl
  | cons e es ih =>
    cases e with
    | file e => exact ih _ h
    | reload b =>
      cases b with
      | true => exact ih _ h
      | false => simp [unrelatedOnly] at h

end Keto.W
