/-
  Completeness of the engine model, part 4: `checkIsAllowed` (`.isAllowed`) — the rewrite of the
  relation, the direct lookup and the subject-set expansion (`expandRun`); any fault oracle;
  strict mode for conforming stores.

  Helper lemmas only; the property theorems live in Keto/Props/C01complete.lean.
-/
import Keto.Proofs.EngineCompleteLoops
import Keto.Proofs.EngineCompleteStrict

namespace Keto

/-- Outcome of a call that is evaluated while the check is constructed: the thunk is a constant
    and the construction is the run. -/
def EagerOK (E : Env) (sub : Subject) (P : List VKey → Prop) (c : Ctx) (w : World) (bw : Thunk × World) : Prop :=
  ∃ res, bw.1 = constT res ∧ RunOK E sub P c w (res, bw.2)

/-- Outcome of a call that does its work when the thunk is run: the construction leaves every
    existing visited set alone. -/
def LazyOK (E : Env) (sub : Subject) (P : List VKey → Prop) (w : World) (bw : Thunk × World) : Prop :=
  Frame none w bw.2 ∧ ThunkOK E sub P bw.2.limitHits bw.1

theorem EagerOK.runB {E : Env} {sub : Subject} {P : List VKey → Prop} {c : Ctx} {w : World} {bw : Thunk × World}
    (h : EagerOK E sub P c w bw) : RunOK E sub P c w (runB bw c) := by
  obtain ⟨res, he, hr⟩ := h
  unfold Keto.runB
  rw [he]
  exact hr

theorem RunOK.imp {E : Env} {sub : Subject} {P P' : List VKey → Prop} {c : Ctx} {w : World} {out : Res × World}
    (h : RunOK E sub P c w out) (himp : ∀ V, P' V → P V) : RunOK E sub P' c w out :=
  ⟨h.frame, fun hd hl => ⟨(h.neg hd hl).1, fun hp => (h.neg hd hl).2 (himp _ hp)⟩⟩

theorem EagerOK.imp {E : Env} {sub : Subject} {P P' : List VKey → Prop} {c : Ctx} {w : World} {bw : Thunk × World}
    (h : EagerOK E sub P c w bw) (himp : ∀ V, P' V → P V) : EagerOK E sub P' c w bw := by
  obtain ⟨res, he, hr⟩ := h
  exact ⟨res, he, hr.imp himp⟩

theorem ThunkOK.imp {E : Env} {sub : Subject} {P P' : List VKey → Prop} {lh : Nat} {th : Thunk}
    (h : ThunkOK E sub P lh th) (himp : ∀ V, P' V → P V) : ThunkOK E sub P' lh th :=
  fun c w hv hl => (h c w hv hl).imp himp

theorem ThunkOK.const_lim {E : Env} {sub : Subject} {P : List VKey → Prop} {lh : Nat} (r : Res) (hl : lh ≠ 0) :
    ThunkOK E sub P lh (constT r) :=
  fun _ w _ hw => RunOK.of_lim (Frame.refl _ _) (by show w.limitHits ≠ 0; omega)

theorem ThunkOK.const_dec {E : Env} {sub : Subject} {P : List VKey → Prop} {lh : Nat} (r : Res)
    (hd : r.decisive = true) : ThunkOK E sub P lh (constT r) :=
  fun _ _ _ _ => RunOK.of_decisive (Frame.refl _ _) hd

/-! ### `initVisited` -/

theorem initVisited_frame {c : Ctx} {w w' : World}
    (h : Frame (initVisited c w).1.vref (initVisited c w).2 w') : Frame c.vref w w' := by
  unfold initVisited at h
  cases hc : c.vref with
  | some r =>
    simp only [hc] at h
    exact h
  | none =>
    simp only [hc] at h
    rw [fresh_vref] at h
    exact (fresh_frame w).trans_new h (Nat.le_refl _)

theorem initVisited_ext {E : Env} {sub : Subject} {c : Ctx} {w w' : World}
    (h : Ext E.cfg E.T sub (vis (initVisited c w).1 (initVisited c w).2) (vis (initVisited c w).1 w')) :
    Ext E.cfg E.T sub (vis c w) (vis c w') := by
  unfold initVisited at h
  cases hc : c.vref with
  | some r =>
    simp only [hc] at h
    exact h
  | none =>
    rw [vis_of_none hc, vis_of_none hc]
    exact Ext.refl _ _

/-! ### subject-set expansion -/

/-- "some subject set of the relation, not marked in `V`, has the subject as a member" -/
def PExpand (E : Env) (t : Tuple) (V : List VKey) : Prop :=
  ∃ n o r, (⟨t.ns, t.obj, t.rel, .set n o r⟩ : Tuple) ∈ E.T ∧ (n, o, r) ∉ V ∧
    ∃ k, MemN E.cfg E.T V k ⟨n, o, r, t.sub⟩

theorem expandRun_ok (E : Env) (rec : Tuple → Ctx → World → Res × World)
    (t : Tuple) (ctx : Ctx) (w : World) (hv : Valid ctx w)
    (hrec : ∀ n o r, (⟨t.ns, t.obj, t.rel, .set n o r⟩ : Tuple) ∈ E.T → (⟨n, o, r, t.sub⟩ : Tuple) ∉ E.T →
      ∀ c w, Valid c w →
        RunOK E t.sub (fun V => ∃ k, MemN E.cfg E.T V k ⟨n, o, r, t.sub⟩) c w (rec ⟨n, o, r, t.sub⟩ c w)) :
    RunOK E t.sub (PExpand E t) ctx w (expandRun E rec t ctx w) := by
  obtain ⟨⟨r0, hr0⟩, hvc, hfr0, hlim0, hvis0, _⟩ := initVisited_spec ctx w hv
  unfold expandRun
  extract_lets cw fw sets over w2 sets' gw
  have hfrw : Frame ctx.vref w fw.2 := (hfr0.trans (Frame.ofCall none E cw.2)).weaken
  split
  · exact RunOK.of_decisive hfrw rfl
  split
  · exact RunOK.of_decisive hfrw rfl
  · next hany =>
    have hnone : ∀ s, s ∈ sets → (⟨s.1, s.2.1, s.2.2, t.sub⟩ : Tuple) ∉ E.T := by
      intro s hs hm
      apply hany
      rw [List.any_eq_true]
      exact ⟨s, hs, by simpa using hm⟩
    have hsub' : ∀ s, s ∈ sets' → s ∈ sets := by
      intro s hs
      simp only [sets'] at hs
      split at hs
      · exact List.mem_of_mem_take hs
      · exact hs
    have hw2h : w2.heap = cw.2.heap := by
      simp only [w2]
      split <;> rfl
    have hv2 : Valid cw.1 w2 := fun r hr => by rw [hw2h]; exact hvc r hr
    have hfr2 : Frame cw.1.vref cw.2 w2 := by
      refine Frame.of_heap_eq hw2h ?_
      simp only [w2]
      split
      · exact Nat.le_succ _
      · exact Nat.le_refl _
    have hloop := expandLoop_ok E t.sub rec cw.1 r0 hr0 sets' none w2 hv2
      (fun s hs w' hv' => by
        have hs' := hsub' s hs
        obtain ⟨n, o, r⟩ := s
        exact hrec n o r (mem_subjectSetsOf hs') (hnone _ hs') cw.1 w' hv')
    have hfr : Frame ctx.vref w gw.2 := initVisited_frame (hfr2.trans hloop.1)
    refine ⟨hfr, fun hnd hlim => ?_⟩
    have hgn : gw.1 = none := gResult_nondec (hloop.2.1 GDec.none) hnd
    obtain ⟨_, hext, hall⟩ := hloop.2.2 hgn hlim
    have hlim2 : w2.limitHits = 0 := lim_zero_of_frame hloop.1 hlim
    have hover : over = false := by
      cases ho : over with
      | false => rfl
      | true =>
        simp only [w2, ho, if_true] at hlim2
        cases hlim2
    have hsets : sets' = sets := by simp only [sets', hover, Bool.false_eq_true, if_false]
    have hvis2 : vis cw.1 w2 = vis ctx w := by rw [vis_heap_eq hw2h]; exact hvis0
    constructor
    · apply initVisited_ext
      have : vis cw.1 cw.2 = vis cw.1 w2 := (vis_heap_eq hw2h).symm
      rw [this]
      exact hext
    · rintro ⟨n, o, r, hT, hnin, k, hm⟩
      have hin : (n, o, r) ∈ sets' := by rw [hsets]; exact subjectSetsOf_of_mem hT
      rw [hvis2] at hall
      cases hall _ hin with
      | inl h => exact hnin h
      | inr h => exact h k hm

/-! ### the direct lookup -/

theorem directStep_ok (E : Env) (t : Tuple) (d : Int) (g : Option Res) (w : World)
    (o : Option Nat) :
    Frame o w (directStep E t d g w).2 ∧ (directStep E t d g w).2.heap = w.heap ∧
    (GDec g → GDec (directStep E t d g w).1) ∧
    ((directStep E t d g w).1 = none → (directStep E t d g w).2.limitHits = 0 → g = none ∧ t ∉ E.T) := by
  unfold directStep
  split
  · exact ⟨Frame.ofLim _ _, rfl, id, fun _ h => by simp at h⟩
  · split
    · exact ⟨Frame.refl _ _, rfl, id, fun h => by cases h⟩
    · extract_lets fw
      split
      · exact ⟨Frame.ofCall _ E w, rfl, fun _ x hx => by cases hx; rfl, fun h => by cases h⟩
      refine ⟨Frame.ofCall _ E w, rfl, fun _ => GDec.none.gAdd _, fun h _ => ⟨rfl, ?_⟩⟩
      intro hm
      have hc : E.T.contains t = true := by simpa using hm
      rw [hc] at h
      simp [gAdd, Res.decisive, Res.isM] at h

/-! ### `checkIsAllowed` -/

theorem build_isAllowed_ok (E : Env) (hs : E.strict = true → conforms E.cfg E.T = true)
    (n : Nat) (t : Tuple) (d : Int) (skip : Bool) (ctx : Ctx) (w : World) (hv : Valid ctx w)
    (hpre : skip = true → t ∉ E.T)
    (hrw : ∀ R rw, astRelationFor E.cfg t.ns t.rel = .rel R → R.rewrite = some rw →
      LazyOK E t.sub (fun V => ∃ k, HoldsN E.cfg E.T V k (.rewrite rw.op rw.children) t) w
        (build E n (.rewrite t rw d) ctx w))
    (hexp : ∀ n' o r, (⟨t.ns, t.obj, t.rel, .set n' o r⟩ : Tuple) ∈ E.T → (⟨n', o, r, t.sub⟩ : Tuple) ∉ E.T →
      ∀ c w, Valid c w →
        EagerOK E t.sub (fun V => ∃ k, MemN E.cfg E.T V k ⟨n', o, r, t.sub⟩) c w
          (build E n (.isAllowed ⟨n', o, r, t.sub⟩ (d - 1) true) c w)) :
    EagerOK E t.sub (fun V => ∃ k, MemN E.cfg E.T V k t) ctx w (build E (n+1) (.isAllowed t d skip) ctx w) := by
  rw [build]
  split
  · exact ⟨Res.unk, rfl, RunOK.of_lim (Frame.ofLim _ w) (by simp)⟩
  · split
    · exact ⟨Res.error .schema, rfl, RunOK.of_decisive (Frame.refl _ _) rfl⟩
    · next lk hlk =>
      extract_lets rel? rw? strict gw1 gw2 canSS er gw3
      refine ⟨gResult gw3.1, rfl, ?_⟩
      show RunOK E t.sub _ ctx w (gResult gw3.1, gw3.2)
      -- the rewrite
      have hrwq : ∀ rw, rw? = some rw →
          ∃ R, astRelationFor E.cfg t.ns t.rel = .rel R ∧ R.rewrite = some rw := by
        intro rw h
        simp only [rw?, rel?] at h
        split at h
        · next R hR => exact ⟨R, hR, h⟩
        · cases h
      have hrwn : rw? = none → ∀ R rw, astRelationFor E.cfg t.ns t.rel = .rel R → R.rewrite ≠ some rw := by
        intro h R rw hR hrw'
        simp only [rw?, rel?, hR, Option.bind_some] at h
        rw [hrw'] at h
        cases h
      have hstrict : strict = E.strict := rfl
      have hcan : canSS = false → E.strict = true ∧
          ∃ R, astRelationFor E.cfg t.ns t.rel = .rel R ∧ containsSubjectSetExpand R = false := by
        intro h
        cases hst : E.strict with
        | false => simp [canSS, hstrict, hst] at h
        | true =>
          refine ⟨rfl, ?_⟩
          cases hlk2 : astRelationFor E.cfg t.ns t.rel with
          | rel R =>
            simp only [canSS, rel?, hstrict, hlk2, hst] at h
            exact ⟨R, rfl, by simpa using h⟩
          | none => simp [canSS, rel?, hstrict, hlk2, hst] at h
          | bad => simp [canSS, rel?, hstrict, hlk2, hst] at h
      clear_value rw? rel? strict canSS
      have h1 : Frame ctx.vref w gw1.2 ∧ Valid ctx gw1.2 ∧ GDec gw1.1 ∧
          (gw1.1 = none → gw1.2.limitHits = 0 →
            Ext E.cfg E.T t.sub (vis ctx w) (vis ctx gw1.2) ∧
            ∀ rw, rw? = some rw → ¬ ∃ k, HoldsN E.cfg E.T (vis ctx w) k (.rewrite rw.op rw.children) t) := by
        simp only [gw1]
        split
        · next rw =>
          obtain ⟨R, hR, hRrw⟩ := hrwq rw rfl
          obtain ⟨hfrb, hth⟩ := hrw R rw hR hRrw
          have hvb : Valid ctx (build E n (.rewrite t rw d) ctx w).2 := hv.frame hfrb
          have hrun := hth ctx _ hvb (Nat.le_refl _)
          have hvisb : vis ctx (build E n (.rewrite t rw d) ctx w).2 = vis ctx w :=
            vis_frame hfrb hv (Or.inr rfl)
          simp only [gAddT]
          refine ⟨hfrb.weaken.trans hrun.frame, hvb.frame hrun.frame, GDec.none.gAdd _, fun hnone hlim => ?_⟩
          obtain ⟨_, hd⟩ := gAdd_eq_none hnone
          obtain ⟨hext, hneg⟩ := hrun.neg hd hlim
          rw [hvisb] at hext hneg
          refine ⟨hext, fun rw' hrw' => ?_⟩
          cases hrw'
          exact hneg
        · exact ⟨Frame.refl _ _, hv, GDec.none, fun _ _ => ⟨Ext.refl _ _, fun rw' hrw' => by cases hrw'⟩⟩
      obtain ⟨hfr1, hv1, hg1, hneg1⟩ := h1
      -- the direct lookup
      have h2 : Frame ctx.vref gw1.2 gw2.2 ∧ gw2.2.heap = gw1.2.heap ∧ GDec gw2.1 ∧
          (gw2.1 = none → gw2.2.limitHits = 0 → gw1.1 = none ∧ t ∉ E.T) := by
        simp only [gw2]
        split
        · have := directStep_ok E t (d - 1) gw1.1 gw1.2 ctx.vref
          exact ⟨this.1, this.2.1, this.2.2.1 hg1, this.2.2.2⟩
        · next hcond =>
          refine ⟨Frame.refl _ _, rfl, hg1, fun h _ => ⟨h, ?_⟩⟩
          cases hsk : skip with
          | true => exact hpre hsk
          | false =>
            rw [hsk, hstrict] at hcond
            cases hst : E.strict with
            | false => rw [hst] at hcond; simp at hcond
            | true =>
              rw [hst] at hcond
              cases hq : rw? with
              | none => rw [hq] at hcond; simp at hcond
              | some rw' =>
                obtain ⟨R, hR, hRrw⟩ := hrwq rw' hq
                intro hm
                have := conforms_no_rewrite (hs hst) hm hR
                rw [this] at hRrw
                cases hRrw
      obtain ⟨hfr2, hheap2, hg2, hneg2⟩ := h2
      have hv2 : Valid ctx gw2.2 := hv1.frame hfr2
      -- the expansion
      have h3 : Frame ctx.vref gw2.2 gw3.2 ∧ GDec gw3.1 ∧
          (gw3.1 = none → gw3.2.limitHits = 0 →
            gw2.1 = none ∧ Ext E.cfg E.T t.sub (vis ctx gw2.2) (vis ctx gw3.2) ∧
            ¬ PExpand E t (vis ctx gw2.2)) := by
        simp only [gw3]
        cases hcs : canSS with
        | false =>
          simp only [Bool.false_eq_true, if_false]
          obtain ⟨hst, R, hR, hss⟩ := hcan hcs
          refine ⟨Frame.refl _ _, hg2, fun h _ => ⟨h, Ext.refl _ _, ?_⟩⟩
          rintro ⟨n', o, r, hT, _, k, hm⟩
          have hr : r = "" := conforms_set_rel (hs hst) hT hR hss
          subst hr
          exact conforms_empty_rel (hs hst) _ _ _ _ _ hm
        | true =>
        simp only [if_true]
        split
        · exact ⟨Frame.ofLim _ _, hg2, fun _ h => by simp at h⟩
        · split
          · next x hx =>
            exact ⟨Frame.refl _ _, by rw [← hx]; exact hg2, fun h => by cases h⟩
          · next hx =>
            have hrun := expandRun_ok E
              (fun t' c w' => runB (build E n (.isAllowed t' (d - 1) true) c w') c) t ctx gw2.2 hv2
              (fun n' o r hT hnT c w' hv' => (hexp n' o r hT hnT c w' hv').runB)
            refine ⟨hrun.frame, GDec.none.gAdd _, fun hnone hlim => ?_⟩
            have hnone' : gAdd none er.1 = none := hnone
            obtain ⟨_, hd⟩ := gAdd_eq_none hnone'
            obtain ⟨hext, hneg⟩ := hrun.neg hd hlim
            exact ⟨hx, hext, hneg⟩
      obtain ⟨hfr3, hg3, hneg3⟩ := h3
      clear_value gw1 gw2 gw3
      refine ⟨(hfr1.trans hfr2).trans hfr3, fun hnd hlim => ?_⟩
      have hgn : gw3.1 = none := gResult_nondec hg3 hnd
      obtain ⟨hgn2, hext3, hnexp⟩ := hneg3 hgn hlim
      have hlim2 : gw2.2.limitHits = 0 := lim_zero_of_frame hfr3 hlim
      obtain ⟨hgn1, hnT⟩ := hneg2 hgn2 hlim2
      have hlim1 : gw1.2.limitHits = 0 := lim_zero_of_frame hfr2 hlim2
      obtain ⟨hext1, hnrw⟩ := hneg1 hgn1 hlim1
      have hvis2 : vis ctx gw2.2 = vis ctx gw1.2 := vis_heap_eq hheap2
      rw [hvis2] at hext3 hnexp
      refine ⟨hext1.trans hext3, ?_⟩
      rintro ⟨k, hm⟩
      cases hm with
      | direct _ _ hm' => exact hnT hm'
      | expand _ _ n' o r hT hnin hm' =>
        refine hnexp ⟨n', o, r, hT, ?_, _, hext1.memN rfl hm'⟩
        intro hin
        cases hext1.dead _ hin with
        | inl h => exact hnin h
        | inr h => exact h _ hm'
      | rewrite _ _ R rw hR hRrw hh =>
        cases hq : rw? with
        | none => exact hrwn hq R rw hR hRrw
        | some rw' =>
          obtain ⟨R', hR', hRrw'⟩ := hrwq rw' hq
          rw [hR] at hR'
          cases hR'
          rw [hRrw] at hRrw'
          cases hRrw'
          exact hnrw rw hq ⟨_, hh⟩

end Keto
