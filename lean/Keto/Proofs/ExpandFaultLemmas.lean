/-
  Helper lemmas for C07 (expand): the expand engine under storage faults
  (`Keto.expandF`, Keto/Model/ExpandFault.lean) against the fault-free model `Keto.expand`.

  `FaultOK fails st res resF`: `res` is what the fault-free run answers from the state `st`,
  `resF` what the run under the oracle `fails` answers from the same state;
    * no fault among the calls `st.calls … res.2.calls - 1` the fault-free run issues:
      `resF` is `res` (same answer, same state);
    * a fault among them: `resF` is the error.
  Proved for the two loops under this hypothesis on the recursive call, then for `expand`
  by induction on the fuel.
-/
import Keto.Model.ExpandFault
import Keto.Proofs.ExpandLemmas

namespace Keto

/-- No storage call with an index in `[a, b)` fails. -/
def NoFault (fails : Nat → Bool) (a b : Nat) : Prop := ∀ i, a ≤ i → i < b → fails i = false

/-- Some storage call with an index in `[a, b)` fails. -/
def HasFault (fails : Nat → Bool) (a b : Nat) : Prop := ∃ i, a ≤ i ∧ i < b ∧ fails i = true

theorem noFault_or_hasFault (fails : Nat → Bool) (a b : Nat) : NoFault fails a b ∨ HasFault fails a b := by
  by_cases h : HasFault fails a b
  · exact .inr h
  · refine .inl fun i h1 h2 => ?_
    cases hf : fails i with
    | false => rfl
    | true => exact absurd ⟨i, h1, h2, hf⟩ h

theorem NoFault.not_hasFault {fails : Nat → Bool} {a b : Nat} (h : NoFault fails a b) : ¬ HasFault fails a b := by
  rintro ⟨i, h1, h2, hf⟩
  rw [h i h1 h2] at hf
  cases hf

theorem NoFault.left {fails : Nat → Bool} {a b c : Nat} (h : NoFault fails a c) (hbc : b ≤ c) : NoFault fails a b :=
  fun i h1 h2 => h i h1 (Nat.lt_of_lt_of_le h2 hbc)

theorem NoFault.right {fails : Nat → Bool} {a b c : Nat} (h : NoFault fails a c) (hab : a ≤ b) : NoFault fails b c :=
  fun i h1 h2 => h i (Nat.le_trans hab h1) h2

theorem HasFault.split {fails : Nat → Bool} {a c : Nat} (h : HasFault fails a c) (b : Nat) :
    HasFault fails a b ∨ HasFault fails b c := by
  obtain ⟨i, h1, h2, hf⟩ := h
  by_cases hb : i < b
  · exact .inl ⟨i, h1, hb, hf⟩
  · exact .inr ⟨i, Nat.le_of_not_lt hb, h2, hf⟩

theorem HasFault.empty {fails : Nat → Bool} {a : Nat} (h : HasFault fails a a) : False := by
  obtain ⟨i, h1, h2, _⟩ := h
  omega

/-- A fault in `[a, c)` and none in `[a, b)`: it is in `[b, c)`. -/
theorem HasFault.right {fails : Nat → Bool} {a b c : Nat} (h : HasFault fails a c) (hn : NoFault fails a b) :
    HasFault fails b c := by
  rcases h.split b with h' | h'
  · exact absurd h' hn.not_hasFault
  · exact h'

/-- What the faulty run answers, given what the fault-free run answers from the same state. -/
structure FaultOK (fails : Nat → Bool) (st : XState) (res : Option Tree × XState) (resF : XRes × XState) : Prop where
  ok : NoFault fails st.calls res.2.calls → resF = (.ok res.1, res.2)
  err : HasFault fails st.calls res.2.calls → resF.1 = .err

/-- The hypothesis on the recursive call under which the loops are treated. -/
structure FaultRec (fails : Nat → Bool) (rec : Subject → XState → Option Tree × XState)
    (recF : Subject → XState → XRes × XState) : Prop where
  mono : ∀ s st, st.calls ≤ (rec s st).2.calls
  spec : ∀ s st, FaultOK fails st (rec s st) (recF s st)

/-! ### the storage calls only grow -/

theorem childLoop_calls_le (rec : Subject → XState → Option Tree × XState)
    (hm : ∀ s st, st.calls ≤ (rec s st).2.calls) :
    ∀ (ts : List Tuple) (st : XState), st.calls ≤ (childLoop rec ts st).2.calls
  | [], _ => Nat.le_refl _
  | t :: ts, st => by
    simp only [childLoop]
    exact Nat.le_trans (hm t.sub st) (childLoop_calls_le rec hm ts _)

theorem pageLoop_calls_le (rec : Subject → XState → Option Tree × XState)
    (hm : ∀ s st, st.calls ≤ (rec s st).2.calls) :
    ∀ (ps : List (List Tuple)) (st : XState), st.calls ≤ (pageLoop rec ps st).2.calls
  | [], _ => Nat.le_refl _
  | p :: ps, st => by
    simp only [pageLoop]
    have h1 : st.calls ≤ st.call.calls := Nat.le_succ _
    exact Nat.le_trans h1 (Nat.le_trans (childLoop_calls_le rec hm p st.call) (pageLoop_calls_le rec hm ps _))

theorem expand_calls_le (E : XEnv) (fuel : Nat) (rd : Int) (s : Subject) (st : XState) :
    st.calls ≤ (expand E fuel rd s st).2.calls :=
  (expand_mono E fuel rd s st).calls

/-! ### the rows of a page -/

theorem childLoopF_ok {fails : Nat → Bool} {rec : Subject → XState → Option Tree × XState}
    {recF : Subject → XState → XRes × XState} (h : FaultRec fails rec recF) :
    ∀ (ts : List Tuple) (st : XState), NoFault fails st.calls (childLoop rec ts st).2.calls →
      childLoopF recF ts st = (some (childLoop rec ts st).1, (childLoop rec ts st).2)
  | [], _, _ => rfl
  | t :: ts, st, hn => by
    simp only [childLoop] at hn
    have hm1 := h.mono t.sub st
    have hm2 := childLoop_calls_le rec h.mono ts (rec t.sub st).2
    have e1 := (h.spec t.sub st).ok (hn.left hm2)
    have e2 := childLoopF_ok h ts (rec t.sub st).2 (hn.right hm1)
    simp only [childLoopF, childLoop, e1, e2]

theorem childLoopF_err {fails : Nat → Bool} {rec : Subject → XState → Option Tree × XState}
    {recF : Subject → XState → XRes × XState} (h : FaultRec fails rec recF) :
    ∀ (ts : List Tuple) (st : XState), HasFault fails st.calls (childLoop rec ts st).2.calls →
      (childLoopF recF ts st).1 = none
  | [], _, hf => by
    simp only [childLoop] at hf
    exact hf.empty.elim
  | t :: ts, st, hf => by
    simp only [childLoop] at hf
    rcases noFault_or_hasFault fails st.calls (rec t.sub st).2.calls with h1 | h1
    · have e1 := (h.spec t.sub st).ok h1
      have e2 := childLoopF_err h ts (rec t.sub st).2 (hf.right h1)
      simp only [childLoopF, e1, e2]
    · have e1 := (h.spec t.sub st).err h1
      simp only [childLoopF, e1]

/-! ### the page loop -/

theorem pageLoopF_ok {fails : Nat → Bool} {rec : Subject → XState → Option Tree × XState}
    {recF : Subject → XState → XRes × XState} (h : FaultRec fails rec recF) :
    ∀ (ps : List (List Tuple)) (st : XState), NoFault fails st.calls (pageLoop rec ps st).2.calls →
      pageLoopF fails recF ps st = (some (pageLoop rec ps st).1, (pageLoop rec ps st).2)
  | [], _, _ => rfl
  | p :: ps, st, hn => by
    simp only [pageLoop] at hn
    have hm0 : st.calls ≤ st.call.calls := Nat.le_succ _
    have hm1 := childLoop_calls_le rec h.mono p st.call
    have hm2 := pageLoop_calls_le rec h.mono ps (childLoop rec p st.call).2
    have e0 : fails st.calls = false :=
      hn st.calls (Nat.le_refl _) (Nat.lt_of_lt_of_le (Nat.lt_of_lt_of_le (Nat.lt_succ_self _) hm1) hm2)
    have e1 := childLoopF_ok h p st.call ((hn.right hm0).left hm2)
    have e2 := pageLoopF_ok h ps (childLoop rec p st.call).2 (hn.right (Nat.le_trans hm0 hm1))
    simp only [pageLoopF, pageLoop, e0, e1, e2, Bool.false_eq_true, if_false]

theorem pageLoopF_err {fails : Nat → Bool} {rec : Subject → XState → Option Tree × XState}
    {recF : Subject → XState → XRes × XState} (h : FaultRec fails rec recF) :
    ∀ (ps : List (List Tuple)) (st : XState), HasFault fails st.calls (pageLoop rec ps st).2.calls →
      (pageLoopF fails recF ps st).1 = none
  | [], _, hf => by
    simp only [pageLoop] at hf
    exact hf.empty.elim
  | p :: ps, st, hf => by
    simp only [pageLoop] at hf
    cases e0 : fails st.calls with
    | true => simp only [pageLoopF, e0, if_true]
    | false =>
      have h0 : NoFault fails st.calls st.call.calls := by
        intro i h1 h2
        have : i = st.calls := by
          have : st.call.calls = st.calls + 1 := rfl
          omega
        rw [this]; exact e0
      have hf1 := hf.right h0
      rcases noFault_or_hasFault fails st.call.calls (childLoop rec p st.call).2.calls with h1 | h1
      · have e1 := childLoopF_ok h p st.call h1
        have e2 := pageLoopF_err h ps (childLoop rec p st.call).2 (hf1.right h1)
        simp only [pageLoopF, e0, e1, e2, Bool.false_eq_true, if_false]
      · have e1 := childLoopF_err h p st.call h1
        simp only [pageLoopF, e0, e1, Bool.false_eq_true, if_false]

/-! ### one storage call (the empty and the depth-cut answers) -/

theorem noFault_call {fails : Nat → Bool} {st : XState} {n : Nat} (hn : st.call.calls ≤ n)
    (h : NoFault fails st.calls n) : fails st.calls = false :=
  h st.calls (Nat.le_refl _) (Nat.lt_of_lt_of_le (Nat.lt_succ_self _) hn)

theorem hasFault_call {fails : Nat → Bool} {st : XState} (h : HasFault fails st.calls st.call.calls) :
    fails st.calls = true := by
  obtain ⟨i, h1, h2, hf⟩ := h
  have : i = st.calls := by
    have : st.call.calls = st.calls + 1 := rfl
    omega
  rw [← this]; exact hf

/-! ### buildTreeRecursive -/

theorem expandF_spec (E : XEnv) (fails : Nat → Bool) :
    ∀ (fuel : Nat) (rd : Int) (sub : Subject) (st : XState),
      FaultOK fails st (expand E fuel rd sub st) (expandF E fails fuel rd sub st)
  | 0, _, _, st => by
    simp only [expand, expandF]
    exact ⟨fun _ => rfl, fun hf => (HasFault.empty hf).elim⟩
  | fuel+1, rd, sub, st => by
    have hrec : FaultRec fails (fun s st' => expand E fuel (effDepth rd E.g - 1) s st')
        (fun s st' => expandF E fails fuel (effDepth rd E.g - 1) s st') :=
      ⟨fun s st' => expand_calls_le E fuel _ s st', fun s st' => expandF_spec E fails fuel _ s st'⟩
    cases sub with
    | id u =>
      simp only [expand, expandF]
      exact ⟨fun _ => rfl, fun hf => (HasFault.empty hf).elim⟩
    | set n o r =>
      simp only [expand, expandF]
      split
      · exact ⟨fun _ => rfl, fun hf => (HasFault.empty hf).elim⟩
      · split
        · refine ⟨fun hn => ?_, fun hf => ?_⟩
          · have e0 : fails (st.visit (n, o, r)).calls = false := noFault_call (Nat.le_refl _) hn
            simp only [e0, Bool.false_eq_true, if_false]
          · have e0 : fails (st.visit (n, o, r)).calls = true := hasFault_call hf
            simp only [e0, if_true]
        · split
          · refine ⟨fun hn => ?_, fun hf => ?_⟩
            · have e0 : fails (st.visit (n, o, r)).calls = false := noFault_call (Nat.le_refl _) hn
              simp only [e0, Bool.false_eq_true, if_false]
            · have e0 : fails (st.visit (n, o, r)).calls = true := hasFault_call hf
              simp only [e0, if_true]
          · refine ⟨fun hn => ?_, fun hf => ?_⟩
            · have e1 := pageLoopF_ok hrec
                (pagesOf E.pageSize (rowsOf E.T n o r).length (rowsOf E.T n o r)) (st.visit (n, o, r)) hn
              simp only [e1]
            · have e1 := pageLoopF_err hrec
                (pagesOf E.pageSize (rowsOf E.T n o r).length (rowsOf E.T n o r)) (st.visit (n, o, r)) hf
              simp only [e1]

/-- (a) No fault among the calls the fault-free run issues from this state: the run under
    faults is the fault-free run (same answer, same state). -/
theorem expandF_nofault (E : XEnv) (fails : Nat → Bool) (fuel : Nat) (rd : Int) (s : Subject) (st : XState)
    (h : ∀ i, st.calls ≤ i → i < (expand E fuel rd s st).2.calls → fails i = false) :
    expandF E fails fuel rd s st = (.ok (expand E fuel rd s st).1, (expand E fuel rd s st).2) :=
  (expandF_spec E fails fuel rd s st).ok h

/-- (b) A fault among the calls the fault-free run issues from this state: the run under
    faults answers the error. -/
theorem expandF_fault (E : XEnv) (fails : Nat → Bool) (fuel : Nat) (rd : Int) (s : Subject) (st : XState)
    (h : ∃ i, st.calls ≤ i ∧ i < (expand E fuel rd s st).2.calls ∧ fails i = true) :
    (expandF E fails fuel rd s st).1 = .err :=
  (expandF_spec E fails fuel rd s st).err h

/-- Either of the two: the answer under faults is the error or the fault-free answer. -/
theorem expandF_err_or_ok (E : XEnv) (fails : Nat → Bool) (fuel : Nat) (rd : Int) (s : Subject) (st : XState) :
    (expandF E fails fuel rd s st).1 = .err ∨
      expandF E fails fuel rd s st = (.ok (expand E fuel rd s st).1, (expand E fuel rd s st).2) := by
  rcases noFault_or_hasFault fails st.calls (expand E fuel rd s st).2.calls with h | h
  · exact .inr (expandF_nofault E fails fuel rd s st h)
  · exact .inl (expandF_fault E fails fuel rd s st h)

theorem expandF_err_iff (E : XEnv) (fails : Nat → Bool) (fuel : Nat) (rd : Int) (s : Subject) (st : XState) :
    (expandF E fails fuel rd s st).1 = .err ↔
      ∃ i, st.calls ≤ i ∧ i < (expand E fuel rd s st).2.calls ∧ fails i = true := by
  constructor
  · intro he
    rcases noFault_or_hasFault fails st.calls (expand E fuel rd s st).2.calls with h | h
    · rw [expandF_nofault E fails fuel rd s st h] at he
      cases he
    · exact h
  · exact expandF_fault E fails fuel rd s st

end Keto
