/-
  Exactness of the engine model for ALL configurations, part 4: rewrites (`or` with the union
  shortcut, `and` with a fresh scope per operand), tuple-to-subject-set, `!` (the operand is
  evaluated in a fresh scope: its closed refutation proves `!`, its derivation refutes `!`), and the
  induction on the fuel (`build_exact`): any configuration, any fault oracle, strict mode for
  conforming stores.

  Helper lemmas only; the property theorems live in Keto/Props/C01exact.lean.
-/
import Keto.Proofs.EngineExactAllowed
import Keto.Proofs.EngineCompleteRewrite

namespace Keto

/-- "`t` is a member" (stratified semantics, some height) -/
@[reducible] def TM (E : Env) (t : Tuple) : Prop := ∃ k, TrN E.cfg E.T k t

/-- "`ch` holds for `t`" -/
@[reducible] def TH (E : Env) (t : Tuple) (ch : Child) : Prop := ∃ k, HTrN E.cfg E.T k ch t

/-- "`t` is refuted, assuming the nodes of `V`" (engine-shaped refutation, some height) -/
@[reducible] def FM (E : Env) (t : Tuple) (V : List VKey) : Prop := ∃ k, FaE E.cfg E.T k V t

/-- "`ch` is refuted for `t`, assuming the nodes of `V`" -/
@[reducible] def FH (E : Env) (t : Tuple) (ch : Child) (V : List VKey) : Prop := ∃ k, HFaE E.cfg E.T k V ch t

theorem FM.back (E : Env) (t : Tuple) : FBack E t.sub (FM E t) :=
  fun _ _ hext ⟨_, h⟩ => hext.faE rfl h

theorem FH.back (E : Env) (t : Tuple) (ch : Child) : FBack E t.sub (FH E t ch) :=
  fun _ _ hext ⟨_, h⟩ => hext.hfaE rfl h

/-! ### the union shortcut -/

theorem sc_x (E : Env) (hs : E.strict = true → conforms E.cfg E.T = true) (n : Nat) (t : Tuple) (d : Int)
    (comps : List String) (Q : Prop) (hQ : ∀ r, r ∈ comps → TM E { t with rel := r } → Q)
    (hcomp : ∀ r, r ∈ comps → (⟨t.ns, t.obj, r, t.sub⟩ : Tuple) ∉ E.T → ∀ c w, Valid c w →
      EagerX E t.sub (TM E { t with rel := r }) (FM E { t with rel := r }) c w
        (build E n (.isAllowed { t with rel := r } (d - 1) true) c w)) :
    ThunkX E t.sub Q (fun V => ∀ r, r ∈ comps → FM E { t with rel := r } V) 0
      (fun rctx w' =>
        let fw := w'.call E
        if fw.1 then (Res.error .storage, fw.2) else
        let rels := comps.filter (fun r => !(E.strict && hasRewriteRel E.cfg t.ns r))
        if !rels.isEmpty && E.T.any (fun x => x.ns == t.ns && x.obj == t.obj && x.sub == t.sub && rels.contains x.rel)
        then (Res.isM, fw.2)
        else
          let gw := relLoop
            (fun r c w'' => runB (build E n (.isAllowed { t with rel := r } (d - 1) true) c w'') c)
            comps none rctx fw.2
          (gResult gw.1, gw.2)) := by
  intro c w hv _
  dsimp only
  have hfr0 : Frame c.vref w (w.call E).2 := Frame.ofCall _ E w
  split
  · exact RunX.of_err hfr0 .storage rfl
  split
  · next hcond =>
    refine RunX.of_isM hfr0 rfl ?_
    simp only [Bool.and_eq_true, List.any_eq_true, beq_iff_eq, List.contains_iff_mem,
      List.mem_filter] at hcond
    obtain ⟨_, x, hx, ⟨⟨⟨h1, h2⟩, h3⟩, h4, _⟩⟩ := hcond
    refine hQ x.rel h4 ⟨1, .direct 0 _ ?_⟩
    show (⟨t.ns, t.obj, x.rel, t.sub⟩ : Tuple) ∈ E.T
    rw [← h1, ← h2, ← h3]
    exact hx
  · next hcond =>
    have hnT : ∀ r, r ∈ comps → (⟨t.ns, t.obj, r, t.sub⟩ : Tuple) ∉ E.T := by
      intro r hr hm
      cases hflt : (E.strict && hasRewriteRel E.cfg t.ns r) with
      | true =>
        simp only [Bool.and_eq_true] at hflt
        have hrr := hflt.2
        unfold hasRewriteRel at hrr
        split at hrr
        · next R hR =>
          have := conforms_no_rewrite (hs hflt.1) hm hR
          rw [this] at hrr
          cases hrr
        · cases hrr
      | false =>
        apply hcond
        have hrin : r ∈ comps.filter (fun r => !(E.strict && hasRewriteRel E.cfg t.ns r)) := by
          rw [List.mem_filter]
          exact ⟨hr, by rw [hflt]; rfl⟩
        simp only [Bool.and_eq_true, Bool.not_eq_true', List.isEmpty_eq_false_iff, List.any_eq_true]
        refine ⟨List.ne_nil_of_mem hrin, _, hm, ?_⟩
        simp only [beq_self_eq_true, List.contains_iff_mem]
        exact ⟨⟨⟨trivial, trivial⟩, trivial⟩, hrin⟩
    have hloop := relLoop_x E t.sub
      (fun r c w'' => runB (build E n (.isAllowed { t with rel := r } (d - 1) true) c w'') c) Q
      (fun r => FM E { t with rel := r }) (fun r => FM.back E { t with rel := r }) c comps none (w.call E).2
      (hv.frame hfr0) (fun r hr w' hv' => (hcomp r hr (hnT r hr) c w' hv').runB.imp (hQ r hr) (fun _ h => h))
    refine ⟨hfr0.trans hloop.1, fun hm hlim => ?_, fun hnd hlim => ?_⟩
    · exact GInv.gResult (QS.ok _).nm (hloop.2.2.1 hlim GInv.none) hm
    have hgn := gResult_nondec (hloop.2.1 GDec.none) hnd
    obtain ⟨_, hext, hall⟩ := hloop.2.2.2 hgn hlim
    have hvis : vis c (w.call E).2 = vis c w := vis_heap_eq rfl
    rw [hvis] at hext hall
    exact ⟨gResult_memb_of_nondec (hloop.2.1 GDec.none) hnd, hext, hall⟩

/-! ### `or` -/

theorem build_rewrite_or_x (E : Env) (hs : E.strict = true → conforms E.cfg E.T = true)
    (n : Nat) (t : Tuple) (cs : List Child) (d : Int) (ctx : Ctx) (w : World) (hv : Valid ctx w)
    (hcomp : ∀ r, Child.computed r ∈ cs → (⟨t.ns, t.obj, r, t.sub⟩ : Tuple) ∉ E.T → ∀ c w, Valid c w →
      EagerX E t.sub (TM E { t with rel := r }) (FM E { t with rel := r }) c w
        (build E n (.isAllowed { t with rel := r } (d - 1) true) c w))
    (hch : ∀ ch, ch ∈ cs → ch.isComputed = false → ∀ c w, Valid c w →
      LazyX E t.sub (TH E t ch) (FH E t ch) w (build E n (.child t ch d false) c w)) :
    LazyX E t.sub (TH E t (.rewrite .or cs)) (FH E t (.rewrite .or cs)) w
      (build E (n+1) (.rewrite t ⟨.or, cs⟩ d) ctx w) := by
  rw [build]
  split
  · exact ⟨Frame.ofLim _ _, ThunkX.const_lim _ (by simp)⟩
  · extract_lets isOr comps rest rels sc bw ths
    have hcomps : comps = computedRels cs := rfl
    have hrest : rest = cs.filter (fun c => !c.isComputed) := rfl
    have hths : ths = bw.1 := rfl
    show LazyX E t.sub _ _ w (orRun (sc ++ ths), bw.2)
    have hb := buildChildren_ok (fun ch c w' => build E n (Call.child t ch d false) c w') false
      (fun ch lh th => ThunkX E t.sub (TH E t (.rewrite .or cs)) (FH E t ch) lh th)
      (fun _ _ _ _ h hl => h.mono hl) ctx rest w hv
      (fun ch hm w' hv' => by
        simp only [Bool.false_eq_true, if_false]
        rw [hrest, List.mem_filter] at hm
        obtain ⟨hfr, hth⟩ := hch ch hm.1 (by simpa using hm.2) ctx w' hv'
        refine ⟨hfr, hth.imp ?_ (fun _ h => h)⟩
        rintro ⟨k, hk⟩
        exact ⟨k + 1, .or k t cs ch hm.1 hk⟩)
    refine ⟨hb.1, ?_⟩
    intro c w' hv' hl
    show RunX E t.sub _ _ c w' (orRun (sc ++ ths) c w')
    let Psc : List VKey → Prop := fun V => ∀ r, r ∈ comps → FM E { t with rel := r } V
    have hPsc : FBack E t.sub Psc := fun _ _ hext h r hr => FM.back E { t with rel := r } _ _ hext (h r hr)
    have hsc : All2 (fun P th => ThunkX E t.sub (TH E t (.rewrite .or cs)) P bw.2.limitHits th ∧ FBack E t.sub P)
        (if comps.isEmpty then [] else [Psc]) sc := by
      simp only [sc]
      cases hce : comps.isEmpty with
      | true => exact .nil
      | false =>
        simp only [Bool.false_eq_true, if_false]
        refine .cons ⟨?_, hPsc⟩ .nil
        refine (sc_x E hs n t d comps _ ?_ ?_).mono (Nat.zero_le _)
        · rintro r hr ⟨k, hk⟩
          exact ⟨k + 2, .or (k+1) t cs (.computed r) (mem_computedRels (hcomps ▸ hr)) (.computed k t r hk)⟩
        · intro r hr
          exact hcomp r (mem_computedRels (hcomps ▸ hr))
    have hall := All2.append hsc (All2.map_left (FH E t)
      (hb.2.mono (fun ch th h => (⟨h, FH.back E t ch⟩ :
        ThunkX E t.sub (TH E t (.rewrite .or cs)) (FH E t ch) bw.2.limitHits th ∧ FBack E t.sub (FH E t ch)))))
    have hor := orRun_x E t.sub bw.2.limitHits (TH E t (.rewrite .or cs)) (ths := sc ++ ths) hall c w' hv' hl
    refine ⟨hor.frame, hor.pos, fun hnd hlim => ?_⟩
    obtain ⟨hnm, hext, hno⟩ := hor.neg hnd hlim
    refine ⟨hnm, hext, ?_⟩
    obtain ⟨K, hK⟩ := common_height (fun K (ch : Child) => HFaE E.cfg E.T K (vis c w') ch t)
      (fun _ _ _ hk hf => hf.mono_k hk) cs (fun ch hm => by
        cases hic : ch.isComputed with
        | false =>
          refine hno (FH E t ch) (List.mem_append_right _ (List.mem_map.2 ⟨ch, ?_, rfl⟩))
          rw [hrest, List.mem_filter]
          exact ⟨hm, by simp [hic]⟩
        | true =>
          obtain ⟨r, rfl⟩ := isComputed_eq_true hic
          have hr : r ∈ comps := hcomps ▸ computedRels_of_mem hm
          have hce : comps.isEmpty = false := by
            cases hcc : comps with
            | nil => rw [hcc] at hr; cases hr
            | cons _ _ => rfl
          obtain ⟨k, hk⟩ := hno Psc (List.mem_append_left _ (by simp [hce])) r hr
          exact ⟨k + 1, .computed k _ t r hk⟩)
    exact ⟨K + 1, .or K _ t cs hK⟩

/-! ### `and` -/

theorem build_rewrite_and_x (E : Env) (n : Nat) (t : Tuple) (cs : List Child) (d : Int) (ctx : Ctx) (w : World)
    (hv : Valid ctx w)
    (hch : ∀ ch, ch ∈ cs → ∀ c w, Valid c w →
      (ch.isComputed = true → EagerX E t.sub (TH E t ch) (FH E t ch) c w (build E n (.child t ch d false) c w)) ∧
      (ch.isComputed = false → LazyX E t.sub (TH E t ch) (FH E t ch) w (build E n (.child t ch d false) c w))) :
    LazyX E t.sub (TH E t (.rewrite .and cs)) (FH E t (.rewrite .and cs)) w
      (build E (n+1) (.rewrite t ⟨.and, cs⟩ d) ctx w) := by
  rw [build]
  split
  · exact ⟨Frame.ofLim _ _, ThunkX.const_lim _ (by simp)⟩
  · extract_lets isOr comps rest rels sc bw ths
    have hsc : sc = [] := rfl
    have hrest : rest = cs := rfl
    have hths : ths = bw.1.map withFresh := rfl
    show LazyX E t.sub _ _ w (andRun (sc ++ ths), bw.2)
    rw [hsc, List.nil_append, hths]
    have hb := buildChildren_ok (fun ch c w' => build E n (Call.child t ch d false) c w') true
      (fun ch lh th => ThunkX0 (TH E t ch) (FH E t ch []) lh (withFresh th)) (fun _ _ _ _ h hl => h.mono hl)
      ctx rest w hv
      (fun ch hm w' hv' => by
        simp only [if_true]
        rw [hrest] at hm
        have h := hch ch hm (fresh w').1 (fresh w').2 (fresh_valid w')
        cases hic : ch.isComputed with
        | true =>
          obtain ⟨res, he, hr⟩ := h.1 hic
          have hfr : Frame none w' (build E n (Call.child t ch d false) (fresh w').1 (fresh w').2).2 := by
            have := hr.frame
            rw [fresh_vref] at this
            exact (fresh_frame w').trans_new this (Nat.le_refl _)
          refine ⟨hfr, ?_⟩
          rw [he]
          exact ThunkX0.of_const hr
        | false =>
          obtain ⟨hfr, hth⟩ := h.2 hic
          exact ⟨(fresh_frame w').trans hfr, hth.withFresh⟩)
    refine ⟨hb.1, ?_⟩
    have hall : All2 (fun (P : Prop × Prop) th => ThunkX0 P.1 P.2 bw.2.limitHits th)
        (rest.map (fun ch => (TH E t ch, FH E t ch []))) (bw.1.map withFresh) :=
      All2.map_left (fun ch => (TH E t ch, FH E t ch []))
        (hb.2.imp (R' := fun ch th => ThunkX0 (TH E t ch) (FH E t ch []) bw.2.limitHits th)
          (f := withFresh) (fun _ _ h => h))
    intro c w' hv' hl
    show RunX E t.sub _ _ c w' (andRun (bw.1.map withFresh) c w')
    unfold andRun
    split
    · next hemp =>
      refine ⟨Frame.refl _ _, fun h => (by cases h), fun _ _ => ⟨rfl, ExtF.refl _ _, ?_⟩⟩
      have h1 : bw.1.map withFresh = [] := by simpa using hemp
      have h2 := hall.nil_iff.1 h1
      have h3 : cs = [] := by rw [← hrest]; simpa using h2
      rw [h3]
      exact ⟨1, .andNil 0 _ t⟩
    · next hemp =>
      have hand := andLoop_x bw.2.limitHits hall c w' hl
      refine ⟨hand.1.weaken, fun hm hlim => ?_, fun hnd hlim => ?_⟩
      · have hne : cs ≠ [] := by
          intro hnil
          apply hemp
          have : bw.1.map withFresh = [] := hall.nil_iff.2 (by rw [hrest, hnil]; rfl)
          rw [this]; rfl
        obtain ⟨K, hK⟩ := common_height (fun K (ch : Child) => HTrN E.cfg E.T K ch t)
          (fun _ _ _ hk hf => hf.mono_k hk) cs (fun ch hmem =>
            hand.2.1 hm hlim (TH E t ch, FH E t ch []) (List.mem_map.2 ⟨ch, hrest ▸ hmem, rfl⟩))
        exact ⟨K + 1, .and K t cs hne hK⟩
      · have hvis : vis c (andLoop (bw.1.map withFresh) c w').2 = vis c w' := vis_frame hand.1 hv' (Or.inr rfl)
        rw [hvis]
        obtain ⟨hnm, P, hP, hn⟩ := hand.2.2 hnd hlim
        refine ⟨hnm, ExtF.refl _ _, ?_⟩
        obtain ⟨ch, hm, rfl⟩ := List.mem_map.1 hP
        rw [hrest] at hm
        obtain ⟨k, hk⟩ := hn
        exact ⟨k + 1, .and k _ t cs ch hm (hk.mono_V (fun _ hx => by cases hx))⟩

/-! ### tuple-to-subject-set -/

theorem build_child_ttu_x (E : Env) (n : Nat) (t : Tuple) (rel crel : String)
    (d : Int) (inv : Bool) (ctx : Ctx) (w : World)
    (h : ∀ n' o r, (⟨t.ns, t.obj, rel, .set n' o r⟩ : Tuple) ∈ E.T → ∀ c w, Valid c w →
      EagerX E t.sub (TM E ⟨n', o, crel, t.sub⟩) (FM E ⟨n', o, crel, t.sub⟩) c w
        (build E n (.isAllowed ⟨n', o, crel, t.sub⟩ (d - 1) false) c w)) :
    LazyX E t.sub (TH E t (.ttu rel crel)) (FH E t (.ttu rel crel)) w
      (build E (n+1) (.child t (.ttu rel crel) d inv) ctx w) := by
  rw [build]
  dsimp only
  split
  · exact ⟨Frame.ofLim _ _, ThunkX.const_lim _ (by simp)⟩
  · refine ⟨Frame.refl _ _, ?_⟩
    intro c w' hv' _
    dsimp only
    have hloop := ttuPages_x E t.sub
      (fun s c w'' => runB (build E n (.isAllowed ⟨s.1, s.2.1, crel, t.sub⟩ (d - 1) false) c w'') c)
      (TH E t (.ttu rel crel))
      (fun s => FM E ⟨s.1, s.2.1, crel, t.sub⟩) (fun s => FM.back E ⟨s.1, s.2.1, crel, t.sub⟩) c
      (pagesOf E.pageSize (rowsOf E.T t.ns t.obj rel).length (rowsOf E.T t.ns t.obj rel)) none w' hv'
      (fun p hp x hx n' o r hsx w'' hv'' => by
        obtain ⟨hxT, h1, h2, h3⟩ := mem_rowsOf (mem_pagesOf _ _ _ _ hp x hx)
        have hT : (⟨t.ns, t.obj, rel, .set n' o r⟩ : Tuple) ∈ E.T := by
          rw [← h1, ← h2, ← h3, ← hsx]
          exact hxT
        refine (h n' o r hT c w'' hv'').runB.imp ?_ (fun _ h => h)
        rintro ⟨k, hk⟩
        exact ⟨k + 1, .ttu k t rel crel n' o r hT hk⟩)
    refine ⟨hloop.1, fun hm hlim => ?_, fun hnd hlim => ?_⟩
    · exact GInv.gResult (QS.ok _).nm (hloop.2.2.1 hlim GInv.none) hm
    have hgn := gResult_nondec (hloop.2.1 GDec.none) hnd
    obtain ⟨_, hext, hall⟩ := hloop.2.2.2 hgn hlim
    refine ⟨gResult_memb_of_nondec (hloop.2.1 GDec.none) hnd, hext, ?_⟩
    obtain ⟨K, hK⟩ := common_height
      (fun K (s : VKey) => FaE E.cfg E.T K (vis c w') ⟨s.1, s.2.1, crel, t.sub⟩)
      (fun _ _ _ hk hf => hf.mono_k hk) (subjectSetsOf E.T t.ns t.obj rel) (fun s hs => by
        obtain ⟨n', o, r⟩ := s
        have hT := mem_subjectSetsOf hs
        obtain ⟨p, hp, hx⟩ := pagesOf_cover E.pageSize (rowsOf E.T t.ns t.obj rel).length _ _
          (rowsOf_of_mem hT rfl rfl rfl)
        exact hall p hp _ hx n' o r rfl)
    exact ⟨K + 1, .ttu K _ t rel crel (fun n' o r hm => hK (n', o, r) (subjectSetsOf_of_mem hm))⟩

/-! ### `!` -/

theorem invertRes_isMember {r : Res} (h : (invertRes r).memb = .isMember) : r.decisive = false := by
  obtain ⟨m, e⟩ := r
  cases m <;> cases e <;> simp [invertRes, Res.decisive] at h ⊢

/-- A result of `!` that is not decisive: the operand was a member, or its result was not decisive
    and not `notMember` either. -/
theorem invertRes_nondec {r : Res} (h : (invertRes r).decisive = false) :
    (r.memb = .isMember ∧ (invertRes r).memb = .notMember) ∨ (r.decisive = false ∧ r.memb ≠ .notMember) := by
  obtain ⟨m, e⟩ := r
  cases m <;> cases e <;> simp [invertRes, Res.decisive] at h ⊢

theorem build_invert_x (E : Env) (n : Nat) (t : Tuple) (ch : Child) (d : Int) (ctx : Ctx) (w : World)
    (hch : ∀ c w, Valid c w →
      (ch.isComputed = true → EagerX E t.sub (TH E t ch) (FH E t ch) c w (build E n (.child t ch d true) c w)) ∧
      (ch.isComputed = false → LazyX E t.sub (TH E t ch) (FH E t ch) w (build E n (.child t ch d true) c w))) :
    LazyX E t.sub (TH E t (.invert ch)) (FH E t (.invert ch)) w (build E (n+1) (.invert t ch d) ctx w) := by
  rw [build]
  split
  · exact ⟨Frame.ofLim _ _, ThunkX.const_lim _ (by simp)⟩
  · extract_lets cw bw
    -- the operand, built in a fresh scope and run in a fresh scope
    have h0 : Frame none w bw.2 ∧ ThunkX0 (TH E t ch) (FH E t ch []) bw.2.limitHits (withFresh bw.1) := by
      have h := hch (fresh w).1 (fresh w).2 (fresh_valid w)
      cases hic : ch.isComputed with
      | true =>
        obtain ⟨res, he, hr⟩ := h.1 hic
        have hfr : Frame none w bw.2 := by
          have := hr.frame
          rw [fresh_vref] at this
          exact (fresh_frame w).trans_new this (Nat.le_refl _)
        refine ⟨hfr, ?_⟩
        have he' : bw.1 = constT res := he
        rw [he']
        exact ThunkX0.of_const hr
      | false =>
        obtain ⟨hfr, hth⟩ := h.2 hic
        exact ⟨(fresh_frame w).trans hfr, hth.withFresh⟩
    refine ⟨h0.1, ?_⟩
    intro c w' hv' hl
    have hr := h0.2 c w' hl
    show RunX E t.sub _ _ c w' (invertRes (withFresh bw.1 c w').1, (withFresh bw.1 c w').2)
    refine ⟨hr.1.weaken, fun hm hlim => ?_, fun hnd hlim => ?_⟩
    · obtain ⟨_, k, hk⟩ := hr.2.2 (invertRes_isMember hm) hlim
      exact ⟨k + 2, .invert (k+1) t ch hk.toHFaN⟩
    · have hvis : vis c (withFresh bw.1 c w').2 = vis c w' := vis_frame hr.1 hv' (Or.inr rfl)
      rw [hvis]
      cases invertRes_nondec hnd with
      | inl h1 =>
        obtain ⟨k, hk⟩ := hr.2.1 h1.1 hlim
        exact ⟨h1.2, ExtF.refl _ _, k + 1, .invert k _ t ch hk⟩
      | inr h1 => exact absurd (hr.2.2 h1.1 hlim).1 h1.2

/-! ### the induction -/

/-- What an `isMember` answer of the call claims (stratified semantics). -/
def Call.PT (E : Env) : Call → Prop
  | .isAllowed t _ _ => TM E t
  | .rewrite t rw _ => TH E t (.rewrite rw.op rw.children)
  | .child t ch _ _ => TH E t ch
  | .invert t c _ => TH E t (.invert c)

/-- What an answer of the call that is not decisive claims: a refutation that may assume `V`. -/
def Call.PF (E : Env) : Call → List VKey → Prop
  | .isAllowed t _ _ => FM E t
  | .rewrite t rw _ => FH E t (.rewrite rw.op rw.children)
  | .child t ch _ _ => FH E t ch
  | .invert t c _ => FH E t (.invert c)

structure BuildX (E : Env) (call : Call) (ctx : Ctx) (w : World) (bw : Thunk × World) : Prop where
  eager : call.eager = true → EagerX E call.sub (call.PT E) (call.PF E) ctx w bw
  lazy : call.eager = false → LazyX E call.sub (call.PT E) (call.PF E) w bw

theorem eager_child_false {t : Tuple} {ch : Child} {d : Int} {inv : Bool} (h : ch.isComputed = false) :
    (Call.child t ch d inv).eager = false := by
  cases ch with
  | computed _ => cases h
  | ttu _ _ => rfl
  | rewrite _ _ => rfl
  | invert _ => rfl

/-- Exactness invariant of the engine model (every configuration, `!` included; non-strict mode, or
    strict mode with a conforming store; any fault oracle): see `RunX`, `EagerX`, `LazyX`. -/
theorem build_exact (E : Env) (hs : E.strict = true → conforms E.cfg E.T = true) :
    ∀ (fuel : Nat) (call : Call) (ctx : Ctx) (w : World), call.Pre E → Valid ctx w →
      BuildX E call ctx w (build E fuel call ctx w) := by
  intro fuel
  induction fuel with
  | zero =>
    intro call ctx w _ _
    rw [build]
    exact ⟨fun _ => ⟨_, rfl, RunX.of_err (Frame.refl _ _) .diverged rfl⟩,
      fun _ => ⟨Frame.refl _ _, ThunkX.const_err .diverged⟩⟩
  | succ n ih =>
    intro call ctx w hpre hv
    cases call with
    | isAllowed t d skip =>
      refine ⟨fun _ => ?_, fun h => by simp [Call.eager] at h⟩
      refine build_isAllowed_x E hs n t d skip ctx w hv hpre ?_ ?_
      · intro R rw hR hrw
        exact (ih (.rewrite t rw d) ctx w trivial hv).lazy rfl
      · intro n' o r _ hnT c w' hv'
        exact (ih (.isAllowed ⟨n', o, r, t.sub⟩ (d - 1) true) c w' (fun _ => hnT) hv').eager rfl
    | rewrite t rw d =>
      obtain ⟨op, cs⟩ := rw
      refine ⟨fun h => by simp [Call.eager] at h, fun _ => ?_⟩
      have hcomp : ∀ r, (⟨t.ns, t.obj, r, t.sub⟩ : Tuple) ∉ E.T → ∀ c w, Valid c w →
          EagerX E t.sub (TM E { t with rel := r }) (FM E { t with rel := r }) c w
            (build E n (.isAllowed { t with rel := r } (d - 1) true) c w) :=
        fun r hnT c w' hv' => (ih (.isAllowed { t with rel := r } (d - 1) true) c w' (fun _ => hnT) hv').eager rfl
      cases op with
      | or =>
        refine build_rewrite_or_x E hs n t cs d ctx w hv (fun r _ => hcomp r) ?_
        intro ch hm hic c w' hv'
        exact (ih (.child t ch d false) c w' trivial hv').lazy (eager_child_false hic)
      | and =>
        refine build_rewrite_and_x E n t cs d ctx w hv ?_
        intro ch hm c w' hv'
        have h := ih (.child t ch d false) c w' trivial hv'
        constructor
        · intro hic
          obtain ⟨r, rfl⟩ := isComputed_eq_true hic
          exact h.eager rfl
        · intro hic
          exact h.lazy (eager_child_false hic)
    | child t ch d inv =>
      cases ch with
      | ttu rel crel =>
        refine ⟨fun h => by simp [Call.eager] at h, fun _ => ?_⟩
        refine build_child_ttu_x E n t rel crel d inv ctx w ?_
        intro n' o r _ c w' hv'
        exact (ih (.isAllowed ⟨n', o, crel, t.sub⟩ (d - 1) false) c w' (fun h => by cases h) hv').eager rfl
      | computed rel =>
        refine ⟨fun _ => ?_, fun h => by simp [Call.eager] at h⟩
        rw [build]
        split
        · exact ⟨Res.unk, rfl, RunX.of_lim (Frame.ofLim _ w) (by simp)⟩
        · have h := (ih (.isAllowed { t with rel := rel } (d - 1) false) ctx w (fun h => by cases h) hv).eager rfl
          refine EagerX.imp h ?_ ?_
          · rintro ⟨k, hk⟩
            exact ⟨k + 1, .computed k t rel hk⟩
          · rintro V ⟨k, hk⟩
            exact ⟨k + 1, .computed k V t rel hk⟩
      | rewrite op cs =>
        refine ⟨fun h => by simp [Call.eager] at h, fun _ => ?_⟩
        rw [build]
        exact (ih (.rewrite t ⟨op, cs⟩ (if inv then d else d - 1)) ctx w trivial hv).lazy rfl
      | invert c' =>
        refine ⟨fun h => by simp [Call.eager] at h, fun _ => ?_⟩
        rw [build]
        exact (ih (.invert t c' d) ctx w trivial hv).lazy rfl
    | invert t c' d =>
      refine ⟨fun h => by simp [Call.eager] at h, fun _ => ?_⟩
      refine build_invert_x E n t c' d ctx w ?_
      intro c w' hv'
      have h := ih (.child t c' d true) c w' trivial hv'
      constructor
      · intro hic
        obtain ⟨r, rfl⟩ := isComputed_eq_true hic
        exact h.eager rfl
      · intro hic
        exact h.lazy (eager_child_false hic)

end Keto
