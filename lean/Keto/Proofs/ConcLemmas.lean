/-
  Helper lemmas for C14 (Keto/Props/C14.lean) over the interleaving model
  Keto/Model/Concurrency.lean.
-/
import Keto.Model.Concurrency

namespace Keto.Conc

variable {L : Type}

/-! ### `setFn` -/

theorem setFn_same {β} (f : Nat → β) (k : Nat) (v : β) : setFn f k v k = v := by
  simp [setFn]

theorem setFn_other {β} (f : Nat → β) (k : Nat) (v : β) {i : Nat} (h : i ≠ k) :
    setFn f k v i = f i := by
  simp [setFn, h]

theorem setFn_self {β} (f : Nat → β) (k : Nat) : setFn f k (f k) = f := by
  funext i
  by_cases h : i = k
  · subst h; simp [setFn]
  · simp [setFn, h]

/-! ### `solo` -/

theorem solo_nil (S : Sys L) (k : Nat) (l : L) : solo S [] k l = l := by
  cases k <;> rfl

theorem solo_zero (S : Sys L) (ps : List (Step L)) (l : L) : solo S ps 0 l = l := by
  cases ps <;> rfl

/-- `solo` stops at the end of the program: more turns than steps change nothing. -/
theorem solo_of_length_le (S : Sys L) (ps : List (Step L)) (k : Nat) (l : L)
    (h : ps.length ≤ k) : solo S ps k l = solo S ps ps.length l := by
  induction ps generalizing k l with
  | nil => rw [solo_nil, solo_nil]
  | cons p ps ih =>
    cases k with
    | zero => simp at h
    | succ k =>
      have h' : ps.length ≤ k := by simpa using h
      cases p with
      | loc f => simp only [solo, List.length_cons]; exact ih k _ h'
      | useCell c f => simp only [solo, List.length_cons]; exact ih k _ h'

/-! ### one step -/

/-- A step of another request leaves `r`'s local state alone. -/
theorem stepReq_locals_other (S : Sys L) (s : State L) {q r : Nat} (h : r ≠ q) :
    (stepReq S s q).locals r = s.locals r := by
  unfold stepReq
  split
  · rfl
  · simp [setFn, h]
  · simp [setFn, h]

/-- A step of another request leaves `r`'s program counter alone. -/
theorem stepReq_pcs_other (S : Sys L) (s : State L) {q r : Nat} (h : r ≠ q) :
    (stepReq S s q).pcs r = s.pcs r := by
  unfold stepReq
  split
  · rfl
  · simp [setFn, h]
  · simp [setFn, h]

theorem stepReq_consistent (S : Sys L) (s : State L) (r : Nat) (h : Consistent S s) :
    Consistent S (stepReq S s r) := by
  unfold stepReq
  split
  · exact h
  · exact h
  · rename_i c f _
    intro c' v' hv
    simp only [setFn] at hv
    by_cases hc : c' = c
    · subst hc
      simp only [if_true] at hv
      cases hcell : s.cells c' with
      | none => rw [hcell] at hv; simp at hv; exact hv.symm
      | some w =>
        rw [hcell] at hv
        simp at hv
        rw [← hv]
        exact h c' w hcell
    · simp only [hc, if_false] at hv
      exact h c' v' hv

/-- Under `Consistent`, whoever gets to a cell first, the value used is what the getter creates. -/
theorem cell_getD_of_consistent (S : Sys L) (s : State L) (h : Consistent S s) (c : Cell) :
    (s.cells c).getD (S.create c) = S.create c := by
  cases hcell : s.cells c with
  | none => rfl
  | some w => simp [h c w hcell]

/-- The step of `r` itself, as one `solo` step on the rest of its program. -/
theorem stepReq_self (S : Sys L) (s : State L) (r : Nat) (h : Consistent S s) (k : Nat) :
    solo S ((S.prog r).drop ((stepReq S s r).pcs r)) k ((stepReq S s r).locals r)
      = solo S ((S.prog r).drop (s.pcs r)) (k + 1) (s.locals r) := by
  unfold stepReq
  split
  · rename_i hnone
    have hlen : (S.prog r).length ≤ s.pcs r := List.getElem?_eq_none_iff.mp hnone
    rw [List.drop_eq_nil_of_le hlen, solo_nil, solo_nil]
  · rename_i f hsome
    obtain ⟨hlt, hget⟩ := List.getElem?_eq_some_iff.mp hsome
    rw [List.drop_eq_getElem_cons hlt, hget]
    simp only [setFn_same, solo]
  · rename_i c f hsome
    obtain ⟨hlt, hget⟩ := List.getElem?_eq_some_iff.mp hsome
    rw [List.drop_eq_getElem_cons hlt, hget]
    simp only [setFn_same, solo, cell_getD_of_consistent S s h c]

/-! ### schedules -/

theorem exec_consistent (S : Sys L) (s : State L) (sched : List Nat) (h : Consistent S s) :
    Consistent S (exec S s sched) := by
  induction sched generalizing s with
  | nil => exact h
  | cons q rs ih => exact ih _ (stepReq_consistent S s q h)

/-- Non-interference from ANY consistent state (pcs arbitrary): after the schedule, `r` holds what it
    computes alone with its next `count r` steps. -/
theorem exec_locals_general (S : Sys L) (s : State L) (sched : List Nat) (h : Consistent S s)
    (r : Nat) :
    (exec S s sched).locals r
      = solo S ((S.prog r).drop (s.pcs r)) (sched.count r) (s.locals r) := by
  induction sched generalizing s with
  | nil => simp [exec, solo_zero]
  | cons q rs ih =>
    simp only [exec]
    rw [ih _ (stepReq_consistent S s q h)]
    by_cases hq : r = q
    · subst hq
      rw [List.count_cons_self]
      exact stepReq_self S s r h _
    · have hq' : (q == r) = false := by simp; exact fun e => hq e.symm
      rw [stepReq_pcs_other S s hq, stepReq_locals_other S s hq, List.count_cons, hq']
      simp

/-- Program counters: `r` has executed as many steps as it had turns, capped by its program. -/
theorem exec_pcs_general (S : Sys L) (s : State L) (sched : List Nat) (r : Nat) :
    (exec S s sched).pcs r = min (max (s.pcs r) (S.prog r).length)
      (s.pcs r + sched.count r) := by
  induction sched generalizing s with
  | nil => simp [exec]; omega
  | cons q rs ih =>
    simp only [exec]
    rw [ih]
    by_cases hq : r = q
    · subst hq
      rw [List.count_cons_self]
      unfold stepReq
      split
      · rename_i hnone
        have hlen : (S.prog r).length ≤ s.pcs r := List.getElem?_eq_none_iff.mp hnone
        omega
      · rename_i f hsome
        obtain ⟨hlt, _⟩ := List.getElem?_eq_some_iff.mp hsome
        simp only [setFn_same]
        omega
      · rename_i c f hsome
        obtain ⟨hlt, _⟩ := List.getElem?_eq_some_iff.mp hsome
        simp only [setFn_same]
        omega
    · have hq' : (q == r) = false := by simp; exact fun e => hq e.symm
      rw [stepReq_pcs_other S s hq, List.count_cons, hq']
      simp

/-- Cells a request may touch. -/
def Uses (S : Sys L) (c : Cell) : Prop := ∃ r f, Step.useCell c f ∈ S.prog r

/-- Every cell some program uses is already created (Init ran). -/
def Prewarmed (S : Sys L) (s : State L) : Prop := ∀ c, Uses S c → s.cells c = some (S.create c)

theorem stepReq_cells_prewarmed (S : Sys L) (s : State L) (r : Nat) (h : Prewarmed S s) :
    (stepReq S s r).cells = s.cells := by
  unfold stepReq
  split
  · rfl
  · rfl
  · rename_i c f hsome
    have hmem : Step.useCell c f ∈ S.prog r := List.mem_of_getElem? hsome
    have hc : s.cells c = some (S.create c) := h c ⟨r, f, hmem⟩
    simp only [hc, Option.getD_some]
    rw [← hc]
    exact setFn_self s.cells c

theorem exec_cells_prewarmed (S : Sys L) (s : State L) (sched : List Nat) (h : Prewarmed S s) :
    (exec S s sched).cells = s.cells := by
  induction sched generalizing s with
  | nil => rfl
  | cons q rs ih =>
    simp only [exec]
    have hstep := stepReq_cells_prewarmed S s q h
    have h' : Prewarmed S (stepReq S s q) := by
      intro c hc
      rw [hstep]
      exact h c hc
    rw [ih _ h', hstep]

/-- Without prewarming, a cell only ever goes from absent to what the getter creates. -/
theorem exec_cells_monotone (S : Sys L) (s : State L) (sched : List Nat) (h : Consistent S s)
    (c : Cell) :
    (exec S s sched).cells c = s.cells c ∨
      (s.cells c = none ∧ (exec S s sched).cells c = some (S.create c)) := by
  have hfin := exec_consistent S s sched h
  induction sched generalizing s with
  | nil => exact Or.inl rfl
  | cons q rs ih =>
    simp only [exec] at hfin ⊢
    have hc1 := stepReq_consistent S s q h
    have hstep : (stepReq S s q).cells c = s.cells c ∨
        (s.cells c = none ∧ (stepReq S s q).cells c = some (S.create c)) := by
      unfold stepReq
      split
      · exact Or.inl rfl
      · exact Or.inl rfl
      · rename_i c' f _
        by_cases hcc : c = c'
        · subst hcc
          simp only [setFn_same]
          cases hcell : s.cells c with
          | none => right; simp
          | some w => left; simp
        · left; simp [setFn, hcc]
    rcases ih _ hc1 hfin with h1 | ⟨h1, h2⟩
    · rcases hstep with h3 | ⟨h3, h4⟩
      · left; rw [h1, h3]
      · right; exact ⟨h3, by rw [h1, h4]⟩
    · rcases hstep with h3 | ⟨h3, h4⟩
      · right; exact ⟨by rw [← h3]; exact h1, h2⟩
      · rw [h4] at h1; cases h1

end Keto.Conc
