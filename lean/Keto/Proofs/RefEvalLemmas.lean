/-
  The reference evaluator `refEval` (Keto/Spec/Membership.lean) against the inductive semantics
  `Mem` / `Holds`, positive fragment.

  * Kleene combinators: what a `t` / `f` outcome of `kAny` / `kAll` says about the elements.
  * Soundness (`refEval_sound_aux`): a `t` answer of a call is justified by a derivation.
  * Completeness (`refEval_complete_aux`): the evaluator cuts cycles per *path*; `MemA A k t` /
    `HoldsA A k ch t` are derivations of height `≤ k` in which *no* `Mem` node (root included) has its
    key in `A`.  `memA_holdsA_split` / `memA_root` ("no need to revisit"): a derivation of membership
    in node `s` can be chosen so that below the root nothing goes through `s` again.  An `f` answer
    for a call evaluated under `path` refutes every derivation avoiding the keys of `path`.

  Helper lemmas only; the property theorems live in Keto/Props/C01ref.lean.
-/
import Keto.Model.Engine
import Keto.Spec.Membership
import Keto.Spec.Positive
import Keto.Proofs.EngineSound
import Keto.Proofs.EngineCompleteFrame

namespace Keto

/-! ### Kleene combinators -/

theorem kAny_eq_t : ∀ {xs : List RV}, kAny xs = .t → RV.t ∈ xs
  | [], h => by simp [kAny] at h
  | x :: xs, h => by
    cases x with
    | t => exact List.mem_cons_self ..
    | f =>
      simp only [kAny] at h
      exact List.mem_cons_of_mem _ (kAny_eq_t h)
    | bad =>
      simp only [kAny] at h
      cases hk : kAny xs with
      | t => exact List.mem_cons_of_mem _ (kAny_eq_t hk)
      | f => rw [hk] at h; cases h
      | bad => rw [hk] at h; cases h

theorem kAny_eq_f : ∀ {xs : List RV}, kAny xs = .f → ∀ x, x ∈ xs → x = .f
  | [], _, x, hx => by cases hx
  | y :: ys, h, x, hx => by
    cases y with
    | t => simp [kAny] at h
    | f =>
      simp only [kAny] at h
      cases hx with
      | head => rfl
      | tail _ hx' => exact kAny_eq_f h x hx'
    | bad =>
      simp only [kAny] at h
      cases hk : kAny ys with
      | t => rw [hk] at h; cases h
      | f => rw [hk] at h; cases h
      | bad => rw [hk] at h; cases h

theorem kAll_eq_t : ∀ {xs : List RV}, kAll xs = .t → ∀ x, x ∈ xs → x = .t
  | [], _, x, hx => by cases hx
  | y :: ys, h, x, hx => by
    cases y with
    | f => simp [kAll] at h
    | t =>
      simp only [kAll] at h
      cases hx with
      | head => rfl
      | tail _ hx' => exact kAll_eq_t h x hx'
    | bad =>
      simp only [kAll] at h
      cases hk : kAll ys with
      | t => rw [hk] at h; cases h
      | f => rw [hk] at h; cases h
      | bad => rw [hk] at h; cases h

theorem kAll_eq_f : ∀ {xs : List RV}, kAll xs = .f → RV.f ∈ xs
  | [], h => by simp [kAll] at h
  | x :: xs, h => by
    cases x with
    | f => exact List.mem_cons_self ..
    | t =>
      simp only [kAll] at h
      exact List.mem_cons_of_mem _ (kAll_eq_f h)
    | bad =>
      simp only [kAll] at h
      cases hk : kAll xs with
      | f => exact List.mem_cons_of_mem _ (kAll_eq_f hk)
      | t => rw [hk] at h; cases h
      | bad => rw [hk] at h; cases h

theorem mem_contains {T : List Tuple} {t : Tuple} (h : t ∈ T) : T.contains t = true := by
  simpa using h

/-! ### soundness -/

/-- What a `t` answer of a reference call claims. -/
def RefCall.Spec (c : Cfg) (T : List Tuple) : RefCall → Prop
  | .node t => Mem c T t
  | .child t ch => Child.pos ch = true → Holds c T ch t

theorem refEval_sound_aux {c : Cfg} {T : List Tuple} (hc : Cfg.pos c) : ∀ (fuel : Nat)
    (path : List (VKey × Nat)) (nl : Nat) (call : RefCall),
    refEval c T fuel path nl call = .t → RefCall.Spec c T call := by
  intro fuel
  induction fuel with
  | zero =>
    intro path nl call h
    simp [refEval] at h
  | succ fuel ih =>
    intro path nl call h
    cases call with
    | node t =>
      show Mem c T t
      simp only [refEval] at h
      split at h
      · split at h <;> cases h
      · have hmem := kAny_eq_t h
        rw [List.mem_cons, List.mem_cons] at hmem
        rcases hmem with hd | hrw | hex
        · split at hd
          · next hcont => exact .direct _ (contains_mem hcont)
          · cases hd
        · split at hrw
          · cases hrw
          · cases hrw
          · next R hR =>
            split at hrw
            · cases hrw
            · next rw hrwe =>
              exact .rewrite t R rw hR hrwe (ih _ _ _ hrw.symm (hc _ _ R rw hR hrwe))
        · rw [List.mem_map] at hex
          obtain ⟨⟨n, o, r⟩, hs, he⟩ := hex
          exact .expand t n o r (mem_subjectSetsOf hs) (ih _ _ _ he)
    | child t ch =>
      intro hp
      simp only [refEval] at h
      cases ch with
      | computed rel =>
        simp only at h
        exact .computed t rel (ih _ _ _ h)
      | ttu rel crel =>
        simp only at h
        have hmem := kAny_eq_t h
        rw [List.mem_map] at hmem
        obtain ⟨⟨n, o, r⟩, hs, he⟩ := hmem
        exact .ttu t rel crel n o r (mem_subjectSetsOf hs) (ih _ _ _ he)
      | rewrite op cs =>
        have hpos : Child.posList cs = true := hp
        cases op with
        | or =>
          simp only at h
          have hmem := kAny_eq_t h
          rw [List.mem_map] at hmem
          obtain ⟨ch', hm, he⟩ := hmem
          exact .or t cs ch' hm (ih _ _ _ he (posList_mem hpos hm))
        | and =>
          simp only at h
          split at h
          · cases h
          · next hne =>
            refine .and t cs (fun hnil => hne (by rw [hnil]; rfl)) (fun ch' hm => ?_)
            exact ih _ _ _ (kAll_eq_t h _ (List.mem_map.2 ⟨ch', hm, rfl⟩)) (posList_mem hpos hm)
      | invert ch' => cases hp

/-! ### derivations that avoid a set of node keys at every node -/

mutual
inductive MemA (c : Cfg) (T : List Tuple) (A : List VKey) : Nat → Tuple → Prop where
  | direct (k : Nat) (t : Tuple) : (t.ns, t.obj, t.rel) ∉ A → t ∈ T → MemA c T A (k+1) t
  | expand (k : Nat) (t : Tuple) (n : String) (o : Nat) (r : String) :
      (t.ns, t.obj, t.rel) ∉ A → ⟨t.ns, t.obj, t.rel, .set n o r⟩ ∈ T → MemA c T A k ⟨n, o, r, t.sub⟩ →
      MemA c T A (k+1) t
  | rewrite (k : Nat) (t : Tuple) (R : Relation) (rw : Rewrite) :
      (t.ns, t.obj, t.rel) ∉ A → astRelationFor c t.ns t.rel = .rel R → R.rewrite = some rw →
      HoldsA c T A k (.rewrite rw.op rw.children) t → MemA c T A (k+1) t
inductive HoldsA (c : Cfg) (T : List Tuple) (A : List VKey) : Nat → Child → Tuple → Prop where
  | computed (k : Nat) (t : Tuple) (rel : String) :
      MemA c T A k { t with rel := rel } → HoldsA c T A (k+1) (.computed rel) t
  | ttu (k : Nat) (t : Tuple) (rel crel : String) (n : String) (o : Nat) (r : String) :
      ⟨t.ns, t.obj, rel, .set n o r⟩ ∈ T → MemA c T A k ⟨n, o, crel, t.sub⟩ →
      HoldsA c T A (k+1) (.ttu rel crel) t
  | or (k : Nat) (t : Tuple) (cs : List Child) (ch : Child) :
      ch ∈ cs → HoldsA c T A k ch t → HoldsA c T A (k+1) (.rewrite .or cs) t
  | and (k : Nat) (t : Tuple) (cs : List Child) :
      cs ≠ [] → (∀ ch, ch ∈ cs → HoldsA c T A k ch t) → HoldsA c T A (k+1) (.rewrite .and cs) t
end

variable {c : Cfg} {T : List Tuple}

theorem MemA.key_notin {A : List VKey} {k : Nat} {t : Tuple} (h : MemA c T A k t) :
    (t.ns, t.obj, t.rel) ∉ A := by
  cases h with
  | direct _ _ hk _ => exact hk
  | expand _ _ _ _ _ hk _ _ => exact hk
  | rewrite _ _ _ _ hk _ _ _ => exact hk

/-! #### monotonicity in the height -/

theorem memA_holdsA_succ (A : List VKey) : ∀ k,
    (∀ t, MemA c T A k t → MemA c T A (k+1) t) ∧
    (∀ ch t, HoldsA c T A k ch t → HoldsA c T A (k+1) ch t) := by
  intro k
  induction k with
  | zero =>
    constructor
    · intro t h; cases h
    · intro ch t h; cases h
  | succ k ih =>
    constructor
    · intro t h
      cases h with
      | direct _ _ hk hm => exact .direct _ _ hk hm
      | expand _ _ n o r hk h1 h3 => exact .expand _ _ n o r hk h1 (ih.1 _ h3)
      | rewrite _ _ R rw hk h1 h2 h3 => exact .rewrite _ _ R rw hk h1 h2 (ih.2 _ _ h3)
    · intro ch t h
      cases h with
      | computed _ _ rel h1 => exact .computed _ _ rel (ih.1 _ h1)
      | ttu _ _ rel crel n o r h1 h2 => exact .ttu _ _ rel crel n o r h1 (ih.1 _ h2)
      | or _ _ cs ch hm h1 => exact .or _ _ cs ch hm (ih.2 _ _ h1)
      | and _ _ cs hne hall => exact .and _ _ cs hne (fun ch hm => ih.2 _ _ (hall ch hm))

theorem MemA.mono_k {A : List VKey} {k k' : Nat} {t : Tuple} (h : MemA c T A k t) (hk : k ≤ k') :
    MemA c T A k' t := by
  induction hk with
  | refl => exact h
  | step _ ih => exact (memA_holdsA_succ A _).1 _ ih

theorem HoldsA.mono_k {A : List VKey} {k k' : Nat} {ch : Child} {t : Tuple} (h : HoldsA c T A k ch t)
    (hk : k ≤ k') : HoldsA c T A k' ch t := by
  induction hk with
  | refl => exact h
  | step _ ih => exact (memA_holdsA_succ A _).2 _ _ ih

/-! #### every derivation is one that avoids nothing -/

/-- A common height for finitely many derivations. -/
theorem holdsA_common {A : List VKey} {t : Tuple} : ∀ (cs : List Child),
    (∀ ch, ch ∈ cs → ∃ k, HoldsA c T A k ch t) → ∃ K, ∀ ch, ch ∈ cs → HoldsA c T A K ch t
  | [], _ => ⟨0, fun _ h => by cases h⟩
  | ch :: cs, h => by
    obtain ⟨k1, h1⟩ := h ch (List.mem_cons_self ..)
    obtain ⟨k2, h2⟩ := holdsA_common cs (fun ch' hm => h ch' (List.mem_cons_of_mem _ hm))
    refine ⟨max k1 k2, fun ch' hm => ?_⟩
    cases hm with
    | head => exact h1.mono_k (Nat.le_max_left ..)
    | tail _ hm' => exact (h2 ch' hm').mono_k (Nat.le_max_right ..)

theorem memA_of_mem {t : Tuple} (h : Mem c T t) : ∃ k, MemA c T [] k t := by
  refine Mem.rec (motive_1 := fun t _ => ∃ k, MemA c T [] k t)
    (motive_2 := fun ch t _ => ∃ k, HoldsA c T [] k ch t) ?_ ?_ ?_ ?_ ?_ ?_ ?_ h
  · intro t hm
    exact ⟨1, .direct _ _ (by intro h; cases h) hm⟩
  · intro t n o r h1 _ ih
    obtain ⟨k, hk⟩ := ih
    exact ⟨k+1, .expand _ _ n o r (by intro h; cases h) h1 hk⟩
  · intro t R rw h1 h2 _ ih
    obtain ⟨k, hk⟩ := ih
    exact ⟨k+1, .rewrite _ _ R rw (by intro h; cases h) h1 h2 hk⟩
  · intro t rel _ ih
    obtain ⟨k, hk⟩ := ih
    exact ⟨k+1, .computed _ _ rel hk⟩
  · intro t rel crel n o r h1 _ ih
    obtain ⟨k, hk⟩ := ih
    exact ⟨k+1, .ttu _ _ rel crel n o r h1 hk⟩
  · intro t cs ch hm _ ih
    obtain ⟨k, hk⟩ := ih
    exact ⟨k+1, .or _ _ cs ch hm hk⟩
  · intro t cs hne _ ih
    obtain ⟨K, hK⟩ := holdsA_common cs ih
    exact ⟨K+1, .and _ _ cs hne hK⟩

/-- Conversely (not needed for the evaluator, recorded for the reader: `MemA []` is `Mem`). -/
theorem mem_holds_of_A (A : List VKey) : ∀ k,
    (∀ t, MemA c T A k t → Mem c T t) ∧ (∀ ch t, HoldsA c T A k ch t → Holds c T ch t) := by
  intro k
  induction k with
  | zero =>
    constructor
    · intro t h; cases h
    · intro ch t h; cases h
  | succ k ih =>
    constructor
    · intro t h
      cases h with
      | direct _ _ _ hm => exact .direct _ hm
      | expand _ _ n o r _ h1 h3 => exact .expand _ n o r h1 (ih.1 _ h3)
      | rewrite _ _ R rw _ h1 h2 h3 => exact .rewrite _ R rw h1 h2 (ih.2 _ _ h3)
    · intro ch t h
      cases h with
      | computed _ _ rel h1 => exact .computed _ rel (ih.1 _ h1)
      | ttu _ _ rel crel n o r h1 h2 => exact .ttu _ rel crel n o r h1 (ih.1 _ h2)
      | or _ _ cs ch hm h1 => exact .or _ cs ch hm (ih.2 _ _ h1)
      | and _ _ cs hne hall => exact .and _ cs hne (fun ch hm => ih.2 _ _ (hall ch hm))

/-! #### no need to revisit -/

/-- Either the derivation has no node `s`, or it contains a derivation (not higher) of membership
    in `s`.  The subject is constant along a derivation, so "node `s`" is the tuple `⟨s, sub⟩`. -/
theorem memA_holdsA_split (A : List VKey) (s : VKey) (sub : Subject) : ∀ k,
    (∀ t, t.sub = sub → MemA c T A k t →
      MemA c T (s :: A) k t ∨ ∃ j, j ≤ k ∧ MemA c T A j ⟨s.1, s.2.1, s.2.2, sub⟩) ∧
    (∀ ch t, t.sub = sub → HoldsA c T A k ch t →
      HoldsA c T (s :: A) k ch t ∨ ∃ j, j ≤ k ∧ MemA c T A j ⟨s.1, s.2.1, s.2.2, sub⟩) := by
  intro k
  induction k with
  | zero =>
    constructor
    · intro t _ h; cases h
    · intro ch t _ h; cases h
  | succ k ih =>
    have lift : (∃ j, j ≤ k ∧ MemA c T A j ⟨s.1, s.2.1, s.2.2, sub⟩) →
        ∃ j, j ≤ k + 1 ∧ MemA c T A j ⟨s.1, s.2.1, s.2.2, sub⟩ :=
      fun ⟨j, hj, hm⟩ => ⟨j, Nat.le_succ_of_le hj, hm⟩
    constructor
    · intro t hsub h
      by_cases hs : (t.ns, t.obj, t.rel) = s
      · right
        refine ⟨k + 1, Nat.le_refl _, ?_⟩
        have ht : (⟨s.1, s.2.1, s.2.2, sub⟩ : Tuple) = t := by
          rw [← hs, ← hsub]
        rw [ht]
        exact h
      · have hk' : ∀ {A' : List VKey}, (t.ns, t.obj, t.rel) ∉ A' → (t.ns, t.obj, t.rel) ∉ s :: A' := by
          intro A' hA hin
          cases hin with
          | head => exact hs rfl
          | tail _ hin' => exact hA hin'
        cases h with
        | direct _ _ hk hm => exact Or.inl (.direct _ _ (hk' hk) hm)
        | expand _ _ n o r hk h1 h3 =>
          cases ih.1 ⟨n, o, r, t.sub⟩ hsub h3 with
          | inl h => exact Or.inl (.expand _ _ n o r (hk' hk) h1 h)
          | inr h => exact Or.inr (lift h)
        | rewrite _ _ R rw hk h1 h2 h3 =>
          cases ih.2 _ _ hsub h3 with
          | inl h => exact Or.inl (.rewrite _ _ R rw (hk' hk) h1 h2 h)
          | inr h => exact Or.inr (lift h)
    · intro ch t hsub h
      cases h with
      | computed _ _ rel h1 =>
        cases ih.1 { t with rel := rel } hsub h1 with
        | inl h => exact Or.inl (.computed _ _ rel h)
        | inr h => exact Or.inr (lift h)
      | ttu _ _ rel crel n o r h1 h2 =>
        cases ih.1 ⟨n, o, crel, t.sub⟩ hsub h2 with
        | inl h => exact Or.inl (.ttu _ _ rel crel n o r h1 h)
        | inr h => exact Or.inr (lift h)
      | or _ _ cs ch hm h1 =>
        cases ih.2 _ _ hsub h1 with
        | inl h => exact Or.inl (.or _ _ cs ch hm h)
        | inr h => exact Or.inr (lift h)
      | and _ _ cs hne hall =>
        by_cases hex : ∃ j, j ≤ k ∧ MemA c T A j ⟨s.1, s.2.1, s.2.2, sub⟩
        · exact Or.inr (lift hex)
        · left
          refine .and _ _ cs hne (fun ch hm => ?_)
          cases ih.2 _ _ hsub (hall ch hm) with
          | inl h => exact h
          | inr h => exact absurd h hex

/-- The three ways the root of a derivation of `t` can be justified, with premises avoiding `A`. -/
def RootAlt (c : Cfg) (T : List Tuple) (A : List VKey) (t : Tuple) : Prop :=
  t ∈ T ∨
  (∃ n o r j, (⟨t.ns, t.obj, t.rel, .set n o r⟩ : Tuple) ∈ T ∧ MemA c T A j ⟨n, o, r, t.sub⟩) ∨
  (∃ R rw j, astRelationFor c t.ns t.rel = .rel R ∧ R.rewrite = some rw ∧
    HoldsA c T A j (.rewrite rw.op rw.children) t)

/-- "No need to revisit": membership in a node, avoiding `A`, can be derived by a root rule whose
    premises avoid the node itself too. -/
theorem memA_root (A : List VKey) : ∀ (k : Nat) (t : Tuple),
    MemA c T A k t → RootAlt c T ((t.ns, t.obj, t.rel) :: A) t := by
  intro k
  induction k using Nat.strongRecOn with
  | _ k ih =>
    intro t h
    cases h with
    | direct _ _ _ hm => exact Or.inl hm
    | expand k' _ n o r _ h1 h3 =>
      cases (memA_holdsA_split A (t.ns, t.obj, t.rel) t.sub k').1 ⟨n, o, r, t.sub⟩ rfl h3 with
      | inl h' => exact Or.inr (Or.inl ⟨n, o, r, k', h1, h'⟩)
      | inr h' =>
        obtain ⟨j, hj, hm⟩ := h'
        exact ih j (Nat.lt_succ_of_le hj) t hm
    | rewrite k' _ R rw _ h1 h2 h3 =>
      cases (memA_holdsA_split A (t.ns, t.obj, t.rel) t.sub k').2 _ t rfl h3 with
      | inl h' => exact Or.inr (Or.inr ⟨R, rw, k', h1, h2, h'⟩)
      | inr h' =>
        obtain ⟨j, hj, hm⟩ := h'
        exact ih j (Nat.lt_succ_of_le hj) t hm

/-! ### completeness -/

/-- What an `f` answer of a reference call evaluated under the nodes `A` claims. -/
def RefCall.NSpec (c : Cfg) (T : List Tuple) (A : List VKey) : RefCall → Prop
  | .node t => ∀ k, ¬ MemA c T A k t
  | .child t ch => Child.pos ch = true → ∀ k, ¬ HoldsA c T A k ch t

theorem refEval_complete_aux (hc : Cfg.pos c) : ∀ (fuel : Nat)
    (path : List (VKey × Nat)) (nl : Nat) (call : RefCall),
    refEval c T fuel path nl call = .f → RefCall.NSpec c T (path.map (·.1)) call := by
  intro fuel
  induction fuel with
  | zero =>
    intro path nl call h
    simp [refEval] at h
  | succ fuel ih =>
    intro path nl call h
    cases call with
    | node t =>
      show ∀ k, ¬ MemA c T (path.map (·.1)) k t
      intro k hmem
      simp only [refEval] at h
      split at h
      · next p hfind =>
        have hp := List.mem_of_find?_eq_some hfind
        have hkey := List.find?_some hfind
        simp only [beq_iff_eq] at hkey
        exact hmem.key_notin (List.mem_map.2 ⟨p, hp, hkey⟩)
      · have hall := kAny_eq_f h
        have hroot := memA_root _ k t hmem
        rcases hroot with hd | ⟨n, o, r, j, h1, h2⟩ | ⟨R, rw, j, h1, h2, h3⟩
        · have := hall _ (List.mem_cons_self ..)
          rw [if_pos (mem_contains hd)] at this
          cases this
        · have hin : refEval c T fuel (((t.ns, t.obj, t.rel), nl) :: path) nl (.node ⟨n, o, r, t.sub⟩) = .f :=
            hall _ (List.mem_cons_of_mem _ (List.mem_cons_of_mem _
              (List.mem_map.2 ⟨(n, o, r), subjectSetsOf_of_mem h1, rfl⟩)))
          exact ih _ _ _ hin j h2
        · have hin := hall _ (List.mem_cons_of_mem _ (List.mem_cons_self ..))
          simp only [h1, h2] at hin
          exact ih _ _ _ hin (hc _ _ R rw h1 h2) j h3
    | child t ch =>
      intro hp k hholds
      simp only [refEval] at h
      cases ch with
      | computed rel =>
        simp only at h
        cases hholds with
        | computed k' _ _ hm => exact ih _ _ _ h k' hm
      | ttu rel crel =>
        simp only at h
        have hall := kAny_eq_f h
        cases hholds with
        | ttu k' _ _ _ n o r h1 h2 =>
          have hin : refEval c T fuel path nl (.node ⟨n, o, crel, t.sub⟩) = .f :=
            hall _ (List.mem_map.2 ⟨(n, o, r), subjectSetsOf_of_mem h1, rfl⟩)
          exact ih _ _ _ hin k' h2
      | rewrite op cs =>
        have hpos : Child.posList cs = true := hp
        cases op with
        | or =>
          simp only at h
          have hall := kAny_eq_f h
          cases hholds with
          | or k' _ _ ch' hm h1 =>
            exact ih _ _ _ (hall _ (List.mem_map.2 ⟨ch', hm, rfl⟩)) (posList_mem hpos hm) k' h1
        | and =>
          simp only at h
          cases hholds with
          | and k' _ _ hne hall =>
            split at h
            · next hemp => exact hne (List.isEmpty_iff.1 hemp)
            · have hmem := kAll_eq_f h
              rw [List.mem_map] at hmem
              obtain ⟨ch', hm, he⟩ := hmem
              exact ih _ _ _ he (posList_mem hpos hm) k' (hall ch' hm)
      | invert ch' => cases hp

end Keto
