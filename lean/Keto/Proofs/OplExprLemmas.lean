/-
  C10 helper lemmas: what the parser model does on the tokens of a rendered TypeScript
  expression, atom by atom and level by level.
-/
import Keto.Model.Parser
import Keto.Spec.TSBool

namespace Keto.Opl
open Keto Keto.TS

/-- A token as the parser sees it (positions play no role in parsing). -/
def tk (t : ItemType) (v : List UInt8) : Item := ⟨t, v, 0, 0, .none⟩

def tThis := tk .kwThis b!"this"
def tCtx := tk .kwCtx b!"ctx"
def tDot := tk .opDot b!"."
def tLP := tk .parenLeft b!"("
def tRP := tk .parenRight b!")"
def tLB := tk .bracketLeft b!"["
def tRB := tk .bracketRight b!"]"
def tComma := tk .opComma b!","
def tArrow := tk .opArrow b!"=>"
def tAnd := tk .opAnd b!"&&"
def tOr := tk .opOr b!"||"
def tNot := tk .opNot b!"!"
def tId (v : List UInt8) := tk .identifier v

/-- `.name` or `[name]`. -/
def access (bracket : Bool) (name : Item) : List Item :=
  if bracket then [tLB, name, tRB] else [tDot, name]

/-- The permission checks of the grammar, in their spellings. `name`/`cname` are the
    tokens naming the relations (an identifier after `.`, a string literal inside `[ ]`),
    `v` is the lambda variable of `traverse`. -/
inductive Atom where
  /-- `this.related.R.includes(ctx.subject)` -/
  | includes (bracket : Bool) (name : Item)
  /-- `this.permits.P(ctx)` -/
  | permits (bracket : Bool) (name : Item)
  /-- `this.related.R.traverse((v) => v.permits.P(ctx))` -/
  | traverseP (bracket : Bool) (name : Item) (parenArg : Bool) (v : Item) (cbracket : Bool) (cname : Item)
  /-- `this.related.R.traverse((v) => v.related.S.includes(ctx.subject,),)` -/
  | traverseR (bracket : Bool) (name : Item) (parenArg : Bool) (v : Item) (cbracket : Bool) (cname : Item)
      (comma1 comma2 : Bool)
  deriving Repr, Inhabited

def argToks (parenArg : Bool) (v : Item) : List Item := if parenArg then [tLP, v, tRP] else [v]
def optComma (b : Bool) : List Item := if b then [tComma] else []

def Atom.toks : Atom → List Item
  | .includes b name =>
    [tThis, tDot, tId b!"related"] ++ access b name ++ [tDot, tId b!"includes", tLP, tCtx, tDot, tId b!"subject", tRP]
  | .permits b name => [tThis, tDot, tId b!"permits"] ++ access b name ++ [tLP, tCtx, tRP]
  | .traverseP b name pa v cb cname =>
    [tThis, tDot, tId b!"related"] ++ access b name ++ [tDot, tId b!"traverse", tLP] ++ argToks pa v ++
      [tArrow, v, tDot, tId b!"permits"] ++ access cb cname ++ [tLP, tCtx, tRP, tRP]
  | .traverseR b name pa v cb cname c1 c2 =>
    [tThis, tDot, tId b!"related"] ++ access b name ++ [tDot, tId b!"traverse", tLP] ++ argToks pa v ++
      [tArrow, v, tDot, tId b!"related"] ++ access cb cname ++
      [tDot, tId b!"includes", tLP, tCtx, tDot, tId b!"subject"] ++ optComma c1 ++ [tRP] ++ optComma c2 ++ [tRP]

/-- The leaf of the rewrite the atom denotes. -/
def Atom.leaf : Atom → Child
  | .includes _ name => .computed (bstr name.val)
  | .permits _ name => .computed (bstr name.val)
  | .traverseP _ name _ _ _ cname => .ttu (bstr name.val) (bstr cname.val)
  | .traverseR _ name _ _ _ cname _ _ => .ttu (bstr name.val) (bstr cname.val)

def isName (i : Item) : Prop := i.typ = .identifier ∨ i.typ = .stringLiteral

/-- Side conditions on the tokens: the lambda variable is a real token other than `(`, the
    traversed relation is named by an identifier or a string literal. -/
def Atom.wf : Atom → Prop
  | .includes _ _ => True
  | .permits _ _ => True
  | .traverseP _ _ _ v _ cname => v.typ ≠ .error ∧ v.typ ≠ .parenLeft ∧ isName cname
  | .traverseR _ _ _ v _ cname _ _ => v.typ ≠ .error ∧ v.typ ≠ .parenLeft ∧ isName cname

theorem valIs_self (v : Item) (h : v.typ ≠ .error) : valIs v v.val = true := by
  simp [valIs, h]

@[simp] theorem tk_typ (t : ItemType) (v : List UInt8) : (tk t v).typ = t := rfl
@[simp] theorem tk_val (t : ItemType) (v : List UInt8) : (tk t v).val = v := rfl

theorem valIs_tk (t : ItemType) (v w : List UInt8) : valIs (tk t v) w = (if t == .error then false else v == w) := by
  simp [valIs, tk]

/-- The deferred checks an atom adds (latest first). -/
def Atom.checks (cur : String) : Atom → List TypeCheck
  | .includes _ name => [.curNsHasRelation cur name]
  | .permits _ name => [.curNsHasRelation cur name]
  | .traverseP _ name _ _ _ cname => [.curNsHasRelation cur name, .allTypesHaveRelation cur name (bstr cname.val)]
  | .traverseR _ name _ _ _ cname _ _ => [.curNsHasRelation cur name, .allTypesHaveRelation cur name (bstr cname.val)]

/-- The parser state after an atom was read. -/
def afterAtom (a : Atom) (rest : List Item) (p : P) : P :=
  { p with toks := rest, steps := p.steps + a.toks.length, checks := a.checks p.ns.name ++ p.checks }

/-- Every atom, in every spelling, parses to its leaf, consumes exactly its tokens (one
    `next` per token) and adds its deferred checks. -/
theorem parseAtom_spec (a : Atom) (hw : a.wf) (p : P) (rest : List Item) (hf : p.fatal = false)
    (ht : p.toks = a.toks ++ rest) :
    parsePermissionExpression p = (some a.leaf, afterAtom a rest p) := by
  cases a with
  | includes b name =>
    cases b <;>
      simp [parsePermissionExpression, P.mtch, P.mtchIf, matchLoop, matchPropertyAccess, parseComputedSubjectSet, P.next,
        P.peek, P.addCheck, valIs, cap, lits, hf, ht, Atom.toks, Atom.leaf, Atom.checks, afterAtom, access, tk, tThis, tDot,
        tId, tLP, tRP, tCtx, tLB, tRB, Nat.add_assoc]
  | permits b name =>
    cases b <;>
      simp [parsePermissionExpression, P.mtch, P.mtchIf, matchLoop, matchPropertyAccess, P.next,
        P.peek, P.addCheck, valIs, cap, lits, hf, ht, Atom.toks, Atom.leaf, Atom.checks, afterAtom, access, tk, tThis, tDot,
        tId, tLP, tRP, tCtx, tLB, tRB, Nat.add_assoc]
  | traverseP b name pa v cb cname =>
    obtain ⟨hv1, hv2, hc⟩ := hw
    have hvv := valIs_self v hv1
    have hv2' : (v.typ == ItemType.parenLeft) = false := by simpa using hv2
    have hc' : (cname.typ == ItemType.identifier || cname.typ == ItemType.stringLiteral) = true := by
      rcases hc with h | h <;> simp [h]
    cases b <;> cases pa <;> cases cb <;>
      simp [parsePermissionExpression, parseTupleToSubjectSet, P.mtch, P.mtchIf, matchLoop, matchPropertyAccess, P.next,
        P.peek, P.addCheck, cap, lits, hf, ht, Atom.toks, Atom.leaf, Atom.checks, afterAtom, access, argToks, hvv, hv2', hv2, hv1, hc',
        valIs_tk, tThis, tDot, tId, tLP, tRP, tCtx, tLB, tRB, tArrow, Nat.add_assoc]
  | traverseR b name pa v cb cname c1 c2 =>
    obtain ⟨hv1, hv2, hc⟩ := hw
    have hvv := valIs_self v hv1
    have hv2' : (v.typ == ItemType.parenLeft) = false := by simpa using hv2
    have hc' : (cname.typ == ItemType.identifier || cname.typ == ItemType.stringLiteral) = true := by
      rcases hc with h | h <;> simp [h]
    cases b <;> cases pa <;> cases cb <;> cases c1 <;> cases c2 <;>
      simp [parsePermissionExpression, parseTupleToSubjectSet, P.mtch, P.mtchIf, matchLoop, matchPropertyAccess, P.next,
        P.peek, P.addCheck, optional, matchRest, cap, lits, hf, ht, Atom.toks, Atom.leaf, Atom.checks, afterAtom, access,
        argToks, optComma, hvv, hv2', hv2, hv1, hc', valIs_tk, tThis, tDot, tId, tLP, tRP, tCtx, tLB, tRB, tArrow, tComma,
        Nat.add_assoc]


/-! ### one iteration of the expression loop, by the token at the front -/

def finOk (fin : ItemType) : Prop := fin = .opComma ∨ fin = .parenRight

/-- The state after `tick` and one `next` that consumed the head token. -/
def adv (p : P) (rest : List Item) (k : Nat) : P := { p with toks := rest, steps := p.steps + k }

theorem loop_paren (n : Nat) (fin : ItemType) (depth : Nat) (root : Option Rewrite) (expect : Bool) (p : P)
    (rest : List Item) (hf : p.fatal = false) (ht : p.toks = tLP :: rest) (hd : depth - 1 ≠ 0) :
    exprLoop (n+1) fin depth root expect p =
      match (exprLoop n .parenRight (depth - 1) none true (adv p rest 2)).1 with
      | none => (none, (exprLoop n .parenRight (depth - 1) none true (adv p rest 2)).2)
      | some ch => exprLoop n fin depth (some (addChild root ch.toChild)) false
          (exprLoop n .parenRight (depth - 1) none true (adv p rest 2)).2 := by
  have hd' : (depth - 1 == 0) = false := by simpa using hd
  obtain ⟨toks, nss, ns, errors, fatal, checks, steps, panic⟩ := p
  simp only at hf ht
  subst hf ht
  rw [exprLoop]
  simp [P.tick, P.peek, P.next, tLP, hd', adv, Nat.add_assoc]
  rfl

theorem loop_fin (n : Nat) (fin : ItemType) (depth : Nat) (root : Option Rewrite) (expect : Bool) (p : P)
    (t : Item) (rest : List Item) (hf : p.fatal = false) (ht : p.toks = t :: rest) (h1 : t.typ = fin)
    (h2 : fin ≠ .parenLeft) :
    exprLoop (n+1) fin depth root expect p = (root, adv p rest 2) := by
  have h2' : (fin == ItemType.parenLeft) = false := by simpa using h2
  rw [exprLoop]
  simp [hf, ht, P.tick, P.peek, P.next, h1, h2', adv, Nat.add_assoc]

theorem loop_and (n : Nat) (fin : ItemType) (depth : Nat) (r : Rewrite) (expect : Bool) (p : P)
    (rest : List Item) (hf : p.fatal = false) (ht : p.toks = tAnd :: rest) (hfin : finOk fin) :
    exprLoop (n+1) fin depth (some r) expect p = exprLoop n fin depth (some ⟨.and, [r.toChild]⟩) true (adv p rest 2) := by
  rw [exprLoop]
  rcases hfin with h | h <;> simp [hf, ht, P.tick, P.peek, P.next, tAnd, adv, h, Nat.add_assoc]

theorem loop_or (n : Nat) (fin : ItemType) (depth : Nat) (r : Rewrite) (expect : Bool) (p : P)
    (rest : List Item) (hf : p.fatal = false) (ht : p.toks = tOr :: rest) (hfin : finOk fin) :
    exprLoop (n+1) fin depth (some r) expect p = exprLoop n fin depth (some ⟨.or, [r.toChild]⟩) true (adv p rest 2) := by
  rw [exprLoop]
  rcases hfin with h | h <;> simp [hf, ht, P.tick, P.peek, P.next, tOr, adv, h, Nat.add_assoc]

theorem atom_head (a : Atom) : ∃ tl, a.toks = tThis :: tl := by
  cases a <;> exact ⟨_, rfl⟩

theorem afterAtom_fields (a : Atom) (rest : List Item) (p : P) :
    (afterAtom a rest p).toks = rest ∧ (afterAtom a rest p).fatal = p.fatal ∧ (afterAtom a rest p).errors = p.errors ∧
    (afterAtom a rest p).panic = p.panic ∧ (afterAtom a rest p).ns = p.ns ∧ (afterAtom a rest p).nss = p.nss :=
  ⟨rfl, rfl, rfl, rfl, rfl, rfl⟩

theorem loop_atom (n : Nat) (fin : ItemType) (depth : Nat) (root : Option Rewrite) (p : P) (a : Atom) (hw : a.wf)
    (rest : List Item) (hf : p.fatal = false) (ht : p.toks = a.toks ++ rest) (hfin : finOk fin) :
    exprLoop (n+1) fin depth root true p = exprLoop n fin depth (some (addChild root a.leaf)) true (afterAtom a rest p.tick) := by
  have hspec := parseAtom_spec a hw p.tick rest hf ht
  obtain ⟨tl, htl⟩ := atom_head a
  rw [exprLoop]
  have hpeek : p.tick.peek = tThis := by
    show p.toks.headD brokenItem = tThis
    rw [ht, htl]; rfl
  rcases hfin with h | h <;> simp [hf, hpeek, hspec, tThis, h]

theorem loop_not_atom (n : Nat) (fin : ItemType) (depth : Nat) (root : Option Rewrite) (expect : Bool) (p : P) (a : Atom)
    (hw : a.wf) (rest : List Item) (hf : p.fatal = false) (ht : p.toks = tNot :: (a.toks ++ rest)) (hfin : finOk fin)
    (hd : depth - 1 ≠ 0) :
    exprLoop (n+1) fin depth root expect p =
      exprLoop n fin depth (some (addChild root (.invert a.leaf))) false (afterAtom a rest (adv p (a.toks ++ rest) 2)) := by
  have hd' : (depth - 1 == 0) = false := by simpa using hd
  have hspec := parseAtom_spec a hw (adv p (a.toks ++ rest) 2) rest hf rfl
  obtain ⟨tl, htl⟩ := atom_head a
  rw [exprLoop]
  have hpeek : p.tick.peek = tNot := by
    show p.toks.headD brokenItem = tNot
    rw [ht]; rfl
  have hnext : p.tick.next.2 = adv p (a.toks ++ rest) 2 := by
    simp [P.tick, P.next, ht, adv, Nat.add_assoc]
  have hpeek2 : (adv p (a.toks ++ rest) 2).peek = tThis := by
    show (a.toks ++ rest).headD brokenItem = tThis
    rw [htl]; rfl
  rcases hfin with h | h <;> simp [hf, hpeek, hnext, hpeek2, hspec, tNot, tThis, h, hd']

theorem loop_not_paren (n : Nat) (fin : ItemType) (depth : Nat) (root : Option Rewrite) (expect : Bool) (p : P)
    (rest : List Item) (hf : p.fatal = false) (ht : p.toks = tNot :: tLP :: rest) (hfin : finOk fin)
    (hd : depth - 1 ≠ 0) (hd2 : depth - 1 - 1 ≠ 0) :
    exprLoop (n+1) fin depth root expect p =
      exprLoop n fin depth
        (some (addChild root (.invert (match (exprLoop n .parenRight (depth - 1 - 1) none true (adv p rest 3)).1 with
          | none => nilRewrite
          | some ch => ch.toChild)))) false
        (exprLoop n .parenRight (depth - 1 - 1) none true (adv p rest 3)).2 := by
  have hd' : (depth - 1 == 0) = false := by simpa using hd
  have hd2' : (depth - 1 - 1 == 0) = false := by simpa using hd2
  obtain ⟨toks, nss, ns, errors, fatal, checks, steps, panic⟩ := p
  simp only at hf ht
  subst hf ht
  rw [exprLoop]
  rcases hfin with h | h <;>
    (simp [P.tick, P.peek, P.next, tNot, tLP, adv, h, hd', hd2', Nat.add_assoc]; rfl)


/-! ### the tokens of a rendered expression and what the loop makes of them -/

def itemsOf : Tok Atom → List Item
  | .atom a => a.toks
  | .and => [tAnd]
  | .or => [tOr]
  | .not => [tNot]
  | .lp => [tLP]
  | .rp => [tRP]

/-- The parser tokens of `render e`. -/
def toksOf (e : E Atom) : List Item := (render e).flatMap itemsOf

def wrapT (b : Bool) (e : E Atom) : List Item := if b then tLP :: (toksOf e ++ [tRP]) else toksOf e

theorem toksOf_wrap (b : Bool) (e : E Atom) : (wrap b (render e)).flatMap itemsOf = wrapT b e := by
  cases b <;> simp [wrap, wrapT, toksOf, itemsOf, List.flatMap_append]

theorem toksOf_atom (a : Atom) : toksOf (.atom a) = a.toks := by simp [toksOf, render, itemsOf]
theorem toksOf_group (e : E Atom) : toksOf (.group e) = tLP :: (toksOf e ++ [tRP]) := by
  simp [toksOf, render, itemsOf, List.flatMap_append]
theorem toksOf_not (e : E Atom) : toksOf (.not e) = tNot :: wrapT (decide (prec e < 3)) e := by
  rw [← toksOf_wrap]; simp [toksOf, render, itemsOf]
theorem toksOf_and (l r : E Atom) :
    toksOf (.and l r) = wrapT (decide (prec l < 2)) l ++ tAnd :: wrapT (decide (prec r < 3)) r := by
  rw [← toksOf_wrap, ← toksOf_wrap]; simp [toksOf, render, itemsOf, List.flatMap_append]
theorem toksOf_or (l r : E Atom) :
    toksOf (.or l r) = wrapT (decide (prec l < 1)) l ++ tOr :: wrapT (decide (prec r < 2)) r := by
  rw [← toksOf_wrap, ← toksOf_wrap]; simp [toksOf, render, itemsOf, List.flatMap_append]

/-- Loop iterations `render e` takes at its own level. -/
def iters : E Atom → Nat
  | .atom _ => 1
  | .group _ => 1
  | .not _ => 1
  | .and l r => (if prec l < 2 then 1 else iters l) + 1 + (if prec r < 3 then 1 else iters r)
  | .or l r => (if prec l < 1 then 1 else iters l) + 1 + (if prec r < 2 then 1 else iters r)

/-- Fuel that must be left after the iterations of this level (for the nested levels). -/
def sz : E Atom → Nat
  | .atom _ => 0
  | .group e => iters e + 1 + sz e
  | .not (.atom _) => 0
  | .not (.group x) => iters x + 1 + sz x
  | .not (.not y) => sz (.not y)
  | .not (.and l r) => iters (.and l r) + 1 + sz (.and l r)
  | .not (.or l r) => iters (.or l r) + 1 + sz (.or l r)
  | .and l r =>
    max ((if prec l < 2 then iters l + 1 + sz l else sz l) - ((if prec r < 3 then 1 else iters r) + 1))
        (if prec r < 3 then iters r + 1 + sz r else sz r)
  | .or l r =>
    max ((if prec l < 1 then iters l + 1 + sz l else sz l) - ((if prec r < 2 then 1 else iters r) + 1))
        (if prec r < 2 then iters r + 1 + sz r else sz r)

/-- `render e` stays within nesting depth `depth` (a `(` costs one level, a `!` one more),
    contains no `!!`, and its atoms are well formed. -/
def fits : Nat → E Atom → Prop
  | _, .atom a => a.wf
  | d, .group e => d - 1 ≠ 0 ∧ fits (d - 1) e
  | d, .not (.atom a) => d - 1 ≠ 0 ∧ a.wf
  | d, .not (.group x) => d - 1 ≠ 0 ∧ d - 1 - 1 ≠ 0 ∧ fits (d - 1 - 1) x
  | _, .not (.not _) => False
  | d, .not (.and l r) => d - 1 ≠ 0 ∧ d - 1 - 1 ≠ 0 ∧ fits (d - 1 - 1) (.and l r)
  | d, .not (.or l r) => d - 1 ≠ 0 ∧ d - 1 - 1 ≠ 0 ∧ fits (d - 1 - 1) (.or l r)
  | d, .and l r => (if prec l < 2 then d - 1 ≠ 0 ∧ fits (d - 1) l else fits d l) ∧
                   (if prec r < 3 then d - 1 ≠ 0 ∧ fits (d - 1) r else fits d r)
  | d, .or l r => (if prec l < 1 then d - 1 ≠ 0 ∧ fits (d - 1) l else fits d l) ∧
                  (if prec r < 2 then d - 1 ≠ 0 ∧ fits (d - 1) r else fits d r)

/-- The root the loop holds after reading `render e`, started with `root`. -/
def feedR : Option Rewrite → E Atom → Rewrite
  | root, .atom a => addChild root a.leaf
  | root, .group e => addChild root (feedR none e).toChild
  | root, .not (.atom a) => addChild root (.invert a.leaf)
  | root, .not (.group x) => addChild root (.invert (feedR none x).toChild)
  | root, .not (.not _) => addChild root (.invert nilRewrite)
  | root, .not (.and l r) => addChild root (.invert (feedR none (.and l r)).toChild)
  | root, .not (.or l r) => addChild root (.invert (feedR none (.or l r)).toChild)
  | root, .and l r =>
    let rl := if prec l < 2 then addChild root (feedR none l).toChild else feedR root l
    if prec r < 3 then addChild (some ⟨.and, [rl.toChild]⟩) (feedR none r).toChild
    else feedR (some ⟨.and, [rl.toChild]⟩) r
  | root, .or l r =>
    let rl := if prec l < 1 then addChild root (feedR none l).toChild else feedR root l
    if prec r < 2 then addChild (some ⟨.or, [rl.toChild]⟩) (feedR none r).toChild
    else feedR (some ⟨.or, [rl.toChild]⟩) r

/-- Fields of the parser state the expression loop leaves alone. -/
def Frame (p p' : P) : Prop :=
  p'.fatal = false ∧ p'.errors = p.errors ∧ p'.panic = p.panic ∧ p'.ns = p.ns ∧ p'.nss = p.nss

theorem Frame.trans {p q r : P} (h1 : Frame p q) (h2 : Frame q r) : Frame p r :=
  ⟨h2.1, h2.2.1.trans h1.2.1, h2.2.2.1.trans h1.2.2.1, h2.2.2.2.1.trans h1.2.2.2.1, h2.2.2.2.2.trans h1.2.2.2.2⟩

theorem Frame.adv (p : P) (hf : p.fatal = false) (rest : List Item) (k : Nat) : Frame p (adv p rest k) :=
  ⟨hf, rfl, rfl, rfl, rfl⟩

/-- What the loop does on the tokens of `render e` followed by `tail`. -/
def Spec (e : E Atom) : Prop :=
  ∀ (m : Nat) (fin : ItemType) (depth : Nat) (root : Option Rewrite) (p : P) (tail : List Item),
    finOk fin → fits depth e → sz e ≤ m → p.fatal = false → p.toks = toksOf e ++ tail →
    ∃ (ex : Bool) (p' : P), p'.toks = tail ∧ Frame p p' ∧
      exprLoop (m + iters e) fin depth root true p = exprLoop m fin depth (some (feedR root e)) ex p'

theorem finOk_paren : finOk .parenRight := Or.inr rfl

/-- `( e )` at the front: one iteration of the outer loop. -/
theorem paren_step (e : E Atom) (hs : Spec e) (n : Nat) (fin : ItemType) (depth : Nat) (root : Option Rewrite)
    (expect : Bool) (p : P) (tail : List Item) (hd : depth - 1 ≠ 0) (hfit : fits (depth - 1) e)
    (hn : iters e + 1 + sz e ≤ n) (hf : p.fatal = false) (ht : p.toks = tLP :: (toksOf e ++ tRP :: tail)) :
    ∃ p' : P, p'.toks = tail ∧ Frame p p' ∧
      exprLoop (n+1) fin depth root expect p = exprLoop n fin depth (some (addChild root (feedR none e).toChild)) false p' := by
  obtain ⟨m, rfl⟩ : ∃ m, n = (m + 1) + iters e := ⟨n - iters e - 1, by omega⟩
  obtain ⟨ex, q, hq1, hq2, hq3⟩ := hs (m + 1) .parenRight (depth - 1) none (adv p (toksOf e ++ tRP :: tail) 2) (tRP :: tail)
    finOk_paren hfit (by omega) hf rfl
  have hfin := loop_fin m .parenRight (depth - 1) (some (feedR none e)) ex q tRP tail hq2.1 hq1 rfl (by decide)
  rw [loop_paren _ fin depth root expect p _ hf ht hd, hq3, hfin]
  exact ⟨adv q tail 2, rfl, (Frame.adv p hf _ 2).trans (hq2.trans (Frame.adv q hq2.1 _ 2)), rfl⟩

/-- `!( e )` at the front. -/
theorem not_paren_step (e : E Atom) (hs : Spec e) (n : Nat) (fin : ItemType) (depth : Nat) (root : Option Rewrite)
    (expect : Bool) (p : P) (tail : List Item) (hfin : finOk fin) (hd : depth - 1 ≠ 0) (hd2 : depth - 1 - 1 ≠ 0)
    (hfit : fits (depth - 1 - 1) e) (hn : iters e + 1 + sz e ≤ n) (hf : p.fatal = false)
    (ht : p.toks = tNot :: tLP :: (toksOf e ++ tRP :: tail)) :
    ∃ p' : P, p'.toks = tail ∧ Frame p p' ∧
      exprLoop (n+1) fin depth root expect p =
        exprLoop n fin depth (some (addChild root (.invert (feedR none e).toChild))) false p' := by
  obtain ⟨m, rfl⟩ : ∃ m, n = (m + 1) + iters e := ⟨n - iters e - 1, by omega⟩
  obtain ⟨ex, q, hq1, hq2, hq3⟩ := hs (m + 1) .parenRight (depth - 1 - 1) none (adv p (toksOf e ++ tRP :: tail) 3) (tRP :: tail)
    finOk_paren hfit (by omega) hf rfl
  have hfin' := loop_fin m .parenRight (depth - 1 - 1) (some (feedR none e)) ex q tRP tail hq2.1 hq1 rfl (by decide)
  rw [loop_not_paren _ fin depth root expect p _ hf ht hfin hd hd2, hq3, hfin']
  exact ⟨adv q tail 2, rfl, (Frame.adv p hf _ 3).trans (hq2.trans (Frame.adv q hq2.1 _ 2)), rfl⟩


/-- An operand of a binary operator: in parentheses (`c`) or bare. -/
theorem operand_step (e : E Atom) (hs : Spec e) (c : Prop) [Decidable c] (m : Nat) (fin : ItemType) (depth : Nat)
    (root : Option Rewrite) (p : P) (tail : List Item) (hfin : finOk fin)
    (hfit : if c then depth - 1 ≠ 0 ∧ fits (depth - 1) e else fits depth e)
    (hm : (if c then iters e + 1 + sz e else sz e) ≤ m)
    (hf : p.fatal = false) (ht : p.toks = wrapT (decide c) e ++ tail) :
    ∃ (ex : Bool) (p' : P), p'.toks = tail ∧ Frame p p' ∧
      exprLoop (m + (if c then 1 else iters e)) fin depth root true p =
        exprLoop m fin depth (some (if c then addChild root (feedR none e).toChild else feedR root e)) ex p' := by
  by_cases hc : c
  · simp only [hc, if_true, decide_true] at hfit ht hm ⊢
    have ht' : p.toks = tLP :: (toksOf e ++ tRP :: tail) := by rw [ht]; simp [wrapT]
    obtain ⟨p', h1, h2, h3⟩ := paren_step e hs m fin depth root true p tail hfit.1 hfit.2 hm hf ht'
    exact ⟨false, p', h1, h2, h3⟩
  · simp only [hc, if_false, decide_false] at hfit ht hm ⊢
    have ht' : p.toks = toksOf e ++ tail := by rw [ht]; simp [wrapT]
    exact hs m fin depth root p tail hfin hfit hm hf ht'

theorem spec_all : ∀ e : E Atom, Spec e
  | .atom a => by
    intro m fin depth root p tail hfin hfit _ hf ht
    rw [toksOf_atom] at ht
    refine ⟨true, afterAtom a tail p.tick, rfl, ⟨hf, rfl, rfl, rfl, rfl⟩, ?_⟩
    exact loop_atom m fin depth root p a hfit tail hf ht hfin
  | .group e => by
    intro m fin depth root p tail hfin hfit hm hf ht
    have ht' : p.toks = tLP :: (toksOf e ++ tRP :: tail) := by rw [ht, toksOf_group]; simp
    obtain ⟨p', h1, h2, h3⟩ := paren_step e (spec_all e) m fin depth root true p tail hfit.1 hfit.2 hm hf ht'
    exact ⟨false, p', h1, h2, h3⟩
  | .not (.atom a) => by
    intro m fin depth root p tail hfin hfit _ hf ht
    have ht' : p.toks = tNot :: (a.toks ++ tail) := by
      rw [ht, toksOf_not]; simp [wrapT, prec, toksOf_atom]
    refine ⟨false, afterAtom a tail (adv p (a.toks ++ tail) 2), rfl, ⟨hf, rfl, rfl, rfl, rfl⟩, ?_⟩
    exact loop_not_atom m fin depth root true p a hfit.2 tail hf ht' hfin hfit.1
  | .not (.group x) => by
    intro m fin depth root p tail hfin hfit hm hf ht
    have ht' : p.toks = tNot :: tLP :: (toksOf x ++ tRP :: tail) := by
      rw [ht, toksOf_not]; simp [wrapT, prec, toksOf_group]
    have hm' : iters x + 1 + sz x ≤ m := by simp only [sz] at hm; exact hm
    obtain ⟨p', h1, h2, h3⟩ := not_paren_step x (spec_all x) m fin depth root true p tail hfin hfit.1 hfit.2.1 hfit.2.2 hm' hf ht'
    exact ⟨false, p', h1, h2, h3⟩
  | .not (.not y) => by
    intro m fin depth root p tail hfin hfit
    exact absurd hfit (by simp [fits])
  | .not (.and l r) => by
    intro m fin depth root p tail hfin hfit hm hf ht
    have ht' : p.toks = tNot :: tLP :: (toksOf (.and l r) ++ tRP :: tail) := by
      rw [ht, toksOf_not]; simp [wrapT, prec]
    have hm' : iters (.and l r) + 1 + sz (.and l r) ≤ m := by simp only [sz] at hm; exact hm
    obtain ⟨p', h1, h2, h3⟩ := not_paren_step _ (spec_all (.and l r)) m fin depth root true p tail hfin hfit.1 hfit.2.1
      hfit.2.2 hm' hf ht'
    exact ⟨false, p', h1, h2, h3⟩
  | .not (.or l r) => by
    intro m fin depth root p tail hfin hfit hm hf ht
    have ht' : p.toks = tNot :: tLP :: (toksOf (.or l r) ++ tRP :: tail) := by
      rw [ht, toksOf_not]; simp [wrapT, prec]
    have hm' : iters (.or l r) + 1 + sz (.or l r) ≤ m := by simp only [sz] at hm; exact hm
    obtain ⟨p', h1, h2, h3⟩ := not_paren_step _ (spec_all (.or l r)) m fin depth root true p tail hfin hfit.1 hfit.2.1
      hfit.2.2 hm' hf ht'
    exact ⟨false, p', h1, h2, h3⟩
  | .and l r => by
    intro m fin depth root p tail hfin hfit hm hf ht
    simp only [sz] at hm
    have ht' : p.toks = wrapT (decide (prec l < 2)) l ++ (tAnd :: (wrapT (decide (prec r < 3)) r ++ tail)) := by
      rw [ht, toksOf_and]; simp
    -- left operand
    obtain ⟨ex1, p1, h11, h12, h13⟩ := operand_step l (spec_all l) (prec l < 2)
      (m + (if prec r < 3 then 1 else iters r) + 1) fin depth root p _ hfin hfit.1 (by omega) hf ht'
    -- the operator
    have hop := loop_and (m + (if prec r < 3 then 1 else iters r)) fin depth
      (if prec l < 2 then addChild root (feedR none l).toChild else feedR root l) ex1 p1 _ h12.1 h11 hfin
    -- right operand
    obtain ⟨ex2, p2, h21, h22, h23⟩ := operand_step r (spec_all r) (prec r < 3) m fin depth
      (some ⟨.and, [(if prec l < 2 then addChild root (feedR none l).toChild else feedR root l).toChild]⟩)
      (adv p1 (wrapT (decide (prec r < 3)) r ++ tail) 2) tail hfin hfit.2 (by omega) h12.1 rfl
    refine ⟨ex2, p2, h21, h12.trans ((Frame.adv p1 h12.1 _ 2).trans h22), ?_⟩
    have hfuel : m + iters (.and l r) =
        (m + (if prec r < 3 then 1 else iters r) + 1) + (if prec l < 2 then 1 else iters l) := by
      simp only [iters]; omega
    rw [hfuel, h13, hop, h23]
    simp only [feedR]
  | .or l r => by
    intro m fin depth root p tail hfin hfit hm hf ht
    simp only [sz] at hm
    have ht' : p.toks = wrapT (decide (prec l < 1)) l ++ (tOr :: (wrapT (decide (prec r < 2)) r ++ tail)) := by
      rw [ht, toksOf_or]; simp
    obtain ⟨ex1, p1, h11, h12, h13⟩ := operand_step l (spec_all l) (prec l < 1)
      (m + (if prec r < 2 then 1 else iters r) + 1) fin depth root p _ hfin hfit.1 (by omega) hf ht'
    have hop := loop_or (m + (if prec r < 2 then 1 else iters r)) fin depth
      (if prec l < 1 then addChild root (feedR none l).toChild else feedR root l) ex1 p1 _ h12.1 h11 hfin
    obtain ⟨ex2, p2, h21, h22, h23⟩ := operand_step r (spec_all r) (prec r < 2) m fin depth
      (some ⟨.or, [(if prec l < 1 then addChild root (feedR none l).toChild else feedR root l).toChild]⟩)
      (adv p1 (wrapT (decide (prec r < 2)) r ++ tail) 2) tail hfin hfit.2 (by omega) h12.1 rfl
    refine ⟨ex2, p2, h21, h12.trans ((Frame.adv p1 h12.1 _ 2).trans h22), ?_⟩
    have hfuel : m + iters (.or l r) =
        (m + (if prec r < 2 then 1 else iters r) + 1) + (if prec l < 1 then 1 else iters l) := by
      simp only [iters]; omega
    rw [hfuel, h13, hop, h23]
    simp only [feedR]


/-! ### fuel: the tokens of the expression pay for its iterations -/

theorem atom_toks_len (a : Atom) : 1 ≤ a.toks.length := by
  obtain ⟨tl, h⟩ := atom_head a
  rw [h]; simp

theorem wrapT_len (b : Bool) (e : E Atom) : (wrapT b e).length = (toksOf e).length + (if b then 2 else 0) := by
  cases b <;> simp [wrapT]

theorem iters_sz_le : ∀ e : E Atom, iters e + sz e ≤ (toksOf e).length
  | .atom a => by rw [toksOf_atom]; have := atom_toks_len a; simp [iters, sz]; omega
  | .group e => by
    have := iters_sz_le e
    rw [toksOf_group]; simp [iters, sz]; omega
  | .not (.atom a) => by
    rw [toksOf_not]; simp [iters, sz, wrapT, prec]
  | .not (.group x) => by
    have := iters_sz_le x
    rw [toksOf_not]; simp [iters, sz, wrapT, prec, toksOf_group]; omega
  | .not (.not y) => by
    have := iters_sz_le (.not y)
    rw [toksOf_not]; simp [iters, sz, wrapT, prec] at this ⊢; omega
  | .not (.and l r) => by
    have := iters_sz_le (.and l r)
    have e1 : sz (.not (.and l r)) = iters (.and l r) + 1 + sz (.and l r) := rfl
    have e2 : iters (.not (.and l r)) = 1 := rfl
    have hw : wrapT (decide (prec (.and l r) < 3)) (.and l r) = tLP :: (toksOf (.and l r) ++ [tRP]) := by simp [wrapT, prec]
    rw [toksOf_not, e1, e2, hw]
    simp only [List.length_cons, List.length_append, List.length_nil]
    omega
  | .not (.or l r) => by
    have := iters_sz_le (.or l r)
    have e1 : sz (.not (.or l r)) = iters (.or l r) + 1 + sz (.or l r) := rfl
    have e2 : iters (.not (.or l r)) = 1 := rfl
    have hw : wrapT (decide (prec (.or l r) < 3)) (.or l r) = tLP :: (toksOf (.or l r) ++ [tRP]) := by simp [wrapT, prec]
    rw [toksOf_not, e1, e2, hw]
    simp only [List.length_cons, List.length_append, List.length_nil]
    omega
  | .and l r => by
    have hl := iters_sz_le l
    have hr := iters_sz_le r
    have e1 : sz (.and l r) = max ((if prec l < 2 then iters l + 1 + sz l else sz l) - ((if prec r < 3 then 1 else iters r) + 1))
        (if prec r < 3 then iters r + 1 + sz r else sz r) := rfl
    have e2 : iters (.and l r) = (if prec l < 2 then 1 else iters l) + 1 + (if prec r < 3 then 1 else iters r) := rfl
    rw [toksOf_and, e1, e2]
    simp only [List.length_append, List.length_cons, wrapT_len]
    by_cases h1 : prec l < 2 <;> by_cases h2 : prec r < 3 <;>
      simp only [h1, h2, if_true, if_false, decide_true, decide_false] <;> omega
  | .or l r => by
    have hl := iters_sz_le l
    have hr := iters_sz_le r
    have e1 : sz (.or l r) = max ((if prec l < 1 then iters l + 1 + sz l else sz l) - ((if prec r < 2 then 1 else iters r) + 1))
        (if prec r < 2 then iters r + 1 + sz r else sz r) := rfl
    have e2 : iters (.or l r) = (if prec l < 1 then 1 else iters l) + 1 + (if prec r < 2 then 1 else iters r) := rfl
    rw [toksOf_or, e1, e2]
    simp only [List.length_append, List.length_cons, wrapT_len]
    by_cases h1 : prec l < 1 <;> by_cases h2 : prec r < 2 <;>
      simp only [h1, h2, if_true, if_false, decide_true, decide_false] <;> omega

/-! ### meaning of the root the loop builds -/

theorem denoteAny_append (v : Child → Bool) : ∀ (a b : List Child), denoteAny v (a ++ b) = (denoteAny v a || denoteAny v b)
  | [], b => by simp [denoteAny]
  | c :: a, b => by simp [denoteAny, denoteAny_append v a b, Bool.or_assoc]

theorem denoteAll_append (v : Child → Bool) : ∀ (a b : List Child), denoteAll v (a ++ b) = (denoteAll v a && denoteAll v b)
  | [], b => by simp [denoteAll]
  | c :: a, b => by simp [denoteAll, denoteAll_append v a b, Bool.and_assoc]

theorem denote_toChild (v : Child → Bool) (r : Rewrite) : denote v r.toChild = denoteRewrite v r := rfl

/-- Where the left-to-right reader stands when the loop holds `root`. -/
def stOf (v : Child → Bool) : Option Rewrite → St
  | none => .start
  | some r => .pend (r.op == .and) (denoteRewrite v r)

theorem op_or_beq_and : (Op.or == Op.and) = false := rfl
theorem op_and_beq_and : (Op.and == Op.and) = true := rfl

theorem denote_addChild (v : Child → Bool) (root : Option Rewrite) (x : Child) :
    denoteRewrite v (addChild root x) = ((stOf v root).operand (denote v x)).value := by
  cases root with
  | none =>
    cases x with
    | rewrite op cs => cases op <;> simp [addChild, stOf, St.operand, St.value, denoteRewrite, denote]
    | computed r => simp [addChild, stOf, St.operand, St.value, denoteRewrite, denote, denoteAny]
    | ttu r c => simp [addChild, stOf, St.operand, St.value, denoteRewrite, denote, denoteAny]
    | invert c => simp [addChild, stOf, St.operand, St.value, denoteRewrite, denote, denoteAny]
  | some r =>
    obtain ⟨op, cs⟩ := r
    cases op <;>
      simp [addChild, stOf, St.operand, St.value, denoteRewrite, denote, denoteAny_append, denoteAll_append, denoteAny,
        denoteAll, op_or_beq_and, op_and_beq_and]

theorem denote_single_and (v : Child → Bool) (c : Child) : denoteRewrite v ⟨.and, [c]⟩ = denote v c := by
  simp [denoteRewrite, denote, denoteAll]

theorem denote_single_or (v : Child → Bool) (c : Child) : denoteRewrite v ⟨.or, [c]⟩ = denote v c := by
  simp [denoteRewrite, denote, denoteAny]

theorem stOf_op (v : Child → Bool) (op : Op) (r : Rewrite) :
    stOf v (some ⟨op, [r.toChild]⟩) = .pend (op == .and) (denoteRewrite v r) := by
  cases op <;> simp [stOf, denoteRewrite, denote, denoteAny, denoteAll, Rewrite.toChild]

/-- The root the loop builds from `render e` denotes the left-to-right reading of it. -/
theorem denote_feedR (v : Child → Bool) : ∀ (e : E Atom) (root : Option Rewrite), doubleNeg e = false →
    denoteRewrite v (feedR root e) = (l2r (fun a => v a.leaf) (stOf v root) e).value
  | .atom a, root, _ => by
    simp only [feedR, l2r, denote_addChild]
    cases a <;> simp [Atom.leaf, denote]
  | .group e, root, h => by
    have ih := denote_feedR v e none (by simpa [doubleNeg] using h)
    simp only [feedR, l2r, denote_addChild, denote_toChild, ih, stOf]
  | .not (.atom a), root, _ => by
    simp only [feedR, l2r, denote_addChild, denote, stOf, St.operand, St.value]
    cases a <;> simp [Atom.leaf, denote]
  | .not (.group x), root, h => by
    have ih := denote_feedR v x none (by simpa [doubleNeg, isNot] using h)
    simp only [feedR, l2r, denote_addChild, denote, denote_toChild, ih, stOf, St.operand, St.value]
  | .not (.not y), root, h => by simp [doubleNeg, isNot] at h
  | .not (.and l r), root, h => by
    have ih := denote_feedR v (.and l r) none (by simpa [doubleNeg, isNot] using h)
    have e1 : feedR root (.not (.and l r)) = addChild root (.invert (feedR none (.and l r)).toChild) := rfl
    have e2 : l2r (fun a => v a.leaf) (stOf v root) (.not (.and l r)) =
        (stOf v root).operand (!(l2r (fun a => v a.leaf) .start (.and l r)).value) := rfl
    rw [e1, e2, denote_addChild]
    simp only [denote, denote_toChild, ih, stOf]
  | .not (.or l r), root, h => by
    have ih := denote_feedR v (.or l r) none (by simpa [doubleNeg, isNot] using h)
    have e1 : feedR root (.not (.or l r)) = addChild root (.invert (feedR none (.or l r)).toChild) := rfl
    have e2 : l2r (fun a => v a.leaf) (stOf v root) (.not (.or l r)) =
        (stOf v root).operand (!(l2r (fun a => v a.leaf) .start (.or l r)).value) := rfl
    rw [e1, e2, denote_addChild]
    simp only [denote, denote_toChild, ih, stOf]
  | .and l r, root, h => by
    have hl : doubleNeg l = false := by simp [doubleNeg] at h; exact h.1
    have hr : doubleNeg r = false := by simp [doubleNeg] at h; exact h.2
    have il0 := denote_feedR v l none hl
    have il1 := denote_feedR v l root hl
    have ir0 := denote_feedR v r none hr
    simp only [feedR, l2r]
    by_cases h1 : prec l < 2 <;> by_cases h2 : prec r < 3 <;>
      simp only [h1, h2, if_true, if_false, denote_addChild, denote_toChild, stOf_op, il0, il1, ir0, stOf,
        denote_feedR v r _ hr, denote_single_and, denote_single_or, op_or_beq_and, op_and_beq_and]
  | .or l r, root, h => by
    have hl : doubleNeg l = false := by simp [doubleNeg] at h; exact h.1
    have hr : doubleNeg r = false := by simp [doubleNeg] at h; exact h.2
    have il0 := denote_feedR v l none hl
    have il1 := denote_feedR v l root hl
    have ir0 := denote_feedR v r none hr
    simp only [feedR, l2r]
    by_cases h1 : prec l < 1 <;> by_cases h2 : prec r < 2 <;>
      simp only [h1, h2, if_true, if_false, denote_addChild, denote_toChild, stOf_op, il0, il1, ir0, stOf,
        denote_feedR v r _ hr, denote_single_and, denote_single_or, op_or_beq_and, op_and_beq_and]


theorem fits_noDoubleNeg : ∀ (e : E Atom) (d : Nat), fits d e → doubleNeg e = false
  | .atom _, _, _ => rfl
  | .group e, d, h => by simpa [doubleNeg] using fits_noDoubleNeg e _ h.2
  | .not (.atom _), _, _ => by simp [doubleNeg, isNot]
  | .not (.group x), d, h => by simpa [doubleNeg, isNot] using fits_noDoubleNeg x _ h.2.2
  | .not (.not _), _, h => by simp [fits] at h
  | .not (.and l r), d, h => by simpa [doubleNeg, isNot] using fits_noDoubleNeg (.and l r) _ h.2.2
  | .not (.or l r), d, h => by simpa [doubleNeg, isNot] using fits_noDoubleNeg (.or l r) _ h.2.2
  | .and l r, d, h => by
    have hl : doubleNeg l = false := by
      have h1 := h.1
      split at h1
      · exact fits_noDoubleNeg l _ h1.2
      · exact fits_noDoubleNeg l _ h1
    have hr : doubleNeg r = false := by
      have h2 := h.2
      split at h2
      · exact fits_noDoubleNeg r _ h2.2
      · exact fits_noDoubleNeg r _ h2
    simp [doubleNeg, hl, hr]
  | .or l r, d, h => by
    have hl : doubleNeg l = false := by
      have h1 := h.1
      split at h1
      · exact fits_noDoubleNeg l _ h1.2
      · exact fits_noDoubleNeg l _ h1
    have hr : doubleNeg r = false := by
      have h2 := h.2
      split at h2
      · exact fits_noDoubleNeg r _ h2.2
      · exact fits_noDoubleNeg r _ h2
    simp [doubleNeg, hl, hr]

/-! ### `simplifyExpression` keeps the meaning -/

mutual
theorem denoteAny_simplifyChildren (v : Child → Bool) : ∀ cs : List Child,
    denoteAny v (simplifyChildren .or cs) = denoteAny v cs
  | [] => by simp [simplifyChildren]
  | c :: cs => by
    simp only [simplifyChildren, denoteAny_append, denoteAny, denoteAny_simplifyChild v c, denoteAny_simplifyChildren v cs]
theorem denoteAny_simplifyChild (v : Child → Bool) : ∀ c : Child, denoteAny v (simplifyChild .or c) = denote v c
  | .computed r => by simp [simplifyChild, denoteAny]
  | .ttu r c => by simp [simplifyChild, denoteAny]
  | .invert c => by simp [simplifyChild, denoteAny]
  | .rewrite op cs => by
    simp only [simplifyChild]
    split
    · rename_i h
      have hop : op = .or := by
        cases op
        · rfl
        · simp at h
      subst hop
      rw [denoteAny_simplifyChildren v cs]
      simp [denote]
    · simp [denoteAny]
end

mutual
theorem denoteAll_simplifyChildren (v : Child → Bool) : ∀ cs : List Child,
    denoteAll v (simplifyChildren .and cs) = denoteAll v cs
  | [] => by simp [simplifyChildren]
  | c :: cs => by
    simp only [simplifyChildren, denoteAll_append, denoteAll, denoteAll_simplifyChild v c, denoteAll_simplifyChildren v cs]
theorem denoteAll_simplifyChild (v : Child → Bool) : ∀ c : Child, denoteAll v (simplifyChild .and c) = denote v c
  | .computed r => by simp [simplifyChild, denoteAll]
  | .ttu r c => by simp [simplifyChild, denoteAll]
  | .invert c => by simp [simplifyChild, denoteAll]
  | .rewrite op cs => by
    simp only [simplifyChild]
    split
    · rename_i h
      have hop : op = .and := by
        cases op
        · simp at h
        · rfl
      subst hop
      rw [denoteAll_simplifyChildren v cs]
      simp [denote]
    · simp [denoteAll]
end

theorem denote_simplify (v : Child → Bool) (r : Rewrite) :
    denoteRewrite v ⟨r.op, simplifyChildren r.op r.children⟩ = denoteRewrite v r := by
  obtain ⟨op, cs⟩ := r
  cases op
  · simp [denoteRewrite, denote, denoteAny_simplifyChildren]
  · simp [denoteRewrite, denote, denoteAll_simplifyChildren]

end Keto.Opl

namespace Keto.TS

variable {α : Type}

theorem prec_two_isAnd (e : E α) (h : prec e = 2) : isAnd e = true := by
  cases e <;> simp [prec] at h <;> rfl

theorem prec_cases (e : E α) : prec e = 1 ∨ prec e = 2 ∨ prec e = 3 ∨ prec e = 4 := by
  cases e <;> simp [prec]

theorem value_start_operand (x : Bool) : (St.start.operand x).value = x := rfl
theorem value_pend_and_operand (b x : Bool) : ((St.pend true b).operand x).value = (b && x) := rfl
theorem value_pend_or_operand (b x : Bool) : ((St.pend false b).operand x).value = (b || x) := rfl

/-- On an expression in which no parenthesis level mixes `||` and `&&`, reading left to
    right is reading as TypeScript does. -/
theorem l2r_unmixed (v : α → Bool) : ∀ e : E α, mixed e = false →
    (l2r v .start e).value = evalTS v e ∧ (3 ≤ prec e → ∀ s, l2r v s e = s.operand (evalTS v e))
  | .atom a, _ => ⟨rfl, fun _ _ => rfl⟩
  | .group e, h => by
    have ih := l2r_unmixed v e (by simpa [mixed] using h)
    refine ⟨?_, fun _ s => ?_⟩
    · simp only [l2r, evalTS, value_start_operand, ih.1]
    · simp only [l2r, evalTS, ih.1]
  | .not e, h => by
    have ih := l2r_unmixed v e (by simpa [mixed] using h)
    refine ⟨?_, fun _ s => ?_⟩
    · simp only [l2r, evalTS, value_start_operand, ih.1]
    · simp only [l2r, evalTS, ih.1]
  | .and l r, h => by
    have hl : mixed l = false := by simp [mixed] at h; exact h.1
    have hr : mixed r = false := by simp [mixed] at h; exact h.2
    have il := l2r_unmixed v l hl
    have ir := l2r_unmixed v r hr
    refine ⟨?_, fun hp => by simp [prec] at hp⟩
    simp only [l2r, evalTS]
    have hsl : (if prec l < 2 then St.start.operand (l2r v .start l).value else l2r v .start l).value = evalTS v l := by
      split
      · rw [value_start_operand, il.1]
      · exact il.1
    by_cases h2 : prec r < 3
    · simp only [h2, if_true, hsl, value_pend_and_operand, ir.1]
    · simp only [h2, if_false, hsl]
      rw [ir.2 (by omega), value_pend_and_operand]
  | .or l r, h => by
    have hl : mixed l = false := by simp [mixed] at h; exact h.1.2
    have hr : mixed r = false := by simp [mixed] at h; exact h.2
    have hnr : isAnd r = false := by simp [mixed] at h; exact h.1.1.2
    have il := l2r_unmixed v l hl
    have ir := l2r_unmixed v r hr
    refine ⟨?_, fun hp => by simp [prec] at hp⟩
    simp only [l2r, evalTS]
    have hpl : ¬ prec l < 1 := by have := prec_cases l; omega
    by_cases h2 : prec r < 2
    · simp only [hpl, h2, if_true, if_false, value_pend_or_operand, ir.1, il.1]
    · have h3 : 3 ≤ prec r := by
        have := prec_cases r
        have : prec r ≠ 2 := fun h2' => by rw [prec_two_isAnd r h2'] at hnr; cases hnr
        omega
      simp only [hpl, h2, if_false]
      rw [ir.2 h3, value_pend_or_operand, il.1]

theorem evalL2R_unmixed (v : α → Bool) (e : E α) (h : mixed e = false) : evalL2R v e = evalTS v e :=
  (l2r_unmixed v e h).1

end Keto.TS
