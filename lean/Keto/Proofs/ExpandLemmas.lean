/-
  Helper lemmas for C09 (expand).

  Framework: the loops of the model are abstracted once into a chain relation
  (`Chain R rows st cs st' k`: the children `cs` are built row by row, every recursive
  call is related to its result and to the states before/after it by `R`, and `k`
  storage calls for pages happen in between), and one unfolding of `expand` into the
  five cases of the code (`Step`). Every invariant is then proved by induction on the
  fuel with `expand_step`, and on `Chain` for the union node.
-/
import Keto.Model.Expand
import Keto.Spec.Reach
import Keto.Spec.Membership

namespace Keto

abbrev XRel := Subject → XState → Option Tree → XState → Prop

inductive Chain (R : XRel) : List Tuple → XState → List Tree → XState → Nat → Prop where
  | nil {st : XState} : Chain R [] st [] st 0
  | cons {t : Tuple} {ts : List Tuple} {st st1 st2 : XState} {res : Option Tree} {cs : List Tree} {k : Nat} :
      R t.sub st res st1 → Chain R ts st1 cs st2 k →
      Chain R (t :: ts) st (res.getD (.leaf t.sub) :: cs) st2 k
  | call {ts : List Tuple} {st st2 : XState} {cs : List Tree} {k : Nat} :
      Chain R ts st.call cs st2 k → Chain R ts st cs st2 (k + 1)

theorem Chain.append {R : XRel} {ts ts' : List Tuple} {st st1 st2 : XState} {cs cs' : List Tree} {k k' : Nat}
    (h : Chain R ts st cs st1 k) (h' : Chain R ts' st1 cs' st2 k') :
    Chain R (ts ++ ts') st (cs ++ cs') st2 (k + k') := by
  induction h with
  | nil => simpa using h'
  | cons hr _ ih => exact .cons hr (ih h')
  | @call ts st st2 cs k _ ih =>
    have e : k + 1 + k' = (k + k') + 1 := by omega
    rw [e]
    exact .call (ih h')

theorem Chain.imp {R R' : XRel} (himp : ∀ s st res st', R s st res st' → R' s st res st')
    {ts : List Tuple} {st st' : XState} {cs : List Tree} {k : Nat} (h : Chain R ts st cs st' k) :
    Chain R' ts st cs st' k := by
  induction h with
  | nil => exact .nil
  | cons hr _ ih => exact .cons (himp _ _ _ _ hr) ih
  | call _ ih => exact .call ih

theorem childLoop_chain {R : XRel} (rec : Subject → XState → Option Tree × XState)
    (hrec : ∀ s st, R s st (rec s st).1 (rec s st).2) :
    ∀ (ts : List Tuple) (st : XState), Chain R ts st (childLoop rec ts st).1 (childLoop rec ts st).2 0
  | [], _ => .nil
  | t :: ts, st => by
    simp only [childLoop]
    exact .cons (hrec t.sub st) (childLoop_chain rec hrec ts _)

theorem pageLoop_chain {R : XRel} (rec : Subject → XState → Option Tree × XState)
    (hrec : ∀ s st, R s st (rec s st).1 (rec s st).2) :
    ∀ (ps : List (List Tuple)) (st : XState),
      Chain R ps.flatten st (pageLoop rec ps st).1 (pageLoop rec ps st).2 ps.length
  | [], _ => .nil
  | p :: ps, st => by
    simp only [pageLoop, List.flatten_cons, List.length_cons]
    have h := (childLoop_chain rec hrec p st.call).append (pageLoop_chain rec hrec ps (childLoop rec p st.call).2)
    rw [Nat.zero_add] at h
    exact .call h

theorem pagesOf_flatten (ps : Nat) : ∀ (fuel : Nat) (rows : List Tuple), (pagesOf ps fuel rows).flatten = rows
  | 0, rows => by simp [pagesOf]
  | fuel+1, rows => by
    simp only [pagesOf]
    split
    · simp
    · simp [pagesOf_flatten ps fuel]

/-- One unfolding of `buildTreeRecursive` at the clamped depth `d`. -/
inductive Step (E : XEnv) (R : XRel) (d : Int) : Subject → XState → Option Tree → XState → Prop where
  | id {u : Nat} {st : XState} : Step E R d (.id u) st (some (.leaf (.id u))) st
  | visited {n : String} {o : Nat} {r : String} {st : XState} :
      (n, o, r) ∈ st.visited → Step E R d (.set n o r) st none st
  | empty {n : String} {o : Nat} {r : String} {st : XState} :
      (n, o, r) ∉ st.visited → rowsOf E.T n o r = [] →
      Step E R d (.set n o r) st none (st.visit (n, o, r)).call
  | cut {n : String} {o : Nat} {r : String} {st : XState} :
      (n, o, r) ∉ st.visited → rowsOf E.T n o r ≠ [] → d ≤ 1 →
      Step E R d (.set n o r) st (some (.leaf (.set n o r))) (st.visit (n, o, r)).call.cut
  | union {n : String} {o : Nat} {r : String} {st st' : XState} {cs : List Tree} :
      (n, o, r) ∉ st.visited → rowsOf E.T n o r ≠ [] → 1 < d →
      Chain R (rowsOf E.T n o r) (st.visit (n, o, r)) cs st'
        (pagesOf E.pageSize (rowsOf E.T n o r).length (rowsOf E.T n o r)).length →
      Step E R d (.set n o r) st (some (.union (.set n o r) cs)) st'

theorem expand_step (E : XEnv) (R : XRel) (fuel : Nat) (rd : Int) (sub : Subject) (st : XState)
    (hrec : ∀ s st', R s st' (expand E fuel (effDepth rd E.g - 1) s st').1
      (expand E fuel (effDepth rd E.g - 1) s st').2) :
    Step E R (effDepth rd E.g) sub st (expand E (fuel + 1) rd sub st).1 (expand E (fuel + 1) rd sub st).2 := by
  cases sub with
  | id u => simp only [expand]; exact .id
  | set n o r =>
    simp only [expand]
    split
    · next hv => exact .visited (by simpa using hv)
    · next hv =>
      have hv' : (n, o, r) ∉ st.visited := by simpa using hv
      split
      · next he => exact .empty hv' (by simpa using he)
      · next he =>
        have he' : rowsOf E.T n o r ≠ [] := by simpa using he
        split
        · next hd => exact .cut hv' he' hd
        · next hd =>
          have h := pageLoop_chain (R := R) (fun s st' => expand E fuel (effDepth rd E.g - 1) s st') hrec
            (pagesOf E.pageSize (rowsOf E.T n o r).length (rowsOf E.T n o r)) (st.visit (n, o, r))
          rw [pagesOf_flatten] at h
          exact .union hv' he' (by omega) h

/-! ### the clamp and the fuel -/

theorem effDepth_le (r g : Int) : effDepth r g ≤ g := by
  unfold effDepth; split <;> omega

theorem effDepth_pos {r g : Int} (hg : 1 ≤ g) : 1 ≤ effDepth r g := by
  unfold effDepth; split <;> omega

/-- Below the first level the clamp changes nothing. -/
theorem effDepth_pred {d g : Int} (h1 : 1 < d) (hg : d ≤ g) : effDepth (d - 1) g = d - 1 := by
  unfold effDepth; split <;> omega


/-! ### rows -/

theorem mem_rowsOf {T : List Tuple} {n : String} {o : Nat} {r : String} {t : Tuple} :
    t ∈ rowsOf T n o r ↔ t ∈ T ∧ t.ns = n ∧ t.obj = o ∧ t.rel = r := by
  simp [rowsOf, List.mem_filter, and_assoc]

theorem row_tuple {T : List Tuple} {n : String} {o : Nat} {r : String} {t : Tuple}
    (h : t ∈ rowsOf T n o r) : (⟨n, o, r, t.sub⟩ : Tuple) ∈ T := by
  obtain ⟨hT, h1, h2, h3⟩ := mem_rowsOf.mp h
  subst h1 h2 h3
  exact hT

theorem tuple_row {T : List Tuple} {n : String} {o : Nat} {r : String} {s : Subject}
    (h : (⟨n, o, r, s⟩ : Tuple) ∈ T) : (⟨n, o, r, s⟩ : Tuple) ∈ rowsOf T n o r :=
  mem_rowsOf.mpr ⟨h, rfl, rfl, rfl⟩

/-! ### trees -/

theorem Tree.subjects_eq (tr : Tree) : tr.subjects = tr.subject :: tr.descendants := by
  cases tr <;> simp [Tree.subjects, Tree.subject, Tree.descendants]

theorem Tree.subject_mem_subjects (tr : Tree) : tr.subject ∈ tr.subjects := by
  rw [Tree.subjects_eq]; exact List.mem_cons_self ..

/-- The child built for a row: the result of the recursive call, or a leaf. -/
theorem getD_leaf_cases (res : Option Tree) (s : Subject) :
    (res = none ∧ res.getD (.leaf s) = .leaf s) ∨ (∃ tr, res = some tr ∧ res.getD (.leaf s) = tr) := by
  cases res with
  | none => exact .inl ⟨rfl, rfl⟩
  | some tr => exact .inr ⟨tr, rfl, rfl⟩

/-! ### monotonicity of the state -/

structure Mono (st st' : XState) : Prop where
  vis : ∀ k, k ∈ st.visited → k ∈ st'.visited
  cuts : st.cuts ≤ st'.cuts
  calls : st.calls ≤ st'.calls
  oof : st.oof = true → st'.oof = true

theorem Mono.refl (st : XState) : Mono st st := ⟨fun _ h => h, Nat.le_refl _, Nat.le_refl _, id⟩

theorem Mono.trans {a b c : XState} (h : Mono a b) (h' : Mono b c) : Mono a c :=
  ⟨fun k hk => h'.vis k (h.vis k hk), Nat.le_trans h.cuts h'.cuts, Nat.le_trans h.calls h'.calls,
   fun ho => h'.oof (h.oof ho)⟩

theorem Mono.visit (st : XState) (k : VKey) : Mono st (st.visit k) :=
  ⟨fun _ h => List.mem_cons_of_mem _ h, Nat.le_refl _, Nat.le_refl _, id⟩

theorem Mono.call (st : XState) : Mono st st.call :=
  ⟨fun _ h => h, Nat.le_refl _, Nat.le_succ _, id⟩

theorem Mono.cut (st : XState) : Mono st st.cut :=
  ⟨fun _ h => h, Nat.le_succ _, Nat.le_refl _, id⟩

theorem Mono.outOfFuel (st : XState) : Mono st st.outOfFuel :=
  ⟨fun _ h => h, Nat.le_refl _, Nat.le_refl _, fun _ => rfl⟩

def RMono : XRel := fun _ st _ st' => Mono st st'

theorem chain_mono {ts : List Tuple} {st st' : XState} {cs : List Tree} {k : Nat}
    (h : Chain RMono ts st cs st' k) : Mono st st' := by
  induction h with
  | nil => exact Mono.refl _
  | cons hr _ ih => exact Mono.trans hr ih
  | call _ ih => exact (Mono.call _).trans ih

theorem step_mono {E : XEnv} {d : Int} {sub : Subject} {st st' : XState} {res : Option Tree}
    (h : Step E RMono d sub st res st') : Mono st st' := by
  cases h with
  | id => exact Mono.refl _
  | visited => exact Mono.refl _
  | empty => exact (Mono.visit _ _).trans (Mono.call _)
  | cut => exact ((Mono.visit _ _).trans (Mono.call _)).trans (Mono.cut _)
  | union _ _ _ hc => exact (Mono.visit _ _).trans (chain_mono hc)

theorem expand_mono (E : XEnv) : ∀ (fuel : Nat) (rd : Int) (sub : Subject) (st : XState),
    Mono st (expand E fuel rd sub st).2
  | 0, _, _, st => by simp only [expand]; exact Mono.outOfFuel st
  | fuel+1, rd, sub, st =>
    step_mono (expand_step E RMono fuel rd sub st (fun s st' => expand_mono E fuel _ s st'))

/-! ### root subject, edges (C09_edges_sound) -/

def EdgeOK (T : List Tuple) (e : Subject × Subject) : Prop :=
  ∃ n o r, e.1 = .set n o r ∧ (⟨n, o, r, e.2⟩ : Tuple) ∈ T

def REdges (T : List Tuple) : XRel := fun s _ res _ =>
  ∀ tr, res = some tr → tr.subject = s ∧ ∀ e, e ∈ tr.edges → EdgeOK T e

theorem chain_edges {T : List Tuple} {n : String} {o : Nat} {r : String}
    {ts : List Tuple} {st st' : XState} {cs : List Tree} {k : Nat}
    (h : Chain (REdges T) ts st cs st' k) (hts : ∀ t, t ∈ ts → (⟨n, o, r, t.sub⟩ : Tuple) ∈ T) :
    ∀ e, e ∈ Tree.edgesFrom (.set n o r) cs → EdgeOK T e := by
  induction h with
  | nil => intro e he; simp [Tree.edgesFrom] at he
  | @cons t ts st st1 st2 res cs k hr _ ih =>
    intro e he
    simp only [Tree.edgesFrom, List.mem_cons, List.mem_append] at he
    have hsub : (res.getD (.leaf t.sub)).subject = t.sub ∧
        ∀ e, e ∈ (res.getD (.leaf t.sub)).edges → EdgeOK T e := by
      rcases getD_leaf_cases res t.sub with ⟨_, hc⟩ | ⟨tr, hres, hc⟩
      · rw [hc]; exact ⟨rfl, fun e he => by simp [Tree.edges] at he⟩
      · rw [hc]; exact hr tr hres
    rcases he with he | he | he
    · subst he
      exact ⟨n, o, r, rfl, by rw [hsub.1]; exact hts t (List.mem_cons_self ..)⟩
    · exact hsub.2 e he
    · exact ih (fun t' ht' => hts t' (List.mem_cons_of_mem _ ht')) e he
  | call _ ih => exact ih hts

theorem step_edges {E : XEnv} {d : Int} {sub : Subject} {st st' : XState} {res : Option Tree}
    (h : Step E (REdges E.T) d sub st res st') : REdges E.T sub st res st' := by
  intro tr htr
  cases h with
  | id => cases htr; exact ⟨rfl, fun e he => by simp [Tree.edges] at he⟩
  | visited => cases htr
  | empty => cases htr
  | cut => cases htr; exact ⟨rfl, fun e he => by simp [Tree.edges] at he⟩
  | union _ _ _ hc =>
    cases htr
    refine ⟨rfl, fun e he => ?_⟩
    simp only [Tree.edges] at he
    exact chain_edges hc (fun t ht => row_tuple ht) e he

theorem expand_edges (E : XEnv) : ∀ (fuel : Nat) (rd : Int) (sub : Subject) (st : XState),
    REdges E.T sub st (expand E fuel rd sub st).1 (expand E fuel rd sub st).2
  | 0, _, _, st => by simp only [expand]; intro tr h; cases h
  | fuel+1, rd, sub, st =>
    step_edges (expand_step E (REdges E.T) fuel rd sub st (fun s st' => expand_edges E fuel _ s st'))

theorem expand_root (E : XEnv) (fuel : Nat) (rd : Int) (sub : Subject) (st : XState) (tr : Tree)
    (h : (expand E fuel rd sub st).1 = some tr) : tr.subject = sub :=
  (expand_edges E fuel rd sub st tr h).1

/-! ### every subject set is expanded at most once (C09_once) -/

def ROnce : XRel := fun _ st res st' =>
  Mono st st' ∧ ∀ tr, res = some tr →
    (Tree.unionKeys tr).Nodup ∧ ∀ k, k ∈ Tree.unionKeys tr → k ∈ st'.visited ∧ k ∉ st.visited

theorem chain_once {ts : List Tuple} {st st' : XState} {cs : List Tree} {k : Nat}
    (h : Chain ROnce ts st cs st' k) :
    Mono st st' ∧ (Tree.unionKeysL cs).Nodup ∧
      ∀ k, k ∈ Tree.unionKeysL cs → k ∈ st'.visited ∧ k ∉ st.visited := by
  induction h with
  | nil => exact ⟨Mono.refl _, by simp [Tree.unionKeysL], fun k hk => by simp [Tree.unionKeysL] at hk⟩
  | @cons t ts st st1 st2 res cs k hr _ ih =>
    obtain ⟨hm1, hres⟩ := hr
    obtain ⟨hm2, hnd, hks⟩ := ih
    have hhead : (Tree.unionKeys (res.getD (.leaf t.sub))).Nodup ∧
        ∀ k, k ∈ Tree.unionKeys (res.getD (.leaf t.sub)) → k ∈ st1.visited ∧ k ∉ st.visited := by
      rcases getD_leaf_cases res t.sub with ⟨_, hc⟩ | ⟨tr, hr', hc⟩
      · rw [hc]; exact ⟨by simp [Tree.unionKeys], fun k hk => by simp [Tree.unionKeys] at hk⟩
      · rw [hc]; exact hres tr hr'
    refine ⟨hm1.trans hm2, ?_, ?_⟩
    · simp only [Tree.unionKeysL]
      refine List.nodup_append.mpr ⟨hhead.1, hnd, ?_⟩
      intro a ha b hb hab
      subst hab
      exact (hks a hb).2 (hhead.2 a ha).1
    · intro k hk
      simp only [Tree.unionKeysL, List.mem_append] at hk
      rcases hk with hk | hk
      · exact ⟨hm2.vis k (hhead.2 k hk).1, (hhead.2 k hk).2⟩
      · exact ⟨(hks k hk).1, fun hin => (hks k hk).2 (hm1.vis k hin)⟩
  | call _ ih =>
    obtain ⟨hm, hnd, hks⟩ := ih
    exact ⟨(Mono.call _).trans hm, hnd, hks⟩

theorem step_once {E : XEnv} {d : Int} {sub : Subject} {st st' : XState} {res : Option Tree}
    (h : Step E ROnce d sub st res st') : ROnce sub st res st' := by
  cases h with
  | id => exact ⟨Mono.refl _, fun tr h => by cases h; simp [Tree.unionKeys]⟩
  | visited => exact ⟨Mono.refl _, fun tr h => by cases h⟩
  | empty => exact ⟨(Mono.visit _ _).trans (Mono.call _), fun tr h => by cases h⟩
  | cut =>
    exact ⟨((Mono.visit _ _).trans (Mono.call _)).trans (Mono.cut _), fun tr h => by cases h; simp [Tree.unionKeys]⟩
  | @union n o r st st' cs hv _ _ hc =>
    obtain ⟨hm, hnd, hks⟩ := chain_once hc
    refine ⟨(Mono.visit _ _).trans hm, fun tr htr => ?_⟩
    cases htr
    simp only [Tree.unionKeys]
    refine ⟨List.nodup_cons.mpr ⟨fun hin => (hks _ hin).2 (List.mem_cons_self ..), hnd⟩, ?_⟩
    intro k hk
    rcases List.mem_cons.mp hk with hk | hk
    · subst hk
      exact ⟨hm.vis _ (List.mem_cons_self ..), hv⟩
    · exact ⟨(hks k hk).1, fun hin => (hks k hk).2 (List.mem_cons_of_mem _ hin)⟩

theorem expand_once (E : XEnv) : ∀ (fuel : Nat) (rd : Int) (sub : Subject) (st : XState),
    ROnce sub st (expand E fuel rd sub st).1 (expand E fuel rd sub st).2
  | 0, _, _, st => by simp only [expand]; exact ⟨Mono.outOfFuel st, fun tr h => by cases h⟩
  | fuel+1, rd, sub, st =>
    step_once (expand_step E ROnce fuel rd sub st (fun s st' => expand_once E fuel _ s st'))


/-! ### height (C09_depth) -/

def RHeight (M : Nat) : XRel := fun _ _ res _ => ∀ tr, res = some tr → tr.height ≤ M

theorem chain_height {M : Nat} (h1 : 1 ≤ M) {ts : List Tuple} {st st' : XState} {cs : List Tree} {k : Nat}
    (h : Chain (RHeight M) ts st cs st' k) : Tree.heightL cs ≤ M := by
  induction h with
  | nil => simp [Tree.heightL]
  | @cons t ts st st1 st2 res cs k hr _ ih =>
    have hc : (res.getD (.leaf t.sub)).height ≤ M := by
      rcases getD_leaf_cases res t.sub with ⟨_, hc⟩ | ⟨tr, hr', hc⟩
      · rw [hc]; simpa [Tree.height] using h1
      · rw [hc]; exact hr tr hr'
    simp only [Tree.heightL]
    exact Nat.max_le.mpr ⟨hc, ih⟩
  | call _ ih => exact ih

theorem step_height {E : XEnv} {rd : Int} (hg : 1 ≤ E.g) {sub : Subject} {st st' : XState} {res : Option Tree}
    (h : Step E (RHeight (effDepth (effDepth rd E.g - 1) E.g).toNat) (effDepth rd E.g) sub st res st') :
    RHeight (effDepth rd E.g).toNat sub st res st' := by
  have hd := effDepth_pos (r := rd) hg
  have hle := effDepth_le rd E.g
  intro tr htr
  cases h with
  | id => cases htr; simp only [Tree.height]; omega
  | visited => cases htr
  | empty => cases htr
  | cut => cases htr; simp only [Tree.height]; omega
  | union _ _ h1 hc =>
    cases htr
    rw [effDepth_pred h1 hle] at hc
    have := chain_height (by omega) hc
    simp only [Tree.height]
    omega

theorem expand_height (E : XEnv) (hg : 1 ≤ E.g) : ∀ (fuel : Nat) (rd : Int) (sub : Subject) (st : XState),
    RHeight (effDepth rd E.g).toNat sub st (expand E fuel rd sub st).1 (expand E fuel rd sub st).2
  | 0, _, _, st => by simp only [expand]; intro tr h; cases h
  | fuel+1, rd, sub, st =>
    step_height hg (expand_step E _ fuel rd sub st (fun s st' => expand_height E hg fuel _ s st'))

/-! ### the fuel is never exhausted (C09_terminates) -/

def ROof (P : Prop) : XRel := fun _ st _ st' => P → st'.oof = st.oof

theorem chain_oof {ts : List Tuple} {st st' : XState} {cs : List Tree} {k : Nat}
    (h : Chain (ROof True) ts st cs st' k) : st'.oof = st.oof := by
  induction h with
  | nil => rfl
  | cons hr _ ih => rw [ih, hr trivial]
  | call _ ih => rw [ih]; rfl

theorem step_oof {E : XEnv} {d : Int} {sub : Subject} {st st' : XState} {res : Option Tree}
    (h : Step E (ROof (1 < d)) d sub st res st') : st'.oof = st.oof := by
  cases h with
  | id => rfl
  | visited => rfl
  | empty => rfl
  | cut => rfl
  | union _ _ h1 hc =>
    have := chain_oof (hc.imp (fun _ _ _ _ hr _ => hr h1))
    rw [this]; rfl

theorem expand_oof (E : XEnv) : ∀ (fuel : Nat) (rd : Int) (sub : Subject) (st : XState),
    1 ≤ fuel → effDepth rd E.g ≤ fuel → (expand E fuel rd sub st).2.oof = st.oof
  | 0, _, _, _, h1, _ => by omega
  | fuel+1, rd, sub, st, _, hf => by
    have hle := effDepth_le rd E.g
    exact step_oof (expand_step E (ROof (1 < effDepth rd E.g)) fuel rd sub st
      (fun s st' h1 => expand_oof E fuel _ s st' (by omega) (by rw [effDepth_pred h1 hle]; omega)))

/-! ### everything below the root is reachable (C09_leaves_subset_reach) -/

theorem Reach.head {T : List Tuple} {n : String} {o : Nat} {r : String} {m x : Subject}
    (hm : (⟨n, o, r, m⟩ : Tuple) ∈ T) (h : Reach T m x) : Reach T (.set n o r) x := by
  induction h with
  | direct he ht => exact .step (.direct rfl (he ▸ hm)) ht
  | step _ ht ih => exact .step ih ht

def RReach (T : List Tuple) : XRel := fun s _ res _ =>
  ∀ tr, res = some tr → tr.subject = s ∧ ∀ x, x ∈ tr.descendants → Reach T s x

theorem chain_reach {T : List Tuple} {n : String} {o : Nat} {r : String}
    {ts : List Tuple} {st st' : XState} {cs : List Tree} {k : Nat}
    (h : Chain (RReach T) ts st cs st' k) (hts : ∀ t, t ∈ ts → (⟨n, o, r, t.sub⟩ : Tuple) ∈ T) :
    ∀ x, x ∈ Tree.subjectsL cs → Reach T (.set n o r) x := by
  induction h with
  | nil => intro x hx; simp [Tree.subjectsL] at hx
  | @cons t ts st st1 st2 res cs k hr _ ih =>
    intro x hx
    simp only [Tree.subjectsL, List.mem_append] at hx
    have ht := hts t (List.mem_cons_self ..)
    rcases hx with hx | hx
    · have hsub : (res.getD (.leaf t.sub)).subject = t.sub ∧
          ∀ x, x ∈ (res.getD (.leaf t.sub)).descendants → Reach T t.sub x := by
        rcases getD_leaf_cases res t.sub with ⟨_, hc⟩ | ⟨tr, hr', hc⟩
        · rw [hc]; exact ⟨rfl, fun x hx => by simp [Tree.descendants] at hx⟩
        · rw [hc]; exact hr tr hr'
      rw [Tree.subjects_eq, hsub.1] at hx
      rcases List.mem_cons.mp hx with hx | hx
      · subst hx; exact .direct rfl ht
      · exact Reach.head ht (hsub.2 x hx)
    · exact ih (fun t' ht' => hts t' (List.mem_cons_of_mem _ ht')) x hx
  | call _ ih => exact ih hts

theorem step_reach {E : XEnv} {d : Int} {sub : Subject} {st st' : XState} {res : Option Tree}
    (h : Step E (RReach E.T) d sub st res st') : RReach E.T sub st res st' := by
  intro tr htr
  cases h with
  | id => cases htr; exact ⟨rfl, fun x hx => by simp [Tree.descendants] at hx⟩
  | visited => cases htr
  | empty => cases htr
  | cut => cases htr; exact ⟨rfl, fun x hx => by simp [Tree.descendants] at hx⟩
  | union _ _ _ hc =>
    cases htr
    exact ⟨rfl, fun x hx => chain_reach hc (fun t ht => row_tuple ht) x (by simpa [Tree.descendants] using hx)⟩

theorem expand_reach (E : XEnv) : ∀ (fuel : Nat) (rd : Int) (sub : Subject) (st : XState),
    RReach E.T sub st (expand E fuel rd sub st).1 (expand E fuel rd sub st).2
  | 0, _, _, st => by simp only [expand]; intro tr h; cases h
  | fuel+1, rd, sub, st =>
    step_reach (expand_step E (RReach E.T) fuel rd sub st (fun s st' => expand_reach E fuel _ s st'))


/-! ### completeness without a depth cut (C09_complete_unbound_partial)

  The closed-set argument: when the run made no depth cut, every subject set that became
  visited during the run was fully expanded: all subjects of its tuples are in the tree,
  and those that are subject sets are visited as well. -/

def resSubjects : Option Tree → List Subject
  | none => []
  | some tr => tr.subjects

def tkey (t : Tuple) : VKey := (t.ns, t.obj, t.rel)

/-- Every tuple on the key `k` has its subject in `subj`, and in `V'` if it is a subject set. -/
def SuccOK (T : List Tuple) (subj : List Subject) (V' : List VKey) (k : VKey) : Prop :=
  ∀ t, t ∈ T → tkey t = k → t.sub ∈ subj ∧ ∀ n o r, t.sub = .set n o r → (n, o, r) ∈ V'

def Closed (T : List Tuple) (s : Subject) (st : XState) (res : Option Tree) (st' : XState) : Prop :=
  st'.cuts = st.cuts →
    (∀ n o r, s = .set n o r → (n, o, r) ∈ st'.visited) ∧
    ∀ k, k ∈ st'.visited → k ∉ st.visited → SuccOK T (resSubjects res) st'.visited k

def RClosed (T : List Tuple) (P : Prop) : XRel := fun s st res st' =>
  Mono st st' ∧ (∀ tr, res = some tr → tr.subject = s) ∧ (P → Closed T s st res st')

theorem chain_closed {T : List Tuple} {ts : List Tuple} {st st' : XState} {cs : List Tree} {k : Nat}
    (h : Chain (RClosed T True) ts st cs st' k) :
    Mono st st' ∧ (st'.cuts = st.cuts →
      (∀ t, t ∈ ts → t.sub ∈ Tree.subjectsL cs ∧ ∀ n o r, t.sub = .set n o r → (n, o, r) ∈ st'.visited) ∧
      ∀ k, k ∈ st'.visited → k ∉ st.visited → SuccOK T (Tree.subjectsL cs) st'.visited k) := by
  induction h with
  | nil =>
    exact ⟨Mono.refl _, fun _ => ⟨(fun t ht => by cases ht), fun k hk hnk => absurd hk hnk⟩⟩
  | @cons t ts st st1 st2 res cs k hr _ ih =>
    obtain ⟨hm1, hroot, hcl⟩ := hr
    obtain ⟨hm2, htail⟩ := ih
    refine ⟨hm1.trans hm2, fun hcuts => ?_⟩
    have hc1 : st1.cuts = st.cuts := by have := hm1.cuts; have := hm2.cuts; omega
    have hc2 : st2.cuts = st1.cuts := by have := hm1.cuts; have := hm2.cuts; omega
    obtain ⟨hkey, hnew⟩ := hcl trivial hc1
    obtain ⟨hrows, hnew2⟩ := htail hc2
    -- the child built for the head row
    have hchild : (res.getD (.leaf t.sub)).subject = t.sub ∧
        ∀ x, x ∈ resSubjects res → x ∈ (res.getD (.leaf t.sub)).subjects := by
      rcases getD_leaf_cases res t.sub with ⟨hn, hc⟩ | ⟨tr, hr', hc⟩
      · rw [hc, hn]; exact ⟨rfl, fun x hx => by simp [resSubjects] at hx⟩
      · rw [hc, hr']; exact ⟨hroot tr hr', fun x hx => hx⟩
    have hsubj : t.sub ∈ (res.getD (.leaf t.sub)).subjects := by
      have := Tree.subject_mem_subjects (res.getD (.leaf t.sub))
      rwa [hchild.1] at this
    refine ⟨?_, ?_⟩
    · intro t' ht'
      simp only [Tree.subjectsL, List.mem_append]
      rcases List.mem_cons.mp ht' with he | ht'
      · subst he
        exact ⟨.inl hsubj, fun n o r he => hm2.vis _ (hkey n o r he)⟩
      · exact ⟨.inr (hrows t' ht').1, (hrows t' ht').2⟩
    · intro k' hk' hnk' t' ht' hkt'
      simp only [Tree.subjectsL, List.mem_append]
      by_cases h1 : k' ∈ st1.visited
      · obtain ⟨hin, hset⟩ := hnew k' h1 hnk' t' ht' hkt'
        exact ⟨.inl (hchild.2 _ hin), fun n o r he => hm2.vis _ (hset n o r he)⟩
      · obtain ⟨hin, hset⟩ := hnew2 k' hk' h1 t' ht' hkt'
        exact ⟨.inr hin, hset⟩
  | call _ ih =>
    obtain ⟨hm, h⟩ := ih
    exact ⟨(Mono.call _).trans hm, h⟩

theorem step_closed {E : XEnv} {d : Int} {sub : Subject} {st st' : XState} {res : Option Tree}
    (h : Step E (RClosed E.T (1 < d)) d sub st res st') : RClosed E.T True sub st res st' := by
  cases h with
  | id =>
    refine ⟨Mono.refl _, (fun tr h => by cases h; rfl), fun _ _ => ⟨(fun n o r h => by cases h), fun k hk hnk => absurd hk hnk⟩⟩
  | visited hv =>
    refine ⟨Mono.refl _, (fun tr h => by cases h), fun _ _ => ⟨fun n o r h => ?_, fun k hk hnk => absurd hk hnk⟩⟩
    cases h; exact hv
  | @empty n o r st hv he =>
    refine ⟨(Mono.visit _ _).trans (Mono.call _), (fun tr h => by cases h), fun _ _ => ⟨fun n' o' r' h => ?_, ?_⟩⟩
    · cases h; exact List.mem_cons_self ..
    · intro k hk hnk t ht hkt
      have hk' : k = (n, o, r) := by
        rcases List.mem_cons.mp hk with h | h
        · exact h
        · exact absurd h hnk
      have : t ∈ rowsOf E.T n o r := by
        apply mem_rowsOf.mpr
        simp only [tkey, hk', Prod.mk.injEq] at hkt
        exact ⟨ht, hkt.1, hkt.2.1, hkt.2.2⟩
      rw [he] at this
      cases this
  | cut =>
    refine ⟨((Mono.visit _ _).trans (Mono.call _)).trans (Mono.cut _), (fun tr h => by cases h; rfl), fun _ hc => ?_⟩
    simp [XState.cut, XState.call, XState.visit] at hc
  | @union n o r st st' cs hv _ h1 hc =>
    obtain ⟨hm, hcl⟩ := chain_closed (hc.imp (fun _ _ _ _ hr => ⟨hr.1, hr.2.1, fun _ => hr.2.2 h1⟩))
    refine ⟨(Mono.visit _ _).trans hm, (fun tr h => by cases h; rfl), fun _ hcuts => ?_⟩
    obtain ⟨hrows, hnew⟩ := hcl hcuts
    refine ⟨fun n' o' r' h => ?_, ?_⟩
    · cases h; exact hm.vis _ (List.mem_cons_self ..)
    · intro k hk hnk t ht hkt
      simp only [resSubjects, Tree.subjects]
      by_cases hk' : k = (n, o, r)
      · have : t ∈ rowsOf E.T n o r := by
          apply mem_rowsOf.mpr
          simp only [tkey, hk', Prod.mk.injEq] at hkt
          exact ⟨ht, hkt.1, hkt.2.1, hkt.2.2⟩
        exact ⟨List.mem_cons_of_mem _ (hrows t this).1, (hrows t this).2⟩
      · have hnk1 : k ∉ (st.visit (n, o, r)).visited := by
          intro hin
          rcases List.mem_cons.mp hin with h | h
          · exact hk' h
          · exact hnk h
        obtain ⟨hin, hset⟩ := hnew k hk hnk1 t ht hkt
        exact ⟨List.mem_cons_of_mem _ hin, hset⟩

theorem expand_closed (E : XEnv) : ∀ (fuel : Nat) (rd : Int) (sub : Subject) (st : XState),
    1 ≤ fuel → effDepth rd E.g ≤ fuel →
    RClosed E.T True sub st (expand E fuel rd sub st).1 (expand E fuel rd sub st).2
  | 0, _, _, _, h1, _ => by omega
  | fuel+1, rd, sub, st, _, hf => by
    have hle := effDepth_le rd E.g
    exact step_closed (expand_step E (RClosed E.T (1 < effDepth rd E.g)) fuel rd sub st
      (fun s st' =>
        ⟨expand_mono E fuel _ s st', fun tr h => expand_root E fuel _ s st' tr h,
         fun h1 => (expand_closed E fuel _ s st' (by omega) (by rw [effDepth_pred h1 hle]; omega)).2.2 trivial⟩))

/-- The closed set contains everything reachable. -/
theorem closed_reach {T : List Tuple} {n : String} {o : Nat} {r : String} {subj : List Subject} {V : List VKey}
    (hS : (n, o, r) ∈ V) (hcl : ∀ k, k ∈ V → SuccOK T subj V k) :
    ∀ x, Reach T (.set n o r) x → x ∈ subj ∧ ∀ n' o' r', x = .set n' o' r' → (n', o', r') ∈ V := by
  intro x hx
  induction hx with
  | direct he ht =>
    cases he
    exact hcl _ hS _ ht rfl
  | step _ ht ih =>
    exact hcl _ (ih.2 _ _ _ rfl) _ ht rfl


/-! ### storage calls (C09_terminates: the bound) -/

/-- Pages of one listing: at most `T.length / pageSize + 1`. -/
def pagesBound (E : XEnv) : Nat := E.T.length / E.pageSize + 1

theorem pagesOf_length (ps : Nat) : ∀ (fuel : Nat) (rows : List Tuple),
    (pagesOf ps fuel rows).length ≤ rows.length / ps + 1
  | 0, rows => by simp [pagesOf]
  | fuel+1, rows => by
    simp only [pagesOf]
    split
    · simp
    · next hc =>
      have hps : 0 < ps := by omega
      have hlen : ps ≤ rows.length := by omega
      have ih := pagesOf_length ps fuel (rows.drop ps)
      rw [List.length_drop] at ih
      rw [List.length_cons, Nat.div_eq_sub_div hps hlen]
      omega

theorem pages_le_bound (E : XEnv) (n : String) (o : Nat) (r : String) :
    (pagesOf E.pageSize (rowsOf E.T n o r).length (rowsOf E.T n o r)).length ≤ pagesBound E := by
  have h1 := pagesOf_length E.pageSize (rowsOf E.T n o r).length (rowsOf E.T n o r)
  have h2 : (rowsOf E.T n o r).length ≤ E.T.length := List.length_filter_le _ _
  have h3 := Nat.div_le_div_right (c := E.pageSize) h2
  unfold pagesBound
  omega

def RCalls (B : Nat) : XRel := fun _ st _ st' =>
  st'.calls + B * st.visited.length ≤ st.calls + B * st'.visited.length

theorem chain_calls {B : Nat} {ts : List Tuple} {st st' : XState} {cs : List Tree} {k : Nat}
    (h : Chain (RCalls B) ts st cs st' k) :
    st'.calls + B * st.visited.length ≤ st.calls + k + B * st'.visited.length := by
  induction h with
  | nil => omega
  | cons hr _ ih => unfold RCalls at hr; omega
  | call _ ih => simp only [XState.call] at ih; omega

theorem step_calls {E : XEnv} {d : Int} {sub : Subject} {st st' : XState} {res : Option Tree}
    (h : Step E (RCalls (pagesBound E)) d sub st res st') : RCalls (pagesBound E) sub st res st' := by
  have hB : 1 ≤ pagesBound E := Nat.succ_le_succ (Nat.zero_le _)
  unfold RCalls
  cases h with
  | id => omega
  | visited => omega
  | empty =>
    simp only [XState.call, XState.visit, List.length_cons, Nat.mul_succ]; omega
  | cut =>
    simp only [XState.cut, XState.call, XState.visit, List.length_cons, Nat.mul_succ]; omega
  | @union n o r st st' cs _ _ _ hc =>
    have h := chain_calls hc
    have hp := pages_le_bound E n o r
    simp only [XState.visit, List.length_cons, Nat.mul_succ] at h
    omega

theorem expand_calls (E : XEnv) : ∀ (fuel : Nat) (rd : Int) (sub : Subject) (st : XState),
    RCalls (pagesBound E) sub st (expand E fuel rd sub st).1 (expand E fuel rd sub st).2
  | 0, _, _, st => by simp only [expand, RCalls, XState.outOfFuel]; omega
  | fuel+1, rd, sub, st =>
    step_calls (expand_step E _ fuel rd sub st (fun s st' => expand_calls E fuel _ s st'))

/-- The subject sets that occur as the subject of a stored tuple. -/
def setKeys (T : List Tuple) : List VKey :=
  T.filterMap fun t => match t.sub with
    | .set n o r => some (n, o, r)
    | .id _ => none

theorem mem_setKeys {T : List Tuple} {t : Tuple} {n : String} {o : Nat} {r : String}
    (ht : t ∈ T) (hs : t.sub = .set n o r) : (n, o, r) ∈ setKeys T := by
  unfold setKeys
  exact List.mem_filterMap.mpr ⟨t, ht, by rw [hs]⟩

def subjKey : Subject → List VKey
  | .set n o r => [(n, o, r)]
  | .id _ => []

/-- The visited set stays duplicate-free and only gains the expanded subject and
    subject sets that occur in `T`. -/
def RVis (T : List Tuple) : XRel := fun s st _ st' =>
  (st.visited.Nodup → st'.visited.Nodup) ∧
  ∀ k, k ∈ st'.visited → k ∈ st.visited ∨ k ∈ subjKey s ∨ k ∈ setKeys T

theorem chain_vis {T : List Tuple} {ts : List Tuple} {st st' : XState} {cs : List Tree} {k : Nat}
    (h : Chain (RVis T) ts st cs st' k) (hts : ∀ t, t ∈ ts → t ∈ T) :
    (st.visited.Nodup → st'.visited.Nodup) ∧ ∀ k, k ∈ st'.visited → k ∈ st.visited ∨ k ∈ setKeys T := by
  induction h with
  | nil => exact ⟨id, fun k hk => .inl hk⟩
  | @cons t ts st st1 st2 res cs k hr _ ih =>
    obtain ⟨hn1, hv1⟩ := hr
    obtain ⟨hn2, hv2⟩ := ih (fun t' ht' => hts t' (List.mem_cons_of_mem _ ht'))
    refine ⟨fun h => hn2 (hn1 h), fun k hk => ?_⟩
    rcases hv2 k hk with h | h
    · rcases hv1 k h with h | h | h
      · exact .inl h
      · right
        cases hs : t.sub with
        | id u => rw [hs] at h; simp [subjKey] at h
        | set n o r =>
          rw [hs] at h
          simp only [subjKey, List.mem_singleton] at h
          subst h
          exact mem_setKeys (hts t (List.mem_cons_self ..)) hs
      · exact .inr h
    · exact .inr h
  | call _ ih => exact ih hts

theorem step_vis {E : XEnv} {d : Int} {sub : Subject} {st st' : XState} {res : Option Tree}
    (h : Step E (RVis E.T) d sub st res st') : RVis E.T sub st res st' := by
  cases h with
  | id => exact ⟨id, fun k hk => .inl hk⟩
  | visited => exact ⟨id, fun k hk => .inl hk⟩
  | @empty n o r st hv _ =>
    refine ⟨fun h => List.nodup_cons.mpr ⟨hv, h⟩, fun k hk => ?_⟩
    rcases List.mem_cons.mp hk with h | h
    · exact .inr (.inl (by simp [subjKey, h]))
    · exact .inl h
  | @cut n o r st hv _ _ =>
    refine ⟨fun h => List.nodup_cons.mpr ⟨hv, h⟩, fun k hk => ?_⟩
    rcases List.mem_cons.mp hk with h | h
    · exact .inr (.inl (by simp [subjKey, h]))
    · exact .inl h
  | @union n o r st st' cs hv _ _ hc =>
    obtain ⟨hn, hvs⟩ := chain_vis hc (fun t ht => (mem_rowsOf.mp ht).1)
    refine ⟨fun h => hn (List.nodup_cons.mpr ⟨hv, h⟩), fun k hk => ?_⟩
    rcases hvs k hk with h | h
    · rcases List.mem_cons.mp h with h | h
      · exact .inr (.inl (by simp [subjKey, h]))
      · exact .inl h
    · exact .inr (.inr h)

theorem expand_vis (E : XEnv) : ∀ (fuel : Nat) (rd : Int) (sub : Subject) (st : XState),
    RVis E.T sub st (expand E fuel rd sub st).1 (expand E fuel rd sub st).2
  | 0, _, _, st => by simp only [expand, XState.outOfFuel]; exact ⟨id, fun k hk => .inl hk⟩
  | fuel+1, rd, sub, st =>
    step_vis (expand_step E _ fuel rd sub st (fun s st' => expand_vis E fuel _ s st'))

/-- Pigeonhole: a duplicate-free list inside another list is not longer. -/
theorem nodup_length_le {α : Type} [DecidableEq α] : ∀ (l m : List α), l.Nodup → (∀ x, x ∈ l → x ∈ m) →
    l.length ≤ m.length
  | [], _, _, _ => Nat.zero_le _
  | a :: l, m, hn, hs => by
    obtain ⟨ha, hn'⟩ := List.nodup_cons.mp hn
    have ham : a ∈ m := hs a (List.mem_cons_self ..)
    have ih := nodup_length_le l (m.erase a) hn' (fun x hx => by
      have hxa : x ≠ a := fun h => ha (h ▸ hx)
      exact (List.mem_erase_of_ne hxa).mpr (hs x (List.mem_cons_of_mem _ hx)))
    rw [List.length_erase_of_mem ham] at ih
    have : 0 < m.length := List.length_pos_of_mem ham
    simp only [List.length_cons]
    omega

/-! ### `Reach`, `ReachIn` and the executable `reachWithin` -/

theorem ReachIn.toReach {T : List Tuple} {S x : Subject} {k : Nat} (h : ReachIn T S k x) : Reach T S x := by
  induction h with
  | direct he ht => exact .direct he ht
  | step _ ht ih => exact .step ih ht

theorem ReachIn.pos {T : List Tuple} {S x : Subject} {k : Nat} (h : ReachIn T S k x) : 1 ≤ k := by
  cases h <;> omega

theorem Reach.toReachIn {T : List Tuple} {S x : Subject} (h : Reach T S x) : ∃ k, ReachIn T S k x := by
  induction h with
  | direct he ht => exact ⟨1, .direct he ht⟩
  | step _ ht ih => obtain ⟨k, hk⟩ := ih; exact ⟨k + 1, .step hk ht⟩

/-- Reachable along at most `m` tuples. -/
def ReachLe (T : List Tuple) (S : Subject) (m : Nat) (x : Subject) : Prop :=
  ∃ j, j ≤ m ∧ ReachIn T S j x

theorem ReachLe.mono {T : List Tuple} {S x : Subject} {m m' : Nat} (h : ReachLe T S m x) (hm : m ≤ m') :
    ReachLe T S m' x := by
  obtain ⟨j, hj, hr⟩ := h; exact ⟨j, Nat.le_trans hj hm, hr⟩

theorem mem_succs {T : List Tuple} {f x : Subject} (h : x ∈ succs T f) :
    ∃ n o r, f = .set n o r ∧ (⟨n, o, r, x⟩ : Tuple) ∈ T := by
  cases f with
  | id u => simp [succs] at h
  | set n o r =>
    simp only [succs, List.mem_map] at h
    obtain ⟨t, ht, he⟩ := h
    exact ⟨n, o, r, rfl, he ▸ row_tuple ht⟩

theorem mem_succsAll {T : List Tuple} {x : Subject} : ∀ {front : List Subject}, x ∈ succsAll T front →
    ∃ f, f ∈ front ∧ x ∈ succs T f
  | [], h => by simp [succsAll] at h
  | f :: fs, h => by
    simp only [succsAll, List.mem_append] at h
    rcases h with h | h
    · exact ⟨f, List.mem_cons_self .., h⟩
    · obtain ⟨f', hf', hx⟩ := mem_succsAll h
      exact ⟨f', List.mem_cons_of_mem _ hf', hx⟩

theorem addNew_eq : ∀ (xs acc : List Subject), ∃ new, addNew xs acc = acc ++ new ∧ ∀ x, x ∈ new → x ∈ xs
  | [], acc => ⟨[], by simp [addNew], fun x hx => by cases hx⟩
  | y :: xs, acc => by
    simp only [addNew]
    split
    · obtain ⟨new, he, hs⟩ := addNew_eq xs acc
      exact ⟨new, he, fun x hx => List.mem_cons_of_mem _ (hs x hx)⟩
    · obtain ⟨new, he, hs⟩ := addNew_eq xs (acc ++ [y])
      refine ⟨y :: new, by rw [he]; simp, fun x hx => ?_⟩
      rcases List.mem_cons.mp hx with h | h
      · exact h ▸ List.mem_cons_self ..
      · exact List.mem_cons_of_mem _ (hs x h)

/-- What is found in round `i + 1`: a successor of a subject found in round `i` (round 0: the start). -/
theorem succ_reachIn {T : List Tuple} {S f x : Subject} {i : Nat}
    (hf : (i = 0 ∧ f = S) ∨ ReachIn T S i f) (hx : x ∈ succs T f) : ReachIn T S (i + 1) x := by
  obtain ⟨n, o, r, he, ht⟩ := mem_succs hx
  rcases hf with ⟨h0, hS⟩ | hr
  · subst h0; subst hS; exact .direct he ht
  · subst he; exact .step hr ht

theorem reachLevels_sound {T : List Tuple} {S : Subject} : ∀ (k i : Nat) (front seen : List Subject),
    (∀ x, x ∈ seen → ReachLe T S i x) → (∀ f, f ∈ front → (i = 0 ∧ f = S) ∨ ReachIn T S i f) →
    ∀ x, x ∈ reachLevels T k front seen → ReachLe T S (i + k) x
  | 0, i, _, seen, hs, _, x, hx => by
    simp only [reachLevels] at hx
    exact hs x hx
  | k+1, i, front, seen, hs, hf, x, hx => by
    simp only [reachLevels] at hx
    obtain ⟨new, he, hnew⟩ := addNew_eq (succsAll T front) seen
    have hnew' : ∀ y, y ∈ new → ReachIn T S (i + 1) y := by
      intro y hy
      obtain ⟨f, hfm, hyf⟩ := mem_succsAll (hnew y hy)
      exact succ_reachIn (hf f hfm) hyf
    rw [he, List.drop_left] at hx
    split at hx
    · exact (hs x hx).mono (by omega)
    · have := reachLevels_sound k (i + 1) new (seen ++ new)
        (fun y hy => by
          rcases List.mem_append.mp hy with h | h
          · exact (hs y h).mono (by omega)
          · exact ⟨i + 1, Nat.le_refl _, hnew' y h⟩)
        (fun f hf' => .inr (hnew' f hf')) x hx
      exact this.mono (by omega)

/-- Everything `reachWithin T d S` lists is reachable from `S` along fewer than `d` tuples. -/
theorem reachWithin_sound {T : List Tuple} {S x : Subject} {d : Nat} (h : x ∈ reachWithin T d S) :
    ∃ j, 1 ≤ j ∧ j < d ∧ ReachIn T S j x := by
  have := reachLevels_sound (T := T) (S := S) (d - 1) 0 [S] [] (fun y hy => by cases hy)
    (fun f hf => .inl ⟨rfl, by simpa using hf⟩) x h
  obtain ⟨j, hj, hr⟩ := this
  have := hr.pos
  exact ⟨j, this, by omega, hr⟩

theorem reachAll_sound {T : List Tuple} {S x : Subject} (h : x ∈ reachAll T S) : Reach T S x := by
  have := reachLevels_sound (T := T) (S := S) (T.length + 2) 0 [S] [] (fun y hy => by cases hy)
    (fun f hf => .inl ⟨rfl, by simpa using hf⟩) x h
  obtain ⟨j, _, hr⟩ := this
  exact hr.toReach

/-! ### … and it lists all of them (completeness of the breadth-first search) -/

theorem addNew_acc (xs acc : List Subject) : ∀ x, x ∈ acc → x ∈ addNew xs acc := by
  obtain ⟨new, he, _⟩ := addNew_eq xs acc
  intro x hx; rw [he]; exact List.mem_append_left _ hx

theorem addNew_mem : ∀ (xs acc : List Subject) (x : Subject), x ∈ xs → x ∈ addNew xs acc
  | [], _, _, h => by cases h
  | y :: xs, acc, x, h => by
    simp only [addNew]
    split
    · next hc =>
      rcases List.mem_cons.mp h with he | h'
      · subst he; exact addNew_acc xs acc _ (by simpa using hc)
      · exact addNew_mem xs acc x h'
    · rcases List.mem_cons.mp h with he | h'
      · subst he; exact addNew_acc xs _ _ (by simp)
      · exact addNew_mem xs _ x h'

theorem succs_mem {T : List Tuple} {n : String} {o : Nat} {r : String} {x : Subject}
    (h : (⟨n, o, r, x⟩ : Tuple) ∈ T) : x ∈ succs T (.set n o r) := by
  simp only [succs, List.mem_map]
  exact ⟨_, tuple_row h, rfl⟩

theorem succsAll_mem {T : List Tuple} {x f : Subject} : ∀ {front : List Subject}, f ∈ front → x ∈ succs T f →
    x ∈ succsAll T front
  | [], h, _ => by cases h
  | g :: gs, h, hx => by
    simp only [succsAll, List.mem_append]
    rcases List.mem_cons.mp h with he | h'
    · subst he; exact .inl hx
    · exact .inr (succsAll_mem h' hx)

/-- A set that contains the successors of the start and of all its members contains
    everything reachable. -/
theorem closed_all {T : List Tuple} {S : Subject} {seen : List Subject}
    (hcl : ∀ p, (p ∈ seen ∨ p = S) → ∀ x, x ∈ succs T p → x ∈ seen) :
    ∀ {j : Nat} {x : Subject}, ReachIn T S j x → x ∈ seen := by
  intro j x h
  induction h with
  | direct he ht => exact hcl S (.inr rfl) _ (he ▸ succs_mem ht)
  | step _ ht ih => exact hcl _ (.inl ih) _ (succs_mem ht)

theorem reachLevels_complete {T : List Tuple} {S : Subject} : ∀ (k i : Nat) (front seen : List Subject),
    (∀ x, ReachLe T S i x → x ∈ seen) →
    (∀ p, (p ∈ seen ∨ p = S) → p ∉ front → ∀ x, x ∈ succs T p → x ∈ seen) →
    ∀ x, ReachLe T S (i + k) x → x ∈ reachLevels T k front seen
  | 0, i, _, seen, hB, _, x, hx => by
    simp only [reachLevels]
    exact hB x hx
  | k+1, i, front, seen, hB, hA, x, hx => by
    simp only [reachLevels]
    obtain ⟨new, he, _⟩ := addNew_eq (succsAll T front) seen
    have hsub : ∀ y, y ∈ seen → y ∈ seen ++ new := fun y hy => List.mem_append_left _ hy
    have hfront : ∀ p, p ∈ front → ∀ y, y ∈ succs T p → y ∈ seen ++ new := by
      intro p hp y hy
      rw [← he]
      exact addNew_mem _ _ y (succsAll_mem hp hy)
    -- successors of everything seen so far (and of the start) are in the new set
    have hsucc : ∀ p, (p ∈ seen ∨ p = S) → ∀ y, y ∈ succs T p → y ∈ seen ++ new := by
      intro p hp y hy
      by_cases hpf : p ∈ front
      · exact hfront p hpf y hy
      · exact hsub y (hA p hp hpf y hy)
    have hB' : ∀ y, ReachLe T S (i + 1) y → y ∈ seen ++ new := by
      intro y ⟨j, hj, hr⟩
      by_cases hji : j ≤ i
      · exact hsub y (hB y ⟨j, hji, hr⟩)
      · have hj1 : j = i + 1 := by omega
        subst hj1
        cases hr with
        | direct hS ht => exact hsucc S (.inr rfl) y (hS ▸ succs_mem ht)
        | step hp ht => exact hsucc _ (.inl (hB _ ⟨i, Nat.le_refl _, hp⟩)) y (succs_mem ht)
    rw [he, List.drop_left]
    split
    · next hemp =>
      have hnil : new = [] := by simpa using hemp
      subst hnil
      obtain ⟨j, _, hr⟩ := hx
      exact closed_all (fun p hp y hy => by simpa using hsucc p hp y hy) hr
    · apply reachLevels_complete k (i + 1) new (seen ++ new) hB'
      · intro p hp hpn y hy
        have hp' : p ∈ seen ∨ p = S := by
          rcases hp with hp | hp
          · rcases List.mem_append.mp hp with h | h
            · exact .inl h
            · exact absurd h hpn
          · exact .inr hp
        exact hsucc p hp' y hy
      · obtain ⟨j, hj, hr⟩ := hx
        exact ⟨j, by omega, hr⟩

/-- `reachWithin T d S` lists every subject reachable from `S` along fewer than `d` tuples. -/
theorem reachWithin_complete {T : List Tuple} {S x : Subject} {d j : Nat} (hj : j < d) (h : ReachIn T S j x) :
    x ∈ reachWithin T d S := by
  apply reachLevels_complete (T := T) (S := S) (d - 1) 0 [S] []
  · intro y ⟨j', hj', hr⟩
    have := hr.pos
    omega
  · intro p hp hpn
    rcases hp with hp | hp
    · cases hp
    · subst hp; simp at hpn
  · exact ⟨j, by omega, h⟩

theorem addNew_nodup : ∀ (xs acc : List Subject), acc.Nodup → (addNew xs acc).Nodup
  | [], _, h => h
  | y :: xs, acc, h => by
    simp only [addNew]
    split
    · exact addNew_nodup xs acc h
    · next hc =>
      apply addNew_nodup xs (acc ++ [y])
      refine List.nodup_append.mpr ⟨h, by simp, ?_⟩
      intro a ha b hb hab
      simp only [List.mem_singleton] at hb
      subst hb; subst hab
      exact hc (by simpa using ha)

/-- Without a bound: `T.length + 2` rounds exhaust the graph (every round that does not end the
    search adds a new subject of a stored tuple). -/
theorem reachLevels_all {T : List Tuple} {S : Subject} : ∀ (k : Nat) (front seen : List Subject),
    (∀ p, (p ∈ seen ∨ p = S) → p ∉ front → ∀ x, x ∈ succs T p → x ∈ seen) →
    seen.Nodup → (∀ y, y ∈ seen → y ∈ T.map (·.sub)) → T.length < seen.length + k →
    ∀ {j : Nat} {x : Subject}, ReachIn T S j x → x ∈ reachLevels T k front seen
  | 0, _, seen, _, hn, hs, hk, _, _, _ => by
    have := nodup_length_le seen (T.map (·.sub)) hn hs
    rw [List.length_map] at this
    omega
  | k+1, front, seen, hA, hn, hs, hk, j, x, hx => by
    simp only [reachLevels]
    obtain ⟨new, he, hnew⟩ := addNew_eq (succsAll T front) seen
    have hnd : (seen ++ new).Nodup := he ▸ addNew_nodup _ _ hn
    have hsucc : ∀ p, (p ∈ seen ∨ p = S) → ∀ y, y ∈ succs T p → y ∈ seen ++ new := by
      intro p hp y hy
      by_cases hpf : p ∈ front
      · rw [← he]; exact addNew_mem _ _ y (succsAll_mem hpf hy)
      · exact List.mem_append_left _ (hA p hp hpf y hy)
    rw [he, List.drop_left]
    split
    · next hemp =>
      have hnil : new = [] := by simpa using hemp
      subst hnil
      exact closed_all (fun p hp y hy => by simpa using hsucc p hp y hy) hx
    · next hne =>
      apply reachLevels_all k new (seen ++ new) _ hnd _ _ hx
      · intro p hp hpn y hy
        have hp' : p ∈ seen ∨ p = S := by
          rcases hp with hp | hp
          · rcases List.mem_append.mp hp with h | h
            · exact .inl h
            · exact absurd h hpn
          · exact .inr hp
        exact hsucc p hp' y hy
      · intro y hy
        rcases List.mem_append.mp hy with h | h
        · exact hs y h
        · obtain ⟨f, _, hyf⟩ := mem_succsAll (hnew y h)
          obtain ⟨n, o, r, _, ht⟩ := mem_succs hyf
          exact List.mem_map.mpr ⟨_, ht, rfl⟩
      · have : 0 < new.length := by
          cases new with
          | nil => simp at hne
          | cons a as => simp
        rw [List.length_append]
        omega

/-- `reachAll T S` lists every subject reachable from `S`. -/
theorem reachAll_complete {T : List Tuple} {S x : Subject} (h : Reach T S x) : x ∈ reachAll T S := by
  obtain ⟨j, hj⟩ := h.toReachIn
  apply reachLevels_all (T := T) (S := S) (T.length + 2) [S] [] _ List.nodup_nil _ _ hj
  · intro p hp hpn
    rcases hp with hp | hp
    · cases hp
    · subst hp; simp at hpn
  · intro y hy; cases hy
  · simp

/-! ### rewrite-free configurations: membership is reachability (C09_leaves_eq_check) -/

/-- No relation of the configuration has a rewrite (legacy namespaces, or OPL namespaces
    that only declare relations). -/
def Cfg.plain (c : Cfg) : Prop := ∀ ns rel R, astRelationFor c ns rel = .rel R → R.rewrite = none

theorem mem_reach {c : Cfg} {T : List Tuple} (hc : Cfg.plain c) :
    ∀ {t : Tuple}, Mem c T t → Reach T (.set t.ns t.obj t.rel) t.sub
  | _, .direct t h => .direct rfl h
  | _, .expand t _ _ _ h hm => Reach.head h (mem_reach hc hm)
  | _, .rewrite t R rw h1 h2 _ => by
    have := hc _ _ _ h1
    rw [this] at h2
    cases h2

theorem mem_trans {c : Cfg} {T : List Tuple} (hc : Cfg.plain c) {n' : String} {o' : Nat} {r' : String} {x : Subject} :
    ∀ {t : Tuple}, Mem c T t → t.sub = .set n' o' r' → Mem c T ⟨n', o', r', x⟩ → Mem c T ⟨t.ns, t.obj, t.rel, x⟩
  | _, .direct t h, hs, hx => .expand ⟨t.ns, t.obj, t.rel, x⟩ n' o' r' (by rw [← hs]; exact h) hx
  | _, .expand t n o r h hm, hs, hx =>
    .expand ⟨t.ns, t.obj, t.rel, x⟩ n o r h (mem_trans hc hm hs hx)
  | _, .rewrite t R rw h1 h2 _, _, _ => by
    have := hc _ _ _ h1
    rw [this] at h2
    cases h2

theorem reach_mem {c : Cfg} {T : List Tuple} (hc : Cfg.plain c) {n : String} {o : Nat} {r : String} {x : Subject}
    (h : Reach T (.set n o r) x) : Mem c T ⟨n, o, r, x⟩ := by
  induction h with
  | direct he ht => cases he; exact .direct _ ht
  | step _ ht ih => exact mem_trans hc ih rfl (.direct _ ht)


theorem mem_idsOf {u : Nat} : ∀ {l : List Subject}, u ∈ idsOf l ↔ Subject.id u ∈ l
  | [] => by simp [idsOf]
  | .id v :: l => by
    simp only [idsOf, List.mem_cons, mem_idsOf (l := l)]
    constructor
    · rintro (h | h)
      · exact .inl (by rw [h])
      · exact .inr h
    · rintro (h | h)
      · cases h; exact .inl rfl
      · exact .inr h
  | .set _ _ _ :: l => by
    simp only [idsOf, List.mem_cons, mem_idsOf (l := l)]
    constructor
    · exact fun h => .inr h
    · rintro (h | h)
      · cases h
      · exact h

end Keto
