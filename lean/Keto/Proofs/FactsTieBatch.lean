/-
  Fact ties kept apart from Keto/Proofs/FactsTie.lean so that only the properties that rely on them depend on them.
-/
import Keto.Generated.Facts

namespace Keto.FactsTie
open Keto.Facts

/-- The whole-batch rejection of both batch entry points tests `len(tuples) > max` (strictly). -/
def expectedBatchGuards : List (String × String × String) := [
  ("internal/check/handler.go", "Handler.doBatchCheck", ">"),
  ("internal/check/handler.go", "Handler.BatchCheck", ">")]

theorem batchGuards_tie : batchGuards = expectedBatchGuards := by decide

end Keto.FactsTie
