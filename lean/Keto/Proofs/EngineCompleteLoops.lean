/-
  Completeness of the engine model, part 3: the loops (`relLoop`, `ttuRows`, `ttuPages`,
  `expandLoop`, `orRun`, `andLoop`/`andRun`, `buildChildren`).

  Shape of every loop lemma: the frame always holds; a group only holds decisive results; and if
  the group is still undecided at the end and no limit event has happened, then it was undecided
  at the start, every element was refuted (w.r.t. the visited set at the *start* of the loop) and
  the visited set was extended by dead nodes only.

  Helper lemmas only; the property theorems live in Keto/Props/C01complete.lean.
-/
import Keto.Proofs.EngineCompleteFrame

namespace Keto

theorem lim_zero_of_frame {o : Option Nat} {w w' : World} (h : Frame o w w') (hz : w'.limitHits = 0) :
    w.limitHits = 0 :=
  Nat.le_zero.1 (hz ▸ h.lim)

/-- The candidates loop of the union shortcut. -/
theorem relLoop_ok (E : Env) (sub : Subject) (rec : String → Ctx → World → Res × World)
    (P : String → List VKey → Prop) (hP : ∀ r, PExt E sub (P r)) (c : Ctx) :
    ∀ (rs : List String) (g : Option Res) (w : World), Valid c w →
      (∀ r, r ∈ rs → ∀ w, Valid c w → RunOK E sub (P r) c w (rec r c w)) →
      Frame c.vref w (relLoop rec rs g c w).2 ∧
      (GDec g → GDec (relLoop rec rs g c w).1) ∧
      ((relLoop rec rs g c w).1 = none → (relLoop rec rs g c w).2.limitHits = 0 →
        g = none ∧ Ext E.cfg E.T sub (vis c w) (vis c (relLoop rec rs g c w).2) ∧
        ∀ r, r ∈ rs → ¬ P r (vis c w))
  | [], g, w, _, _ =>
    ⟨Frame.refl _ _, id, fun h _ => ⟨h, Ext.refl _ _, fun _ hr => by cases hr⟩⟩
  | r :: rs, g, w, hv, hrec => by
    simp only [relLoop]
    have h1 := hrec r (List.mem_cons_self ..) w hv
    have ih := relLoop_ok E sub rec P hP c rs (gAdd g (rec r c w).1) (rec r c w).2 (hv.frame h1.frame)
      (fun r' hr' => hrec r' (List.mem_cons_of_mem _ hr'))
    refine ⟨h1.frame.trans ih.1, fun hg => ih.2.1 (hg.gAdd _), fun hnone hlim => ?_⟩
    obtain ⟨hg, hext, hall⟩ := ih.2.2 hnone hlim
    obtain ⟨hg0, hd⟩ := gAdd_eq_none hg
    obtain ⟨hext1, hneg1⟩ := h1.neg hd (lim_zero_of_frame ih.1 hlim)
    refine ⟨hg0, hext1.trans hext, fun r' hr' => ?_⟩
    cases hr' with
    | head => exact hneg1
    | tail _ hr'' => exact fun hp => hall r' hr'' (hP r' _ _ hext1 hp)

/-- Rows of one page of the tuple-to-subject-set listing. -/
theorem ttuRows_ok (E : Env) (sub : Subject) (rec : VKey → Ctx → World → Res × World)
    (P : VKey → List VKey → Prop) (hP : ∀ s, PExt E sub (P s)) (c : Ctx) :
    ∀ (ts : List Tuple) (g : Option Res) (w : World), Valid c w →
      (∀ t, t ∈ ts → ∀ n o r, t.sub = .set n o r → ∀ w, Valid c w →
        RunOK E sub (P (n, o, r)) c w (rec (n, o, r) c w)) →
      Frame c.vref w (ttuRows rec ts g c w).2 ∧
      (GDec g → GDec (ttuRows rec ts g c w).1) ∧
      ((ttuRows rec ts g c w).1 = none → (ttuRows rec ts g c w).2.limitHits = 0 →
        g = none ∧ Ext E.cfg E.T sub (vis c w) (vis c (ttuRows rec ts g c w).2) ∧
        ∀ t, t ∈ ts → ∀ n o r, t.sub = .set n o r → ¬ P (n, o, r) (vis c w))
  | [], g, w, _, _ =>
    ⟨Frame.refl _ _, id, fun h _ => ⟨h, Ext.refl _ _, fun _ ht => by cases ht⟩⟩
  | t :: ts, g, w, hv, hrec => by
    have hrest : ∀ t', t' ∈ ts → ∀ n o r, t'.sub = .set n o r → ∀ w, Valid c w →
        RunOK E sub (P (n, o, r)) c w (rec (n, o, r) c w) :=
      fun t' ht' => hrec t' (List.mem_cons_of_mem _ ht')
    simp only [ttuRows]
    split
    · next n o r hs =>
      have h1 := hrec t (List.mem_cons_self ..) n o r hs w hv
      have ih := ttuRows_ok E sub rec P hP c ts (gAdd g (rec (n, o, r) c w).1) (rec (n, o, r) c w).2
        (hv.frame h1.frame) hrest
      refine ⟨h1.frame.trans ih.1, fun hg => ih.2.1 (hg.gAdd _), fun hnone hlim => ?_⟩
      obtain ⟨hg, hext, hall⟩ := ih.2.2 hnone hlim
      obtain ⟨hg0, hd⟩ := gAdd_eq_none hg
      obtain ⟨hext1, hneg1⟩ := h1.neg hd (lim_zero_of_frame ih.1 hlim)
      refine ⟨hg0, hext1.trans hext, fun t' ht' n' o' r' hs' => ?_⟩
      cases ht' with
      | head =>
        rw [hs] at hs'
        cases hs'
        exact hneg1
      | tail _ ht'' => exact fun hp => hall t' ht'' n' o' r' hs' (hP _ _ _ hext1 hp)
    · next u hs =>
      have ih := ttuRows_ok E sub rec P hP c ts g w hv hrest
      refine ⟨ih.1, ih.2.1, fun hnone hlim => ?_⟩
      obtain ⟨hg, hext, hall⟩ := ih.2.2 hnone hlim
      refine ⟨hg, hext, fun t' ht' n' o' r' hs' => ?_⟩
      cases ht' with
      | head => rw [hs] at hs'; cases hs'
      | tail _ ht'' => exact hall t' ht'' n' o' r' hs'

/-- Page loop of the tuple-to-subject-set listing (a storage fault decides the group). -/
theorem ttuPages_ok (E : Env) (sub : Subject)
    (rec : VKey → Ctx → World → Res × World)
    (P : VKey → List VKey → Prop) (hP : ∀ s, PExt E sub (P s)) (c : Ctx) :
    ∀ (ps : List (List Tuple)) (g : Option Res) (w : World), Valid c w →
      (∀ p, p ∈ ps → ∀ t, t ∈ p → ∀ n o r, t.sub = .set n o r → ∀ w, Valid c w →
        RunOK E sub (P (n, o, r)) c w (rec (n, o, r) c w)) →
      Frame c.vref w (ttuPages E rec ps g c w).2 ∧
      (GDec g → GDec (ttuPages E rec ps g c w).1) ∧
      ((ttuPages E rec ps g c w).1 = none → (ttuPages E rec ps g c w).2.limitHits = 0 →
        g = none ∧ Ext E.cfg E.T sub (vis c w) (vis c (ttuPages E rec ps g c w).2) ∧
        ∀ p, p ∈ ps → ∀ t, t ∈ p → ∀ n o r, t.sub = .set n o r → ¬ P (n, o, r) (vis c w))
  | [], g, w, _, _ =>
    ⟨Frame.refl _ _, id, fun h _ => ⟨h, Ext.refl _ _, fun _ hp => by cases hp⟩⟩
  | p :: ps, g, w, hv, hrec => by
    simp only [ttuPages]
    split
    · next x =>
      exact ⟨Frame.refl _ _, id, fun h => by cases h⟩
    · have hfr0 : Frame c.vref w (w.call E).2 := Frame.ofCall _ E w
      split
      · exact ⟨hfr0, fun _ x hx => by cases hx; rfl, fun h => by cases h⟩
      · have hv0 : Valid c (w.call E).2 := hv.frame hfr0
        have hvis0 : vis c (w.call E).2 = vis c w := vis_heap_eq rfl
        have h1 := ttuRows_ok E sub rec P hP c p none (w.call E).2 hv0 (hrec p (List.mem_cons_self ..))
        have ih := ttuPages_ok E sub rec P hP c ps (ttuRows rec p none c (w.call E).2).1
          (ttuRows rec p none c (w.call E).2).2 (hv0.frame h1.1)
          (fun p' hp' => hrec p' (List.mem_cons_of_mem _ hp'))
        refine ⟨(hfr0.trans h1.1).trans ih.1, fun _ => ih.2.1 (h1.2.1 GDec.none), fun hnone hlim => ?_⟩
        obtain ⟨hg, hext, hall⟩ := ih.2.2 hnone hlim
        obtain ⟨_, hext1, hall1⟩ := h1.2.2 hg (lim_zero_of_frame ih.1 hlim)
        rw [hvis0] at hext1 hall1
        refine ⟨rfl, hext1.trans hext, fun p' hp' t ht n o r hs => ?_⟩
        cases hp' with
        | head => exact hall1 t ht n o r hs
        | tail _ hp'' => exact fun hp => hall p' hp'' t ht n o r hs (hP _ _ _ hext1 hp)

/-- The loop of `checkExpandSubject`: the depth-first search proper. A subject set that is already
    marked is skipped (it is in the start set, or it was marked in this loop and is dead); one that
    is not is marked and evaluated; if it is not a member it is dead ("no need to revisit"). -/
theorem expandLoop_ok (E : Env) (sub : Subject) (rec : Tuple → Ctx → World → Res × World)
    (c : Ctx) (r0 : Nat) (hc : c.vref = some r0) :
    ∀ (ss : List VKey) (g : Option Res) (w : World), Valid c w →
      (∀ s, s ∈ ss → ∀ w, Valid c w →
        RunOK E sub (fun V => ∃ k, MemN E.cfg E.T V k ⟨s.1, s.2.1, s.2.2, sub⟩) c w
          (rec ⟨s.1, s.2.1, s.2.2, sub⟩ c w)) →
      Frame c.vref w (expandLoop rec sub ss g c w).2 ∧
      (GDec g → GDec (expandLoop rec sub ss g c w).1) ∧
      ((expandLoop rec sub ss g c w).1 = none → (expandLoop rec sub ss g c w).2.limitHits = 0 →
        g = none ∧ Ext E.cfg E.T sub (vis c w) (vis c (expandLoop rec sub ss g c w).2) ∧
        ∀ s, s ∈ ss → s ∈ vis c w ∨ DeadK E.cfg E.T sub (vis c w) s)
  | [], g, w, _, _ =>
    ⟨Frame.refl _ _, id, fun h _ => ⟨h, Ext.refl _ _, fun _ hs => by cases hs⟩⟩
  | s :: ss, g, w, hv, hrec => by
    have hrest : ∀ s', s' ∈ ss → ∀ w, Valid c w →
        RunOK E sub (fun V => ∃ k, MemN E.cfg E.T V k ⟨s'.1, s'.2.1, s'.2.2, sub⟩) c w
          (rec ⟨s'.1, s'.2.1, s'.2.2, sub⟩ c w) :=
      fun s' hs' => hrec s' (List.mem_cons_of_mem _ hs')
    have spec := checkAndAdd_spec c s w r0 hc (hv r0 hc)
    simp only [expandLoop]
    cases hb : (checkAndAdd c s w).1 with
    | true =>
      obtain ⟨hin, hw⟩ := spec.1 hb
      simp only [if_true, hw]
      have ih := expandLoop_ok E sub rec c r0 hc ss g w hv hrest
      refine ⟨ih.1, ih.2.1, fun hnone hlim => ?_⟩
      obtain ⟨hg, hext, hall⟩ := ih.2.2 hnone hlim
      refine ⟨hg, hext, fun s' hs' => ?_⟩
      cases hs' with
      | head => exact Or.inl hin
      | tail _ hs'' => exact hall s' hs''
    | false =>
      obtain ⟨hnin, hvis1, hfr1, _⟩ := spec.2 hb
      simp only [Bool.false_eq_true, if_false]
      rw [← hc] at hfr1
      have hv1 : Valid c (checkAndAdd c s w).2 := hv.frame hfr1
      have h1 := hrec s (List.mem_cons_self ..) (checkAndAdd c s w).2 hv1
      have ih := expandLoop_ok E sub rec c r0 hc ss
        (gAdd g (rec ⟨s.1, s.2.1, s.2.2, sub⟩ c (checkAndAdd c s w).2).1)
        (rec ⟨s.1, s.2.1, s.2.2, sub⟩ c (checkAndAdd c s w).2).2 (hv1.frame h1.frame) hrest
      refine ⟨(hfr1.trans h1.frame).trans ih.1, fun hg => ih.2.1 (hg.gAdd _), fun hnone hlim => ?_⟩
      obtain ⟨hg, hext, hall⟩ := ih.2.2 hnone hlim
      obtain ⟨hg0, hd⟩ := gAdd_eq_none hg
      obtain ⟨hext1, hneg1⟩ := h1.neg hd (lim_zero_of_frame ih.1 hlim)
      rw [hvis1] at hext1 hneg1
      have hdead : DeadK E.cfg E.T sub (vis c w) s :=
        DeadK.of_marked (fun k hm => hneg1 ⟨k, hm⟩)
      have hext0 : Ext E.cfg E.T sub (vis c w)
          (vis c (rec ⟨s.1, s.2.1, s.2.2, sub⟩ c (checkAndAdd c s w).2).2) :=
        (Ext.cons hdead).trans hext1
      refine ⟨hg0, hext0.trans hext, fun s' hs' => ?_⟩
      cases hs' with
      | head => exact Or.inr hdead
      | tail _ hs'' =>
        cases hall s' hs'' with
        | inl h => exact hext0.dead s' h
        | inr h => exact Or.inr (hext0.deadK h)

theorem All2.left {α β : Type} {R : α → β → Prop} :
    ∀ {as bs}, All2 R as bs → ∀ a, a ∈ as → ∃ b, b ∈ bs ∧ R a b
  | _, _, .nil, _, ha => by cases ha
  | _, _, .cons (b := b) (bs := bs) h t, a, ha => by
    cases ha with
    | head => exact ⟨b, List.mem_cons_self .., h⟩
    | tail _ ha' =>
      obtain ⟨b', hb', hr⟩ := All2.left t a ha'
      exact ⟨b', List.mem_cons_of_mem _ hb', hr⟩

theorem All2.append {α β : Type} {R : α → β → Prop} :
    ∀ {as bs as' bs'}, All2 R as bs → All2 R as' bs' → All2 R (as ++ as') (bs ++ bs')
  | _, _, _, _, .nil, h' => h'
  | _, _, _, _, .cons h t, h' => .cons h (All2.append t h')

theorem All2.mono {α β : Type} {R R' : α → β → Prop} (himp : ∀ a b, R a b → R' a b) :
    ∀ {as bs}, All2 R as bs → All2 R' as bs
  | _, _, .nil => .nil
  | _, _, .cons h t => .cons (himp _ _ h) (All2.mono himp t)

theorem All2.map_left {α β γ : Type} {R : γ → β → Prop} (f : α → γ) :
    ∀ {as bs}, All2 (fun a b => R (f a) b) as bs → All2 R (as.map f) bs
  | _, _, .nil => .nil
  | _, _, .cons h t => .cons h (All2.map_left f t)

/-- `or`: all operands run in the scope of the `or`. -/
theorem orRun_ok (E : Env) (sub : Subject) (lh : Nat) :
    ∀ {Ps : List (List VKey → Prop)} {ths : List Thunk},
      All2 (fun P th => ThunkOK E sub P lh th ∧ PExt E sub P) Ps ths →
      ∀ (c : Ctx) (w : World), Valid c w → lh ≤ w.limitHits →
        Frame c.vref w (orRun ths c w).2 ∧
        ((orRun ths c w).1.decisive = false → (orRun ths c w).2.limitHits = 0 →
          Ext E.cfg E.T sub (vis c w) (vis c (orRun ths c w).2) ∧ ∀ P, P ∈ Ps → ¬ P (vis c w))
  | _, _, .nil, c, w, _, _ =>
    ⟨Frame.refl _ _, fun _ _ => ⟨Ext.refl _ _, fun _ hp => by cases hp⟩⟩
  | _, _, .cons (a := P) (b := th) (as := Ps) (bs := ths) h t, c, w, hv, hl => by
    have h1 := h.1 c w hv hl
    simp only [orRun]
    split
    · next hd =>
      exact ⟨h1.frame, fun hnd => by rw [hd] at hnd; cases hnd⟩
    · next hd =>
      have hd' : (th c w).1.decisive = false := by simpa using hd
      have ih := orRun_ok E sub lh t c (th c w).2 (hv.frame h1.frame) (Nat.le_trans hl h1.frame.lim)
      refine ⟨h1.frame.trans ih.1, fun hnd hlim => ?_⟩
      obtain ⟨hext, hall⟩ := ih.2 hnd hlim
      obtain ⟨hext1, hneg1⟩ := h1.neg hd' (lim_zero_of_frame ih.1 hlim)
      refine ⟨hext1.trans hext, fun P' hP' => ?_⟩
      cases hP' with
      | head => exact hneg1
      | tail _ hP'' =>
        obtain ⟨_, _, hR⟩ := t.left P' hP''
        exact fun hp => hall P' hP'' (hR.2 _ _ hext1 hp)

/-- `and`: every operand runs in its own scope; the loop ends at the first operand that is not a
    member, which refutes the conjunction. -/
theorem andLoop_ok (lh : Nat) :
    ∀ {Ps : List Prop} {ths : List Thunk}, All2 (fun P th => ThunkOK0 P lh th) Ps ths →
      ∀ (c : Ctx) (w : World), lh ≤ w.limitHits →
        Frame none w (andLoop ths c w).2 ∧
        ((andLoop ths c w).1.decisive = false → (andLoop ths c w).2.limitHits = 0 →
          ∃ P, P ∈ Ps ∧ ¬ P)
  | _, _, .nil, c, w, _ => ⟨Frame.refl _ _, fun h => by cases h⟩
  | _, _, .cons (a := P) (b := th) (as := Ps) (bs := ths) h t, c, w, hl => by
    have h1 := h c w hl
    simp only [andLoop]
    split
    · next hcond =>
      refine ⟨h1.1, fun hnd hlim => ⟨P, List.mem_cons_self .., h1.2 ?_ hlim⟩⟩
      have herr : (th c w).1.err = none := by
        cases he : (th c w).1.err with
        | none => rfl
        | some e => simp [Res.decisive, he] at hnd
      simp only [herr, Option.isSome_none, Bool.false_or] at hcond
      simp only [Res.decisive, herr, Option.isSome_none, Bool.false_or]
      cases hm : (th c w).1.memb <;> simp [hm] at hcond ⊢
    · have ih := andLoop_ok lh t c (th c w).2 (Nat.le_trans hl h1.1.lim)
      refine ⟨h1.1.trans ih.1, fun hnd hlim => ?_⟩
      obtain ⟨P', hP', hn⟩ := ih.2 hnd hlim
      exact ⟨P', List.mem_cons_of_mem _ hP', hn⟩

/-- Building the operands of a rewrite: `R ch lh th` is what is known about the thunk `th` of
    operand `ch` when `lh` limit events have happened (monotone in `lh`). -/
theorem buildChildren_ok (f : Child → Ctx → World → Thunk × World) (isAnd : Bool)
    (R : Child → Nat → Thunk → Prop) (hR : ∀ ch lh lh' th, R ch lh th → lh ≤ lh' → R ch lh' th) (c : Ctx) :
    ∀ (cs : List Child) (w : World), Valid c w →
      (∀ ch, ch ∈ cs → ∀ w, Valid c w →
        Frame none w (f ch (if isAnd then fresh w else (c, w)).1 (if isAnd then fresh w else (c, w)).2).2 ∧
        R ch (f ch (if isAnd then fresh w else (c, w)).1 (if isAnd then fresh w else (c, w)).2).2.limitHits
          (f ch (if isAnd then fresh w else (c, w)).1 (if isAnd then fresh w else (c, w)).2).1) →
      Frame none w (buildChildren f isAnd cs c w).2 ∧
      All2 (fun ch th => R ch (buildChildren f isAnd cs c w).2.limitHits th) cs (buildChildren f isAnd cs c w).1
  | [], w, _, _ => ⟨Frame.refl _ _, .nil⟩
  | ch :: cs, w, hv, h => by
    simp only [buildChildren]
    have h1 := h ch (List.mem_cons_self ..) w hv
    have ih := buildChildren_ok f isAnd R hR c cs
      (f ch (if isAnd then fresh w else (c, w)).1 (if isAnd then fresh w else (c, w)).2).2
      (hv.frame h1.1) (fun ch' hc' => h ch' (List.mem_cons_of_mem _ hc'))
    exact ⟨h1.1.trans ih.1, .cons (hR _ _ _ _ h1.2 ih.1.lim) ih.2⟩

end Keto
