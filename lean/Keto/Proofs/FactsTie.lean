/-
  Tie 1: facts regenerated from /repo's sources on every run are compared with what
  the hand-written models encode. A source change that alters one of these facts
  makes the corresponding `decide` fail (a broken proof obligation).
-/
import Keto.Generated.Facts

namespace Keto.FactsTie
open Keto.Facts

/-- The depth guards the engine model (`Keto.build`) and the expand model encode:
    `<= 0` in `checkIsAllowed`, `checkDirect`, `checkExpandSubject`,
    `checkSubjectSetRewrite` and the request clamp; `< 0` in `checkInverted`,
    `checkComputedSubjectSet`, `checkTupleToSubjectSet`; `<= 0` / `<= 1` in expand. -/
def expectedDepthGuards : List (String × String × String) := [
  ("internal/check/engine.go", "Engine.CheckRelationTuple", "restDepth <= 0"),
  ("internal/check/engine.go", "Engine.checkExpandSubject", "restDepth <= 0"),
  ("internal/check/engine.go", "Engine.checkDirect", "restDepth <= 0"),
  ("internal/check/engine.go", "Engine.checkIsAllowed", "restDepth <= 0"),
  ("internal/check/rewrites.go", "Engine.checkSubjectSetRewrite", "restDepth <= 0"),
  ("internal/check/rewrites.go", "Engine.checkInverted", "restDepth < 0"),
  ("internal/check/rewrites.go", "Engine.checkComputedSubjectSet", "restDepth < 0"),
  ("internal/check/rewrites.go", "Engine.checkTupleToSubjectSet", "restDepth < 0"),
  ("internal/expand/engine.go", "Engine.buildTreeRecursive", "restDepth <= 0"),
  ("internal/expand/engine.go", "Engine.buildTreeRecursive", "restDepth <= 1")
]

theorem depthGuards_tie : depthGuards = expectedDepthGuards := by decide

/-- Depth argument (and `skipDirect` literal) of every recursive call of the engine,
    as encoded in `Keto.build`. -/
def expectedDepthCalls : List (String × String × String × String) := [
  ("internal/check/engine.go", "Engine.CheckRelationTuple", "checkIsAllowed", "restDepth,false"),
  ("internal/check/engine.go", "Engine.checkExpandSubject", "checkIsAllowed", "restDepth,true"),
  ("internal/check/engine.go", "Engine.checkIsAllowed", "checkSubjectSetRewrite", "restDepth"),
  ("internal/check/engine.go", "Engine.checkIsAllowed", "checkDirect", "restDepth - 1"),
  ("internal/check/engine.go", "Engine.checkIsAllowed", "checkExpandSubject", "restDepth - 1"),
  ("internal/check/rewrites.go", "Engine.checkSubjectSetRewrite", "checkIsAllowed", "restDepth - 1,true"),
  ("internal/check/rewrites.go", "Engine.checkSubjectSetRewrite", "checkTupleToSubjectSet", "restDepth"),
  ("internal/check/rewrites.go", "Engine.checkSubjectSetRewrite", "checkComputedSubjectSet", "restDepth"),
  ("internal/check/rewrites.go", "Engine.checkSubjectSetRewrite", "checkSubjectSetRewrite", "restDepth - 1"),
  ("internal/check/rewrites.go", "Engine.checkSubjectSetRewrite", "checkInverted", "restDepth"),
  ("internal/check/rewrites.go", "Engine.checkInverted", "checkTupleToSubjectSet", "restDepth"),
  ("internal/check/rewrites.go", "Engine.checkInverted", "checkComputedSubjectSet", "restDepth"),
  ("internal/check/rewrites.go", "Engine.checkInverted", "checkSubjectSetRewrite", "restDepth"),
  ("internal/check/rewrites.go", "Engine.checkInverted", "checkInverted", "restDepth"),
  ("internal/check/rewrites.go", "Engine.checkComputedSubjectSet", "checkIsAllowed", "restDepth - 1,false"),
  ("internal/check/rewrites.go", "Engine.checkTupleToSubjectSet", "checkIsAllowed", "restDepth - 1,false")
]

theorem depthCalls_tie : depthCalls = expectedDepthCalls := by decide

/-- Every result channel of package `check` that a goroutine sends on after its
    receiver may have stopped listening has capacity 1 (C15). -/
def expectedChanSites : List (String × String × String) := [
  ("internal/check/engine.go", "Engine.CheckRelationTuple", "1"),
  ("internal/check/rewrites.go", "Engine.checkInverted", "1"),
  ("internal/check/binop.go", "or", "1"),
  ("internal/check/binop.go", "and", "1"),
  ("internal/check/checkgroup/definitions.go", "WithEdge", "1"),
  ("internal/check/checkgroup/concurrent_checkgroup.go", "NewConcurrent", "0"),
  ("internal/check/checkgroup/concurrent_checkgroup.go", "NewConcurrent", "0"),
  ("internal/check/checkgroup/concurrent_checkgroup.go", "NewConcurrent", "0"),
  ("internal/check/checkgroup/concurrent_checkgroup.go", "NewConcurrent", "1"),
  ("internal/check/checkgroup/concurrent_checkgroup.go", "concurrentCheckgroup.startConsumer", "1")
]

theorem chanSites_tie : chanSites = expectedChanSites := by decide

theorem defaultPageSize_pos : 0 < defaultPageSize := by decide
theorem chunk_sizes_pos : 0 < chunkSizeInsertTuple ∧ 0 < chunkSizeDeleteTuple ∧ 0 < chunkSizeInsertUUIDMappings := by decide

end Keto.FactsTie

namespace Keto.FactsTie
open Keto.Facts

/-- Registry members that request goroutines obtain through lazy getters. -/
def requestPathGetters : List String := ["Tracer", "Writer", "Mapper", "ReadOnlyMapper", "PermissionEngine", "ExpandEngine"]

/-- Every such member is created in `RegistryDefault.Init`, which runs once before any
    request is served (repair 727229a), so request goroutines only read it. -/
theorem prewarm_tie :
    requestPathGetters.all (fun g =>
      initCalls.contains ("internal/driver/registry_default.go", "RegistryDefault.Init", g)) = true := by decide

/-- The unguarded lazy getters of the registry are exactly the known ones (a new lazy
    member must be added to `requestPathGetters` or shown to be startup-only). -/
def expectedLazyInit : List (String × String × String) := [
  ("RegistryDefault.Mapper", "r.mapper", "unguarded"),
  ("RegistryDefault.ReadOnlyMapper", "r.readOnlyMapper", "unguarded"),
  ("RegistryDefault.HealthServer", "r.healthServer", "unguarded"),
  ("RegistryDefault.Tracer", "r.tracer", "unguarded"),
  ("RegistryDefault.MetricsHandler", "r.metricsHandler", "unguarded"),
  ("RegistryDefault.PrometheusManager", "r.pmm", "unguarded"),
  ("RegistryDefault.Logger", "r.l", "unguarded"),
  ("RegistryDefault.Writer", "r.w", "unguarded"),
  ("RegistryDefault.PermissionEngine", "r.ce", "unguarded"),
  ("RegistryDefault.ExpandEngine", "r.ee", "unguarded"),
  ("RegistryDefault.MigrationBox", "r.mb", "unguarded"),
  ("Config.NamespaceManager", "k.nm", "guarded")
]

theorem lazyInit_tie : lazyInit = expectedLazyInit := by decide

/-- Locking discipline of the shared mutable state that requests touch: the namespace
    managers swap their map under the write lock and read it under the read lock (so a
    reader sees the map before or after a complete `set`, C19), the visited set locks
    around check-and-add. -/
def expectedLockUse : List (String × String × String) := [
  ("internal/driver/config/namespace_memory.go", "memoryNamespaceManager.GetNamespaceByName", "RLock"),
  ("internal/driver/config/namespace_memory.go", "memoryNamespaceManager.GetNamespaceByConfigID", "RLock"),
  ("internal/driver/config/namespace_memory.go", "memoryNamespaceManager.Namespaces", "RLock"),
  ("internal/driver/config/namespace_memory.go", "memoryNamespaceManager.ShouldReload", "RLock"),
  ("internal/driver/config/namespace_memory.go", "memoryNamespaceManager.set", "Lock"),
  ("internal/driver/config/namespace_watcher.go", "NamespaceWatcher.handleRemove", "Lock"),
  ("internal/driver/config/namespace_watcher.go", "NamespaceWatcher.handleChange", "Lock"),
  ("internal/driver/config/namespace_watcher.go", "NamespaceWatcher.handleError", "none"),
  ("internal/driver/config/namespace_watcher.go", "NamespaceWatcher.readNamespaceFile", "none"),
  ("internal/driver/config/namespace_watcher.go", "NamespaceWatcher.GetNamespaceByName", "RLock"),
  ("internal/driver/config/namespace_watcher.go", "NamespaceWatcher.GetNamespaceByConfigID", "RLock"),
  ("internal/driver/config/namespace_watcher.go", "NamespaceWatcher.Namespaces", "RLock"),
  ("internal/driver/config/namespace_watcher.go", "NamespaceWatcher.NamespaceFiles", "RLock"),
  ("internal/driver/config/namespace_watcher.go", "NamespaceWatcher.ShouldReload", "none"),
  ("internal/driver/config/opl_config_namespace_watcher.go", "oplConfigWatcher.handleChange", "Lock"),
  ("internal/driver/config/opl_config_namespace_watcher.go", "oplConfigWatcher.handleRemove", "Lock"),
  ("internal/driver/config/opl_config_namespace_watcher.go", "oplConfigWatcher.handleError", "none"),
  ("internal/driver/config/opl_config_namespace_watcher.go", "oplConfigWatcher.parseFiles", "none"),
  ("internal/x/graph/graph_utils.go", "stringSet.addNoDuplicate", "Lock")
]

theorem lockUse_tie : lockUse = expectedLockUse := by decide

end Keto.FactsTie

namespace Keto.FactsTie
open Keto.Facts

/-- How the storage operations used by a check fetch their rows: through pop's
    `All` / `Exists` (which surface every driver error, including one raised while
    rows are being fetched), never through a hand-written row loop. The engine model
    treats a storage operation as one call that either fails or returns all rows; a
    storage operation that iterates rows itself would have to show that it reports
    iteration errors (C03). -/
def readCallShapes : List (String × String × String) :=
  sqlStrings.filter fun r =>
    (r.2.1 == "Traverser.TraverseSubjectSetExpansion" || r.2.1 == "Traverser.TraverseSubjectSetRewrite" ||
     r.2.1 == "Persister.GetRelationTuples" || r.2.1 == "Persister.ExistsRelationTuples") && r.2.2.startsWith "call:"

def expectedReadCallShapes : List (String × String × String) := [
  ("internal/persistence/sql/relationtuples.go", "Persister.GetRelationTuples", "call:queryWithNetwork"),
  ("internal/persistence/sql/relationtuples.go", "Persister.GetRelationTuples", "call:All"),
  ("internal/persistence/sql/relationtuples.go", "Persister.ExistsRelationTuples", "call:queryWithNetwork"),
  ("internal/persistence/sql/relationtuples.go", "Persister.ExistsRelationTuples", "call:Exists"),
  ("internal/persistence/sql/traverser.go", "Traverser.TraverseSubjectSetExpansion", "call:All"),
  ("internal/persistence/sql/traverser.go", "Traverser.TraverseSubjectSetExpansion", "call:RawQuery"),
  ("internal/persistence/sql/traverser.go", "Traverser.TraverseSubjectSetRewrite", "call:queryWithNetwork"),
  ("internal/persistence/sql/traverser.go", "Traverser.TraverseSubjectSetRewrite", "call:All")
]

theorem readCallShapes_tie : (readCallShapes == expectedReadCallShapes) = true := by decide +kernel

end Keto.FactsTie

namespace Keto.FactsTie
open Keto.Facts

/-- Every raw SQL statement on `keto_relation_tuples` restricts each occurrence of the
    table to the network id (or, for INSERT, writes the nid column): C06. The verdicts
    are computed by the fact translator from the string literals of the sources. -/
def expectedSqlNid : List (String × String × String) := [
  ("internal/persistence/sql/relationtuples.go", "buildDelete", "nid-predicates:1/tables:1"),
  ("internal/persistence/sql/relationtuples.go", "buildInsert", "insert-writes-nid"),
  ("internal/persistence/sql/traverser.go", "Traverser.TraverseSubjectSetExpansion", "nid-predicates:2/tables:2")
]

theorem sqlNid_tie : (sqlNid == expectedSqlNid) = true := by decide +kernel

end Keto.FactsTie
