/-
  Tie 1: facts regenerated from /repo's sources on every run are compared with what
  the hand-written models encode. A source change that alters one of these facts
  makes the corresponding `decide` fail (a broken proof obligation).
-/
import Keto.Generated.Facts

namespace Keto.FactsTie
open Keto.Facts

/-! ### Depth tests and depth arguments: a semantic tie

The fact translator turns the condition of every `if` that tests the depth, and every depth
argument of a recursive call, of engine.go / rewrites.go / expand/engine.go into a Lean
definition (`Facts.cond<i>`, `Facts.arg<i>`, free variables in alphabetical order). What is
compared with the model is their MEANING (as functions on `Int`), not their spelling:
`restDepth < 1` for `restDepth <= 0` keeps the tie, `restDepth < 0` breaks it. The sites
(file, function, callee) are compared as a table. -/

/-- Where the depth is tested: `<= 0` in `checkIsAllowed`, `checkDirect`, `checkExpandSubject`,
    `checkSubjectSetRewrite`; `< 0` in `checkInverted`, `checkComputedSubjectSet`,
    `checkTupleToSubjectSet`; the request clamp in `CheckRelationTuple` and in expand;
    `<= 1` in expand. -/
def expectedCondSites : List (String × String × String) := [
  ("internal/check/engine.go", "Engine.CheckRelationTuple", "cond0"),
  ("internal/check/engine.go", "Engine.checkExpandSubject", "cond1"),
  ("internal/check/engine.go", "Engine.checkDirect", "cond2"),
  ("internal/check/engine.go", "Engine.checkIsAllowed", "cond3"),
  ("internal/check/rewrites.go", "Engine.checkSubjectSetRewrite", "cond4"),
  ("internal/check/rewrites.go", "Engine.checkInverted", "cond5"),
  ("internal/check/rewrites.go", "Engine.checkComputedSubjectSet", "cond6"),
  ("internal/check/rewrites.go", "Engine.checkTupleToSubjectSet", "cond7"),
  ("internal/expand/engine.go", "Engine.buildTreeRecursive", "cond8"),
  ("internal/expand/engine.go", "Engine.buildTreeRecursive", "cond9")
]

theorem condSites_tie : depthConds.map (fun r => (r.1, r.2.1, r.2.2.2)) = expectedCondSites := by decide

/-- The request clamp is `effDepth` (both engines): the global limit when the request depth is
    `≤ 0` or above it. -/
theorem clamp_sem (g r : Int) :
    cond0 g r = decide (r ≤ 0 ∨ g < r) ∧ cond8 g r = decide (r ≤ 0 ∨ g < r) := by
  constructor <;>
    (apply Bool.eq_iff_iff.mpr; simp only [cond0, cond8, Bool.or_eq_true, decide_eq_true_eq] <;> omega)

/-- `restDepth <= 0` guards (what `Keto.build` encodes as `d ≤ 0`). -/
theorem guards_le0_sem (d : Int) :
    cond1 d = decide (d ≤ 0) ∧ cond2 d = decide (d ≤ 0) ∧ cond3 d = decide (d ≤ 0) ∧ cond4 d = decide (d ≤ 0) := by
  refine ⟨?_, ?_, ?_, ?_⟩ <;>
    (apply Bool.eq_iff_iff.mpr; simp only [cond1, cond2, cond3, cond4, decide_eq_true_eq] <;> omega)

/-- `restDepth < 0` guards (what `Keto.build` encodes as `d < 0`). -/
theorem guards_lt0_sem (d : Int) :
    cond5 d = decide (d < 0) ∧ cond6 d = decide (d < 0) ∧ cond7 d = decide (d < 0) := by
  refine ⟨?_, ?_, ?_⟩ <;>
    (apply Bool.eq_iff_iff.mpr; simp only [cond5, cond6, cond7, decide_eq_true_eq] <;> omega)

/-- Expand: a subject set becomes a leaf when `restDepth <= 1`. -/
theorem guard_le1_sem (d : Int) : cond9 d = decide (d ≤ 1) := by
  apply Bool.eq_iff_iff.mpr; simp only [cond9, decide_eq_true_eq] <;> omega

/-- Which recursive call passes which depth argument. -/
def expectedArgSites : List (String × String × String × String) := [
  ("internal/check/engine.go", "Engine.CheckRelationTuple", "checkIsAllowed", "arg0"),
  ("internal/check/engine.go", "Engine.checkExpandSubject", "checkIsAllowed", "arg1"),
  ("internal/check/engine.go", "Engine.checkIsAllowed", "checkSubjectSetRewrite", "arg2"),
  ("internal/check/engine.go", "Engine.checkIsAllowed", "checkDirect", "arg3"),
  ("internal/check/engine.go", "Engine.checkIsAllowed", "checkExpandSubject", "arg4"),
  ("internal/check/rewrites.go", "Engine.checkSubjectSetRewrite", "checkIsAllowed", "arg5"),
  ("internal/check/rewrites.go", "Engine.checkSubjectSetRewrite", "checkTupleToSubjectSet", "arg6"),
  ("internal/check/rewrites.go", "Engine.checkSubjectSetRewrite", "checkComputedSubjectSet", "arg7"),
  ("internal/check/rewrites.go", "Engine.checkSubjectSetRewrite", "checkSubjectSetRewrite", "arg8"),
  ("internal/check/rewrites.go", "Engine.checkSubjectSetRewrite", "checkInverted", "arg9"),
  ("internal/check/rewrites.go", "Engine.checkInverted", "checkTupleToSubjectSet", "arg10"),
  ("internal/check/rewrites.go", "Engine.checkInverted", "checkComputedSubjectSet", "arg11"),
  ("internal/check/rewrites.go", "Engine.checkInverted", "checkSubjectSetRewrite", "arg12"),
  ("internal/check/rewrites.go", "Engine.checkInverted", "checkInverted", "arg13"),
  ("internal/check/rewrites.go", "Engine.checkComputedSubjectSet", "checkIsAllowed", "arg14"),
  ("internal/check/rewrites.go", "Engine.checkTupleToSubjectSet", "checkIsAllowed", "arg15")
]

theorem argSites_tie : (depthArgs == expectedArgSites) = true := by decide +kernel

/-- Calls that keep the depth (`restDepth`). -/
theorem args_same_sem (d : Int) :
    arg0 d = d ∧ arg1 d = d ∧ arg2 d = d ∧ arg6 d = d ∧ arg7 d = d ∧ arg9 d = d ∧
    arg10 d = d ∧ arg11 d = d ∧ arg12 d = d ∧ arg13 d = d := by
  refine ⟨?_, ?_, ?_, ?_, ?_, ?_, ?_, ?_, ?_, ?_⟩ <;>
    (simp only [arg0, arg1, arg2, arg6, arg7, arg9, arg10, arg11, arg12, arg13] <;> omega)

/-- Calls that consume one level (`restDepth - 1`). -/
theorem args_minus1_sem (d : Int) :
    arg3 d = d - 1 ∧ arg4 d = d - 1 ∧ arg5 d = d - 1 ∧ arg8 d = d - 1 ∧ arg14 d = d - 1 ∧ arg15 d = d - 1 := by
  refine ⟨?_, ?_, ?_, ?_, ?_, ?_⟩ <;> (simp only [arg3, arg4, arg5, arg8, arg14, arg15] <;> omega)

/-- The `skipDirect` literal of every recursive call of `checkIsAllowed`, and the call structure
    (who calls whom): the fourth component of `depthCalls` with the depth expression removed. -/
def callLits : List (String × String × String × String) :=
  depthCalls.map fun r => (r.1, r.2.1, r.2.2.1, if r.2.2.2.endsWith ",true" then "true" else if r.2.2.2.endsWith ",false" then "false" else "")

def expectedCallLits : List (String × String × String × String) := [
  ("internal/check/engine.go", "Engine.CheckRelationTuple", "checkIsAllowed", "false"),
  ("internal/check/engine.go", "Engine.checkExpandSubject", "checkIsAllowed", "true"),
  ("internal/check/engine.go", "Engine.checkIsAllowed", "checkSubjectSetRewrite", ""),
  ("internal/check/engine.go", "Engine.checkIsAllowed", "checkDirect", ""),
  ("internal/check/engine.go", "Engine.checkIsAllowed", "checkExpandSubject", ""),
  ("internal/check/rewrites.go", "Engine.checkSubjectSetRewrite", "checkIsAllowed", "true"),
  ("internal/check/rewrites.go", "Engine.checkSubjectSetRewrite", "checkTupleToSubjectSet", ""),
  ("internal/check/rewrites.go", "Engine.checkSubjectSetRewrite", "checkComputedSubjectSet", ""),
  ("internal/check/rewrites.go", "Engine.checkSubjectSetRewrite", "checkSubjectSetRewrite", ""),
  ("internal/check/rewrites.go", "Engine.checkSubjectSetRewrite", "checkInverted", ""),
  ("internal/check/rewrites.go", "Engine.checkInverted", "checkTupleToSubjectSet", ""),
  ("internal/check/rewrites.go", "Engine.checkInverted", "checkComputedSubjectSet", ""),
  ("internal/check/rewrites.go", "Engine.checkInverted", "checkSubjectSetRewrite", ""),
  ("internal/check/rewrites.go", "Engine.checkInverted", "checkInverted", ""),
  ("internal/check/rewrites.go", "Engine.checkComputedSubjectSet", "checkIsAllowed", "false"),
  ("internal/check/rewrites.go", "Engine.checkTupleToSubjectSet", "checkIsAllowed", "false")
]

theorem callLits_tie : (callLits == expectedCallLits) = true := by decide +kernel

/-- All depth sites of the check engine and of expand, as one statement (what `Keto.build`,
    `Keto.effDepth` and the expand model encode). -/
theorem depthGuards_tie :
    depthConds.map (fun r => (r.1, r.2.1, r.2.2.2)) = expectedCondSites ∧
    (∀ g r : Int, cond0 g r = decide (r ≤ 0 ∨ g < r) ∧ cond8 g r = decide (r ≤ 0 ∨ g < r)) ∧
    (∀ d : Int, cond1 d = decide (d ≤ 0) ∧ cond2 d = decide (d ≤ 0) ∧ cond3 d = decide (d ≤ 0) ∧ cond4 d = decide (d ≤ 0)) ∧
    (∀ d : Int, cond5 d = decide (d < 0) ∧ cond6 d = decide (d < 0) ∧ cond7 d = decide (d < 0)) ∧
    (∀ d : Int, cond9 d = decide (d ≤ 1)) :=
  ⟨condSites_tie, clamp_sem, guards_le0_sem, guards_lt0_sem, guard_le1_sem⟩

theorem depthCalls_tie :
    (depthArgs == expectedArgSites) = true ∧ (callLits == expectedCallLits) = true ∧
    (∀ d : Int, arg0 d = d ∧ arg1 d = d ∧ arg2 d = d ∧ arg6 d = d ∧ arg7 d = d ∧ arg9 d = d ∧
      arg10 d = d ∧ arg11 d = d ∧ arg12 d = d ∧ arg13 d = d) ∧
    (∀ d : Int, arg3 d = d - 1 ∧ arg4 d = d - 1 ∧ arg5 d = d - 1 ∧ arg8 d = d - 1 ∧ arg14 d = d - 1 ∧ arg15 d = d - 1) :=
  ⟨argSites_tie, callLits_tie, args_same_sem, args_minus1_sem⟩


theorem defaultPageSize_pos : 0 < defaultPageSize := by decide
theorem chunk_sizes_pos : 0 < chunkSizeInsertTuple ∧ 0 < chunkSizeDeleteTuple ∧ 0 < chunkSizeInsertUUIDMappings := by decide

end Keto.FactsTie
