/-
  C10 helper lemmas: what `parseRelated` does on a rendered relation declaration.
-/
import Keto.Proofs.OplExprLemmas

namespace Keto.Opl
open Keto

def tColon := tk .opColon b!":"
def tSemi := tk .semicolon b!";"
def tPipe := tk .typeUnion b!"|"
def tLT := tk .angledLeft b!"<"
def tGT := tk .angledRight b!">"
def tLBrace := tk .braceLeft b!"{"
def tRBrace := tk .braceRight b!"}"

/-- A member of a type union: `T` or `SubjectSet<N, "r">` (the tokens naming things are
    arbitrary items: the parser takes them with `*item`). -/
inductive TyRef where
  | plain (t : Item)
  | sset (ns rel : Item)
  deriving Repr, Inhabited

def TyRef.toks : TyRef → List Item
  | .plain t => [t]
  | .sset ns rel => [tId b!"SubjectSet", tLT, ns, tComma, rel, tGT]

/-- The `ast.RelationType` the text denotes. -/
def TyRef.ty : TyRef → RelType
  | .plain t => ⟨bstr t.val, ""⟩
  | .sset ns rel => ⟨bstr ns.val, bstr rel.val⟩

def TyRef.check : TyRef → TypeCheck
  | .plain t => .nsExists t
  | .sset ns rel => .nsHasRelation ns rel

/-- A plain type name is not the word `SubjectSet`. -/
def TyRef.wf : TyRef → Prop
  | .plain t => valIs t b!"SubjectSet" = false
  | .sset _ _ => True

/-- `A | B | …` -/
def unionToks : List TyRef → List Item
  | [] => []
  | [t] => t.toks
  | t :: ts => t.toks ++ tPipe :: unionToks ts

/-- Fields `parseRelated` leaves alone while it reads types. -/
def Frame' (p p' : P) : Prop :=
  p'.fatal = false ∧ p'.errors = p.errors ∧ p'.panic = p.panic ∧ p'.ns = p.ns ∧ p'.nss = p.nss

theorem typeUnion_step (endTok : ItemType) (hend : endTok = .angledRight ∨ endTok = .parenRight) (n : Nat)
    (acc : List RelType) (p : P) (t : TyRef) (hw : t.wf) (tl : List Item) (hf : p.fatal = false)
    (ht : p.toks = t.toks ++ tl) :
    ∃ p1 : P, p1.toks = tl.tail ∧ Frame' p p1 ∧
      parseTypeUnion endTok (n+1) acc p =
        if (tl.headD brokenItem).typ = endTok then (acc ++ [t.ty], p1)
        else if (tl.headD brokenItem).typ = .typeUnion then parseTypeUnion endTok n (acc ++ [t.ty]) p1
        else parseTypeUnion endTok n (acc ++ [t.ty]) (p1.addFatal (tl.headD brokenItem) .expectedUnion) := by
  obtain ⟨toks, nss, ns, errors, fatal, checks, steps, panic⟩ := p
  simp only at hf ht
  subst hf ht
  cases t with
  | plain t =>
    have hw' : valIs t b!"SubjectSet" = false := hw
    cases tl with
    | nil =>
      refine ⟨⟨([] : List Item).tail, nss, ns, errors, false, .nsExists t :: checks, steps + 3, panic⟩, rfl, ⟨rfl, rfl, rfl, rfl, rfl⟩, ?_⟩
      rw [parseTypeUnion]
      simp [P.tick, P.mtch, matchLoop, P.next, cap, hw', TyRef.toks, TyRef.ty, P.addCheck, brokenItem]
    | cons x xs =>
      refine ⟨⟨(x :: xs).tail, nss, ns, errors, false, .nsExists t :: checks, steps + 3, panic⟩, rfl, ⟨rfl, rfl, rfl, rfl, rfl⟩, ?_⟩
      rw [parseTypeUnion]
      simp [P.tick, P.mtch, matchLoop, P.next, cap, hw', TyRef.toks, TyRef.ty, P.addCheck]
  | sset a b =>
    cases tl with
    | nil =>
      refine ⟨⟨([] : List Item).tail, nss, ns, errors, false, .nsHasRelation a b :: checks, steps + 8, panic⟩, rfl, ⟨rfl, rfl, rfl, rfl, rfl⟩, ?_⟩
      rw [parseTypeUnion]
      simp [P.tick, P.mtch, matchLoop, matchSubjectSet, P.next, cap, TyRef.toks, TyRef.ty, P.addCheck, valIs_tk, tId, tLT, tGT,
        tComma, brokenItem]
    | cons x xs =>
      refine ⟨⟨(x :: xs).tail, nss, ns, errors, false, .nsHasRelation a b :: checks, steps + 8, panic⟩, rfl, ⟨rfl, rfl, rfl, rfl, rfl⟩, ?_⟩
      rw [parseTypeUnion]
      simp [P.tick, P.mtch, matchLoop, matchSubjectSet, P.next, cap, TyRef.toks, TyRef.ty, P.addCheck, valIs_tk, tId, tLT, tGT,
        tComma]


theorem Frame'.trans {p q r : P} (h1 : Frame' p q) (h2 : Frame' q r) : Frame' p r :=
  ⟨h2.1, h2.2.1.trans h1.2.1, h2.2.2.1.trans h1.2.2.1, h2.2.2.2.1.trans h1.2.2.2.1, h2.2.2.2.2.trans h1.2.2.2.2⟩

/-- `parseTypeUnion` on `A | B | … <end>`: the denoted types, in order. -/
theorem typeUnion_spec (endTok : ItemType) (hend : endTok = .angledRight ∨ endTok = .parenRight) :
    ∀ (ts : List TyRef), ts ≠ [] → (∀ t ∈ ts, t.wf) → ∀ (n : Nat), ts.length ≤ n →
    ∀ (acc : List RelType) (p : P) (endItem : Item) (rest : List Item), endItem.typ = endTok → p.fatal = false →
      p.toks = unionToks ts ++ endItem :: rest →
      ∃ p' : P, p'.toks = rest ∧ Frame' p p' ∧ parseTypeUnion endTok n acc p = (acc ++ ts.map TyRef.ty, p')
  | [], h, _, _, _, _, _, _, _, _, _, _ => absurd rfl h
  | [t], _, hw, n, hn, acc, p, endItem, rest, he, hf, ht => by
    obtain ⟨n', rfl⟩ : ∃ n', n = n' + 1 := ⟨n - 1, by simp at hn; omega⟩
    obtain ⟨p1, h1, h2, h3⟩ := typeUnion_step endTok hend n' acc p t (hw t (by simp)) (endItem :: rest) hf ht
    refine ⟨p1, h1, h2, ?_⟩
    rw [h3]
    simp [he]
  | t :: t' :: more, _, hw, n, hn, acc, p, endItem, rest, he, hf, ht => by
    obtain ⟨n', rfl⟩ : ∃ n', n = n' + 1 := ⟨n - 1, by simp at hn; omega⟩
    have ht' : p.toks = t.toks ++ (tPipe :: (unionToks (t' :: more) ++ endItem :: rest)) := by
      rw [ht]; simp [unionToks]
    obtain ⟨p1, h1, h2, h3⟩ := typeUnion_step endTok hend n' acc p t (hw t (by simp)) _ hf ht'
    obtain ⟨p2, g1, g2, g3⟩ := typeUnion_spec endTok hend (t' :: more) (by simp) (fun x hx => hw x (by simp [hx]))
      n' (by simp at hn ⊢; omega) (acc ++ [t.ty]) p1 endItem rest he h2.1 (by rw [h1]; rfl)
    refine ⟨p2, g1, h2.trans g2, ?_⟩
    rw [h3, g3]
    have hne : ¬ (ItemType.typeUnion = endTok) := by rcases hend with h | h <;> simp [h]
    simp [tPipe, hne]


/-- How the array type of a relation is written. -/
inductive DeclForm where
  | bare    -- `T[]`, `SubjectSet<N, "r">[]`
  | paren   -- `(A | B)[]`
  | array   -- `Array<A | B>`
  deriving Repr, DecidableEq, Inhabited

/-- `name: <types>` in one of the spellings, optionally followed by `,`. -/
structure Decl where
  name : Item
  types : List TyRef
  form : DeclForm
  comma : Bool
  deriving Repr, Inhabited

def Decl.typeToks (d : Decl) : List Item :=
  match d.form with
  | .bare => unionToks d.types ++ [tLB, tRB]
  | .paren => tLP :: (unionToks d.types ++ [tRP, tLB, tRB])
  | .array => tId b!"Array" :: tLT :: (unionToks d.types ++ [tGT])

def Decl.toks (d : Decl) : List Item := d.name :: tColon :: (d.typeToks ++ optComma d.comma)

/-- The `ast.Relation` the declaration denotes. -/
def Decl.relation (d : Decl) : Relation := ⟨bstr d.name.val, d.types.map TyRef.ty, none⟩

/-- Side conditions: the name lexes as an identifier or a string literal; at least one type;
    a plain type name is none of the words `SubjectSet` / `Array` and not `(`; `T[]` has one
    type; `Array<…>` is not followed by `,` (finding F-array-comma). -/
def Decl.wf (d : Decl) : Prop :=
  isName d.name ∧ d.types ≠ [] ∧ (∀ t ∈ d.types, t.wf) ∧
  match d.form with
  | .bare => ∃ t, d.types = [t] ∧ (∀ x, t = .plain x → valIs x b!"Array" = false ∧ x.typ ≠ .parenLeft)
  | .paren => True
  | .array => d.comma = false

theorem isName_or {i : Item} (h : isName i) : (i.typ == ItemType.identifier || i.typ == ItemType.stringLiteral) = true := by
  rcases h with h | h <;> simp [h]

theorem isName_not {i : Item} (h : isName i) : (i.typ == ItemType.semicolon) = false ∧ (i.typ == ItemType.braceRight) = false := by
  rcases h with h | h <;> simp [h]


/-- The state after one declaration was read. -/
def DeclPost (p p' : P) (d : Decl) (rest : List Item) : Prop :=
  p'.toks = rest ∧ p'.fatal = false ∧ p'.errors = p.errors ∧ p'.panic = p.panic ∧ p'.nss = p.nss ∧
  p'.ns = { p.ns with relations := p.ns.relations ++ [d.relation] }

theorem optComma_step (q : P) (c : Bool) (rest : List Item) (hf : q.fatal = false)
    (ht : q.toks = tLB :: tRB :: (optComma c ++ rest))
    (hc : c = false → valIs (rest.headD brokenItem) b!"," = false) :
    ∃ q' : P, q'.toks = rest ∧ Frame' q q' ∧
      (q.mtch [.lit b!"[", .lit b!"]", .opt [b!","]]).2.2 = q' := by
  obtain ⟨toks, nss, ns, errors, fatal, checks, steps, panic⟩ := q
  simp only at hf ht
  subst hf ht
  cases c with
  | true =>
    refine ⟨_, ?_, ?_, rfl⟩ <;>
      simp [P.mtch, matchLoop, optional, matchRest, P.next, P.peek, valIs_tk, tLB, tRB, tComma, optComma, Frame']
  | false =>
    have hc' := hc rfl
    cases rest with
    | nil =>
      refine ⟨_, ?_, ?_, rfl⟩ <;>
        simp [P.mtch, matchLoop, optional, matchRest, P.next, P.peek, valIs_tk, tLB, tRB, optComma, Frame', valIs, brokenItem]
    | cons x xs =>
      have hx : valIs x b!"," = false := by simpa using hc'
      refine ⟨_, ?_, ?_, rfl⟩ <;>
        simp [P.mtch, matchLoop, optional, matchRest, P.next, P.peek, valIs_tk, tLB, tRB, optComma, Frame', hx]


theorem next_mk (x : Item) (xs : List Item) (nss : List Namespace) (ns : Namespace) (errors : List PErr) (fatal : Bool)
    (checks : List TypeCheck) (steps : Nat) (panic : Bool) :
    P.next ⟨x :: xs, nss, ns, errors, fatal, checks, steps, panic⟩ =
      (x, ⟨xs, nss, ns, errors, fatal, checks, steps + 1, panic⟩) := rfl

theorem mtch_lit_mk (x : Item) (xs : List Item) (nss : List Namespace) (ns : Namespace) (errors : List PErr)
    (checks : List TypeCheck) (steps : Nat) (panic : Bool) (t : List UInt8) (hv : valIs x t = true) :
    P.mtch ⟨x :: xs, nss, ns, errors, false, checks, steps, panic⟩ [.lit t] =
      (true, [], ⟨xs, nss, ns, errors, false, checks, steps + 1, panic⟩) := by
  simp [P.mtch, matchLoop, P.next, hv]

theorem matchSubjectSet_mk (a b : Item) (xs : List Item) (nss : List Namespace) (ns : Namespace) (errors : List PErr)
    (checks : List TypeCheck) (steps : Nat) (panic : Bool) :
    matchSubjectSet ⟨tLT :: a :: tComma :: b :: tGT :: xs, nss, ns, errors, false, checks, steps, panic⟩ =
      (⟨bstr a.val, bstr b.val⟩,
        ⟨xs, nss, ns, errors, false, .nsHasRelation a b :: checks, steps + 1 + 1 + 1 + 1 + 1, panic⟩) := by
  simp [matchSubjectSet, P.mtch, matchLoop, P.next, cap, P.addCheck, valIs_tk, tLT, tGT, tComma]

/-- One iteration of the `parseRelated` loop on a rendered declaration. -/
theorem related_decl (d : Decl) (hw : d.wf) (n : Nat) (hn : d.types.length ≤ n) (p : P) (rest : List Item)
    (hf : p.fatal = false) (ht : p.toks = d.toks ++ rest)
    (hc : d.comma = false → valIs (rest.headD brokenItem) b!"," = false) :
    ∃ p' : P, DeclPost p p' d rest ∧ relatedLoop (n+1) p = relatedLoop n p' := by
  obtain ⟨name, types, form, comma⟩ := d
  obtain ⟨hname, hne, hwt, hform⟩ := hw
  have hn1 := isName_or hname
  have hn2 := isName_not hname
  obtain ⟨toks, nss, ns, errors, fatal, checks, steps, panic⟩ := p
  simp only at hf ht hc hform hn hn1 hn2 hne hwt
  subst hf ht
  cases form with
  | paren =>
    obtain ⟨p2, g1, g2, g3⟩ := typeUnion_spec .parenRight (Or.inr rfl) types hne hwt n hn []
      ⟨unionToks types ++ tRP :: tLB :: tRB :: (optComma comma ++ rest), nss, ns, errors, false, checks,
        steps + 1 + 1 + 1 + 1, panic⟩ tRP (tLB :: tRB :: (optComma comma ++ rest)) rfl rfl rfl
    obtain ⟨q', k1, k2, k3⟩ := optComma_step p2 comma rest g2.1 g1 hc
    refine ⟨q'.addRelation ⟨bstr name.val, types.map TyRef.ty, none⟩, ?_, ?_⟩
    · refine ⟨k1, k2.1, k2.2.1.trans g2.2.1, k2.2.2.1.trans g2.2.2.1, k2.2.2.2.2.trans g2.2.2.2.2, ?_⟩
      have hns : q'.ns = ns := k2.2.2.2.1.trans g2.2.2.2.1
      simp [P.addRelation, hns, Decl.relation]
    · rw [relatedLoop]
      have hv1 : valIs tColon b!":" = true := by decide
      simp [P.tick, next_mk, mtch_lit_mk, Decl.toks, Decl.typeToks, hn1, hn2.1, hn2.2, hv1, g3, k3, valIs_tk, tLP]
  | array =>
    have hcomma : comma = false := hform
    subst hcomma
    obtain ⟨p2, g1, g2, g3⟩ := typeUnion_spec .angledRight (Or.inl rfl) types hne hwt n hn []
      ⟨unionToks types ++ tGT :: rest, nss, ns, errors, false, checks, steps + 1 + 1 + 1 + 1 + 1, panic⟩ tGT rest rfl rfl rfl
    refine ⟨p2.addRelation ⟨bstr name.val, types.map TyRef.ty, none⟩, ?_, ?_⟩
    · refine ⟨g1, g2.1, g2.2.1, g2.2.2.1, g2.2.2.2.2, ?_⟩
      have hns : p2.ns = ns := g2.2.2.2.1
      simp [P.addRelation, hns, Decl.relation]
    · rw [relatedLoop]
      have hv1 : valIs tColon b!":" = true := by decide
      have hv2 : valIs tLT b!"<" = true := by decide
      simp [P.tick, next_mk, mtch_lit_mk, Decl.toks, Decl.typeToks, hn1, hn2.1, hn2.2, hv1, hv2, g3, valIs_tk, tId, optComma]
  | bare =>
    obtain ⟨t, hty, hplain⟩ := hform
    subst hty
    have hwt' := hwt t (by simp)
    cases t with
    | plain x =>
      obtain ⟨hx1, hx2⟩ := hplain x rfl
      have hx3 : valIs x b!"SubjectSet" = false := hwt'
      have hx2' : (x.typ == ItemType.parenLeft) = false := by simpa using hx2
      obtain ⟨q', k1, k2, k3⟩ := optComma_step
        ⟨tLB :: tRB :: (optComma comma ++ rest), nss, ns, errors, false, .nsExists x :: checks, steps + 1 + 1 + 1 + 1, panic⟩
        comma rest rfl rfl hc
      refine ⟨q'.addRelation ⟨bstr name.val, [⟨bstr x.val, ""⟩], none⟩, ?_, ?_⟩
      · refine ⟨k1, k2.1, k2.2.1, k2.2.2.1, k2.2.2.2.2, ?_⟩
        have hns : q'.ns = ns := k2.2.2.2.1
        simp [P.addRelation, hns, Decl.relation, TyRef.ty]
      · rw [relatedLoop]
        have hv1 : valIs tColon b!":" = true := by decide
        simp [P.tick, next_mk, mtch_lit_mk, Decl.toks, Decl.typeToks, unionToks, TyRef.toks, hn1, hn2.1, hn2.2, hv1, hx1,
          hx2', hx3, P.addCheck, k3]
    | sset a b =>
      obtain ⟨q', k1, k2, k3⟩ := optComma_step
        ⟨tLB :: tRB :: (optComma comma ++ rest), nss, ns, errors, false, .nsHasRelation a b :: checks,
          steps + 1 + 1 + 1 + 1 + 1 + 1 + 1 + 1 + 1, panic⟩ comma rest rfl rfl hc
      refine ⟨q'.addRelation ⟨bstr name.val, [⟨bstr a.val, bstr b.val⟩], none⟩, ?_, ?_⟩
      · refine ⟨k1, k2.1, k2.2.1, k2.2.2.1, k2.2.2.2.2, ?_⟩
        have hns : q'.ns = ns := k2.2.2.2.1
        simp [P.addRelation, hns, Decl.relation, TyRef.ty]
      · rw [relatedLoop]
        have hv1 : valIs tColon b!":" = true := by decide
        simp [P.tick, next_mk, mtch_lit_mk, matchSubjectSet_mk, Decl.toks, Decl.typeToks, unionToks, TyRef.toks, hn1, hn2.1,
          hn2.2, hv1, valIs_tk, tId, k3]

end Keto.Opl
