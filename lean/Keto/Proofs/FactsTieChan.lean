/-
  Fact ties (channel capacities of package check: C15), kept apart from Keto/Proofs/FactsTie.lean so that only the properties that rely on
  them depend on them: a change to the code that breaks one of these tables breaks the proof obligations of
  those properties, not of every property that imports a fact tie.
-/
import Keto.Generated.Facts

namespace Keto.FactsTie
open Keto.Facts

/-- Every result channel of package `check` that a goroutine sends on after its
    receiver may have stopped listening has capacity 1 (C15). -/
def expectedChanSites : List (String × String × String) := [
  ("internal/check/engine.go", "Engine.CheckRelationTuple", "1"),
  ("internal/check/rewrites.go", "Engine.checkInverted", "1"),
  ("internal/check/binop.go", "or", "1"),
  ("internal/check/binop.go", "and", "1"),
  ("internal/check/checkgroup/definitions.go", "WithEdge", "1"),
  ("internal/check/checkgroup/concurrent_checkgroup.go", "NewConcurrent", "0"),
  ("internal/check/checkgroup/concurrent_checkgroup.go", "NewConcurrent", "0"),
  ("internal/check/checkgroup/concurrent_checkgroup.go", "NewConcurrent", "0"),
  ("internal/check/checkgroup/concurrent_checkgroup.go", "NewConcurrent", "1"),
  ("internal/check/checkgroup/concurrent_checkgroup.go", "concurrentCheckgroup.startConsumer", "1")
]

theorem chanSites_tie : chanSites = expectedChanSites := by decide

end Keto.FactsTie
