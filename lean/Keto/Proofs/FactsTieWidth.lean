/-
  Fact tie (where the width limit applies: C02), kept apart so that only C02 depends on it.
-/
import Keto.Generated.Facts

namespace Keto.FactsTie
open Keto.Facts

/-- The width limit is read in exactly one function of the engines: the subject-set expansion of a direct
    check (`Keto.build`, case `.expand`: the width test on the expansion's results). No other traversal -
    not the tuple-to-subject-set listing, not expand - is cut by it. -/
def expectedWidthSites : List (String × String × String) := [
  ("internal/check/engine.go", "Engine.checkExpandSubject", "MaxReadWidth")]

theorem widthSites_tie : widthSites = expectedWidthSites := by decide

end Keto.FactsTie
