/-
  Soundness of the engine model (`Keto.build`) w.r.t. the reference semantics
  (`Mem` / `Holds`) for the positive fragment, and the error/membership invariant
  (a result that carries an error is never `isMember`) for every call.

  Helper lemmas only; the property theorems live in Keto/Props/C01..C03.
-/
import Keto.Model.Engine
import Keto.Spec.Membership
import Keto.Spec.Positive

namespace Keto

/-! ### invariants of results, groups and thunks -/

/-- Every result a (sequential) checkgroup holds satisfies `Q`. -/
def GInv (Q : Res → Prop) (g : Option Res) : Prop := ∀ r, g = some r → Q r

/-- Every result the thunk can produce satisfies `Q`. -/
def TInv (Q : Res → Prop) (th : Thunk) : Prop := ∀ c w, Q (th c w).1

/-- `Q` for soundness w.r.t. `P`. -/
def QS (P : Prop) : Res → Prop := fun r => r.memb = .isMember → P

/-- `Q` for "an error is never a membership". -/
def QE : Res → Prop := fun r => r.err.isSome → r.memb ≠ .isMember

theorem soundT_iff (P : Prop) (th : Thunk) : SoundT P th ↔ TInv (QS P) th := Iff.rfl

/-- What the loops need to know about `Q`. -/
structure QOk (Q : Res → Prop) : Prop where
  nm : Q Res.nm
  unk : Q Res.unk
  err : ∀ k, Q (Res.error k)

theorem QS.ok (P : Prop) : QOk (QS P) :=
  ⟨(by intro h; cases h), (by intro h; cases h), (by intro k h; cases h)⟩

theorem QE.ok : QOk QE :=
  ⟨(by intro h; cases h), (by intro h; cases h), (by intro k _ h; cases h)⟩

theorem QE.isM : QE Res.isM := by intro h; cases h

theorem GInv.none {Q : Res → Prop} : GInv Q none := fun _ h => by cases h

theorem GInv.some {Q : Res → Prop} {r : Res} (h : Q r) : GInv Q (some r) :=
  fun _ e => by cases e; exact h

theorem GInv.gAdd {Q : Res → Prop} {g : Option Res} {r : Res} (hg : GInv Q g) (hr : Q r) :
    GInv Q (gAdd g r) := by
  unfold Keto.gAdd
  cases g with
  | some x => exact hg
  | none =>
    simp only
    split
    · exact GInv.some hr
    · exact GInv.none

theorem GInv.gResult {Q : Res → Prop} {g : Option Res} (hnm : Q Res.nm) (hg : GInv Q g) :
    Q (gResult g) := by
  cases g with
  | none => exact hnm
  | some x => exact hg x rfl

theorem TInv.const {Q : Res → Prop} {r : Res} (h : Q r) : TInv Q (constT r) := fun _ _ => h

theorem TInv.withFresh {Q : Res → Prop} {th : Thunk} (h : TInv Q th) : TInv Q (withFresh th) :=
  fun _ _ => h _ _

theorem GInv.gAddT {Q : Res → Prop} {g : Option Res} {th : Thunk} (hg : GInv Q g) (ht : TInv Q th)
    (c : Ctx) (w : World) : GInv Q (gAddT g th c w).1 := by
  unfold Keto.gAddT
  cases g with
  | some x => exact hg
  | none => exact GInv.none.gAdd (ht c w)

/-! ### loops -/

theorem expandLoop_inv {Q : Res → Prop} (rec : Tuple → Ctx → World → Res × World) (sub : Subject) :
    ∀ (ss : List VKey), (∀ s, s ∈ ss → ∀ c w, Q (rec ⟨s.1, s.2.1, s.2.2, sub⟩ c w).1) →
      ∀ g c w, GInv Q g → GInv Q (expandLoop rec sub ss g c w).1
  | [], _, _, _, _, hg => hg
  | s :: ss, h, g, c, w, hg => by
    simp only [expandLoop]
    split
    · exact expandLoop_inv rec sub ss (fun s' hs' => h s' (List.mem_cons_of_mem _ hs')) _ _ _ hg
    · exact expandLoop_inv rec sub ss (fun s' hs' => h s' (List.mem_cons_of_mem _ hs')) _ _ _
        (hg.gAdd (h s (List.mem_cons_self ..) _ _))

theorem relLoop_inv {Q : Res → Prop} (rec : String → Ctx → World → Res × World) :
    ∀ (rs : List String), (∀ r, r ∈ rs → ∀ c w, Q (rec r c w).1) →
      ∀ g c w, GInv Q g → GInv Q (relLoop rec rs g c w).1
  | [], _, _, _, _, hg => hg
  | r :: rs, h, g, c, w, hg => by
    simp only [relLoop]
    exact relLoop_inv rec rs (fun r' hr' => h r' (List.mem_cons_of_mem _ hr')) _ _ _
      (hg.gAdd (h r (List.mem_cons_self ..) _ _))

theorem ttuRows_inv {Q : Res → Prop} (rec : VKey → Ctx → World → Res × World) :
    ∀ (ts : List Tuple),
      (∀ t, t ∈ ts → ∀ n o r, t.sub = .set n o r → ∀ c w, Q (rec (n, o, r) c w).1) →
      ∀ g c w, GInv Q g → GInv Q (ttuRows rec ts g c w).1
  | [], _, _, _, _, hg => hg
  | t :: ts, h, g, c, w, hg => by
    have hrest : ∀ t', t' ∈ ts → ∀ n o r, t'.sub = .set n o r → ∀ c w, Q (rec (n, o, r) c w).1 :=
      fun t' ht' => h t' (List.mem_cons_of_mem _ ht')
    simp only [ttuRows]
    split
    · next n o r hs =>
      exact ttuRows_inv rec ts hrest _ _ _ (hg.gAdd (h t (List.mem_cons_self ..) n o r hs _ _))
    · exact ttuRows_inv rec ts hrest _ _ _ hg

theorem ttuPages_inv {Q : Res → Prop} (hQ : QOk Q) (E : Env) (rec : VKey → Ctx → World → Res × World) :
    ∀ (ps : List (List Tuple)),
      (∀ p, p ∈ ps → ∀ t, t ∈ p → ∀ n o r, t.sub = .set n o r → ∀ c w, Q (rec (n, o, r) c w).1) →
      ∀ g c w, GInv Q g → GInv Q (ttuPages E rec ps g c w).1
  | [], _, _, _, _, hg => hg
  | p :: ps, h, g, c, w, hg => by
    simp only [ttuPages]
    split
    · exact hg
    · split
      · exact GInv.some (hQ.err _)
      · exact ttuPages_inv hQ E rec ps (fun p' hp' => h p' (List.mem_cons_of_mem _ hp')) _ _ _
          (ttuRows_inv rec p (h p (List.mem_cons_self ..)) _ _ _ GInv.none)

theorem orRun_inv {Q : Res → Prop} (hnm : Q Res.nm) :
    ∀ (ths : List Thunk), (∀ th, th ∈ ths → TInv Q th) → TInv Q (orRun ths)
  | [], _, _, _ => hnm
  | th :: ths, h, c, w => by
    simp only [orRun]
    split
    · exact h th (List.mem_cons_self ..) c w
    · exact orRun_inv hnm ths (fun th' ht' => h th' (List.mem_cons_of_mem _ ht')) c _

/-- Pointwise relation of two lists (core has no `Forall₂`). -/
inductive All2 {α β : Type} (R : α → β → Prop) : List α → List β → Prop where
  | nil : All2 R [] []
  | cons {a b as bs} : R a b → All2 R as bs → All2 R (a :: as) (b :: bs)

theorem All2.imp {α β γ : Type} {R : α → β → Prop} {R' : α → γ → Prop} {f : β → γ}
    (himp : ∀ a b, R a b → R' a (f b)) : ∀ {as bs}, All2 R as bs → All2 R' as (bs.map f)
  | _, _, .nil => .nil
  | _, _, .cons h t => .cons (himp _ _ h) (All2.imp himp t)

theorem All2.right {α β : Type} {R : α → β → Prop} :
    ∀ {as bs}, All2 R as bs → ∀ b, b ∈ bs → ∃ a, a ∈ as ∧ R a b
  | _, _, .nil, _, hb => by cases hb
  | _, _, .cons (a := a) (as := as) h t, b, hb => by
    cases hb with
    | head => exact ⟨a, List.mem_cons_self .., h⟩
    | tail _ hb' =>
      obtain ⟨a', ha', hr⟩ := All2.right t b hb'
      exact ⟨a', List.mem_cons_of_mem _ ha', hr⟩

theorem All2.nil_iff {α β : Type} {R : α → β → Prop} {as : List α} {bs : List β} (h : All2 R as bs) :
    bs = [] ↔ as = [] := by
  cases h <;> simp

theorem buildChildren_all2 {R : Child → Thunk → Prop} (f : Child → Ctx → World → Thunk × World)
    (isAnd : Bool) :
    ∀ (cs : List Child), (∀ ch, ch ∈ cs → ∀ c w, R ch (f ch c w).1) →
      ∀ c w, All2 R cs (buildChildren f isAnd cs c w).1
  | [], _, _, _ => .nil
  | ch :: cs, h, c, w => by
    simp only [buildChildren]
    exact .cons (h ch (List.mem_cons_self ..) _ _)
      (buildChildren_all2 f isAnd cs (fun ch' hc' => h ch' (List.mem_cons_of_mem _ hc')) _ _)

theorem andLoop_sound {P : Child → Prop} :
    ∀ {cs : List Child} {ths : List Thunk}, All2 (fun ch th => SoundT (P ch) th) cs ths →
      ∀ c w, (andLoop ths c w).1.memb = .isMember → ∀ ch, ch ∈ cs → P ch
  | _, _, .nil, _, _, _, _, hm => by cases hm
  | _, _, .cons (a := a) (b := th) h t, c, w, hres, ch, hm => by
    simp only [andLoop] at hres
    split at hres
    · cases hres
    · next hcond =>
      have hth : (th c w).1.memb = .isMember := by
        cases hmb : (th c w).1.memb <;> simp [hmb] at hcond ⊢
      cases hm with
      | head => exact h c w hth
      | tail _ hm' => exact andLoop_sound t c _ hres ch hm'

theorem andLoop_err : ∀ (ths : List Thunk) (c : Ctx) (w : World), QE (andLoop ths c w).1
  | [], _, _ => QE.isM
  | th :: ths, c, w => by
    simp only [andLoop]
    split
    · intro _ h; cases h
    · exact andLoop_err ths c _

theorem andRun_err (ths : List Thunk) : TInv QE (andRun ths) := by
  intro c w
  unfold andRun
  split
  · exact QE.ok.nm
  · exact andLoop_err ths c w

/-! ### storage queries -/

theorem mem_subjectSetsOf {T : List Tuple} {ns : String} {obj : Nat} {rel : String} {n : String} {o : Nat}
    {r : String} (h : (n, o, r) ∈ subjectSetsOf T ns obj rel) : (⟨ns, obj, rel, .set n o r⟩ : Tuple) ∈ T := by
  unfold subjectSetsOf at h
  rw [List.mem_filterMap] at h
  obtain ⟨t, ht, he⟩ := h
  split at he
  · next hcond =>
    simp only [Bool.and_eq_true, beq_iff_eq] at hcond
    obtain ⟨⟨h1, h2⟩, h3⟩ := hcond
    split at he
    · next n' o' r' hs =>
      cases he
      cases t
      simp only at h1 h2 h3 hs
      subst h1 h2 h3 hs
      exact ht
    · cases he
  · cases he

theorem mem_rowsOf {T : List Tuple} {ns : String} {obj : Nat} {rel : String} {t : Tuple}
    (h : t ∈ rowsOf T ns obj rel) : t ∈ T ∧ t.ns = ns ∧ t.obj = obj ∧ t.rel = rel := by
  unfold rowsOf at h
  rw [List.mem_filter] at h
  simp only [Bool.and_eq_true, beq_iff_eq] at h
  exact ⟨h.1, h.2.1.1, h.2.1.2, h.2.2⟩

theorem mem_pagesOf (ps : Nat) : ∀ (fuel : Nat) (rows p : List Tuple), p ∈ pagesOf ps fuel rows →
    ∀ t, t ∈ p → t ∈ rows
  | 0, rows, p, hp, t, ht => by
    simp only [pagesOf, List.mem_singleton] at hp
    subst hp; exact ht
  | fuel+1, rows, p, hp, t, ht => by
    simp only [pagesOf] at hp
    split at hp
    · simp only [List.mem_singleton] at hp
      subst hp; exact ht
    · cases hp with
      | head => exact List.mem_of_mem_take ht
      | tail _ hp' => exact List.mem_of_mem_drop (mem_pagesOf ps fuel _ p hp' t ht)

theorem mem_computedRels : ∀ {cs : List Child} {r : String}, r ∈ computedRels cs → Child.computed r ∈ cs
  | [], _, h => by cases h
  | .computed r' :: cs, r, h => by
    simp only [computedRels] at h
    cases h with
    | head => exact List.mem_cons_self ..
    | tail _ h' => exact List.mem_cons_of_mem _ (mem_computedRels h')
  | .ttu _ _ :: cs, r, h => by
    simp only [computedRels] at h
    exact List.mem_cons_of_mem _ (mem_computedRels h)
  | .rewrite _ _ :: cs, r, h => by
    simp only [computedRels] at h
    exact List.mem_cons_of_mem _ (mem_computedRels h)
  | .invert _ :: cs, r, h => by
    simp only [computedRels] at h
    exact List.mem_cons_of_mem _ (mem_computedRels h)

theorem posList_mem : ∀ {cs : List Child} {ch : Child}, Child.posList cs = true → ch ∈ cs → Child.pos ch = true
  | [], _, _, h => by cases h
  | c :: cs, ch, hp, h => by
    simp only [Child.posList, Bool.and_eq_true] at hp
    cases h with
    | head => exact hp.1
    | tail _ h' => exact posList_mem hp.2 h'

theorem contains_mem {T : List Tuple} {t : Tuple} (h : T.contains t = true) : t ∈ T := by
  simpa using h

theorem expandRun_inv {Q : Res → Prop} (hQ : QOk Q) (E : Env) (rec : Tuple → Ctx → World → Res × World)
    (t : Tuple)
    (hany : ∀ n o r, (⟨t.ns, t.obj, t.rel, .set n o r⟩ : Tuple) ∈ E.T → (⟨n, o, r, t.sub⟩ : Tuple) ∈ E.T → Q Res.isM)
    (hrec : ∀ n o r, (⟨t.ns, t.obj, t.rel, .set n o r⟩ : Tuple) ∈ E.T → ∀ c w, Q (rec ⟨n, o, r, t.sub⟩ c w).1) :
    TInv Q (expandRun E rec t) := by
  intro c w
  unfold expandRun
  extract_lets cw fw sets over w2 sets' gw
  split
  · exact hQ.err _
  · split
    · next hany' =>
      rw [List.any_eq_true] at hany'
      obtain ⟨⟨n, o, r⟩, hs, hc⟩ := hany'
      exact hany n o r (mem_subjectSetsOf hs) (contains_mem hc)
    · apply GInv.gResult hQ.nm
      show GInv Q (expandLoop rec t.sub sets' none cw.1 w2).1
      refine expandLoop_inv _ _ _ ?_ _ _ _ GInv.none
      intro s hs c w
      have hs' : s ∈ sets := by
        simp only [sets'] at hs
        split at hs
        · exact List.mem_of_mem_take hs
        · exact hs
      obtain ⟨n, o, r⟩ := s
      exact hrec n o r (mem_subjectSetsOf hs') c w

theorem directStep_inv {Q : Res → Prop} (hQ : QOk Q) (E : Env) (t : Tuple) (d : Int) (g : Option Res) (w : World)
    (hdir : t ∈ E.T → Q Res.isM) (hg : GInv Q g) : GInv Q (directStep E t d g w).1 := by
  unfold directStep
  split
  · exact hg
  · split
    · exact hg
    · extract_lets fw
      split
      · exact GInv.some (hQ.err _)
      · refine GInv.none.gAdd ?_
        split
        · next h => exact hdir (contains_mem h)
        · exact hQ.nm

theorem build_isAllowed_inv {Q : Res → Prop} (hQ : QOk Q) (E : Env) (n : Nat) (t : Tuple) (d : Int) (skip : Bool)
    (ctx : Ctx) (w : World)
    (hdir : t ∈ E.T → Q Res.isM)
    (hany : ∀ n o r, (⟨t.ns, t.obj, t.rel, .set n o r⟩ : Tuple) ∈ E.T → (⟨n, o, r, t.sub⟩ : Tuple) ∈ E.T → Q Res.isM)
    (hrw : ∀ R rw, astRelationFor E.cfg t.ns t.rel = .rel R → R.rewrite = some rw →
      TInv Q (build E n (.rewrite t rw d) ctx w).1)
    (hexp : ∀ n' o r, (⟨t.ns, t.obj, t.rel, .set n' o r⟩ : Tuple) ∈ E.T →
      ∀ c w, TInv Q (build E n (.isAllowed ⟨n', o, r, t.sub⟩ (d - 1) true) c w).1) :
    TInv Q (build E (n+1) (.isAllowed t d skip) ctx w).1 := by
  intro c' w'
  rw [build]
  split
  · exact hQ.unk
  · split
    · exact hQ.err _
    · next lk hlk =>
      extract_lets rel? rw? strict gw1 gw2 canSS er gw3
      show Q (gResult gw3.1)
      refine GInv.gResult hQ.nm ?_
      have hrwq : ∀ rw, rw? = some rw → TInv Q (build E n (.rewrite t rw d) ctx w).1 := by
        intro rw h
        simp only [rw?, rel?] at h
        split at h
        · next R hR => exact hrw R rw hR h
        · cases h
      clear_value rw? rel?
      have h1 : GInv Q gw1.1 := by
        simp only [gw1]
        split
        · next rw => exact GInv.none.gAddT (hrwq rw rfl) _ _
        · exact GInv.none
      have h2 : GInv Q gw2.1 := by
        simp only [gw2]
        split
        · exact directStep_inv hQ E t _ _ _ hdir h1
        · exact h1
      simp only [gw3]
      split
      · split
        · exact h2
        · split
          · next x hx => rw [← hx]; exact h2
          · refine GInv.none.gAdd ?_
            simp only [er]
            refine expandRun_inv hQ E _ t hany ?_ _ _
            intro n' o r hm c w
            exact hexp n' o r hm c w c _
      · exact h2

theorem build_rewrite_or_inv {Q : Res → Prop} (hQ : QOk Q) (E : Env) (n : Nat) (t : Tuple) (cs : List Child) (d : Int)
    (ctx : Ctx) (w : World)
    (hsc : ∀ r, Child.computed r ∈ cs → (⟨t.ns, t.obj, r, t.sub⟩ : Tuple) ∈ E.T → Q Res.isM)
    (hcomp : ∀ r, Child.computed r ∈ cs →
      ∀ c w, TInv Q (build E n (.isAllowed { t with rel := r } (d - 1) true) c w).1)
    (hch : ∀ ch, ch ∈ cs → ∀ c w, TInv Q (build E n (.child t ch d false) c w).1) :
    TInv Q (build E (n+1) (.rewrite t ⟨.or, cs⟩ d) ctx w).1 := by
  rw [build]
  split
  · exact TInv.const hQ.unk
  · have e1 : (Op.or == Op.or) = true := by decide
    have e2 : (Op.or == Op.and) = false := by decide
    simp only [e1, e2, if_true, Bool.false_eq_true, if_false]
    show TInv Q (orRun _)
    refine orRun_inv hQ.nm _ ?_
    intro th hth
    rw [List.mem_append] at hth
    cases hth with
    | inl h =>
      split at h
      · cases h
      · rw [List.mem_singleton] at h
        subst h
        intro c w'
        dsimp only
        split
        · exact hQ.err _
        · split
          · next hcond =>
            simp only [Bool.and_eq_true, List.any_eq_true, beq_iff_eq, List.contains_iff_mem,
              List.mem_filter] at hcond
            obtain ⟨_, x, hx, ⟨⟨⟨h1, h2⟩, h3⟩, h4, _⟩⟩ := hcond
            refine hsc x.rel (mem_computedRels h4) ?_
            rw [← h1, ← h2, ← h3]
            exact hx
          · refine GInv.gResult hQ.nm (relLoop_inv _ _ ?_ _ _ _ GInv.none)
            intro r hr c w
            exact hcomp r (mem_computedRels hr) c w c _
    | inr h =>
      have hall := buildChildren_all2 (R := fun _ th => TInv Q th)
        (fun ch c w' => build E n (Call.child t ch d false) c w') false
        (List.filter (fun c => !c.isComputed) cs)
        (fun ch hm c w => hch ch (List.mem_filter.1 hm).1 c w) ctx w
      obtain ⟨ch, _, hR⟩ := hall.right th h
      exact hR

theorem build_rewrite_and_sound (E : Env) (n : Nat) (t : Tuple) (cs : List Child) (d : Int) (ctx : Ctx) (w : World)
    (hch : ∀ ch, ch ∈ cs → ∀ c w, SoundT (Holds E.cfg E.T ch t) (build E n (.child t ch d false) c w).1) :
    SoundT (Holds E.cfg E.T (.rewrite .and cs) t) (build E (n+1) (.rewrite t ⟨.and, cs⟩ d) ctx w).1 := by
  rw [build]
  split
  · intro _ _ h; cases h
  · have e1 : (Op.and == Op.and) = true := by decide
    have e2 : (Op.and == Op.or) = false := by decide
    simp only [e1, e2, if_true, Bool.false_eq_true, if_false, List.isEmpty_nil, List.nil_append]
    have hall := (buildChildren_all2 (R := fun ch th => SoundT (Holds E.cfg E.T ch t) th)
      (fun ch c w' => build E n (Call.child t ch d false) c w') true cs hch ctx w).imp
      (R' := fun ch th => SoundT (Holds E.cfg E.T ch t) th) (f := withFresh)
      (fun ch _ h => TInv.withFresh (Q := QS (Holds E.cfg E.T ch t)) h)
    intro c w' h
    change (andRun _ c w').1.memb = _ at h
    unfold andRun at h
    split at h
    · cases h
    · next hne =>
      refine Holds.and t cs ?_ (andLoop_sound hall c w' h)
      intro hnil
      exact hne (by rw [hall.nil_iff.2 hnil]; rfl)

theorem build_rewrite_and_err (E : Env) (n : Nat) (t : Tuple) (cs : List Child) (d : Int) (ctx : Ctx) (w : World) :
    TInv QE (build E (n+1) (.rewrite t ⟨.and, cs⟩ d) ctx w).1 := by
  rw [build]
  split
  · exact TInv.const QE.ok.unk
  · exact andRun_err _

theorem build_child_ttu_inv {Q : Res → Prop} (hQ : QOk Q) (E : Env) (n : Nat) (t : Tuple) (rel crel : String)
    (d : Int) (inv : Bool) (ctx : Ctx) (w : World)
    (h : ∀ n' o r, (⟨t.ns, t.obj, rel, .set n' o r⟩ : Tuple) ∈ E.T →
      ∀ c w, TInv Q (build E n (.isAllowed ⟨n', o, crel, t.sub⟩ (d - 1) false) c w).1) :
    TInv Q (build E (n+1) (.child t (.ttu rel crel) d inv) ctx w).1 := by
  rw [build]
  dsimp only
  split
  · exact TInv.const hQ.unk
  · intro c w'
    dsimp only
    refine GInv.gResult hQ.nm (ttuPages_inv hQ E _ _ ?_ _ _ _ GInv.none)
    intro p hp x hx n' o r hs c w
    obtain ⟨hxT, h1, h2, h3⟩ := mem_rowsOf (mem_pagesOf _ _ _ _ hp x hx)
    refine h n' o r ?_ c w c _
    rw [← h1, ← h2, ← h3, ← hs]
    exact hxT

theorem invertRes_err (r : Res) : QE (invertRes r) := by
  unfold invertRes
  split
  · intro _ h; cases h
  · next hnone =>
    split
    · intro h; cases h
    · intro h; cases h
    · intro h; rw [hnone] at h; cases h

theorem build_invert_err (E : Env) (n : Nat) (t : Tuple) (ch : Child) (d : Int) (ctx : Ctx) (w : World) :
    TInv QE (build E (n+1) (.invert t ch d) ctx w).1 := by
  rw [build]
  split
  · exact TInv.const QE.ok.unk
  · intro c w'
    exact invertRes_err _

/-- Soundness of the engine model for the positive fragment. -/
theorem build_sound (E : Env) (hc : Cfg.pos E.cfg) :
    ∀ (fuel : Nat) (call : Call) (ctx : Ctx) (w : World), call.pos = true →
      SoundT (call.Spec E.cfg E.T) (build E fuel call ctx w).1 := by
  intro fuel
  induction fuel with
  | zero =>
    intro call ctx w _ c' w' h
    rw [build] at h
    cases h
  | succ n ih =>
    intro call ctx w hp
    cases call with
    | isAllowed t d skip =>
      refine build_isAllowed_inv (QS.ok _) E n t d skip ctx w ?_ ?_ ?_ ?_
      · intro hm _; exact Mem.direct t hm
      · intro n' o r h1 h2 _
        exact Mem.expand t n' o r h1 (Mem.direct _ h2)
      · intro R rw hR hrw c' w' hres
        exact Mem.rewrite t R rw hR hrw (ih (.rewrite t rw d) ctx w (hc _ _ R rw hR hrw) c' w' hres)
      · intro n' o r hm c w c' w' hres
        exact Mem.expand t n' o r hm (ih (.isAllowed ⟨n', o, r, t.sub⟩ (d - 1) true) c w rfl c' w' hres)
    | rewrite t rw d =>
      obtain ⟨op, cs⟩ := rw
      have hpos : Child.posList cs = true := hp
      have hch : ∀ ch, ch ∈ cs → ∀ c w,
          SoundT (Holds E.cfg E.T ch t) (build E n (.child t ch d false) c w).1 :=
        fun ch hm c w => ih (.child t ch d false) c w (posList_mem hpos hm)
      cases op with
      | and => exact build_rewrite_and_sound E n t cs d ctx w hch
      | or =>
        refine build_rewrite_or_inv (QS.ok _) E n t cs d ctx w ?_ ?_ ?_
        · intro r hr hm _
          exact Holds.or t cs _ hr (Holds.computed t r (Mem.direct _ hm))
        · intro r hr c w c' w' hres
          exact Holds.or t cs _ hr (Holds.computed t r
            (ih (.isAllowed { t with rel := r } (d - 1) true) c w rfl c' w' hres))
        · intro ch hm c w c' w' hres
          exact Holds.or t cs ch hm (hch ch hm c w c' w' hres)
    | child t ch d inv =>
      cases ch with
      | ttu rel crel =>
        refine build_child_ttu_inv (QS.ok _) E n t rel crel d inv ctx w ?_
        intro n' o r hm c w c' w' hres
        exact Holds.ttu t rel crel n' o r hm
          (ih (.isAllowed ⟨n', o, crel, t.sub⟩ (d - 1) false) c w rfl c' w' hres)
      | computed rel =>
        intro c' w' hres
        rw [build] at hres
        split at hres
        · cases hres
        · exact Holds.computed t rel (ih (.isAllowed { t with rel := rel } (d - 1) false) ctx w rfl c' w' hres)
      | rewrite op cs =>
        intro c' w' hres
        rw [build] at hres
        exact ih (.rewrite t ⟨op, cs⟩ (if inv then d else d - 1)) ctx w hp c' w' hres
      | invert c => cases hp
    | invert t c d => cases hp

/-- Whatever thunk `build` returns (negation included): a result that carries an error
    is never `isMember`. -/
theorem build_err_not_member (E : Env) :
    ∀ (fuel : Nat) (call : Call) (ctx : Ctx) (w : World) (c' : Ctx) (w' : World),
      ((build E fuel call ctx w).1 c' w').1.err.isSome →
        ((build E fuel call ctx w).1 c' w').1.memb ≠ .isMember := by
  intro fuel
  induction fuel with
  | zero =>
    intro call ctx w c' w' _ h
    rw [build] at h
    cases h
  | succ n ih =>
    intro call ctx w
    show TInv QE (build E (n+1) call ctx w).1
    have ih' : ∀ call c w, TInv QE (build E n call c w).1 := fun call c w => ih call c w
    cases call with
    | isAllowed t d skip =>
      exact build_isAllowed_inv QE.ok E n t d skip ctx w (fun _ => QE.isM) (fun _ _ _ _ _ => QE.isM)
        (fun _ rw _ _ => ih' _ _ _) (fun _ _ _ _ c w => ih' _ c w)
    | rewrite t rw d =>
      obtain ⟨op, cs⟩ := rw
      cases op with
      | and => exact build_rewrite_and_err E n t cs d ctx w
      | or =>
        exact build_rewrite_or_inv QE.ok E n t cs d ctx w (fun _ _ _ => QE.isM)
          (fun _ _ c w => ih' _ c w) (fun _ _ c w => ih' _ c w)
    | child t ch d inv =>
      cases ch with
      | ttu rel crel =>
        exact build_child_ttu_inv QE.ok E n t rel crel d inv ctx w (fun _ _ _ _ c w => ih' _ c w)
      | computed rel =>
        rw [build]
        split
        · exact TInv.const QE.ok.unk
        · exact ih' _ _ _
      | rewrite op cs =>
        rw [build]
        exact ih' _ _ _
      | invert c =>
        rw [build]
        exact ih' _ _ _
    | invert t c d => exact build_invert_err E n t c d ctx w

/-- The Boolean check `Cfg.posB` implies the (lookup-based) `Cfg.pos`. -/
theorem Cfg.pos_of_posB {c : Cfg} (h : c.posB = true) : c.pos := by
  intro ns rel R rw hR hrw
  unfold astRelationFor at hR
  split at hR
  · cases hR
  · split at hR
    · cases hR
    · next n hn =>
      split at hR
      · cases hR
      · split at hR
        · next r hr =>
          cases hR
          have hn' := List.mem_of_find?_eq_some hn
          have hr' := List.mem_of_find?_eq_some hr
          unfold Cfg.posB at h
          rw [List.all_eq_true] at h
          have h2 := h n hn'
          rw [List.all_eq_true] at h2
          have h3 := h2 R hr'
          rw [hrw] at h3
          exact h3
        · cases hR

end Keto
