/-
  The number of storage operations of the engine model (`World.calls`) is bounded by `callsBound`.

  `build` does part of its work while the check is constructed and part when the returned thunk is
  run, so the invariant (`BCost`) splits a budget `k` in two: the construction adds at most `cb`
  operations, every later run of the thunk (in any context and world) at most `ct`, `cb + ct ≤ k`.
  The budget of a call (`Call.cost`) is the weighted size of the rewrite it still has to walk, with
  the bound for the next lower depth as the weight of a leaf.

  Helper lemmas only; the property theorems live in Keto/Props/C15calls.lean.
-/
import Keto.Model.Engine
import Keto.Spec.Calls
import Keto.Proofs.EngineTermination

namespace Keto

/-! ### what does not touch the counter -/

theorem call_calls (E : Env) (w : World) : (w.call E).2.calls = w.calls + 1 := rfl

theorem lim_calls (w : World) : w.lim.calls = w.calls := rfl

theorem fresh_calls (w : World) : (fresh w).2.calls = w.calls := rfl

theorem initVisited_calls (ctx : Ctx) (w : World) : (initVisited ctx w).2.calls = w.calls := by
  unfold initVisited
  split <;> rfl

theorem checkAndAdd_calls (c : Ctx) (k : VKey) (w : World) : (checkAndAdd c k w).2.calls = w.calls := by
  unfold checkAndAdd
  dsimp only
  split <;> rfl

/-! ### budgets -/

/-- Every run of the thunk adds at most `k` storage operations. -/
def TCost (th : Thunk) (k : Nat) : Prop := ∀ c w, (th c w).2.calls ≤ w.calls + k

/-- The thunks of the list, each run at most once, add at most `m` storage operations together. -/
def LCost : List Thunk → Nat → Prop
  | [], _ => True
  | th :: ths, m => ∃ k m', k + m' ≤ m ∧ TCost th k ∧ LCost ths m'

/-- Construction and one run of the thunk add at most `k` storage operations together. -/
def BCost (bw : Thunk × World) (w : World) (k : Nat) : Prop :=
  ∃ cb ct, cb + ct ≤ k ∧ bw.2.calls ≤ w.calls + cb ∧ TCost bw.1 ct

theorem TCost.mono {th : Thunk} {k k' : Nat} (h : TCost th k) (hk : k ≤ k') : TCost th k' := by
  intro c w
  have := h c w
  omega

theorem TCost.const (r : Res) (k : Nat) : TCost (constT r) k := by
  intro c w
  show w.calls ≤ w.calls + k
  omega

theorem TCost.withFresh {th : Thunk} {k : Nat} (h : TCost th k) : TCost (withFresh th) k := by
  intro c w
  exact h (fresh w).1 (fresh w).2

theorem LCost.mono : ∀ {ths : List Thunk} {m m' : Nat}, LCost ths m → m ≤ m' → LCost ths m'
  | [], _, _, _, _ => trivial
  | _ :: _, _, _, ⟨k, m1, hk, ht, hl⟩, hm => ⟨k, m1, by omega, ht, hl⟩

theorem LCost.append : ∀ {ths ths' : List Thunk} {m m' : Nat}, LCost ths m → LCost ths' m' →
    LCost (ths ++ ths') (m + m')
  | [], _, _, _, _, h' => h'.mono (by omega)
  | _ :: _, _, _, _, ⟨k, m1, hk, ht, hl⟩, h' => ⟨k, m1 + _, by omega, ht, hl.append h'⟩

theorem LCost.mapWithFresh : ∀ {ths : List Thunk} {m : Nat}, LCost ths m → LCost (ths.map withFresh) m
  | [], _, _ => trivial
  | _ :: _, _, ⟨k, m1, hk, ht, hl⟩ => ⟨k, m1, hk, ht.withFresh, hl.mapWithFresh⟩

theorem BCost.mono {bw : Thunk × World} {w : World} {k k' : Nat} (h : BCost bw w k) (hk : k ≤ k') :
    BCost bw w k' := by
  obtain ⟨cb, ct, h1, h2, h3⟩ := h
  exact ⟨cb, ct, by omega, h2, h3⟩

/-- a constant thunk, nothing done during construction -/
theorem BCost.const (r : Res) (w w2 : World) (h : w2.calls = w.calls) (k : Nat) : BCost (constT r, w2) w k :=
  ⟨0, 0, by omega, by show w2.calls ≤ w.calls + 0; omega, TCost.const r 0⟩

theorem BCost.runB {bw : Thunk × World} {w : World} {k : Nat} (h : BCost bw w k) (c : Ctx) :
    (runB bw c).2.calls ≤ w.calls + k := by
  obtain ⟨cb, ct, h1, h2, h3⟩ := h
  have := h3 c bw.2
  show (bw.1 c bw.2).2.calls ≤ _
  omega

/-! ### loops -/

theorem expandLoop_calls (rec : Tuple → Ctx → World → Res × World) (sub : Subject) (a : Nat)
    (hrec : ∀ t c w, (rec t c w).2.calls ≤ w.calls + a) :
    ∀ (ss : List VKey) g c w, (expandLoop rec sub ss g c w).2.calls ≤ w.calls + ss.length * a
  | [], _, _, w => by
    simp only [expandLoop]
    omega
  | s :: ss, g, c, w => by
    simp only [expandLoop, List.length_cons, Nat.succ_mul]
    have hv := checkAndAdd_calls c s w
    split
    · have := expandLoop_calls rec sub a hrec ss g c (checkAndAdd c s w).2
      omega
    · have h1 := hrec ⟨s.1, s.2.1, s.2.2, sub⟩ c (checkAndAdd c s w).2
      have h2 := expandLoop_calls rec sub a hrec ss
        (gAdd g (rec ⟨s.1, s.2.1, s.2.2, sub⟩ c (checkAndAdd c s w).2).1) c
        (rec ⟨s.1, s.2.1, s.2.2, sub⟩ c (checkAndAdd c s w).2).2
      omega

theorem relLoop_calls (rec : String → Ctx → World → Res × World) (a : Nat)
    (hrec : ∀ r c w, (rec r c w).2.calls ≤ w.calls + a) :
    ∀ (rs : List String) g c w, (relLoop rec rs g c w).2.calls ≤ w.calls + rs.length * a
  | [], _, _, w => by
    simp only [relLoop]
    omega
  | r :: rs, g, c, w => by
    simp only [relLoop, List.length_cons, Nat.succ_mul]
    have h1 := hrec r c w
    have h2 := relLoop_calls rec a hrec rs (gAdd g (rec r c w).1) c (rec r c w).2
    omega

theorem ttuRows_calls (rec : VKey → Ctx → World → Res × World) (a : Nat)
    (hrec : ∀ s c w, (rec s c w).2.calls ≤ w.calls + a) :
    ∀ (ts : List Tuple) g c w, (ttuRows rec ts g c w).2.calls ≤ w.calls + ts.length * a
  | [], _, _, w => by
    simp only [ttuRows]
    omega
  | t :: ts, g, c, w => by
    simp only [ttuRows, List.length_cons, Nat.succ_mul]
    split
    · next n o r _ =>
      have h1 := hrec (n, o, r) c w
      have h2 := ttuRows_calls rec a hrec ts (gAdd g (rec (n, o, r) c w).1) c (rec (n, o, r) c w).2
      omega
    · have h2 := ttuRows_calls rec a hrec ts g c w
      omega

/-- Number of rows on the pages. -/
def totalLen : List (List Tuple) → Nat
  | [] => 0
  | p :: ps => p.length + totalLen ps

theorem ttuPages_calls (E : Env) (rec : VKey → Ctx → World → Res × World) (a : Nat)
    (hrec : ∀ s c w, (rec s c w).2.calls ≤ w.calls + a) :
    ∀ (ps : List (List Tuple)) g c w,
      (ttuPages E rec ps g c w).2.calls ≤ w.calls + ps.length + totalLen ps * a
  | [], _, _, w => by
    simp only [ttuPages]
    omega
  | p :: ps, g, c, w => by
    simp only [ttuPages, List.length_cons, totalLen, Nat.add_mul]
    split
    · show w.calls ≤ _
      omega
    · have hc := call_calls E w
      split
      · show (w.call E).2.calls ≤ _
        omega
      · have h1 := ttuRows_calls rec a hrec p none c (w.call E).2
        have h2 := ttuPages_calls E rec a hrec ps (ttuRows rec p none c (w.call E).2).1 c
          (ttuRows rec p none c (w.call E).2).2
        omega

theorem pagesOf_totalLen (ps : Nat) : ∀ (fuel : Nat) (rows : List Tuple), totalLen (pagesOf ps fuel rows) = rows.length
  | 0, rows => by simp only [pagesOf, totalLen]; omega
  | fuel+1, rows => by
    simp only [pagesOf]
    split
    · simp only [totalLen]; omega
    · have := pagesOf_totalLen ps fuel (rows.drop ps)
      simp only [totalLen, this, List.length_take, List.length_drop]
      omega

theorem pagesOf_length (ps : Nat) : ∀ (fuel : Nat) (rows : List Tuple),
    (pagesOf ps fuel rows).length ≤ pagesBound ps rows.length
  | 0, rows => Nat.le_add_left ..
  | fuel+1, rows => by
    simp only [pagesOf]
    split
    · exact Nat.le_add_left ..
    · next h =>
      have ih := pagesOf_length ps fuel (rows.drop ps)
      have hp : 0 < ps := by omega
      have hl : ps ≤ rows.length := by omega
      have e := Nat.div_eq_sub_div hp hl
      simp only [pagesBound, List.length_cons, List.length_drop] at ih ⊢
      omega

theorem pagesBound_mono (ps : Nat) {n n' : Nat} (h : n ≤ n') : pagesBound ps n ≤ pagesBound ps n' :=
  Nat.add_le_add_right (Nat.div_le_div_right h) 1

theorem orRun_calls : ∀ {ths : List Thunk} {m : Nat}, LCost ths m → TCost (orRun ths) m
  | [], _, _, _, w => by
    show w.calls ≤ _
    omega
  | th :: ths, _, ⟨k, m1, hk, ht, hl⟩, c, w => by
    simp only [orRun]
    have h1 := ht c w
    split
    · omega
    · have h2 := orRun_calls hl c (th c w).2
      omega

theorem andLoop_calls : ∀ {ths : List Thunk} {m : Nat}, LCost ths m → TCost (andLoop ths) m
  | [], _, _, _, w => by
    show w.calls ≤ _
    omega
  | th :: ths, _, ⟨k, m1, hk, ht, hl⟩, c, w => by
    simp only [andLoop]
    have h1 := ht c w
    split
    · show (th c w).2.calls ≤ _
      omega
    · have h2 := andLoop_calls hl c (th c w).2
      omega

theorem opRun_calls (op : Op) {ths : List Thunk} {m : Nat} (h : LCost ths m) : TCost (opRun op ths) m := by
  cases op with
  | or => exact orRun_calls h
  | and =>
    intro c w
    show (andRun ths c w).2.calls ≤ _
    unfold andRun
    split
    · show w.calls ≤ _
      omega
    · exact andLoop_calls h c w

theorem buildChildren_calls (f : Child → Ctx → World → Thunk × World) (isAnd : Bool) (K : Child → Nat) :
    ∀ (cs : List Child), (∀ ch, ch ∈ cs → ∀ c w, BCost (f ch c w) w (K ch)) →
      ∀ c w, ∃ cb ct, cb + ct ≤ (cs.map K).sum ∧
        (buildChildren f isAnd cs c w).2.calls ≤ w.calls + cb ∧ LCost (buildChildren f isAnd cs c w).1 ct
  | [], _, _, w => ⟨0, 0, by simp, by simp [buildChildren], trivial⟩
  | ch :: cs, h, c, w => by
    simp only [buildChildren, List.map_cons, List.sum_cons]
    generalize hcw : (if isAnd = true then fresh w else (c, w)) = cw
    have hcalls : cw.2.calls = w.calls := by
      rw [← hcw]
      split
      · exact fresh_calls w
      · rfl
    obtain ⟨cb1, ct1, h1, h2, h3⟩ := h ch (List.mem_cons_self ..) cw.1 cw.2
    obtain ⟨cb2, ct2, h4, h5, h6⟩ := buildChildren_calls f isAnd K cs
      (fun ch' hc' => h ch' (List.mem_cons_of_mem _ hc')) c (f ch cw.1 cw.2).2
    exact ⟨cb1 + cb2, ct1 + ct2, by omega, by omega, ct1, ct2, Nat.le_refl _, h3, h6⟩

/-! ### arithmetic of the weights and of the bound -/

mutual
theorem Child.weight_mono {wc wt wc' wt' : Nat} (wr : Nat) (hc : wc ≤ wc') (ht : wt ≤ wt') :
    ∀ ch, Child.weight wc wt wr ch ≤ Child.weight wc' wt' wr ch
  | .computed _ => by simp only [Child.weight]; exact hc
  | .ttu _ _ => by simp only [Child.weight]; exact ht
  | .rewrite _ cs => by
    simp only [Child.weight]
    exact Nat.add_le_add_left (Child.weightList_mono wr hc ht cs) _
  | .invert c => by
    simp only [Child.weight]
    exact Child.weight_mono wr hc ht c
theorem Child.weightList_mono {wc wt wc' wt' : Nat} (wr : Nat) (hc : wc ≤ wc') (ht : wt ≤ wt') :
    ∀ cs, Child.weightList wc wt wr cs ≤ Child.weightList wc' wt' wr cs
  | [] => Nat.le_refl _
  | c :: cs => by
    simp only [Child.weightList]
    exact Nat.add_le_add (Child.weight_mono wr hc ht c) (Child.weightList_mono wr hc ht cs)
end

mutual
/-- The weight is linear in the three counts. -/
theorem Child.weight_lin (wc wt wr : Nat) : ∀ ch, Child.weight wc wt wr ch =
    Child.weight 1 0 0 ch * wc + Child.weight 0 1 0 ch * wt + Child.weight 0 0 1 ch * wr
  | .computed _ => by simp [Child.weight]
  | .ttu _ _ => by simp [Child.weight]
  | .rewrite _ cs => by
    have := Child.weightList_lin wc wt wr cs
    simp only [Child.weight, Nat.add_mul, Nat.zero_add, Nat.one_mul]
    omega
  | .invert c => by
    simp only [Child.weight]
    exact Child.weight_lin wc wt wr c
theorem Child.weightList_lin (wc wt wr : Nat) : ∀ cs, Child.weightList wc wt wr cs =
    Child.weightList 1 0 0 cs * wc + Child.weightList 0 1 0 cs * wt + Child.weightList 0 0 1 cs * wr
  | [] => by simp [Child.weightList]
  | c :: cs => by
    have h1 := Child.weight_lin wc wt wr c
    have h2 := Child.weightList_lin wc wt wr cs
    simp only [Child.weightList, Nat.add_mul]
    omega
end

theorem sum_map_weight (wc wt wr : Nat) : ∀ cs : List Child,
    (cs.map (Child.weight wc wt wr)).sum = Child.weightList wc wt wr cs
  | [] => rfl
  | c :: cs => by
    simp only [List.map_cons, List.sum_cons, Child.weightList, sum_map_weight wc wt wr cs]

/-- The candidates of the union shortcut and the remaining children share the weight of an `or`. -/
theorem weight_or_split (wc wt wr : Nat) : ∀ cs : List Child,
    (computedRels cs).length * wc + Child.weightList wc wt wr (cs.filter (fun c => !c.isComputed))
      = Child.weightList wc wt wr cs
  | [] => by simp [computedRels, Child.weightList]
  | .computed r :: cs => by
    have := weight_or_split wc wt wr cs
    show ((computedRels cs).length + 1) * wc + Child.weightList wc wt wr (cs.filter (fun c => !c.isComputed))
      = wc + Child.weightList wc wt wr cs
    rw [Nat.succ_mul]
    omega
  | .ttu a b :: cs => by
    have := weight_or_split wc wt wr cs
    show (computedRels cs).length * wc
      + (Child.weight wc wt wr (.ttu a b) + Child.weightList wc wt wr (cs.filter (fun c => !c.isComputed)))
      = Child.weight wc wt wr (.ttu a b) + Child.weightList wc wt wr cs
    omega
  | .rewrite a b :: cs => by
    have := weight_or_split wc wt wr cs
    show (computedRels cs).length * wc
      + (Child.weight wc wt wr (.rewrite a b) + Child.weightList wc wt wr (cs.filter (fun c => !c.isComputed)))
      = Child.weight wc wt wr (.rewrite a b) + Child.weightList wc wt wr cs
    omega
  | .invert a :: cs => by
    have := weight_or_split wc wt wr cs
    show (computedRels cs).length * wc
      + (Child.weight wc wt wr (.invert a) + Child.weightList wc wt wr (cs.filter (fun c => !c.isComputed)))
      = Child.weight wc wt wr (.invert a) + Child.weightList wc wt wr cs
    omega

/-- The rewrite of a relation the lookup finds weighs at most the maximum of the configuration. -/
theorem weight_le_cfg (wc wt wr : Nat) {c : Cfg} {ns rel : String} {R : Relation} {rw : Rewrite}
    (hR : astRelationFor c ns rel = .rel R) (hrw : R.rewrite = some rw) :
    rw.weight wc wt wr ≤ Cfg.maxWeight wc wt wr c := by
  obtain ⟨N, hN, _, hRN, _⟩ := astRelationFor_rel hR
  have h1 : R.weight wc wt wr ≤ N.maxWeight wc wt wr := le_foldr_max (Relation.weight wc wt wr) hRN
  have h2 : N.maxWeight wc wt wr ≤ Cfg.maxWeight wc wt wr c := le_foldr_max (Namespace.maxWeight wc wt wr) hN
  have h3 : R.weight wc wt wr = rw.weight wc wt wr := by
    unfold Relation.weight
    rw [hrw]
  omega

/-- The bound of `E` for `D` levels. -/
def Env.cb (E : Env) (D : Nat) : Nat :=
  callsBound (Cfg.nRw E.cfg) (Cfg.nComp E.cfg) (Cfg.nTtu E.cfg) E.maxWidth E.pageSize E.T.length D

/-- Budget of a tuple-to-subject-set leaf whose checks have `D` levels. -/
def Env.ttuW (E : Env) (D : Nat) : Nat := pagesBound E.pageSize E.T.length + E.T.length * E.cb D

theorem Env.cb_succ (E : Env) (D : Nat) : E.cb (D + 1) =
    2 + Cfg.nRw E.cfg + Cfg.nTtu E.cfg * pagesBound E.pageSize E.T.length
      + (Cfg.nComp E.cfg + Cfg.nTtu E.cfg * E.T.length + min E.maxWidth E.T.length) * E.cb D := rfl

theorem Env.cb_le_succ (E : Env) : ∀ D, E.cb D ≤ E.cb (D + 1)
  | 0 => Nat.zero_le _
  | D+1 => by
    rw [E.cb_succ (D+1), E.cb_succ D]
    exact Nat.add_le_add_left (Nat.mul_le_mul_left _ (Env.cb_le_succ E D)) _

theorem Env.cb_mono (E : Env) {D D' : Nat} (h : D ≤ D') : E.cb D ≤ E.cb D' := by
  induction D' with
  | zero =>
    have : D = 0 := by omega
    subst this
    exact Nat.le_refl _
  | succ m ih =>
    by_cases hm : D ≤ m
    · exact Nat.le_trans (ih hm) (E.cb_le_succ m)
    · have : D = m + 1 := by omega
      subst this
      exact Nat.le_refl _

theorem Env.ttuW_mono (E : Env) {D D' : Nat} (h : D ≤ D') : E.ttuW D ≤ E.ttuW D' :=
  Nat.add_le_add_left (Nat.mul_le_mul_left _ (E.cb_mono h)) _

/-- The walk of a rewrite of the configuration fits in the per-level share of the bound. -/
theorem rewrite_weight_le (E : Env) (D : Nat) {ns rel : String} {R : Relation} {rw : Rewrite}
    (hR : astRelationFor E.cfg ns rel = .rel R) (hrw : R.rewrite = some rw) :
    1 + Child.weightList (E.cb D) (E.ttuW D) 1 rw.children ≤
      Cfg.nRw E.cfg + Cfg.nComp E.cfg * E.cb D + Cfg.nTtu E.cfg * E.ttuW D := by
  have e : 1 + Child.weightList (E.cb D) (E.ttuW D) 1 rw.children = rw.weight (E.cb D) (E.ttuW D) 1 := rfl
  rw [e]
  have hl : rw.weight (E.cb D) (E.ttuW D) 1 =
      rw.weight 1 0 0 * E.cb D + rw.weight 0 1 0 * E.ttuW D + rw.weight 0 0 1 * 1 :=
    Child.weight_lin (E.cb D) (E.ttuW D) 1 _
  have h1 : rw.weight 1 0 0 * E.cb D ≤ Cfg.nComp E.cfg * E.cb D :=
    Nat.mul_le_mul_right _ (weight_le_cfg 1 0 0 hR hrw)
  have h2 : rw.weight 0 1 0 * E.ttuW D ≤ Cfg.nTtu E.cfg * E.ttuW D :=
    Nat.mul_le_mul_right _ (weight_le_cfg 0 1 0 hR hrw)
  have h3 : rw.weight 0 0 1 ≤ Cfg.nRw E.cfg := weight_le_cfg 0 0 1 hR hrw
  omega

/-- One level: the rewrite, the direct lookup, the expansion. -/
theorem Env.cb_level (E : Env) (D : Nat) :
    (Cfg.nRw E.cfg + Cfg.nComp E.cfg * E.cb D + Cfg.nTtu E.cfg * E.ttuW D) + 1
      + (1 + min E.maxWidth E.T.length * E.cb D) ≤ E.cb (D + 1) := by
  rw [E.cb_succ D]
  simp only [Env.ttuW, Nat.add_mul, Nat.mul_add, Nat.mul_assoc]
  omega

/-! ### the steps of `build` -/

/-- Budget of a call: `E.cb` levels for a check; for a rewrite (child), its weight with the budget of
    the checks it starts as the weight of a leaf. -/
def Call.cost (E : Env) : Call → Nat
  | .isAllowed _ d _ => E.cb d.toNat
  | .rewrite _ rw d => 1 + Child.weightList (E.cb (d - 1).toNat) (E.ttuW (d - 1).toNat) 1 rw.children
  | .child _ ch d _ => Child.weight (E.cb (d - 1).toNat) (E.ttuW (d - 1).toNat) 1 ch
  | .invert _ c d => Child.weight (E.cb (d - 1).toNat) (E.ttuW (d - 1).toNat) 1 c

theorem directStep_calls (E : Env) (t : Tuple) (d : Int) (g : Option Res) (w : World) :
    (directStep E t d g w).2.calls ≤ w.calls + 1 := by
  unfold directStep
  split
  · show w.lim.calls ≤ _
    rw [lim_calls]
    omega
  · split
    · show w.calls ≤ _
      omega
    · extract_lets fw
      split
      · show (w.call E).2.calls ≤ _
        rw [call_calls]
        omega
      · show (w.call E).2.calls ≤ _
        rw [call_calls]
        omega

theorem length_subjectSetsOf_le (T : List Tuple) (ns : String) (obj : Nat) (rel : String) :
    (subjectSetsOf T ns obj rel).length ≤ T.length := List.length_filterMap_le _ _

theorem expandRun_calls (E : Env) (rec : Tuple → Ctx → World → Res × World) (a : Nat)
    (hrec : ∀ t c w, (rec t c w).2.calls ≤ w.calls + a) (t : Tuple) (ctx : Ctx) (w : World) :
    (expandRun E rec t ctx w).2.calls ≤ w.calls + (1 + min E.maxWidth E.T.length * a) := by
  unfold expandRun
  extract_lets cw fw sets over w2 sets' gw
  have hfw : fw.2.calls = w.calls + 1 := by
    show (cw.2.call E).2.calls = _
    rw [call_calls]
    show (initVisited ctx w).2.calls + 1 = _
    rw [initVisited_calls]
  split
  · show fw.2.calls ≤ _
    omega
  · split
    · show fw.2.calls ≤ _
      omega
    · show (expandLoop rec t.sub sets' none cw.1 w2).2.calls ≤ _
      have h1 := expandLoop_calls rec t.sub a hrec sets' none cw.1 w2
      have hw2 : w2.calls = fw.2.calls := by
        simp only [w2]
        split
        · exact lim_calls _
        · rfl
      have hlen : sets.length ≤ E.T.length := length_subjectSetsOf_le ..
      have hs : sets'.length ≤ min E.maxWidth E.T.length := by
        simp only [sets', over]
        split
        · rw [List.length_take]
          omega
        · next hov =>
          simp only [decide_eq_true_eq] at hov
          omega
      have h2 : sets'.length * a ≤ min E.maxWidth E.T.length * a := Nat.mul_le_mul_right _ hs
      omega

theorem build_isAllowed_calls (E : Env) (n : Nat) (t : Tuple) (d : Int) (skip : Bool) (ctx : Ctx) (w : World)
    (hrw : ¬ d ≤ 0 → ∀ R rw, astRelationFor E.cfg t.ns t.rel = .rel R → R.rewrite = some rw →
      BCost (build E n (.rewrite t rw d) ctx w) w (Call.cost E (.rewrite t rw d)))
    (hexp : ¬ d ≤ 0 → ∀ t' c w',
      BCost (build E n (.isAllowed t' (d - 1) true) c w') w' (E.cb (d - 1).toNat)) :
    BCost (build E (n+1) (.isAllowed t d skip) ctx w) w (E.cb d.toNat) := by
  rw [build]
  split
  · exact BCost.const _ _ _ (lim_calls w) _
  · next hd =>
    split
    · exact BCost.const _ _ _ rfl _
    · next lk hlk =>
      extract_lets rel? rw? strict gw1 gw2 canSS er gw3
      refine ⟨E.cb d.toNat, 0, Nat.le_refl _, ?_, TCost.const _ 0⟩
      show gw3.2.calls ≤ _
      have e : d.toNat = (d - 1).toNat + 1 := by omega
      have hlev := E.cb_level (d - 1).toNat
      rw [e]
      generalize hD : (d - 1).toNat = D at hlev hexp
      have hrwq : ∀ rw, rw? = some rw →
          BCost (build E n (.rewrite t rw d) ctx w) w
            (Cfg.nRw E.cfg + Cfg.nComp E.cfg * E.cb D + Cfg.nTtu E.cfg * E.ttuW D) := by
        intro rw h
        simp only [rw?, rel?] at h
        split at h
        · next R hR =>
          refine (hrw hd R rw hR h).mono ?_
          simp only [Call.cost, hD]
          exact rewrite_weight_le E D hR h
        · cases h
      clear_value rw? rel?
      have h1 : gw1.2.calls ≤ w.calls + (Cfg.nRw E.cfg + Cfg.nComp E.cfg * E.cb D + Cfg.nTtu E.cfg * E.ttuW D) := by
        simp only [gw1]
        split
        · next rw =>
          have := (hrwq rw rfl).runB ctx
          exact this
        · show w.calls ≤ _
          omega
      have h2 : gw2.2.calls ≤ gw1.2.calls + 1 := by
        simp only [gw2]
        split
        · exact directStep_calls ..
        · omega
      have h3 : gw3.2.calls ≤ gw2.2.calls + (1 + min E.maxWidth E.T.length * E.cb D) := by
        simp only [gw3]
        split
        · split
          · show gw2.2.lim.calls ≤ _
            rw [lim_calls]
            omega
          · split
            · show gw2.2.calls ≤ _
              omega
            · show (er).2.calls ≤ _
              simp only [er]
              refine expandRun_calls E _ (E.cb D) ?_ t ctx gw2.2
              intro t' c w'
              exact (hexp hd t' c w').runB c
        · omega
      omega

theorem build_rewrite_calls (E : Env) (n : Nat) (t : Tuple) (rw : Rewrite) (d : Int) (ctx : Ctx) (w : World)
    (a tw : Nat)
    (hcomp : ¬ d ≤ 0 → ∀ r c w',
      BCost (build E n (.isAllowed { t with rel := r } (d - 1) true) c w') w' a)
    (hch : ¬ d ≤ 0 → ∀ ch c w', BCost (build E n (.child t ch d false) c w') w' (Child.weight a tw 1 ch)) :
    BCost (build E (n+1) (.rewrite t rw d) ctx w) w (1 + Child.weightList a tw 1 rw.children) := by
  rw [build]
  split
  · exact BCost.const _ _ _ (lim_calls w) _
  · next hd =>
    extract_lets isOr comps rest rels sc bw ths
    show BCost (opRun rw.op (sc ++ ths), bw.2) w _
    obtain ⟨cb, ct, hk, hb, hl⟩ := buildChildren_calls
      (fun ch c w' => build E n (Call.child t ch d false) c w') (rw.op == .and) (Child.weight a tw 1) rest
      (fun ch _ c w' => hch hd ch c w') ctx w
    rw [sum_map_weight] at hk
    have hths : LCost ths ct := by
      simp only [ths]
      split
      · exact hl.mapWithFresh
      · exact hl
    have hsc : LCost sc (1 + comps.length * a) := by
      simp only [sc]
      split
      · trivial
      · refine ⟨1 + comps.length * a, 0, Nat.le_refl _, ?_, trivial⟩
        intro c w'
        dsimp only
        split
        · show (w'.call E).2.calls ≤ _
          rw [call_calls]
          omega
        · split
          · show (w'.call E).2.calls ≤ _
            rw [call_calls]
            omega
          · show (relLoop _ comps none c (w'.call E).2).2.calls ≤ _
            have := relLoop_calls
              (fun r c w'' => runB (build E n (.isAllowed { t with rel := r } (d - 1) true) c w'') c) a
              (fun r c w'' => (hcomp hd r c w'').runB c) comps none c (w'.call E).2
            rw [call_calls] at this
            omega
    have hsplit : comps.length * a + Child.weightList a tw 1 rest = Child.weightList a tw 1 rw.children := by
      simp only [comps, rest, isOr]
      split
      · exact weight_or_split a tw 1 rw.children
      · simp
    exact ⟨cb, (1 + comps.length * a) + ct, by omega, hb, opRun_calls rw.op (hsc.append hths)⟩

theorem length_rowsOf_le (T : List Tuple) (ns : String) (obj : Nat) (rel : String) :
    (rowsOf T ns obj rel).length ≤ T.length := List.length_filter_le _ _

theorem build_child_ttu_calls (E : Env) (n : Nat) (t : Tuple) (rel crel : String) (d : Int) (inv : Bool)
    (ctx : Ctx) (w : World) (a : Nat)
    (h : ¬ d < 0 → ∀ t' c w', BCost (build E n (.isAllowed t' (d - 1) false) c w') w' a) :
    BCost (build E (n+1) (.child t (.ttu rel crel) d inv) ctx w) w
      (pagesBound E.pageSize E.T.length + E.T.length * a) := by
  rw [build]
  dsimp only
  split
  · exact BCost.const _ _ _ (lim_calls w) _
  · next hd =>
    refine ⟨0, pagesBound E.pageSize E.T.length + E.T.length * a, by omega, Nat.le_refl _, ?_⟩
    intro c w'
    dsimp only
    have h1 := ttuPages_calls E
      (fun s c w'' => runB (build E n (.isAllowed ⟨s.1, s.2.1, crel, t.sub⟩ (d - 1) false) c w'') c) a
      (fun s c w'' => (h hd _ c w'').runB c)
      (pagesOf E.pageSize (rowsOf E.T t.ns t.obj rel).length (rowsOf E.T t.ns t.obj rel)) none c w'
    rw [pagesOf_totalLen] at h1
    have h2 := pagesOf_length E.pageSize (rowsOf E.T t.ns t.obj rel).length (rowsOf E.T t.ns t.obj rel)
    have h3 := length_rowsOf_le E.T t.ns t.obj rel
    have h4 := pagesBound_mono E.pageSize h3
    have h5 : (rowsOf E.T t.ns t.obj rel).length * a ≤ E.T.length * a := Nat.mul_le_mul_right _ h3
    omega

theorem build_invert_calls (E : Env) (n : Nat) (t : Tuple) (ch : Child) (d : Int) (ctx : Ctx) (w : World) (k : Nat)
    (h : ¬ d < 0 → ∀ c w', BCost (build E n (.child t ch d true) c w') w' k) :
    BCost (build E (n+1) (.invert t ch d) ctx w) w k := by
  rw [build]
  split
  · exact BCost.const _ _ _ (lim_calls w) _
  · next hd =>
    obtain ⟨cb, ct, h1, h2, h3⟩ := h hd (fresh w).1 (fresh w).2
    rw [fresh_calls] at h2
    refine ⟨cb, ct, h1, h2, ?_⟩
    intro c w'
    have := h3 (fresh w').1 (fresh w').2
    rw [fresh_calls] at this
    exact this

/-- The construction of a call and one run of the returned thunk (in any context and world) make
    at most `Call.cost` storage operations together — for every fuel, store and fault oracle. -/
theorem build_calls (E : Env) :
    ∀ (fuel : Nat) (call : Call) (ctx : Ctx) (w : World), BCost (build E fuel call ctx w) w (call.cost E) := by
  intro fuel
  induction fuel with
  | zero =>
    intro call ctx w
    rw [build]
    exact BCost.const _ _ _ rfl _
  | succ n ih =>
    intro call ctx w
    cases call with
    | isAllowed t d skip =>
      exact build_isAllowed_calls E n t d skip ctx w
        (fun _ _ rw _ _ => ih (.rewrite t rw d) ctx w)
        (fun _ t' c w' => ih (.isAllowed t' (d - 1) true) c w')
    | rewrite t rw d =>
      exact build_rewrite_calls E n t rw d ctx w _ _
        (fun _ r c w' => ih (.isAllowed { t with rel := r } (d - 1) true) c w')
        (fun _ ch c w' => ih (.child t ch d false) c w')
    | child t ch d inv =>
      cases ch with
      | ttu rel crel =>
        exact build_child_ttu_calls E n t rel crel d inv ctx w _
          (fun _ t' c w' => ih (.isAllowed t' (d - 1) false) c w')
      | computed rel =>
        rw [build]
        split
        · exact BCost.const _ _ _ (lim_calls w) _
        · exact ih (.isAllowed { t with rel := rel } (d - 1) false) ctx w
      | rewrite op cs =>
        rw [build]
        refine (ih (.rewrite t ⟨op, cs⟩ (if inv then d else d - 1)) ctx w).mono ?_
        have hle : ((if inv = true then d else d - 1) - 1).toNat ≤ (d - 1).toNat := by
          split <;> omega
        simp only [Call.cost, Child.weight]
        exact Nat.add_le_add_left (Child.weightList_mono 1 (E.cb_mono hle) (E.ttuW_mono hle) cs) _
      | invert c =>
        rw [build]
        exact ih (.invert t c d) ctx w
    | invert t c d =>
      exact build_invert_calls E n t c d ctx w _ (fun _ c' w' => ih (.child t c d true) c' w')

/-- A whole check. -/
theorem check_calls (E : Env) (g : Int) (fuel : Nat) (q : Tuple) (r : Int) :
    (check E g fuel q r).2.calls ≤ checkCallsBound E (effDepth r g) := by
  have := (build_calls E fuel (.isAllowed q (effDepth r g) false) {} {}).runB {}
  have e : ({} : World).calls = 0 := rfl
  rw [e, Nat.zero_add] at this
  exact this

/-! ### monotonicity of the bound -/

theorem callsBound_mono {nRw nComp nTtu W N nRw' nComp' nTtu' W' N' : Nat} (P : Nat)
    (h1 : nRw ≤ nRw') (h2 : nComp ≤ nComp') (h3 : nTtu ≤ nTtu') (h4 : W ≤ W') (h5 : N ≤ N') :
    ∀ D, callsBound nRw nComp nTtu W P N D ≤ callsBound nRw' nComp' nTtu' W' P N' D
  | 0 => Nat.le_refl _
  | D+1 => by
    simp only [callsBound]
    have hm : min W N ≤ min W' N' := by omega
    exact Nat.add_le_add
      (Nat.add_le_add (Nat.add_le_add_left h1 _) (Nat.mul_le_mul h3 (pagesBound_mono P h5)))
      (Nat.mul_le_mul (Nat.add_le_add (Nat.add_le_add h2 (Nat.mul_le_mul h3 h5)) hm)
        (callsBound_mono P h1 h2 h3 h4 h5 D))

theorem callsBound_mono_depth (nRw nComp nTtu W P N : Nat) :
    ∀ D, callsBound nRw nComp nTtu W P N D ≤ callsBound nRw nComp nTtu W P N (D + 1)
  | 0 => Nat.zero_le _
  | D+1 => by
    rw [callsBound, callsBound]
    exact Nat.add_le_add_left (Nat.mul_le_mul_left _ (callsBound_mono_depth nRw nComp nTtu W P N D)) _

theorem callsBound_mono_depth_le (nRw nComp nTtu W P N : Nat) {D D' : Nat} (h : D ≤ D') :
    callsBound nRw nComp nTtu W P N D ≤ callsBound nRw nComp nTtu W P N D' := by
  induction D' with
  | zero =>
    have : D = 0 := by omega
    subst this
    exact Nat.le_refl _
  | succ m ih =>
    by_cases hm : D ≤ m
    · exact Nat.le_trans (ih hm) (callsBound_mono_depth nRw nComp nTtu W P N m)
    · have : D = m + 1 := by omega
      subst this
      exact Nat.le_refl _

/-- The request cannot raise the depth above the configured global maximum. -/
theorem effDepth_le (r g : Int) : effDepth r g ≤ g := by
  unfold effDepth
  split <;> omega

end Keto
