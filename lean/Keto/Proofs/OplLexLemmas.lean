/-
  Invariants of the lexer model (Keto/Model/Lexer.lean): positions stay inside the
  input, no panic site fires, fuel suffices, steps and item count are linear.
-/
import Keto.Model.Lexer

namespace Keto.Opl

theorem leadInfo_cases (c : Nat) :
    (leadInfo c).1 = 0 ∨ (leadInfo c).1 = 2 ∨ (leadInfo c).1 = 3 ∨ (leadInfo c).1 = 4 := by
  unfold leadInfo
  repeat' split
  all_goals simp

theorem decodeBytes_width (avail c0 c1 c2 c3 : Nat) (h : 1 ≤ avail) :
    1 ≤ (decodeBytes avail c0 c1 c2 c3).2 ∧ (decodeBytes avail c0 c1 c2 c3).2 ≤ avail := by
  have hl := leadInfo_cases c0
  unfold decodeBytes
  simp only []
  repeat' split
  all_goals (simp only [beq_iff_eq, Nat.not_lt, Nat.not_le] at *; omega)

theorem decodeRune_width (s : Array UInt8) (pos : Nat) (h : pos < s.size) :
    1 ≤ (decodeRune s pos).2 ∧ pos + (decodeRune s pos).2 ≤ s.size := by
  unfold decodeRune
  rw [if_neg (by omega)]
  have := decodeBytes_width (s.size - pos) (byteAt s pos) (byteAt s (pos + 1)) (byteAt s (pos + 2)) (byteAt s (pos + 3)) (by omega)
  omega


/-! ### scanning primitives -/

/-- `l'` differs from `l` only by having scanned forward: same `start`, `items`, `panic`;
    `pos` moved right inside the input; at most `k` steps beyond one per byte. -/
structure Fwd (s : Array UInt8) (k : Nat) (l l' : L) : Prop where
  start : l'.start = l.start
  items : l'.items = l.items
  panic : l'.panic = l.panic
  le : l.pos ≤ l'.pos
  inb : l'.pos ≤ s.size
  steps : l'.steps + l.pos ≤ l.steps + l'.pos + k

theorem Fwd.refl (s : Array UInt8) (l : L) (h : l.pos ≤ s.size) : Fwd s 0 l l :=
  ⟨rfl, rfl, rfl, Nat.le_refl _, h, by omega⟩

theorem Fwd.trans {s : Array UInt8} {a b : Nat} {l1 l2 l3 : L} (h1 : Fwd s a l1 l2) (h2 : Fwd s b l2 l3) :
    Fwd s (a + b) l1 l3 :=
  ⟨h2.start.trans h1.start, h2.items.trans h1.items, h2.panic.trans h1.panic, Nat.le_trans h1.le h2.le, h2.inb,
    by have := h1.steps; have := h2.steps; omega⟩

theorem Fwd.mono {s : Array UInt8} {a b : Nat} {l1 l2 : L} (h : Fwd s a l1 l2) (hab : a ≤ b) : Fwd s b l1 l2 :=
  ⟨h.start, h.items, h.panic, h.le, h.inb, by have := h.steps; omega⟩

theorem next_eof (s : Array UInt8) (l : L) (h : s.size ≤ l.pos) :
    next s l = (none, { l with width := 0, steps := l.steps + 1 }) := by
  simp [next, h]

theorem next_some (s : Array UInt8) (l : L) (h : l.pos < s.size) :
    next s l = (some (decodeRune s l.pos).1,
      { l with pos := l.pos + (decodeRune s l.pos).2, width := (decodeRune s l.pos).2, steps := l.steps + 1 }) := by
  have : ¬ s.size ≤ l.pos := by omega
  simp [next, this]

theorem next_fwd (s : Array UInt8) (l : L) (h : l.pos ≤ s.size) :
    Fwd s 1 l (next s l).2 ∧ ((next s l).1 ≠ none → Fwd s 0 l (next s l).2) ∧
    (next s l).2.width = (next s l).2.pos - l.pos ∧
    ((next s l).1 = none ↔ s.size ≤ l.pos) ∧ ((next s l).1 ≠ none → l.pos < (next s l).2.pos) ∧
    (next s l).2.steps = l.steps + 1 := by
  by_cases hp : s.size ≤ l.pos
  · rw [next_eof s l hp]
    refine ⟨⟨rfl, rfl, rfl, Nat.le_refl _, h, ?_⟩, ?_, ?_, ?_, ?_, rfl⟩
    · show l.steps + 1 + l.pos ≤ l.steps + l.pos + 1
      omega
    · simp
    · show 0 = l.pos - l.pos
      omega
    · simp [hp]
    · simp
  · have hw := decodeRune_width s l.pos (by omega)
    rw [next_some s l (by omega)]
    have h0 : Fwd s 0 l { l with pos := l.pos + (decodeRune s l.pos).2, width := (decodeRune s l.pos).2, steps := l.steps + 1 } := by
      refine ⟨rfl, rfl, rfl, ?_, ?_, ?_⟩
      · show l.pos ≤ l.pos + (decodeRune s l.pos).2
        omega
      · show l.pos + (decodeRune s l.pos).2 ≤ s.size
        omega
      · show l.steps + 1 + l.pos ≤ l.steps + (l.pos + (decodeRune s l.pos).2) + 0
        omega
    refine ⟨h0.mono (by omega), fun _ => h0, ?_, ?_, ?_, rfl⟩
    · show (decodeRune s l.pos).2 = l.pos + (decodeRune s l.pos).2 - l.pos
      omega
    · simp [hp]
    · intro _
      show l.pos < l.pos + (decodeRune s l.pos).2
      omega

/-- `next` then `backup`: only `width` and `steps` change. -/
theorem backup_next (s : Array UInt8) (l : L) (h : l.pos ≤ s.size) :
    (backup (next s l).2).pos = l.pos ∧ (backup (next s l).2).start = l.start ∧
    (backup (next s l).2).items = l.items ∧ (backup (next s l).2).panic = l.panic ∧
    (backup (next s l).2).steps = l.steps + 1 := by
  obtain ⟨hf, _, hw, _, _, hs⟩ := next_fwd s l h
  have hle := hf.le
  have : (next s l).2.width ≤ (next s l).2.pos := by rw [hw]; omega
  unfold backup
  rw [if_pos this]
  refine ⟨?_, hf.start, hf.items, hf.panic, hs⟩
  show (next s l).2.pos - (next s l).2.width = l.pos
  rw [hw]
  omega

theorem peek_eq (s : Array UInt8) (l : L) : peek s l = ((next s l).1, backup (next s l).2) := rfl

theorem peek_spec (s : Array UInt8) (l : L) (h : l.pos ≤ s.size) :
    Fwd s 1 l (peek s l).2 ∧ (peek s l).2.pos = l.pos ∧ ((peek s l).1 = none ↔ s.size ≤ l.pos) := by
  have hb := backup_next s l h
  have hn := next_fwd s l h
  rw [peek_eq]
  refine ⟨⟨hb.2.1, hb.2.2.1, hb.2.2.2.1, ?_, ?_, ?_⟩, hb.1, hn.2.2.2.1⟩
  · show l.pos ≤ (backup (next s l).2).pos
    omega
  · show (backup (next s l).2).pos ≤ s.size
    omega
  · show (backup (next s l).2).steps + l.pos ≤ l.steps + (backup (next s l).2).pos + 1
    omega

theorem accept_spec (s : Array UInt8) (valid : Nat → Bool) (l : L) (h : l.pos ≤ s.size) :
    Fwd s 1 l (accept s valid l).2 ∧ ((accept s valid l).1 = true → l.pos < (accept s valid l).2.pos) := by
  have hb := backup_next s l h
  have hn := next_fwd s l h
  unfold accept
  by_cases hc : inClass valid (next s l).1 = true
  · simp only [if_pos hc]
    have hne : (next s l).1 ≠ none := by
      intro hnone
      rw [hnone] at hc
      simp [inClass] at hc
    exact ⟨hn.1, fun _ => hn.2.2.2.2.1 hne⟩
  · simp only [if_neg hc]
    refine ⟨⟨hb.2.1, hb.2.2.1, hb.2.2.2.1, ?_, ?_, ?_⟩, by simp⟩
    · show l.pos ≤ (backup (next s l).2).pos
      omega
    · show (backup (next s l).2).pos ≤ s.size
      omega
    · show (backup (next s l).2).steps + l.pos ≤ l.steps + (backup (next s l).2).pos + 1
      omega

theorem acceptRun_spec (s : Array UInt8) (valid : Nat → Bool) :
    ∀ (n : Nat) (l : L), l.pos ≤ s.size → s.size - l.pos < n → Fwd s 1 l (acceptRun s valid n l)
  | 0, l, _, hn => by omega
  | n+1, l, h, hn => by
    have hb := backup_next s l h
    have hx := next_fwd s l h
    unfold acceptRun
    by_cases hc : inClass valid (next s l).1 = true
    · simp only [if_pos hc]
      have hne : (next s l).1 ≠ none := by
        intro hnone
        rw [hnone] at hc
        simp [inClass] at hc
      have hlt := hx.2.2.2.2.1 hne
      have hin := hx.1.inb
      have ih := acceptRun_spec s valid n (next s l).2 hx.1.inb (by omega)
      have := (hx.2.1 hne).trans ih
      exact this.mono (by omega)
    · simp only [if_neg hc]
      refine ⟨hb.2.1, hb.2.2.1, hb.2.2.2.1, ?_, ?_, ?_⟩
      · show l.pos ≤ (backup (next s l).2).pos
        omega
      · show (backup (next s l).2).pos ≤ s.size
        omega
      · show (backup (next s l).2).steps + l.pos ≤ l.steps + (backup (next s l).2).pos + 1
        omega


/-! ### state functions -/

def itemOk (s : Array UInt8) (i : Item) : Prop := i.start ≤ i.stop ∧ i.stop ≤ s.size

structure Good (s : Array UInt8) (l : L) : Prop where
  sp : l.start ≤ l.pos
  ps : l.pos ≤ s.size
  np : l.panic = false
  items : ∀ i ∈ l.items, itemOk s i
  cnt : l.items.length ≤ l.start

def wt : StateFn → Nat
  | .code => 1 | .lineComment => 2 | .blockComment => 2 | .stringLiteral => 0

/-- Decreases with every state-function call. -/
def mu (s : Array UInt8) (fn : StateFn) (l : L) : Nat := 3 * (s.size - l.pos) + wt fn

def Entry (fn : StateFn) (l : L) : Prop :=
  match fn with
  | .lineComment => l.start < l.pos
  | .blockComment => l.start < l.pos
  | _ => True

/-- What a state-function call started at `l` achieved: `m` bounds the measure of the
    next state, `k` the steps beyond one per consumed byte. -/
structure Res (s : Array UInt8) (l : L) (m k : Nat) (res : Option StateFn × L) : Prop where
  np : res.2.panic = false
  items : ∀ i ∈ res.2.items, itemOk s i
  steps : res.2.steps + l.pos ≤ l.steps + res.2.pos + k
  le : l.pos ≤ res.2.pos
  inb : res.2.pos ≤ s.size
  cont : ∀ fn', res.1 = some fn' → Good s res.2 ∧ Entry fn' res.2 ∧ mu s fn' res.2 < m
  stop : res.1 = none → res.2.items.length ≤ s.size + 1

theorem emit_eq (s : Array UInt8) (t : ItemType) (l : L) (h1 : l.start ≤ l.pos) (h2 : l.pos ≤ s.size) :
    emit s t l = { l with items := ⟨t, (s.extract l.start l.pos).toList, l.start, l.pos, .none⟩ :: l.items,
                          start := l.pos } := by
  simp [emit, h1, h2]

theorem errorf_eq (s : Array UInt8) (e : LexErr) (l : L) (h2 : l.pos ≤ s.size) :
    errorf s e l = { l with items := ⟨.error, [], l.start, l.pos, e⟩ :: l.items } := by
  simp [errorf, h2]

/-- Emitting after scanning forward from a good state, past its `start`. -/
theorem emit_res {s : Array UInt8} {l l1 : L} {k m : Nat} (t : ItemType) (hg : Good s l) (hf : Fwd s k l l1)
    (hlt : l.start < l1.pos) (hm : 3 * (s.size - l1.pos) + 1 < m) : Res s l m k (some .code, emit s t l1) := by
  have h1 : l1.start ≤ l1.pos := by rw [hf.start]; omega
  rw [emit_eq s t l1 h1 hf.inb]
  have hsp := hg.sp; have hcnt := hg.cnt; have hle := hf.le; have hinb := hf.inb; have hst := hf.steps
  have hitems : ∀ i ∈ (⟨t, (s.extract l1.start l1.pos).toList, l1.start, l1.pos, .none⟩ :: l1.items : List Item), itemOk s i := by
    intro i hi
    cases hi with
    | head => exact ⟨h1, hf.inb⟩
    | tail _ h => rw [hf.items] at h; exact hg.items i h
  refine ⟨by show l1.panic = false; rw [hf.panic]; exact hg.np, hitems, hst, hle, hinb, ?_, by simp⟩
  intro fn' hfn
  have : fn' = .code := by simpa using hfn.symm
  subst this
  refine ⟨⟨Nat.le_refl _, hinb, by show l1.panic = false; rw [hf.panic]; exact hg.np, hitems, ?_⟩, trivial, ?_⟩
  · show (l1.items.length + 1) ≤ l1.pos
    rw [hf.items]; omega
  · show 3 * (s.size - l1.pos) + 1 < m
    omega

/-- A terminal item (EOF or error) after scanning forward from a good state. -/
theorem last_res {s : Array UInt8} {l l1 l2 : L} {k m : Nat} (hg : Good s l) (hf : Fwd s k l l1) (it : Item)
    (hit : itemOk s it) (hi : l2.items = it :: l1.items) (hp : l2.panic = l1.panic) (hpos : l2.pos = l1.pos)
    (hst : l2.steps = l1.steps) : Res s l m k (none, l2) := by
  have hcnt := hg.cnt; have hsp := hg.sp; have hps := hg.ps
  refine ⟨by show l2.panic = false; rw [hp, hf.panic]; exact hg.np, ?_, ?_, ?_, ?_, by simp, ?_⟩
  · intro i hi'
    show itemOk s i
    have : i ∈ it :: l1.items := by
      have h' : i ∈ l2.items := hi'
      rw [hi] at h'; exact h'
    cases this with
    | head => exact hit
    | tail _ h => rw [hf.items] at h; exact hg.items i h
  · show l2.steps + l.pos ≤ l.steps + l2.pos + k
    rw [hst, hpos]; exact hf.steps
  · show l.pos ≤ l2.pos
    rw [hpos]; exact hf.le
  · show l2.pos ≤ s.size
    rw [hpos]; exact hf.inb
  · intro _
    show l2.items.length ≤ s.size + 1
    rw [hi, List.length_cons, hf.items]; omega

theorem Res.rebase {s : Array UInt8} {l l3 : L} {m k j : Nat} {res : Option StateFn × L} (h : Res s l3 m k res)
    (hpos : l.pos ≤ l3.pos) (hst : l3.steps + l.pos ≤ l.steps + l3.pos + j) : Res s l m (k + j) res :=
  ⟨h.np, h.items, by have := h.steps; have := h.le; omega, Nat.le_trans hpos h.le, h.inb, h.cont, h.stop⟩

theorem hasPrefixAt_len (s : Array UInt8) :
    ∀ (bs : List UInt8) (b : UInt8) (i : Nat), hasPrefixAt s i (b :: bs) = true → i + (bs.length + 1) ≤ s.size
  | [], b, i, h => by
    simp only [hasPrefixAt, Bool.and_true, beq_iff_eq] at h
    have : i < s.size := by
      by_cases hi : i < s.size
      · exact hi
      · rw [Array.getElem?_eq_none (by omega)] at h; cases h
    simp; omega
  | c :: bs, b, i, h => by
    have h' : (s[i]? == some b) = true ∧ hasPrefixAt s (i + 1) (c :: bs) = true := by
      simpa [hasPrefixAt] using h
    have ih := hasPrefixAt_len s bs c (i + 1) h'.2
    simp only [List.length_cons] at *
    omega


theorem Res.mono {s : Array UInt8} {l : L} {m k m' k' : Nat} {res : Option StateFn × L} (h : Res s l m k res)
    (hm : m ≤ m') (hk : k ≤ k') : Res s l m' k' res :=
  ⟨h.np, h.items, by have := h.steps; omega, h.le, h.inb,
    fun fn' hfn => ⟨(h.cont fn' hfn).1, (h.cont fn' hfn).2.1, by have := (h.cont fn' hfn).2.2; omega⟩, h.stop⟩

theorem adv2 (s : Array UInt8) (l : L) (h : l.pos + 2 ≤ s.size) : Fwd s 0 l { l with pos := l.pos + 2 } := by
  refine ⟨rfl, rfl, rfl, ?_, ?_, ?_⟩
  · show l.pos ≤ l.pos + 2
    omega
  · show l.pos + 2 ≤ s.size
    omega
  · show l.steps + l.pos ≤ l.steps + (l.pos + 2) + 0
    omega

theorem comment_res (s : Array UInt8) (l : L) (fn : StateFn) (hfn : fn = .lineComment ∨ fn = .blockComment)
    (hg : Good s l) (h : l.pos + 2 ≤ s.size) :
    Res s l (3 * (s.size - l.pos) + 1) 0 (some fn, { l with pos := l.pos + 2 }) := by
  have hsp := hg.sp
  refine ⟨hg.np, hg.items, ?_, ?_, ?_, ?_, by simp⟩
  · show l.steps + l.pos ≤ l.steps + (l.pos + 2) + 0
    omega
  · show l.pos ≤ l.pos + 2
    omega
  · show l.pos + 2 ≤ s.size
    omega
  · intro fn' h'
    have : fn' = fn := by simpa using h'.symm
    subst this
    refine ⟨⟨?_, ?_, hg.np, hg.items, hg.cnt⟩, ?_, ?_⟩
    · show l.start ≤ l.pos + 2
      omega
    · show l.pos + 2 ≤ s.size
      omega
    · rcases hfn with rfl | rfl
      · show l.start < l.pos + 2
        omega
      · show l.start < l.pos + 2
        omega
    · rcases hfn with rfl | rfl
      · show 3 * (s.size - (l.pos + 2)) + 2 < 3 * (s.size - l.pos) + 1
        omega
      · show 3 * (s.size - (l.pos + 2)) + 2 < 3 * (s.size - l.pos) + 1
        omega

theorem lexCodeTok_res (s : Array UInt8) (r : Nat) (l : L) (hg : Good s l) (hlt : l.pos < s.size) :
    Res s l (3 * (s.size - l.pos) + 1) 2 (lexCodeTok s r l) := by
  unfold lexCodeTok
  have hps := hg.ps
  have hsp := hg.sp
  split
  · omega
  split
  · rename_i h
    have hl := hasPrefixAt_len s _ _ _ h
    simp only [List.length_cons, List.length_nil] at hl
    exact (emit_res _ hg (adv2 s l (by omega)) (by show l.start < l.pos + 2; omega) (by show 3 * (s.size - (l.pos + 2)) + 1 < _; omega)).mono (Nat.le_refl _) (by omega)
  split
  · rename_i h
    have hl := hasPrefixAt_len s _ _ _ h
    simp only [List.length_cons, List.length_nil] at hl
    exact (emit_res _ hg (adv2 s l (by omega)) (by show l.start < l.pos + 2; omega) (by show 3 * (s.size - (l.pos + 2)) + 1 < _; omega)).mono (Nat.le_refl _) (by omega)
  split
  · rename_i h
    have hl := hasPrefixAt_len s _ _ _ h
    simp only [List.length_cons, List.length_nil] at hl
    exact (emit_res _ hg (adv2 s l (by omega)) (by show l.start < l.pos + 2; omega) (by show 3 * (s.size - (l.pos + 2)) + 1 < _; omega)).mono (Nat.le_refl _) (by omega)
  split
  · rename_i h
    have hl := hasPrefixAt_len s _ _ _ h
    simp only [List.length_cons, List.length_nil] at hl
    exact (comment_res s l _ (Or.inl rfl) hg (by omega)).mono (Nat.le_refl _) (by omega)
  split
  · rename_i h
    have hl := hasPrefixAt_len s _ _ _ h
    simp only [List.length_cons, List.length_nil] at hl
    exact (comment_res s l _ (Or.inr rfl) hg (by omega)).mono (Nat.le_refl _) (by omega)
  split
  · -- one-rune token
    have hn := next_fwd s l hps
    have hne : (next s l).1 ≠ none := by
      intro h0
      have := hn.2.2.2.1.mp h0
      omega
    have hadv := hn.2.2.2.2.1 hne
    have hinb := hn.1.inb
    exact (emit_res _ hg (hn.2.1 hne) (by omega) (by omega)).mono (Nat.le_refl _) (by omega)
  · split
    · -- string literal
      refine ⟨hg.np, hg.items, by show l.steps + l.pos ≤ l.steps + l.pos + 2; omega, Nat.le_refl _, hps, ?_, by simp⟩
      intro fn' h'
      have : fn' = .stringLiteral := by simpa using h'.symm
      subst this
      exact ⟨hg, trivial, by show 3 * (s.size - l.pos) + 0 < 3 * (s.size - l.pos) + 1; omega⟩
    · -- identifier / keyword / error
      have ha := accept_spec s isLetter l hps
      unfold scanIdentifier
      by_cases hacc : (accept s isLetter l).1 = true
      · simp only [hacc, ↓reduceIte]
        have hadv := ha.2 hacc
        have hr := acceptRun_spec s isLetterOrDigit (s.size + 1) (accept s isLetter l).2 ha.1.inb (by omega)
        have hf := ha.1.trans hr
        have hle2 := hr.le
        have hstart : (acceptRun s isLetterOrDigit (s.size + 1) (accept s isLetter l).2).start ≤
            (acceptRun s isLetterOrDigit (s.size + 1) (accept s isLetter l).2).pos := by
          rw [hf.start]; have := hf.le; omega
        rw [if_pos ⟨hstart, hf.inb⟩]
        have hinb := hf.inb
        split
        · exact emit_res _ hg hf (by omega) (by omega)
        · exact emit_res _ hg hf (by omega) (by omega)
      · have hfalse : (accept s isLetter l).1 = false := by simpa using hacc
        simp only [hfalse, Bool.false_eq_true, ↓reduceIte]
        have hstart : (accept s isLetter l).2.start ≤ (accept s isLetter l).2.pos := by
          rw [ha.1.start]; have := ha.1.le; omega
        rw [errorf_eq s _ _ ha.1.inb]
        refine Res.mono (k := 1) ?_ (Nat.le_refl _) (by omega)
        exact last_res hg ha.1 _ ⟨hstart, ha.1.inb⟩ rfl rfl rfl rfl


theorem lexCode_res (s : Array UInt8) (l : L) (hg : Good s l) :
    Res s l (3 * (s.size - l.pos) + 1) 4 (lexCode s l) := by
  have hr := acceptRun_spec s isSpace (s.size + 1) l hg.ps (by omega)
  have hsp := hg.sp; have hcnt := hg.cnt
  have hle := hr.le; have hinb := hr.inb; have hst := hr.steps
  -- the state after `ignore`
  have hg2 : Good s (ignore (acceptRun s isSpace (s.size + 1) l)) := by
    refine ⟨Nat.le_refl _, hinb, ?_, ?_, ?_⟩
    · show (acceptRun s isSpace (s.size + 1) l).panic = false
      rw [hr.panic]; exact hg.np
    · show ∀ i ∈ (acceptRun s isSpace (s.size + 1) l).items, itemOk s i
      rw [hr.items]; exact hg.items
    · show (acceptRun s isSpace (s.size + 1) l).items.length ≤ (acceptRun s isSpace (s.size + 1) l).pos
      rw [hr.items]; omega
  have hpk := peek_spec s (ignore (acceptRun s isSpace (s.size + 1) l)) hinb
  obtain ⟨hpf, hppos, hpnone⟩ := hpk
  have hpos2 : (ignore (acceptRun s isSpace (s.size + 1) l)).pos = (acceptRun s isSpace (s.size + 1) l).pos := rfl
  have hsteps2 : (ignore (acceptRun s isSpace (s.size + 1) l)).steps = (acceptRun s isSpace (s.size + 1) l).steps := rfl
  have hg3 : Good s (peek s (ignore (acceptRun s isSpace (s.size + 1) l))).2 := by
    refine ⟨?_, ?_, ?_, ?_, ?_⟩
    · rw [hpf.start, hppos]; exact hg2.sp
    · rw [hppos]; exact hg2.ps
    · rw [hpf.panic]; exact hg2.np
    · rw [hpf.items]; exact hg2.items
    · rw [hpf.items, hpf.start]; exact hg2.cnt
  have hpst := hpf.steps
  unfold lexCode
  simp only []
  generalize (peek s (ignore (acceptRun s isSpace (s.size + 1) l))).2 = l3 at *
  generalize (peek s (ignore (acceptRun s isSpace (s.size + 1) l))).1 = pk1 at *
  have hpos3 : l.pos ≤ l3.pos := by omega
  have hst3 : l3.steps + l.pos ≤ l.steps + l3.pos + 2 := by omega
  cases pk1 with
  | none =>
    simp only []
    rw [emit_eq s _ _ hg3.sp hg3.ps]
    refine Res.mono (k := 0 + 2) ?_ (Nat.le_refl _) (by omega)
    refine Res.rebase (l3 := l3) ?_ hpos3 hst3
    exact last_res hg3 (Fwd.refl s l3 hg3.ps) _ ⟨hg3.sp, hg3.ps⟩ rfl rfl rfl rfl
  | some r =>
    simp only []
    have hlt : l3.pos < s.size := by
      rw [hppos]
      by_cases hc : s.size ≤ (ignore (acceptRun s isSpace (s.size + 1) l)).pos
      · have := hpnone.mpr hc
        cases this
      · omega
    have hres := lexCodeTok_res s r l3 hg3 hlt
    have h3 : 3 * (s.size - l3.pos) + 1 ≤ 3 * (s.size - l.pos) + 1 := by omega
    exact (hres.rebase (j := 2) hpos3 hst3).mono h3 (by omega)

theorem lineCommentLoop_res (s : Array UInt8) (l0 : L) (hg : Good s l0) (he : l0.start < l0.pos) :
    ∀ (n : Nat) (l : L), Fwd s 0 l0 l → s.size - l.pos < n →
      Res s l0 (3 * (s.size - l0.pos) + 2) 1 (lineCommentLoop s n l)
  | 0, l, _, hn => by omega
  | n+1, l, hf, hn => by
    have hx := next_fwd s l hf.inb
    have hb := backup_next s l hf.inb
    have hle := hf.le; have hinb := hf.inb; have hst := hf.steps
    -- the terminal branch: backup, emit
    have hterm : Res s l0 (3 * (s.size - l0.pos) + 2) 1 (some .code, emit s .comment (backup (next s l).2)) := by
      have hfb : Fwd s 1 l0 (backup (next s l).2) := by
        refine ⟨hb.2.1.trans hf.start, hb.2.2.1.trans hf.items, hb.2.2.2.1.trans hf.panic, ?_, ?_, ?_⟩
        · rw [hb.1]; exact hle
        · rw [hb.1]; exact hinb
        · rw [hb.1, hb.2.2.2.2]; omega
      exact emit_res _ hg hfb (by rw [hb.1]; omega) (by rw [hb.1]; omega)
    unfold lineCommentLoop
    simp only []
    split
    · exact hterm
    · rename_i c hc
      split
      · exact hterm
      · have hne : (next s l).1 ≠ none := by rw [hc]; simp
        have hadv := hx.2.2.2.2.1 hne
        have hin2 := hx.1.inb
        exact lineCommentLoop_res s l0 hg he n (next s l).2 (by simpa using hf.trans (hx.2.1 hne)) (by omega)

theorem blockCommentLoop_res (s : Array UInt8) (l0 : L) (hg : Good s l0) (he : l0.start < l0.pos) :
    ∀ (n : Nat) (r : Option Nat) (l : L) (k : Nat), Fwd s k l0 l → (s.size - l.pos) + (if r.isSome then 1 else 0) < n →
      Res s l0 (3 * (s.size - l0.pos) + 2) (k + (if r.isSome then 1 else 0)) (blockCommentLoop s n r l)
  | 0, r, l, k, _, hn => by omega
  | n+1, r, l, k, hf, hn => by
    have hle := hf.le; have hinb := hf.inb; have hst := hf.steps
    have hsp := hg.sp
    unfold blockCommentLoop
    cases r with
    | none =>
      simp only []
      rw [errorf_eq s _ _ hinb]
      refine Res.mono (k := k) ?_ (Nat.le_refl _) (by simp)
      exact last_res hg hf _ ⟨by show l.start ≤ l.pos; rw [hf.start]; omega, hinb⟩ rfl rfl rfl rfl
    | some c =>
      simp only [Option.isSome_some, if_true] at hn ⊢
      split
      · omega
      split
      · rename_i hpre
        have hl := hasPrefixAt_len s _ _ _ hpre
        simp only [List.length_cons, List.length_nil] at hl
        have hf2 := hf.trans (adv2 s l (by omega))
        exact (emit_res _ hg hf2 (by show l0.start < l.pos + 2; omega) (by show 3 * (s.size - (l.pos + 2)) + 1 < _; omega)).mono
          (Nat.le_refl _) (by omega)
      · have hx := next_fwd s l hinb
        by_cases hnone : (next s l).1 = none
        · have hres := blockCommentLoop_res s l0 hg he n (next s l).1 (next s l).2 (k + 1) (hf.trans hx.1)
            (by rw [hnone]; have := hx.1.le; simp; omega)
          rw [hnone] at hres ⊢
          simpa using hres
        · have hadv := hx.2.2.2.2.1 hnone
          have hin2 := hx.1.inb
          have hsome : (next s l).1.isSome = true := by
            cases h : (next s l).1 with
            | none => exact absurd h hnone
            | some _ => rfl
          have hres := blockCommentLoop_res s l0 hg he n (next s l).1 (next s l).2 (k + 0) (hf.trans (hx.2.1 hnone))
            (by rw [hsome]; simp; omega)
          rw [hsome] at hres
          simpa using hres


theorem stringLoop_res (s : Array UInt8) (q : Option Nat) (l0 : L) (m : Nat) (hg : Good s l0)
    (hq : q ≠ none → l0.items.length < l0.start) (hm : 3 * (s.size - l0.pos) ≤ m) :
    ∀ (n : Nat) (l : L) (k : Nat), Fwd s k l0 l → s.size - l.pos < n → Res s l0 m (k + 1) (stringLoop s q n l)
  | 0, l, k, _, hn => by omega
  | n+1, l, k, hf, hn => by
    have hle := hf.le; have hinb := hf.inb; have hst := hf.steps
    have hsp := hg.sp; have hps := hg.ps
    have hx := next_fwd s l hinb
    have hb := backup_next s l hinb
    unfold stringLoop
    simp only []
    split
    · -- EOF: unclosed string literal
      rename_i hnone
      have hf2 := hf.trans hx.1
      rw [errorf_eq s _ _ hf2.inb]
      exact last_res hg hf2 _ ⟨by show (next s l).2.start ≤ (next s l).2.pos; rw [hf2.start]; have := hf2.le; omega, hf2.inb⟩
        rfl rfl rfl rfl
    · rename_i c hc
      have hne : (next s l).1 ≠ none := by rw [hc]; simp
      have hadv := hx.2.2.2.2.1 hne
      have hin2 := hx.1.inb
      split
      · -- closing quote
        rename_i hcq
        have hqne : q ≠ none := by
          intro h0
          rw [h0] at hcq
          simp at hcq
        have hcnt := hq hqne
        generalize hlb : backup (next s l).2 = lb at *
        obtain ⟨hbpos, hbstart, hbitems, hbpanic, hbsteps⟩ := hb
        have hlbsp : lb.start ≤ lb.pos := by rw [hbstart, hbpos, hf.start]; omega
        have hlbps : lb.pos ≤ s.size := by rw [hbpos]; exact hinb
        rw [emit_eq s _ _ hlbsp hlbps]
        obtain ⟨le, hle'⟩ : ∃ le : L, { lb with items := (⟨.stringLiteral, (s.extract lb.start lb.pos).toList, lb.start, lb.pos, .none⟩ : Item) :: lb.items, start := lb.pos } = le := ⟨_, rfl⟩
        rw [hle']
        have hle_pos : le.pos = l.pos := by rw [← hle']; exact hbpos
        have hle_items : le.items = ⟨.stringLiteral, (s.extract lb.start lb.pos).toList, lb.start, lb.pos, .none⟩ :: l0.items := by
          rw [← hle']; show _ :: lb.items = _; rw [hbitems, hf.items]
        have hle_panic : le.panic = false := by rw [← hle']; show lb.panic = false; rw [hbpanic, hf.panic]; exact hg.np
        have hle_steps : le.steps = l.steps + 1 := by rw [← hle']; exact hbsteps
        have hy := next_fwd s le (by rw [hle_pos]; exact hinb)
        have hyne : (next s le).1 ≠ none := by
          intro h0
          have := hy.2.2.2.1.mp h0
          rw [hle_pos] at this
          omega
        have hf3 := hy.2.1 hyne
        have hadv3 := hy.2.2.2.2.1 hyne
        have h3le := hf3.le; have h3inb := hf3.inb; have h3st := hf3.steps
        have hitems : ∀ i ∈ (next s le).2.items, itemOk s i := by
          rw [hf3.items, hle_items]
          intro i hi
          cases hi with
          | head => exact ⟨hlbsp, hlbps⟩
          | tail _ h => exact hg.items i h
        have hnp : (next s le).2.panic = false := by rw [hf3.panic]; exact hle_panic
        refine ⟨hnp, hitems, ?_, ?_, h3inb, ?_, by simp⟩
        · show (next s le).2.steps + l0.pos ≤ l0.steps + (next s le).2.pos + (k + 1)
          omega
        · show l0.pos ≤ (next s le).2.pos
          omega
        · intro fn' hfn
          have : fn' = .code := by simpa using hfn.symm
          subst this
          refine ⟨⟨Nat.le_refl _, h3inb, hnp, hitems, ?_⟩, trivial, ?_⟩
          · show (next s le).2.items.length ≤ (next s le).2.pos
            rw [hf3.items, hle_items, List.length_cons]
            omega
          · show 3 * (s.size - (next s le).2.pos) + 1 < m
            omega
      · exact stringLoop_res s q l0 m hg hq hm n (next s l).2 k (by simpa using hf.trans (hx.2.1 hne)) (by omega)

theorem Good.tick {s : Array UInt8} {l : L} (h : Good s l) : Good s { l with steps := l.steps + 1 } :=
  ⟨h.sp, h.ps, h.np, h.items, h.cnt⟩

theorem stepFn_res (s : Array UInt8) (fn : StateFn) (l : L) (hg : Good s l) (he : Entry fn l) :
    Res s l (mu s fn l) 4 (stepFn s fn l) := by
  have hps := hg.ps; have hsp := hg.sp; have hcnt := hg.cnt
  cases fn with
  | code => exact lexCode_res s l hg
  | lineComment =>
    exact (lineCommentLoop_res s l hg he (s.size + 1) l (Fwd.refl s l hps) (by omega)).mono (Nat.le_refl _) (by omega)
  | blockComment =>
    have hpk := peek_spec s l hps
    have hres := blockCommentLoop_res s l hg he (s.size + 2) (peek s l).1 (peek s l).2 1 hpk.1
      (by rw [hpk.2.1]; split <;> omega)
    refine Res.mono hres (Nat.le_refl _) ?_
    split <;> omega
  | stringLiteral =>
    have hx := next_fwd s l hps
    have hle := hx.1.le; have hinb := hx.1.inb; have hst := hx.1.steps
    have hg0 : Good s (ignore (next s l).2) := by
      refine ⟨Nat.le_refl _, hinb, ?_, ?_, ?_⟩
      · show (next s l).2.panic = false
        rw [hx.1.panic]; exact hg.np
      · show ∀ i ∈ (next s l).2.items, itemOk s i
        rw [hx.1.items]; exact hg.items
      · show (next s l).2.items.length ≤ (next s l).2.pos
        rw [hx.1.items]; omega
    have hq : (next s l).1 ≠ none → (ignore (next s l).2).items.length < (ignore (next s l).2).start := by
      intro hne
      have hadv := hx.2.2.2.2.1 hne
      show (next s l).2.items.length < (next s l).2.pos
      rw [hx.1.items]; omega
    have hres := stringLoop_res s (next s l).1 (ignore (next s l).2) (mu s .stringLiteral l) hg0 hq
      (by show 3 * (s.size - (next s l).2.pos) ≤ 3 * (s.size - l.pos) + 0; omega)
      (s.size + 1) (ignore (next s l).2) 0 (Fwd.refl s _ hg0.ps) (by show s.size - (next s l).2.pos < s.size + 1; omega)
    have hreb := hres.rebase (l := l) (j := 1) (by show l.pos ≤ (next s l).2.pos; omega)
      (by show (next s l).2.steps + l.pos ≤ l.steps + (next s l).2.pos + 1; omega)
    exact hreb.mono (Nat.le_refl _) (by omega)

/-- Running the state functions from a good state with enough fuel. -/
theorem runLex_res (s : Array UInt8) :
    ∀ (n : Nat) (fn : StateFn) (l : L), Good s l → Entry fn l → mu s fn l < n →
      (runLex s n fn l).panic = false ∧ (∀ i ∈ (runLex s n fn l).items, itemOk s i) ∧
      (runLex s n fn l).items.length ≤ s.size + 1 ∧
      (runLex s n fn l).steps ≤ l.steps + (s.size - l.pos) + 5 * (mu s fn l + 1)
  | 0, fn, l, _, _, hn => by omega
  | n+1, fn, l, hg, he, hn => by
    have hres := stepFn_res s fn { l with steps := l.steps + 1 } hg.tick he
    have hst := hres.steps; have hle := hres.le; have hinb := hres.inb
    have hst' : (stepFn s fn { l with steps := l.steps + 1 }).2.steps + l.pos ≤
        l.steps + 1 + (stepFn s fn { l with steps := l.steps + 1 }).2.pos + 4 := hst
    have hle' : l.pos ≤ (stepFn s fn { l with steps := l.steps + 1 }).2.pos := hle
    unfold runLex
    simp only []
    split
    · rename_i hnone
      refine ⟨hres.np, hres.items, hres.stop hnone, ?_⟩
      omega
    · rename_i fn' hsome
      obtain ⟨hg', he', hmu⟩ := hres.cont fn' hsome
      have hmu' : mu s fn' (stepFn s fn { l with steps := l.steps + 1 }).2 < mu s fn l := hmu
      have ih := runLex_res s n fn' _ hg' he' (by omega)
      refine ⟨ih.1, ih.2.1, ih.2.2.1, ?_⟩
      have := ih.2.2.2
      omega

theorem lex_ok (s : Array UInt8) :
    (lex s).panic = false ∧ (∀ i ∈ (lex s).items, itemOk s i) ∧ (lex s).items.length ≤ s.size + 1 ∧
    (lex s).steps ≤ 16 * s.size + 10 := by
  have hg : Good s ({} : L) := ⟨Nat.le_refl _, Nat.zero_le _, rfl, (by intro i hi; cases hi), Nat.le_refl _⟩
  have h := runLex_res s (lexFuel s.size) .code {} hg trivial (by show 3 * (s.size - 0) + 1 < 3 * s.size + 3; omega)
  unfold lex
  refine ⟨h.1, ?_, ?_, ?_⟩
  · intro i hi
    exact h.2.1 i (by simpa using hi)
  · simpa using h.2.2.1
  · have := h.2.2.2
    have hmu : mu s .code ({} : L) = 3 * s.size + 1 := by show 3 * (s.size - 0) + 1 = _; omega
    rw [hmu] at this
    show (runLex s (lexFuel s.size) .code {}).steps ≤ 16 * s.size + 10
    have h0 : ({} : L).steps = 0 := rfl
    have h1 : ({} : L).pos = 0 := rfl
    rw [h0, h1] at this
    omega

end Keto.Opl
