/-
  Fact ties (shapes of the storage read calls: C03), kept apart from Keto/Proofs/FactsTie.lean so that only the properties that rely on
  them depend on them: a change to the code that breaks one of these tables breaks the proof obligations of
  those properties, not of every property that imports a fact tie.
-/
import Keto.Generated.Facts

namespace Keto.FactsTie
open Keto.Facts

/-- How the storage operations used by a check fetch their rows: through pop's
    `All` / `Exists` (which surface every driver error, including one raised while
    rows are being fetched), never through a hand-written row loop. The engine model
    treats a storage operation as one call that either fails or returns all rows; a
    storage operation that iterates rows itself would have to show that it reports
    iteration errors (C03). -/
def readCallShapes : List (String × String × String) :=
  sqlStrings.filter fun r =>
    (r.2.1 == "Traverser.TraverseSubjectSetExpansion" || r.2.1 == "Traverser.TraverseSubjectSetRewrite" ||
     r.2.1 == "Persister.GetRelationTuples" || r.2.1 == "Persister.ExistsRelationTuples") && r.2.2.startsWith "call:"

def expectedReadCallShapes : List (String × String × String) := [
  ("internal/persistence/sql/relationtuples.go", "Persister.GetRelationTuples", "call:queryWithNetwork"),
  ("internal/persistence/sql/relationtuples.go", "Persister.GetRelationTuples", "call:All"),
  ("internal/persistence/sql/relationtuples.go", "Persister.ExistsRelationTuples", "call:queryWithNetwork"),
  ("internal/persistence/sql/relationtuples.go", "Persister.ExistsRelationTuples", "call:Exists"),
  ("internal/persistence/sql/traverser.go", "Traverser.TraverseSubjectSetExpansion", "call:All"),
  ("internal/persistence/sql/traverser.go", "Traverser.TraverseSubjectSetExpansion", "call:RawQuery"),
  ("internal/persistence/sql/traverser.go", "Traverser.TraverseSubjectSetRewrite", "call:queryWithNetwork"),
  ("internal/persistence/sql/traverser.go", "Traverser.TraverseSubjectSetRewrite", "call:All")
]

theorem readCallShapes_tie : (readCallShapes == expectedReadCallShapes) = true := by decide +kernel

end Keto.FactsTie
