/-
  Invariants of the parser model (Keto/Model/Parser.lean): the fuel suffices (no
  `setPanic`), every error and every deferred check points at an item of the input
  (or at the 0:0 items `brokenItem` / `Item.zero`), tokens are only consumed.
-/
import Keto.Model.Parser

namespace Keto.Opl
open Keto

/-- A property of byte ranges that holds of 0:0 (the range of `brokenItem` / `Item.zero`). -/
structure Pos where
  Q : Nat → Nat → Prop
  zero : Q 0 0

/-- `start ≤ stop ≤ n`. -/
def Pos.inRange (n : Nat) : Pos := ⟨fun a b => a ≤ b ∧ b ≤ n, ⟨Nat.le_refl _, Nat.zero_le _⟩⟩

/-- No constraint (used when only token consumption matters). -/
def Pos.any : Pos := ⟨fun _ _ => True, trivial⟩

def okI (N : Pos) (i : Item) : Prop := N.Q i.start i.stop
def okE (N : Pos) (e : PErr) : Prop := N.Q e.start e.stop

def okC (N : Pos) : TypeCheck → Prop
  | .nsExists a => okI N a
  | .nsHasRelation a b => okI N a ∧ okI N b
  | .curNsHasRelation _ a => okI N a
  | .allTypesHaveRelation _ a _ => okI N a

theorem okI_broken (N : Pos) : okI N brokenItem := N.zero
theorem okI_zero (N : Pos) : okI N Item.zero := N.zero

/-- Everything the parser state holds points into the input. -/
structure G (N : Pos) (p : P) : Prop where
  toks : ∀ i ∈ p.toks, okI N i
  errs : ∀ e ∈ p.errors, okE N e
  checks : ∀ c ∈ p.checks, okC N c

/-- `p'` is reached from `p` by parser actions: goodness is kept, tokens are only
    consumed, no fuel ran out. -/
structure Inv (N : Pos) (p p' : P) : Prop where
  g : G N p → G N p'
  len : p'.toks.length ≤ p.toks.length
  panic : p'.panic = p.panic

theorem Inv.refl (N : Pos) (p : P) : Inv N p p := ⟨id, Nat.le_refl _, rfl⟩

theorem Inv.trans {N : Pos} {p q r : P} (h1 : Inv N p q) (h2 : Inv N q r) : Inv N p r :=
  ⟨fun hg => h2.g (h1.g hg), Nat.le_trans h2.len h1.len, h2.panic.trans h1.panic⟩

theorem Inv.tick {N : Pos} {p q : P} (h : Inv N p q) : Inv N p q.tick :=
  ⟨fun hg => ⟨(h.g hg).toks, (h.g hg).errs, (h.g hg).checks⟩, h.len, h.panic⟩

theorem G.next {N : Pos} {p : P} (hg : G N p) : G N p.next.2 ∧ okI N p.next.1 := by
  unfold P.next
  cases h : p.toks with
  | nil => exact ⟨⟨by simp [h], hg.errs, hg.checks⟩, okI_broken N⟩
  | cons i r =>
    refine ⟨⟨?_, hg.errs, hg.checks⟩, hg.toks i (by simp [h])⟩
    intro j hj
    exact hg.toks j (by rw [h]; exact List.mem_cons_of_mem _ hj)

theorem G.peek {N : Pos} {p : P} (hg : G N p) : okI N p.peek := by
  unfold P.peek
  cases h : p.toks with
  | nil => exact okI_broken N
  | cons i r => exact hg.toks i (by simp [h])

theorem Inv.next {N : Pos} {p q : P} (h : Inv N p q) : Inv N p q.next.2 := by
  refine ⟨fun hg => (h.g hg).next.1, ?_, ?_⟩
  · have := h.len
    unfold P.next
    cases hq : q.toks with
    | nil => simpa [hq] using this
    | cons i r => simp [hq] at this ⊢; omega
  · rw [← h.panic]
    unfold P.next
    cases q.toks <;> rfl

theorem Inv.addErr {N : Pos} {p q : P} (h : Inv N p q) (i : Item) (k : ErrKind) (hi : G N p → okI N i) :
    Inv N p (q.addErr i k) :=
  ⟨fun hg => ⟨(h.g hg).toks, by
      intro e he
      cases he with
      | head => exact hi hg
      | tail _ h' => exact (h.g hg).errs e h', (h.g hg).checks⟩, h.len, h.panic⟩

theorem Inv.addFatal {N : Pos} {p q : P} (h : Inv N p q) (i : Item) (k : ErrKind) (hi : G N p → okI N i) :
    Inv N p (q.addFatal i k) := by
  have := h.addErr i k hi
  exact ⟨fun hg => ⟨(this.g hg).toks, (this.g hg).errs, (this.g hg).checks⟩, this.len, this.panic⟩

theorem Inv.addCheck {N : Pos} {p q : P} (h : Inv N p q) (c : TypeCheck) (hc : G N p → okC N c) :
    Inv N p (q.addCheck c) :=
  ⟨fun hg => ⟨(h.g hg).toks, (h.g hg).errs, by
      intro c' hc'
      cases hc' with
      | head => exact hc hg
      | tail _ h' => exact (h.g hg).checks c' h'⟩, h.len, h.panic⟩

theorem Inv.addRelation {N : Pos} {p q : P} (h : Inv N p q) (r : Relation) : Inv N p (q.addRelation r) :=
  ⟨fun hg => ⟨(h.g hg).toks, (h.g hg).errs, (h.g hg).checks⟩, h.len, h.panic⟩

/-- `optional`, `matchRest`, `matchLoop`, `match`: captured items are good. -/
theorem matchRest_inv (N : Pos) : ∀ (ts : List (List UInt8)) (p : P), Inv N p (matchRest ts p).2
  | [], p => Inv.refl N p
  | t :: ts, p => by
    unfold matchRest
    simp only []
    split
    · exact (Inv.refl N p).next.trans (matchRest_inv N ts _)
    · exact (Inv.refl N p).next.addFatal _ _ (fun hg => hg.next.2)

theorem optional_inv (N : Pos) (ts : List (List UInt8)) (p : P) : Inv N p (optional ts p).2 := by
  unfold optional
  split
  · exact Inv.refl N p
  · split
    · exact (Inv.refl N p).next.trans (matchRest_inv N _ _)
    · exact Inv.refl N p

theorem matchLoop_inv (N : Pos) : ∀ (pats : List Pat) (caps : List Item) (p : P),
    Inv N p (matchLoop pats caps p).2.2 ∧
    (G N p → (∀ i ∈ caps, okI N i) → ∀ i ∈ (matchLoop pats caps p).2.1, okI N i)
  | [], caps, p => ⟨Inv.refl N p, fun _ hc => hc⟩
  | .lit t :: ps, caps, p => by
    unfold matchLoop
    simp only []
    split
    · have ih := matchLoop_inv N ps caps p.next.2
      exact ⟨(Inv.refl N p).next.trans ih.1, fun hg hc => ih.2 hg.next.1 hc⟩
    · exact ⟨(Inv.refl N p).next.addFatal _ _ (fun hg => hg.next.2), fun _ hc => hc⟩
  | .ident :: ps, caps, p => by
    unfold matchLoop
    simp only []
    split
    · have ih := matchLoop_inv N ps (caps ++ [p.next.1]) p.next.2
      refine ⟨(Inv.refl N p).next.trans ih.1, fun hg hc => ih.2 hg.next.1 ?_⟩
      intro i hi
      rcases List.mem_append.mp hi with h | h
      · exact hc i h
      · simp at h; rw [h]; exact hg.next.2
    · exact ⟨(Inv.refl N p).next.addFatal _ _ (fun hg => hg.next.2), fun _ hc => hc⟩
  | .item :: ps, caps, p => by
    unfold matchLoop
    simp only []
    have ih := matchLoop_inv N ps (caps ++ [p.next.1]) p.next.2
    refine ⟨(Inv.refl N p).next.trans ih.1, fun hg hc => ih.2 hg.next.1 ?_⟩
    intro i hi
    rcases List.mem_append.mp hi with h | h
    · exact hc i h
    · simp at h; rw [h]; exact hg.next.2
  | .opt ts :: ps, caps, p => by
    unfold matchLoop
    simp only []
    have ho := optional_inv N ts p
    split
    · have ih := matchLoop_inv N ps caps (optional ts p).2
      exact ⟨ho.trans ih.1, fun hg hc => ih.2 (ho.g hg) hc⟩
    · exact ⟨ho, fun _ hc => hc⟩

theorem mtch_inv (N : Pos) (p : P) (pats : List Pat) :
    Inv N p (p.mtch pats).2.2 ∧ (G N p → ∀ i ∈ (p.mtch pats).2.1, okI N i) := by
  unfold P.mtch
  split
  · exact ⟨Inv.refl N p, fun _ i hi => by cases hi⟩
  · have := matchLoop_inv N pats [] p
    exact ⟨this.1, fun hg => this.2 hg (fun i hi => by cases hi)⟩

theorem mtchIf_inv (N : Pos) (p : P) (typ : ItemType) (pats : List Pat) :
    Inv N p (p.mtchIf typ pats).2.2 ∧ (G N p → ∀ i ∈ (p.mtchIf typ pats).2.1, okI N i) := by
  unfold P.mtchIf
  split
  · exact ⟨Inv.refl N p, fun _ i hi => by cases hi⟩
  · split
    · exact ⟨Inv.refl N p, fun _ i hi => by cases hi⟩
    · exact mtch_inv N p pats

theorem okI_cap {N : Pos} {caps : List Item} (h : ∀ i ∈ caps, okI N i) (k : Nat) : okI N (cap caps k) := by
  unfold cap
  rw [List.getD_eq_getElem?_getD]
  cases hk : caps[k]? with
  | none => exact okI_zero N
  | some i => exact h i (List.mem_of_getElem? hk)

theorem Inv.mtch {N : Pos} {p q : P} (h : Inv N p q) (pats : List Pat) : Inv N p (q.mtch pats).2.2 :=
  h.trans (mtch_inv N q pats).1

theorem Inv.mtchIf {N : Pos} {p q : P} (h : Inv N p q) (typ : ItemType) (pats : List Pat) :
    Inv N p (q.mtchIf typ pats).2.2 :=
  h.trans (mtchIf_inv N q typ pats).1

/-- A captured item of a `match` made in a state reached from `p`. -/
theorem Inv.cap_mtch {N : Pos} {p q : P} (h : Inv N p q) (pats : List Pat) (k : Nat) (hg : G N p) :
    okI N (cap (q.mtch pats).2.1 k) :=
  okI_cap ((mtch_inv N q pats).2 (h.g hg)) k

theorem Inv.cap_mtchIf {N : Pos} {p q : P} (h : Inv N p q) (typ : ItemType) (pats : List Pat) (k : Nat) (hg : G N p) :
    okI N (cap (q.mtchIf typ pats).2.1 k) :=
  okI_cap ((mtchIf_inv N q typ pats).2 (h.g hg)) k

theorem Inv.next_item {N : Pos} {p q : P} (h : Inv N p q) (hg : G N p) : okI N q.next.1 := (h.g hg).next.2
theorem Inv.peek_item {N : Pos} {p q : P} (h : Inv N p q) (hg : G N p) : okI N q.peek := (h.g hg).peek


theorem matchPropertyAccess_inv (N : Pos) (pat : Pat) (p : P) :
    Inv N p (matchPropertyAccess pat p).2.2 ∧ (G N p → ∀ i ∈ (matchPropertyAccess pat p).2.1, okI N i) := by
  unfold matchPropertyAccess
  simp only []
  have h1 := mtchIf_inv N p .bracketLeft [.lit b!"[", pat, .lit b!"]"]
  split
  · exact h1
  · have h2 := mtch_inv N (p.mtchIf .bracketLeft [.lit b!"[", pat, .lit b!"]"]).2.2 [.lit b!".", pat]
    refine ⟨h1.1.trans h2.1, fun hg i hi => ?_⟩
    rcases List.mem_append.mp hi with h | h
    · exact h1.2 hg i h
    · exact h2.2 (h1.1.g hg) i h

theorem Inv.mpa {N : Pos} {p q : P} (h : Inv N p q) (pat : Pat) : Inv N p (matchPropertyAccess pat q).2.2 :=
  h.trans (matchPropertyAccess_inv N pat q).1

theorem Inv.cap_mpa {N : Pos} {p q : P} (h : Inv N p q) (pat : Pat) (k : Nat) (hg : G N p) :
    okI N (cap (matchPropertyAccess pat q).2.1 k) :=
  okI_cap ((matchPropertyAccess_inv N pat q).2 (h.g hg)) k

/-- Backward chaining over the parser actions a state term is built from. -/
macro "inv_chain" : tactic => `(tactic| repeat' first
  | exact Inv.refl _ _
  | assumption
  | exact True.intro
  | exact (‹G _ _ → okI _ _›) ‹G _ _›
  | intro (_ : G _ _)
  | apply Inv.mtch
  | apply Inv.mtchIf
  | apply Inv.next
  | apply Inv.tick
  | apply Inv.addRelation
  | apply Inv.addFatal
  | apply Inv.addCheck
  | apply Inv.addErr
  | apply Inv.mpa
  | refine Inv.cap_mpa ?_ _ _ ‹G _ _›
  | refine Inv.cap_mtch ?_ _ _ ‹G _ _›
  | refine Inv.cap_mtchIf ?_ _ _ _ ‹G _ _›
  | refine Inv.next_item ?_ ‹G _ _›
  | refine Inv.peek_item ?_ ‹G _ _›
  | exact okI_zero _
  | exact okI_broken _
  | (simp only [okC])
  | apply And.intro)

theorem parseComputedSubjectSet_inv {N : Pos} {p0 : P} (relation : Item) (p : P) (h0 : Inv N p0 p)
    (hr : G N p0 → okI N relation) : Inv N p0 (parseComputedSubjectSet relation p).2 := by
  unfold parseComputedSubjectSet
  simp only []
  split <;> inv_chain

theorem parseTupleToSubjectSet_inv {N : Pos} {p0 : P} (relation : Item) (p : P) (h0 : Inv N p0 p)
    (hr : G N p0 → okI N relation) : Inv N p0 (parseTupleToSubjectSet relation p).2 := by
  unfold parseTupleToSubjectSet
  simp only []
  repeat' split
  all_goals inv_chain

theorem parsePermissionExpression_inv {N : Pos} {p0 : P} (p : P) (h0 : Inv N p0 p) :
    Inv N p0 (parsePermissionExpression p).2 := by
  unfold parsePermissionExpression
  simp only []
  repeat' split
  all_goals first
    | (apply parseTupleToSubjectSet_inv <;> inv_chain)
    | (apply parseComputedSubjectSet_inv <;> inv_chain)
    | inv_chain


/-! ### consumption -/

/-- Fuel a loop needs in state `p`. -/
def need (p : P) : Nat := p.toks.length + (if p.fatal then 0 else 1)

theorem need_le (p : P) : need p ≤ p.toks.length + 1 := by
  unfold need; split <;> omega

theorem need_fatal (p : P) (h : p.fatal = true) : need p = p.toks.length := by
  unfold need; simp [h]

theorem need_nonfatal (p : P) (h : p.fatal = false) : need p = p.toks.length + 1 := by
  unfold need; simp [h]

theorem next_len_of_peek (p : P) (h : p.peek.typ ≠ .error) : p.next.2.toks.length + 1 = p.toks.length := by
  unfold P.peek at h
  unfold P.next
  cases ht : p.toks with
  | nil => rw [ht] at h; exact absurd rfl h
  | cons i r => simp

theorem next_len_of_item (p : P) (h : p.next.1.typ ≠ .error) : p.next.2.toks.length + 1 = p.toks.length := by
  unfold P.next at h ⊢
  cases ht : p.toks with
  | nil => rw [ht] at h; exact absurd rfl h
  | cons i r => simp

theorem valIs_typ {i : Item} {t : List UInt8} (h : valIs i t = true) : i.typ ≠ .error := by
  unfold valIs at h
  intro he
  simp [he] at h

/-- A successful `match` whose first pattern is a string consumed a token. -/
theorem mtch_lit_len (p : P) (t : List UInt8) (ps : List Pat) (h : (p.mtch (.lit t :: ps)).1 = true) :
    (p.mtch (.lit t :: ps)).2.2.toks.length + 1 ≤ p.toks.length := by
  unfold P.mtch at h ⊢
  split at h
  · cases h
  · rename_i hf
    rw [if_neg hf]
    unfold matchLoop at h ⊢
    simp only [] at h ⊢
    split at h
    · rename_i hv
      simp only [hv, if_true]
      have h1 := next_len_of_item p (valIs_typ hv)
      have h2 := (matchLoop_inv Pos.any ps [] p.next.2).1.len
      omega
    · cases h

theorem ppe_some_len (p : P) (c : Child) (h : (parsePermissionExpression p).1 = some c) :
    (parsePermissionExpression p).2.toks.length + 1 ≤ p.toks.length := by
  unfold parsePermissionExpression at h ⊢
  simp only [] at h ⊢
  by_cases h0 : (p.mtch [.lit b!"this", .lit b!".", .item]).1 = true
  · have hl := mtch_lit_len p _ _ h0
    -- everything after the first match only consumes
    have : ∀ X : P, Inv Pos.any (p.mtch [.lit b!"this", .lit b!".", .item]).2.2 X → X.toks.length + 1 ≤ p.toks.length := by
      intro X hX
      have := hX.len
      omega
    simp only [h0, Bool.not_true, Bool.false_eq_true, if_false] at h ⊢
    repeat' split
    all_goals first
      | (apply this; first
          | (apply parseTupleToSubjectSet_inv <;> inv_chain)
          | (apply parseComputedSubjectSet_inv <;> inv_chain)
          | inv_chain)
  · have hfalse : (p.mtch [.lit b!"this", .lit b!".", .item]).1 = false := by simpa using h0
    simp [hfalse] at h


theorem peek_tick (p : P) : p.tick.peek = p.peek := rfl
theorem toks_tick (p : P) : p.tick.toks = p.toks := rfl

theorem typ_ne_error_of_eq {i : Item} {t : ItemType} (h : (i.typ == t) = true) (ht : t ≠ .error) : i.typ ≠ .error := by
  have : i.typ = t := by simpa using h
  rw [this]; exact ht

/-- The expression loop: fuel above the remaining tokens suffices. -/
theorem exprLoop_inv (N : Pos) : ∀ (n : Nat) (fin : ItemType) (depth : Nat) (root : Option Rewrite) (expect : Bool) (p0 p : P),
    fin ≠ .error → Inv N p0 p → need p < n → Inv N p0 (exprLoop n fin depth root expect p).2
  | 0, _, _, _, _, _, _, _, _, hn => by omega
  | n+1, fin, depth, root, expect, p0, p, hfin, h0, hn => by
    unfold exprLoop
    by_cases hf : p.fatal = true
    · rw [if_pos hf]; exact h0
    · rw [if_neg hf]
      have hfalse : p.fatal = false := by simpa using hf
      rw [need_nonfatal p hfalse] at hn
      -- any state that has consumed a token has enough fuel left
      have key : ∀ X : P, X.toks.length + 1 ≤ p.toks.length → need X < n := by
        intro X hX
        have := need_le X
        omega
      have consumed : ∀ q X : P, q.toks.length + 1 = p.toks.length → Inv Pos.any q X → need X < n := by
        intro q X hq hX
        have := hX.len
        exact key X (by omega)
      simp only []
      split
      · -- "("
        rename_i hty
        have hq := next_len_of_peek p.tick (typ_ne_error_of_eq hty (by decide))
        rw [toks_tick] at hq
        split
        · inv_chain
        · have ih1 := exprLoop_inv N n .parenRight (depth - 1) none true p0 p.tick.next.2 (by decide) (by inv_chain)
            (consumed _ _ hq (Inv.refl _ _))
          have il1 := exprLoop_inv Pos.any n .parenRight (depth - 1) none true p.tick.next.2 p.tick.next.2 (by decide)
            (Inv.refl _ _) (consumed _ _ hq (Inv.refl _ _))
          split
          · exact ih1
          · exact exprLoop_inv N n fin depth _ false p0 _ hfin ih1 (consumed _ _ hq il1)
      · split
        · inv_chain
        · split
          · inv_chain
          · split
            · -- "&&" / "||"
              rename_i hty
              have hne : p.tick.peek.typ ≠ .error := by
                intro he
                rw [he] at hty
                simp at hty
              have hq := next_len_of_peek p.tick hne
              rw [toks_tick] at hq
              split
              · inv_chain
              · exact exprLoop_inv N n fin depth _ true p0 _ hfin (by inv_chain) (consumed _ _ hq (Inv.refl _ _))
            · split
              · -- "!"
                rename_i hty
                have hq := next_len_of_peek p.tick (typ_ne_error_of_eq hty (by decide))
                rw [toks_tick] at hq
                split
                · inv_chain
                · split
                  · split
                    · exact exprLoop_inv N n fin depth _ false p0 _ hfin (by inv_chain)
                        (consumed _ _ hq (by inv_chain))
                    · have ih1 := exprLoop_inv N n .parenRight (depth - 1 - 1) none true p0 p.tick.next.2.next.2 (by decide)
                        (by inv_chain) (consumed _ _ hq (by inv_chain))
                      have il1 := exprLoop_inv Pos.any n .parenRight (depth - 1 - 1) none true p.tick.next.2 p.tick.next.2.next.2
                        (by decide) (by inv_chain) (consumed _ _ hq (by inv_chain))
                      exact exprLoop_inv N n fin depth _ false p0 _ hfin ih1 (consumed _ _ hq il1)
                  · have ih1 : Inv N p0 (parsePermissionExpression p.tick.next.2).2 :=
                      parsePermissionExpression_inv _ (by inv_chain)
                    have il1 : Inv Pos.any p.tick.next.2 (parsePermissionExpression p.tick.next.2).2 :=
                      parsePermissionExpression_inv _ (Inv.refl _ _)
                    split
                    · exact ih1
                    · exact exprLoop_inv N n fin depth _ false p0 _ hfin ih1 (consumed _ _ hq il1)
              · split
                · inv_chain
                · have ih1 : Inv N p0 (parsePermissionExpression p.tick).2 :=
                    parsePermissionExpression_inv _ (by inv_chain)
                  split
                  · exact ih1
                  · rename_i c hc
                    have hl := ppe_some_len p.tick c hc
                    rw [toks_tick] at hl
                    exact exprLoop_inv N n fin depth _ true p0 _ hfin ih1 (key _ hl)


theorem parsePermissionExpressions_inv (N : Pos) (n : Nat) (fin : ItemType) (depth : Nat) (p0 p : P)
    (hfin : fin ≠ .error) (h0 : Inv N p0 p) (hn : need p < n) :
    Inv N p0 (parsePermissionExpressions n fin depth p).2 := by
  unfold parsePermissionExpressions
  split
  · inv_chain
  · exact exprLoop_inv N n fin depth none true p0 p hfin h0 hn

theorem matchSubjectSet_inv {N : Pos} {p0 : P} (p : P) (h0 : Inv N p0 p) : Inv N p0 (matchSubjectSet p).2 := by
  unfold matchSubjectSet
  simp only []
  inv_chain

theorem parseTypeUnion_inv (N : Pos) (endTok : ItemType) (hend : endTok ≠ .error) :
    ∀ (n : Nat) (types : List RelType) (p0 p : P), Inv N p0 p → need p < n →
      Inv N p0 (parseTypeUnion endTok n types p).2
  | 0, _, _, _, _, hn => by omega
  | n+1, types, p0, p, h0, hn => by
    unfold parseTypeUnion
    by_cases hf : p.fatal = true
    · rw [if_pos hf]; exact h0
    · rw [if_neg hf]
      have hfalse : p.fatal = false := by simpa using hf
      rw [need_nonfatal p hfalse] at hn
      simp only []
      -- the state before the separator is read
      generalize htp : (if valIs (cap (p.tick.mtch [Pat.item]).2.1 0) b!"SubjectSet" = true then
          (types ++ [(matchSubjectSet (p.tick.mtch [Pat.item]).2.2).1], (matchSubjectSet (p.tick.mtch [Pat.item]).2.2).2)
        else (types ++ [(⟨bstr (cap (p.tick.mtch [Pat.item]).2.1 0).val, ""⟩ : RelType)],
              (p.tick.mtch [Pat.item]).2.2.addCheck (.nsExists (cap (p.tick.mtch [Pat.item]).2.1 0)))) = tp
      have htp0 : Inv N p0 tp.2 := by
        rw [← htp]
        split
        · exact matchSubjectSet_inv _ (by inv_chain)
        · inv_chain
      have htpl : Inv Pos.any p tp.2 := by
        rw [← htp]
        split
        · exact matchSubjectSet_inv _ (by inv_chain)
        · inv_chain
      have hlen := htpl.len
      split
      · inv_chain
      · split
        · rename_i hty
          have hq := next_len_of_item tp.2 (typ_ne_error_of_eq hty (by decide))
          refine parseTypeUnion_inv N endTok hend n _ p0 _ (by inv_chain) ?_
          have := need_le tp.2.next.2
          omega
        · refine parseTypeUnion_inv N endTok hend n _ p0 _ (by inv_chain) ?_
          rw [need_fatal _ rfl]
          have := (Inv.refl Pos.any tp.2).next.len
          show tp.2.next.2.toks.length < n
          omega


theorem typ_ne_error_of_or {i : Item} {a b : ItemType} (h : (i.typ == a || i.typ == b) = true) (ha : a ≠ .error)
    (hb : b ≠ .error) : i.typ ≠ .error := by
  rcases Bool.or_eq_true _ _ |>.mp h with h | h
  · exact typ_ne_error_of_eq h ha
  · exact typ_ne_error_of_eq h hb

theorem relatedLoop_inv (N : Pos) : ∀ (n : Nat) (p0 p : P), Inv N p0 p → need p < n → Inv N p0 (relatedLoop n p)
  | 0, _, _, _, hn => by omega
  | n+1, p0, p, h0, hn => by
    unfold relatedLoop
    by_cases hf : p.fatal = true
    · rw [if_pos hf]; exact h0
    · rw [if_neg hf]
      have hfalse : p.fatal = false := by simpa using hf
      rw [need_nonfatal p hfalse] at hn
      have consumed : p.tick.next.1.typ ≠ .error → ∀ X : P, Inv Pos.any p.tick.next.2 X → X.toks.length + 1 < n := by
        intro hne X hX
        have h1 := next_len_of_item p.tick hne
        rw [toks_tick] at h1
        have := hX.len
        omega
      have fuel : p.tick.next.1.typ ≠ .error → ∀ X : P, Inv Pos.any p.tick.next.2 X → need X < n := by
        intro hne X hX
        have := consumed hne X hX
        have := need_le X
        omega
      simp only []
      split
      · rename_i hty
        exact relatedLoop_inv N n p0 _ (by inv_chain) (fuel (typ_ne_error_of_eq hty (by decide)) _ (Inv.refl _ _))
      · split
        · inv_chain
        · split
          · rename_i hty
            have hne := typ_ne_error_of_or hty (by decide) (by decide)
            split
            · -- Array<…>
              have hq : Inv Pos.any p.tick.next.2 (((p.tick.next.2.mtch [Pat.lit b!":"]).2.2.next.2.mtch [Pat.lit b!"<"]).2.2) := by
                inv_chain
              have ht0 := parseTypeUnion_inv N .angledRight (by decide) n [] p0 _ (by inv_chain : Inv N p0 _) (fuel hne _ hq)
              have htl := parseTypeUnion_inv Pos.any .angledRight (by decide) n [] p.tick.next.2 _ hq (fuel hne _ hq)
              exact relatedLoop_inv N n p0 _ (by inv_chain) (fuel hne _ (by inv_chain))
            · split
              · -- SubjectSet<…>[]
                have hm0 : Inv N p0 (matchSubjectSet (p.tick.next.2.mtch [Pat.lit b!":"]).2.2.next.2).2 :=
                  matchSubjectSet_inv _ (by inv_chain)
                have hml : Inv Pos.any p.tick.next.2 (matchSubjectSet (p.tick.next.2.mtch [Pat.lit b!":"]).2.2.next.2).2 :=
                  matchSubjectSet_inv _ (by inv_chain)
                exact relatedLoop_inv N n p0 _ (by inv_chain) (fuel hne _ (by inv_chain))
              · split
                · -- (A | B)[]
                  have hq : Inv Pos.any p.tick.next.2 ((p.tick.next.2.mtch [Pat.lit b!":"]).2.2.next.2) := by inv_chain
                  have ht0 := parseTypeUnion_inv N .parenRight (by decide) n [] p0 _ (by inv_chain : Inv N p0 _) (fuel hne _ hq)
                  have htl := parseTypeUnion_inv Pos.any .parenRight (by decide) n [] p.tick.next.2 _ hq (fuel hne _ hq)
                  exact relatedLoop_inv N n p0 _ (by inv_chain) (fuel hne _ (by inv_chain))
                · -- T[]
                  exact relatedLoop_inv N n p0 _ (by inv_chain) (fuel hne _ (by inv_chain))
          · inv_chain

theorem parseRelated_inv (N : Pos) (n : Nat) (p0 p : P) (h0 : Inv N p0 p) (hn : p.toks.length + 1 < n) :
    Inv N p0 (parseRelated n p) := by
  unfold parseRelated
  refine relatedLoop_inv N n p0 _ (by inv_chain) ?_
  have := need_le (p.mtch [.lit b!":", .lit b!"{"]).2.2
  have := (Inv.refl Pos.any p).mtch [.lit b!":", .lit b!"{"] |>.len
  omega

theorem permitsLoop_inv (N : Pos) : ∀ (n : Nat) (p0 p : P), Inv N p0 p → need p < n → Inv N p0 (permitsLoop n p)
  | 0, _, _, _, hn => by omega
  | n+1, p0, p, h0, hn => by
    unfold permitsLoop
    by_cases hf : p.fatal = true
    · rw [if_pos hf]; exact h0
    · rw [if_neg hf]
      have hfalse : p.fatal = false := by simpa using hf
      rw [need_nonfatal p hfalse] at hn
      have fuel : p.tick.next.1.typ ≠ .error → ∀ X : P, Inv Pos.any p.tick.next.2 X → need X < n := by
        intro hne X hX
        have h1 := next_len_of_item p.tick hne
        rw [toks_tick] at h1
        have := hX.len
        have := need_le X
        omega
      simp only []
      split
      · inv_chain
      · split
        · rename_i hty
          have hne := typ_ne_error_of_or hty (by decide) (by decide)
          have hq : Inv Pos.any p.tick.next.2 (p.tick.next.2.mtch [.lit b!":", .lit b!"(", .lit b!"ctx", .opt [b!":", b!"Context"],
              .lit b!")", .opt [b!":", b!"boolean"], .lit b!"=>"]).2.2 := by inv_chain
          have he0 := parsePermissionExpressions_inv N n .opComma Keto.Facts.expressionNestingMaxDepth p0 _ (by decide)
            (by inv_chain : Inv N p0 _) (fuel hne _ hq)
          have hel := parsePermissionExpressions_inv Pos.any n .opComma Keto.Facts.expressionNestingMaxDepth p.tick.next.2 _
            (by decide) hq (fuel hne _ hq)
          split
          · exact he0
          · exact permitsLoop_inv N n p0 _ (by inv_chain) (fuel hne _ (by inv_chain))
        · inv_chain

theorem parsePermits_inv (N : Pos) (n : Nat) (p0 p : P) (h0 : Inv N p0 p) (hn : p.toks.length + 1 < n) :
    Inv N p0 (parsePermits n p) := by
  unfold parsePermits
  refine permitsLoop_inv N n p0 _ (by inv_chain) ?_
  have := need_le (p.mtch [.lit b!"=", .lit b!"{"]).2.2
  have := (Inv.refl Pos.any p).mtch [.lit b!"=", .lit b!"{"] |>.len
  omega


theorem Inv.setNss {N : Pos} {p q : P} (h : Inv N p q) (nss : List Namespace) : Inv N p { q with nss := nss } :=
  ⟨fun hg => ⟨(h.g hg).toks, (h.g hg).errs, (h.g hg).checks⟩, h.len, h.panic⟩

theorem Inv.setNs {N : Pos} {p q : P} (h : Inv N p q) (ns : Namespace) : Inv N p { q with ns := ns } :=
  ⟨fun hg => ⟨(h.g hg).toks, (h.g hg).errs, (h.g hg).checks⟩, h.len, h.panic⟩

theorem classLoop_inv (N : Pos) : ∀ (n : Nat) (p0 p : P), Inv N p0 p → need p < n → Inv N p0 (classLoop n p)
  | 0, _, _, _, hn => by omega
  | n+1, p0, p, h0, hn => by
    unfold classLoop
    by_cases hf : p.fatal = true
    · rw [if_pos hf]; exact h0
    · rw [if_neg hf]
      have hfalse : p.fatal = false := by simpa using hf
      rw [need_nonfatal p hfalse] at hn
      have hlen : p.tick.next.1.typ ≠ .error → p.tick.next.2.toks.length + 1 < n := by
        intro hne
        have h1 := next_len_of_item p.tick hne
        rw [toks_tick] at h1
        omega
      have fuel : p.tick.next.1.typ ≠ .error → ∀ X : P, Inv Pos.any p.tick.next.2 X → need X < n := by
        intro hne X hX
        have := hlen hne
        have := hX.len
        have := need_le X
        omega
      simp only []
      split
      · exact (by inv_chain : Inv N p0 p.tick.next.2).setNss _
      · split
        · rename_i hv
          have hne := valIs_typ hv
          exact classLoop_inv N n p0 _ (parseRelated_inv N n p0 _ (by inv_chain) (hlen hne))
            (fuel hne _ (parseRelated_inv Pos.any n _ _ (Inv.refl _ _) (hlen hne)))
        · split
          · rename_i hv
            have hne := valIs_typ hv
            exact classLoop_inv N n p0 _ (parsePermits_inv N n p0 _ (by inv_chain) (hlen hne))
              (fuel hne _ (parsePermits_inv Pos.any n _ _ (Inv.refl _ _) (hlen hne)))
          · split
            · rename_i hty
              exact classLoop_inv N n p0 _ (by inv_chain) (fuel (typ_ne_error_of_eq hty (by decide)) _ (Inv.refl _ _))
            · inv_chain

theorem parseClass_inv (N : Pos) (n : Nat) (p0 p : P) (h0 : Inv N p0 p) (hn : p.toks.length + 1 < n) :
    Inv N p0 (parseClass n p) := by
  unfold parseClass
  simp only []
  refine classLoop_inv N n p0 _ ((by inv_chain : Inv N p0 (p.mtch _).2.2).setNs _) ?_
  show need (p.mtch [.ident, .lit b!"implements", .lit b!"Namespace", .lit b!"{"]).2.2 < n
  have h1 := ((Inv.refl Pos.any p).mtch [.ident, .lit b!"implements", .lit b!"Namespace", .lit b!"{"]).len
  have h2 := need_le (p.mtch [.ident, .lit b!"implements", .lit b!"Namespace", .lit b!"{"]).2.2
  omega

theorem parseLoop_inv (N : Pos) : ∀ (n : Nat) (p0 p : P), Inv N p0 p → need p < n → Inv N p0 (parseLoop n p)
  | 0, _, _, _, hn => by omega
  | n+1, p0, p, h0, hn => by
    unfold parseLoop
    by_cases hf : p.fatal = true
    · rw [if_pos hf]; exact h0
    · rw [if_neg hf]
      have hfalse : p.fatal = false := by simpa using hf
      rw [need_nonfatal p hfalse] at hn
      have hlen : p.tick.next.1.typ ≠ .error → p.tick.next.2.toks.length + 1 < n := by
        intro hne
        have h1 := next_len_of_item p.tick hne
        rw [toks_tick] at h1
        omega
      have hle : p.tick.next.2.toks.length ≤ p.toks.length := (Inv.refl Pos.any p).tick.next.len
      simp only []
      split
      · inv_chain
      · split
        · refine parseLoop_inv N n p0 _ (by inv_chain) ?_
          rw [need_fatal _ rfl]
          show p.tick.next.2.toks.length < n
          omega
        · split
          · rename_i hty
            have hne := typ_ne_error_of_eq hty (by decide)
            refine parseLoop_inv N n p0 _ (parseClass_inv N n p0 _ (by inv_chain) (hlen hne)) ?_
            have := (parseClass_inv Pos.any n _ _ (Inv.refl _ p.tick.next.2) (hlen hne)).len
            have := need_le (parseClass n p.tick.next.2)
            have := hlen hne
            omega
          · rename_i hne _
            have hne' : p.tick.next.1.typ ≠ .error := by
              intro he
              rw [he] at hne
              simp at hne
            refine parseLoop_inv N n p0 _ (by inv_chain) ?_
            have := need_le p.tick.next.2
            have := hlen hne'
            omega

/-- The syntax phase on a list of items all of which satisfy the range property. -/
theorem parseItems_ok (N : Pos) (items : List Item) (h : ∀ i ∈ items, okI N i) :
    (parseItems items).panic = false ∧ (∀ e ∈ (parseItems items).errors, okE N e) ∧
    (∀ c ∈ (parseItems items).checks, okC N c) := by
  unfold parseItems
  simp only []
  have hg : G N ({ toks := items.filter (fun i => !isComment i) } : P) :=
    ⟨fun i hi => h i (List.mem_filter.mp hi).1, (fun e he => by cases he), (fun c hc => by cases hc)⟩
  have hinv := parseLoop_inv N ((items.filter (fun i => !isComment i)).length + 2)
    { toks := items.filter (fun i => !isComment i) } { toks := items.filter (fun i => !isComment i) } (Inv.refl _ _)
    (by rw [need_nonfatal _ rfl]; show (items.filter (fun i => !isComment i)).length + 1 < _; omega)
  exact ⟨hinv.panic, (hinv.g hg).errs, (hinv.g hg).checks⟩

end Keto.Opl
