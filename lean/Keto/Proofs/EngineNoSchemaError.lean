/-
  A configuration (and store) whose references resolve cannot make the engine model fail with a
  schema error: instance of the generic invariant `build_inv` (EngineTermination) for
  `NE .schema` over the calls whose own lookups are fine (`Call.WF`).

  Helper lemmas only; the property theorems live in Keto/Props/C11.lean.
-/
import Keto.Model.Engine
import Keto.Spec.WellFormed
import Keto.Proofs.EngineSound
import Keto.Proofs.EngineTermination

namespace Keto

theorem mem_computedNamesL : ∀ {cs : List Child} {ch : Child} {r : String},
    ch ∈ cs → r ∈ ch.computedNames → r ∈ Child.computedNamesL cs
  | [], _, _, h, _ => by cases h
  | c :: cs, ch, r, h, hr => by
    simp only [Child.computedNamesL, List.mem_append]
    cases h with
    | head => exact Or.inl hr
    | tail _ h' => exact Or.inr (mem_computedNamesL h' hr)

theorem mem_ttuNamesL : ∀ {cs : List Child} {ch : Child} {p : String × String},
    ch ∈ cs → p ∈ ch.ttuNames → p ∈ Child.ttuNamesL cs
  | [], _, _, h, _ => by cases h
  | c :: cs, ch, p, h, hp => by
    simp only [Child.ttuNamesL, List.mem_append]
    cases h with
    | head => exact Or.inl hp
    | tail _ h' => exact Or.inr (mem_ttuNamesL h' hp)

theorem ChildOK.of_mem {c : Cfg} {T : List Tuple} {ns : String} {op : Op} {cs : List Child} {ch : Child}
    (h : ChildOK c T ns (.rewrite op cs)) (hm : ch ∈ cs) : ChildOK c T ns ch where
  computed := fun r' hr => h.computed r' (by simp only [Child.computedNames]; exact mem_computedNamesL hm hr)
  ttu := fun p hp => h.ttu p (by simp only [Child.ttuNames]; exact mem_ttuNamesL hm hp)

theorem ChildOK.of_invert {c : Cfg} {T : List Tuple} {ns : String} {ch : Child}
    (h : ChildOK c T ns (.invert ch)) : ChildOK c T ns ch where
  computed := fun r' hr => h.computed r' (by simp only [Child.computedNames]; exact hr)
  ttu := fun p hp => h.ttu p (by simp only [Child.ttuNames]; exact hp)

/-- `Call.WF` is closed under the calls `build` makes when the configuration is well formed. -/
theorem wf_closed (E : Env) (hw : WellFormed E.cfg E.T) :
    Closed E (NE .schema) (fun _ call => call.WF E.cfg E.T) where
  zero := by
    intro _ _ h
    cases h
  bad := by
    intro _ t d skip hok _ h
    exact absurd h hok
  isAllowed_rw := by
    intro _ t d skip _ _ R rw hR hrw
    exact ⟨hw.computed t.ns t.rel R rw hR hrw, hw.ttu t.ns t.rel R rw hR hrw⟩
  isAllowed_exp := by
    intro _ t d skip _ _ n' o r hm
    exact hw.subjectSets _ hm n' o r rfl
  rewrite_sc := by
    intro _ t rw d hok _ r hr
    have hc : ChildOK E.cfg E.T t.ns (.computed r) := ChildOK.of_mem hok hr
    exact hc.computed r (by simp only [Child.computedNames, List.mem_singleton])
  rewrite_ch := by
    intro _ t rw d hok _ ch hm
    exact ChildOK.of_mem hok hm
  ttu := by
    intro _ t rel crel d inv hok _ n' o r hm
    exact hok.ttu (rel, crel) (by simp only [Child.ttuNames, List.mem_singleton]) _ hm rfl rfl n' o r rfl
  computed := by
    intro _ t rel d inv hok _
    exact hok.computed rel (by simp only [Child.computedNames, List.mem_singleton])
  crewrite := by
    intro _ t op cs d inv hok
    exact hok
  cinvert := by
    intro _ t c d inv hok
    exact ChildOK.of_invert hok
  invert := by
    intro _ t c d hok _
    exact hok

/-- Under `WellFormed`, a call whose own lookups are fine never yields a schema error: neither
    while the check is constructed nor in any later run of the returned thunk — for every fuel,
    context, world and fault oracle. -/
theorem build_no_schema (E : Env) (hw : WellFormed E.cfg E.T) (fuel : Nat) (call : Call) (ctx : Ctx) (w : World)
    (h : call.WF E.cfg E.T) : TInv (NE .schema) (build E fuel call ctx w).1 :=
  build_inv (NE.ok (by decide)) E (wf_closed E hw) fuel call ctx w h

theorem check_no_schema (E : Env) (hw : WellFormed E.cfg E.T) (q : Tuple)
    (hq : astRelationFor E.cfg q.ns q.rel ≠ .bad) (g : Int) (fuel : Nat) (r : Int) :
    (check E g fuel q r).1.err ≠ some .schema :=
  build_no_schema E hw fuel (.isAllowed q (effDepth r g) false) {} {} hq {} _

/-- The model never produces the `ctx` error kind (context cancellation is not modelled in `build`). -/
theorem build_no_ctx (E : Env) (fuel : Nat) (call : Call) (ctx : Ctx) (w : World) :
    TInv (NE .ctx) (build E fuel call ctx w).1 := by
  refine build_inv (Ok := fun _ _ => True) (NE.ok (by decide)) E ?_ fuel call ctx w trivial
  constructor <;> intros <;> first | trivial | (intro h; cases h)

/-- Well formed, query resolves, enough fuel: the only error a check can end in is a storage error. -/
theorem check_err_storage_only (E : Env) (hw : WellFormed E.cfg E.T) (q : Tuple)
    (hq : astRelationFor E.cfg q.ns q.rel ≠ .bad) (g : Int) (fuel : Nat) (r : Int)
    (hf : fuel ≥ checkFuel E.cfg (effDepth r g)) :
    (check E g fuel q r).1.err = none ∨ (check E g fuel q r).1.err = some .storage := by
  have h1 := check_no_schema E hw q hq g fuel r
  have h2 := check_no_diverge E g fuel q r hf
  have h3 : (check E g fuel q r).1.err ≠ some .ctx :=
    build_no_ctx E fuel (.isAllowed q (effDepth r g) false) {} {} {} _
  cases h : (check E g fuel q r).1.err with
  | none => exact Or.inl rfl
  | some k =>
    rw [h] at h1 h2 h3
    cases k with
    | storage => exact Or.inr rfl
    | schema => exact absurd rfl h1
    | ctx => exact absurd rfl h3
    | diverged => exact absurd rfl h2

theorem subjectOkB_sound {c : Cfg} {s : Subject} {rel : Option String} (h : subjectOkB c s rel = true)
    {n : String} {o : Nat} {r : String} (hs : s = .set n o r) : astRelationFor c n (rel.getD r) ≠ .bad := by
  subst hs
  simp only [subjectOkB, Bool.not_eq_true'] at h
  exact Lookup.ne_bad_of_isBad h

/-- The Boolean check implies `WellFormed`. -/
theorem wellFormed_of_wellFormedB {c : Cfg} {T : List Tuple} (h : wellFormedB c T = true) : WellFormed c T := by
  unfold wellFormedB at h
  rw [Bool.and_eq_true, List.all_eq_true, List.all_eq_true] at h
  obtain ⟨hT, hc⟩ := h
  have hrel : ∀ ns rel R rw, astRelationFor c ns rel = .rel R → R.rewrite = some rw →
      ((computedNames rw).all (fun r' => !(astRelationFor c ns r').isBad) &&
        (ttuNames rw).all fun p => T.all fun t =>
          !(t.ns == ns && t.rel == p.1) || subjectOkB c t.sub (some p.2)) = true := by
    intro ns rel R rw hR hrw
    obtain ⟨N, hN, hname, hRN, _⟩ := astRelationFor_rel hR
    have h1 := hc N hN
    rw [List.all_eq_true] at h1
    have h2 := h1 R hRN
    rw [hrw, hname] at h2
    exact h2
  refine ⟨?_, ?_, ?_⟩
  · intro t ht n o r hs
    exact subjectOkB_sound (rel := none) (hT t ht) hs
  · intro ns rel R rw hR hrw r' hr'
    have h1 := hrel ns rel R rw hR hrw
    rw [Bool.and_eq_true, List.all_eq_true] at h1
    have h2 := h1.1 r' hr'
    simp only [Bool.not_eq_true'] at h2
    exact Lookup.ne_bad_of_isBad h2
  · intro ns rel R rw hR hrw p hp t ht hns hrl n o r hs
    have h1 := hrel ns rel R rw hR hrw
    rw [Bool.and_eq_true, List.all_eq_true, List.all_eq_true] at h1
    have h2 := h1.2 p hp
    rw [List.all_eq_true] at h2
    have h3 := h2 t ht
    rw [hns, hrl] at h3
    simp only [beq_self_eq_true, Bool.and_self, Bool.not_true, Bool.false_or] at h3
    exact subjectOkB_sound (rel := some p.2) h3 hs

end Keto
