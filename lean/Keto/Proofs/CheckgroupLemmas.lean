/-
  Helper lemmas for the checkgroup model (Keto/Model/Checkgroup.lean): the reachable-state
  invariant, the ghost run recording the results the consumer received, the drain progress lemma.
-/
import Keto.Model.Checkgroup

namespace Keto.CG
open Keto

/-! ### `expected` -/

theorem foldl_gAdd_none (rs : List Res) (h : ∀ r ∈ rs, r.decisive = false) :
    rs.foldl gAdd none = none := by
  induction rs with
  | nil => rfl
  | cons r rs ih =>
    have hr : r.decisive = false := h r (by simp)
    have : gAdd none r = none := by simp [gAdd, hr]
    rw [List.foldl_cons, this]
    exact ih (fun x hx => h x (by simp [hx]))

theorem expected_nondec (rs : List Res) (h : ∀ r ∈ rs, r.decisive = false) :
    expected rs = Res.nm := by
  unfold expected; rw [foldl_gAdd_none rs h]; rfl

theorem expected_snoc_dec (rs : List Res) (r : Res) (h : ∀ x ∈ rs, x.decisive = false)
    (hd : r.decisive = true) : expected (rs ++ [r]) = r := by
  unfold expected
  rw [List.foldl_append, foldl_gAdd_none rs h]
  simp [gAdd, hd, gResult]

theorem expected_range_nondec (script : Nat → Res) (n : Nat)
    (h : ∀ j < n, (script j).decisive = false) :
    expected ((List.range n).map script) = Res.nm := by
  apply expected_nondec
  intro r hr
  simp only [List.mem_map, List.mem_range] at hr
  obtain ⟨j, hj, rfl⟩ := hr
  exact h j hj

theorem expected_range_dec (script : Nat → Res) (n : Nat)
    (h : ∀ j < n, (script j).decisive = false) (hd : (script n).decisive = true) :
    expected ((List.range (n + 1)).map script) = script n := by
  rw [List.range_succ, List.map_append]
  apply expected_snoc_dec _ _ _ hd
  intro r hr
  simp only [List.mem_map, List.mem_range] at hr
  obtain ⟨j, hj, rfl⟩ := hr
  exact h j hj

/-! ### The invariant -/

theorem eq_singleton_of_mem {l : List Nat} {i : Nat} (hl : l.length ≤ 1) (hi : i ∈ l) : l = [i] := by
  match l, hl, hi with
  | [x], _, hi => simp at hi; simp [hi]
  | _ :: _ :: _, hl, _ => simp at hl

/-- The invariant of the reachable states. `strict = true` is the variant for runs without
    `ctxDone` (the answer is then exactly the expected one). -/
structure Inv (strict : Bool) (script : Nat → Res) (s : St) : Prop where
  len_le : s.running.length ≤ 1
  nodup : s.running.Nodup
  last : ∀ i ∈ s.running, i + 1 = s.total
  lt_next : ∀ i ∈ s.running, i < s.nextAdd
  no_drop : s.dropped = 0
  next_total : s.nextAdd = s.total
  fin_le : s.finished ≤ s.total
  count : s.done = none → s.running.length + s.finished = s.total
  token : s.done = none → s.token = true → s.running = [] ∧ s.holder = false
  holder : s.done = none → s.holder = true → s.running = [] ∧ s.token = false
  fin : s.done = none → s.finalizing = true → s.running ≠ []
  drain : s.done ≠ none → s.drain = s.running.length
  nondec : s.done = none → ∀ j < s.finished, (script j).decisive = false
  nondec' : ∀ j, j + 1 < s.finished → (script j).decisive = false
  res : ∀ r, s.done = some r →
    r = expected ((List.range s.total).map script) ∨ (strict = false ∧ r = ctxErr)
  quiet : strict = true → s.done ≠ none → s.finished = s.total ∧ s.running = []

theorem inv_init (b : Bool) (script : Nat → Res) : Inv b script {} := by
  constructor <;> simp

theorem Inv.step {b : Bool} {script : Nat → Res} {s : St} {e : Ev} (h : Inv b script s)
    (he : enabled s e = true) (hc : b = true → e ≠ .ctxDone) : Inv b script (step script s e) := by
  obtain ⟨total, finished, finalizing, token, holder, nextAdd, running, done, drain, dropped⟩ := s
  obtain ⟨h1, h2, h3, h4, h5, h6, h7, h8, h9, h10, h11, h12, h13, h14, h15, h16⟩ := h
  simp only at h1 h2 h3 h4 h5 h6 h7 h8 h9 h10 h11 h12 h13 h14 h15 h16
  cases e with
  | reserve =>
    simp [enabled] at he
    obtain ⟨⟨hd, ht⟩, hh⟩ := he
    subst hd ht hh
    simp only [CG.step]
    constructor <;> simp_all
  | deliver =>
    simp [enabled] at he
    obtain ⟨hd, hh⟩ := he
    subst hd hh
    simp only [CG.step]
    split <;> constructor <;> simp_all <;> omega
  | finalize =>
    simp [enabled] at he
    subst he
    simp only [CG.step]
    split
    · constructor <;> simp_all
    · split
      · rename_i hf
        have hf' : finished = total := by simpa using hf
        constructor
        case res =>
          intro r hr
          simp only [complete, Option.some.injEq] at hr
          subst hr
          exact Or.inl (expected_range_nondec script total (hf' ▸ h13 rfl)).symm
        all_goals simp_all [complete]
      · rename_i hf
        have hf' : finished ≠ total := by simpa using hf
        constructor
        case fin =>
          intro _ _ hr
          simp only at hr
          have := h8 rfl
          simp only [hr, List.length_nil] at this
          omega
        all_goals simp_all
  | result i =>
    simp [enabled] at he
    obtain ⟨hd, hi⟩ := he
    subst hd
    have hr := eq_singleton_of_mem h1 hi
    subst hr
    have hfi : finished = i := by
      have a := h8 rfl
      have b := h3 i (by simp)
      simp only [List.length_singleton] at a
      omega
    have htot : total = i + 1 := (h3 i (by simp)).symm
    subst hfi htot
    have hnd := h13 rfl
    simp only [CG.step]
    split
    · rename_i hdec
      constructor
      case res =>
        intro r hr
        simp only [complete, Option.some.injEq] at hr
        subst hr
        exact Or.inl (expected_range_dec script finished hnd hdec).symm
      all_goals simp_all [complete]
    · rename_i hdec
      have hdec' : (script finished).decisive = false := by simpa using hdec
      have hall : ∀ j < finished + 1, (script j).decisive = false := by
        intro j hj
        rcases Nat.lt_succ_iff_lt_or_eq.mp hj with h | h
        · exact hnd j h
        · exact h ▸ hdec'
      split
      · constructor
        case res =>
          intro r hr
          simp only [complete, Option.some.injEq] at hr
          subst hr
          exact Or.inl (expected_range_nondec script _ hall).symm
        case nondec' => intro j hj; exact hall j (by simp only [complete] at hj; omega)
        all_goals simp_all [complete]
      · rename_i hfin
        have hfin' : finalizing = false := by simpa using hfin
        constructor
        case nondec => intro _; exact hall
        case nondec' => intro j hj; exact hall j (by simp only at hj; omega)
        all_goals simp_all
  | ctxDone =>
    simp [enabled] at he
    subst he
    simp only [CG.step]
    constructor
    case drain => intro _; have := h8 rfl; simp only [complete]; omega
    all_goals simp_all [complete]
  | drainRecv i =>
    simp [enabled] at he
    obtain ⟨⟨hd, hi⟩, hdr⟩ := he
    have hdn : done ≠ none := by intro h; simp [h] at hd
    simp only [CG.step]
    constructor
    case len_le => simp only [List.length_erase_of_mem hi]; omega
    case nodup => exact h2.erase i
    case last => intro j hj; exact h3 j (List.mem_of_mem_erase hj)
    case lt_next => intro j hj; exact h4 j (List.mem_of_mem_erase hj)
    case drain => intro _; simp only [List.length_erase_of_mem hi]; have := h12 hdn; omega
    all_goals simp_all

theorem Inv.result_idx {b : Bool} {script : Nat → Res} {s : St} {i : Nat} (h : Inv b script s)
    (he : enabled s (.result i) = true) : i = s.finished ∧ s.running = [i] := by
  simp [enabled] at he
  have hr := eq_singleton_of_mem h.len_le he.2
  have a := h.count he.1
  have c := h.last i he.2
  rw [hr] at a
  simp only [List.length_singleton] at a
  exact ⟨by omega, hr⟩

theorem step_finished_result (script : Nat → Res) (s : St) (i : Nat) :
    (step script s (.result i)).finished = s.finished + 1 := by
  simp only [step]
  split
  · rfl
  · split <;> rfl

theorem step_finished_other (script : Nat → Res) (s : St) (e : Ev) (h : ∀ i, e ≠ .result i) :
    (step script s e).finished = s.finished := by
  cases e with
  | result i => exact absurd rfl (h i)
  | reserve => rfl
  | deliver => simp only [step]; split <;> rfl
  | finalize =>
    simp only [step]
    split
    · rfl
    · split <;> rfl
  | ctxDone => rfl
  | drainRecv i => rfl

/-! ### Runs -/

theorem runFrom_inv {b : Bool} {script : Nat → Res} :
    ∀ (es : List Ev) (s s' : St), Inv b script s → (b = true → Ev.ctxDone ∉ es) →
      runFrom script s es = some s' → Inv b script s'
  | [], s, s', h, _, hr => by
    simp only [runFrom, Option.some.injEq] at hr
    exact hr ▸ h
  | e :: es, s, s', h, hc, hr => by
    simp only [runFrom] at hr
    split at hr
    · rename_i he
      refine runFrom_inv es _ s' (h.step he ?_) ?_ hr
      · intro hb heq
        exact hc hb (heq ▸ List.mem_cons_self)
      · intro hb hm
        exact hc hb (List.mem_cons_of_mem _ hm)
    · cases hr

theorem run_inv {b : Bool} {script : Nat → Res} {es : List Ev} {s : St}
    (hc : b = true → Ev.ctxDone ∉ es) (hr : run script es = some s) : Inv b script s :=
  runFrom_inv es _ s (inv_init b script) hc hr

/-! ### The ghost run: the results the consumer received, in order -/

def ghostStep (script : Nat → Res) (g : List (Nat × Res)) : Ev → List (Nat × Res)
  | .result i => g ++ [(i, script i)]
  | _ => g

/-- `runFrom` that also records the pairs `(i, script i)` the consumer received from `resultCh`
    (the receives of the drain goroutine are not recorded: their values are thrown away). -/
def runFromG (script : Nat → Res) : St → List (Nat × Res) → List Ev → Option (St × List (Nat × Res))
  | s, g, [] => some (s, g)
  | s, g, e :: es =>
    if enabled s e then runFromG script (step script s e) (ghostStep script g e) es else none

def runG (script : Nat → Res) (es : List Ev) : Option (St × List (Nat × Res)) :=
  runFromG script {} [] es

theorem runFromG_fst (script : Nat → Res) :
    ∀ (es : List Ev) (s : St) (g : List (Nat × Res)),
      (runFromG script s g es).map Prod.fst = runFrom script s es
  | [], _, _ => rfl
  | e :: es, s, g => by
    simp only [runFromG, runFrom]
    split
    · exact runFromG_fst script es _ _
    · rfl

theorem runG_fst (script : Nat → Res) (es : List Ev) :
    (runG script es).map Prod.fst = run script es := runFromG_fst script es _ _

theorem runG_run {script : Nat → Res} {es : List Ev} {s : St} {g : List (Nat × Res)}
    (h : runG script es = some (s, g)) : run script es = some s := by
  rw [← runG_fst, h]; rfl

theorem run_runG {script : Nat → Res} {es : List Ev} {s : St}
    (h : run script es = some s) : ∃ g, runG script es = some (s, g) := by
  rw [← runG_fst] at h
  match hg : runG script es, h with
  | some (s', g), h =>
    simp only [Option.map_some, Option.some.injEq] at h
    exact ⟨g, by rw [← h]⟩

def ghostOf (script : Nat → Res) (n : Nat) : List (Nat × Res) :=
  (List.range n).map (fun i => (i, script i))

theorem ghostOf_succ (script : Nat → Res) (n : Nat) :
    ghostOf script (n + 1) = ghostOf script n ++ [(n, script n)] := by
  simp [ghostOf, List.range_succ]

theorem ghostOf_dropLast (script : Nat → Res) (n : Nat) :
    (ghostOf script n).dropLast = ghostOf script (n - 1) := by
  cases n with
  | zero => rfl
  | succ n => rw [ghostOf_succ, List.dropLast_concat]; rfl

theorem mem_ghostOf {script : Nat → Res} {n : Nat} {p : Nat × Res} (h : p ∈ ghostOf script n) :
    p.1 < n ∧ p.2 = script p.1 := by
  simp only [ghostOf, List.mem_map, List.mem_range] at h
  obtain ⟨j, hj, rfl⟩ := h
  exact ⟨hj, rfl⟩

theorem runFromG_ghost {script : Nat → Res} :
    ∀ (es : List Ev) (s s' : St) (g g' : List (Nat × Res)), Inv false script s →
      g = ghostOf script s.finished → runFromG script s g es = some (s', g') →
      g' = ghostOf script s'.finished
  | [], s, s', g, g', _, hg, hr => by
    simp only [runFromG, Option.some.injEq, Prod.mk.injEq] at hr
    rw [← hr.1, ← hr.2]; exact hg
  | e :: es, s, s', g, g', h, hg, hr => by
    simp only [runFromG] at hr
    split at hr
    · rename_i he
      refine runFromG_ghost es _ s' _ g' (h.step he (fun hb => by cases hb)) ?_ hr
      cases e with
      | result i =>
        have hi := (h.result_idx he).1
        subst hi
        rw [step_finished_result, ghostOf_succ, hg]; rfl
      | reserve => rw [step_finished_other _ _ _ (fun _ => by simp), hg]; rfl
      | deliver => rw [step_finished_other _ _ _ (fun _ => by simp), hg]; rfl
      | finalize => rw [step_finished_other _ _ _ (fun _ => by simp), hg]; rfl
      | ctxDone => rw [step_finished_other _ _ _ (fun _ => by simp), hg]; rfl
      | drainRecv i => rw [step_finished_other _ _ _ (fun _ => by simp), hg]; rfl
    · cases hr

theorem runG_ghost {script : Nat → Res} {es : List Ev} {s : St} {g : List (Nat × Res)}
    (h : runG script es = some (s, g)) : g = ghostOf script s.finished :=
  runFromG_ghost es _ s _ g (inv_init false script) rfl h

/-! ### After completion: only the drain goroutine moves, and it finishes -/

theorem done_only_drain (s : St) (hd : s.done.isSome = true) (e : Ev) (he : ∀ i, e ≠ .drainRecv i) :
    enabled s e = false := by
  have hn : s.done.isNone = false := by cases h : s.done <;> simp_all
  cases e with
  | drainRecv i => exact absurd rfl (he i)
  | reserve => simp [enabled, hn]
  | deliver => simp [enabled, hn]
  | finalize => simp [enabled, hn]
  | result i => simp [enabled, hn]
  | ctxDone => simp [enabled, hn]

theorem terminal_nothing_enabled (s : St) (hd : s.done.isSome = true) (hr : s.running = []) (e : Ev) :
    enabled s e = false := by
  have hn : s.done.isNone = false := by cases h : s.done <;> simp_all
  cases e with
  | drainRecv i => simp [enabled, hr]
  | reserve => simp [enabled, hn]
  | deliver => simp [enabled, hn]
  | finalize => simp [enabled, hn]
  | result i => simp [enabled, hn]
  | ctxDone => simp [enabled, hn]

theorem drain_progress (script : Nat → Res) :
    ∀ (l : List Nat) (s : St), s.running = l → s.done.isSome = true → s.drain = l.length →
      ∃ s', runFrom script s (l.map Ev.drainRecv) = some s' ∧ s'.running = [] ∧ s'.drain = 0 ∧
        s'.done = s.done ∧ s'.total = s.total ∧ s'.finished = s.finished
  | [], s, hr, _, hn => ⟨s, rfl, hr, hn, rfl, rfl, rfl⟩
  | i :: l, s, hr, hd, hn => by
    have he : enabled s (.drainRecv i) = true := by
      simp [enabled, hd, hr, hn]
    have := drain_progress script l (step script s (.drainRecv i))
      (by simp [step, hr]) hd (by simp [step, hn])
    obtain ⟨s', h1, h2, h3, h4, h5, h6⟩ := this
    exact ⟨s', by simp only [List.map_cons, runFrom, he, if_true]; exact h1, h2, h3, h4, h5, h6⟩

end Keto.CG
