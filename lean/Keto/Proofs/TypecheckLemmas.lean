/-
  C11 helper lemmas.

  1. What the deferred type checks of the OPL parser (Keto/Model/Typecheck.lean) report: the
     errors a check adds do not depend on the errors reported so far (`runCheck_errors`), so the
     error list of the type-check phase is the concatenation of the errors of the single checks
     (`mem_typeCheck_errors`); a check adds no error iff its predicate (`checkOk`) holds.
  2. Which deferred checks the parser model emits (Keto/Model/Parser.lean): per production
     (`typeUnion_checks`, `related_decl_checks`; for permission expressions see `parseAtom_spec` in
     OplExprLemmas.lean) and for arbitrary input as an invariant of the whole parser (`parseItems_cov`:
     every type of every relation and every leaf of every rewrite of every parsed namespace is covered
     by a deferred check).
  3. What acceptance means for the engine: `TypeOk` (a decidable predicate on the configuration)
     follows from acceptance (`typeOk_of_cov`), and `TypeOk` + `PlainTraversals` + conforming tuples
     give `WellFormed` (`wellFormed_of_typeOk`).
-/
import Keto.Model.Typecheck
import Keto.Spec.WellFormed
import Keto.Spec.Membership
import Keto.Proofs.OplExprLemmas
import Keto.Proofs.OplDeclLemmas

namespace Keto.Opl
open Keto

/-! ### 1. the errors of the type-check phase -/

/-- The error of kind `k` pointing at the item `i`. -/
def PErr.at (k : ErrKind) (i : Item) : PErr := ⟨k, i.start, i.stop⟩

/-- The errors one iteration of the loop over the types adds (`recE`: the recursive call). -/
def typeErrs (recE : String → String → List PErr) (nss : List Namespace) (item : Item) (relation : String)
    (t : RelType) : List PErr :=
  if t.rel == "" then
    (if (findRelationT nss t.ns relation).isNone then [PErr.at .relNotDeclared item] else [])
  else recE t.ns t.rel

/-- The errors the loop over the types adds, latest first. -/
def typesErrs (recE : String → String → List PErr) (nss : List Namespace) (item : Item) (relation : String) :
    List RelType → List PErr
  | [] => []
  | t :: ts => typesErrs recE nss item relation ts ++ typeErrs recE nss item relation t

/-- The errors `recursiveCheckAllRelationsTypesHaveRelation` adds, latest first (`k = depth + 1`). -/
def recErrs (nss : List Namespace) (item : Item) (relation : String) : Nat → String → String → List PErr
  | 0, _, _ => [PErr.at .tcTooDeep item]
  | k+1, ns, relType =>
    match findRelationT nss ns relType with
    | none => [PErr.at .relNotDeclared item]
    | some r => typesErrs (recErrs nss item relation k) nss item relation r.types

/-- The errors one deferred check adds, latest first. -/
def checkErrs (nss : List Namespace) : TypeCheck → List PErr
  | .nsExists ns => if (findNsT nss (bstr ns.val)).isSome then [] else [PErr.at .nsNotDeclared ns]
  | .nsHasRelation ns rel =>
    match findNsT nss (bstr ns.val) with
    | some n => if (findRelT n.relations (bstr rel.val)).isSome then [] else [PErr.at .nsNoRelation rel]
    | none => [PErr.at .nsNotDeclared ns]
  | .curNsHasRelation cur rel =>
    match findNsT nss cur with
    | some n => if (findRelT n.relations (bstr rel.val)).isSome then [] else [PErr.at .nsNoRelation rel]
    | none => [PErr.at .nsNotDeclared rel]
  | .allTypesHaveRelation cur relType rel =>
    recErrs nss relType rel (Keto.Facts.tupleToSubjectSetTypeCheckMaxDepth + 1) cur (bstr relType.val)

/-- The errors a list of deferred checks adds, latest first. -/
def allErrs (nss : List Namespace) : List TypeCheck → List PErr
  | [] => []
  | c :: cs => allErrs nss cs ++ checkErrs nss c

@[simp] theorem TC.errors_tick (t : TC) : t.tick.errors = t.errors := rfl
@[simp] theorem TC.errors_err (t : TC) (i : Item) (k : ErrKind) : (t.err i k).errors = PErr.at k i :: t.errors := rfl

theorem typesLoop_errors (rec : String → String → TC → TC) (recE : String → String → List PErr)
    (hrec : ∀ a b tc, (rec a b tc).errors = recE a b ++ tc.errors) (nss : List Namespace) (item : Item)
    (relation : String) : ∀ (ts : List RelType) (tc : TC),
    (typesLoop rec nss item relation ts tc).errors = typesErrs recE nss item relation ts ++ tc.errors
  | [], tc => by simp [typesLoop, typesErrs]
  | t :: ts, tc => by
    unfold typesLoop
    simp only []
    rw [typesLoop_errors rec recE hrec nss item relation ts]
    simp only [typesErrs, typeErrs, List.append_assoc]
    congr 1
    split
    · split <;> simp
    · rw [hrec]; simp

theorem recCheck_errors (nss : List Namespace) (item : Item) (relation : String) :
    ∀ (k : Nat) (ns relType : String) (tc : TC),
      (recCheck nss item relation k ns relType tc).errors = recErrs nss item relation k ns relType ++ tc.errors
  | 0, _, _, tc => by simp [recCheck, recErrs]
  | k+1, ns, relType, tc => by
    unfold recCheck recErrs
    simp only []
    cases h : findRelationT nss ns relType with
    | none => simp
    | some r =>
      simp only []
      rw [typesLoop_errors _ _ (recCheck_errors nss item relation k)]
      simp

/-- The errors a check adds do not depend on the state of the type-check phase. -/
theorem runCheck_errors (nss : List Namespace) (c : TypeCheck) (tc : TC) :
    (runCheck nss c tc).errors = checkErrs nss c ++ tc.errors := by
  cases c with
  | nsExists ns => unfold runCheck checkErrs; simp only []; split <;> simp
  | nsHasRelation ns rel =>
    unfold runCheck checkErrs; simp only []
    cases h : findNsT nss (bstr ns.val) with
    | none => simp
    | some n => simp only []; split <;> simp
  | curNsHasRelation cur rel =>
    unfold runCheck checkErrs; simp only []
    cases h : findNsT nss cur with
    | none => simp
    | some n => simp only []; split <;> simp
  | allTypesHaveRelation cur relType rel =>
    unfold runCheck checkErrs; simp only []
    rw [recCheck_errors]; simp

theorem typeCheck_errors (nss : List Namespace) : ∀ (cs : List TypeCheck) (tc : TC),
    (typeCheck nss cs tc).errors = allErrs nss cs ++ tc.errors
  | [], tc => by simp [typeCheck, allErrs]
  | c :: cs, tc => by
    unfold typeCheck
    rw [typeCheck_errors nss cs, runCheck_errors]
    simp [allErrs]

theorem mem_allErrs (nss : List Namespace) (e : PErr) : ∀ cs : List TypeCheck,
    e ∈ allErrs nss cs ↔ ∃ c ∈ cs, e ∈ checkErrs nss c
  | [] => by simp [allErrs]
  | c :: cs => by
    simp only [allErrs, List.mem_append, mem_allErrs nss e cs, List.mem_cons]
    constructor
    · rintro (⟨c', h1, h2⟩ | h)
      · exact ⟨c', Or.inr h1, h2⟩
      · exact ⟨c, Or.inl rfl, h⟩
    · rintro ⟨c', rfl | h1, h2⟩
      · exact Or.inr h2
      · exact Or.inl ⟨c', h1, h2⟩

/-- The errors of the type-check phase are exactly the errors of the single checks. -/
theorem mem_typeCheck_errors (nss : List Namespace) (cs : List TypeCheck) (e : PErr) :
    e ∈ (typeCheck nss cs {}).errors ↔ ∃ c ∈ cs, e ∈ checkErrs nss c := by
  rw [typeCheck_errors]
  simp [mem_allErrs]

theorem allErrs_nil (nss : List Namespace) (cs : List TypeCheck) :
    allErrs nss cs = [] ↔ ∀ c ∈ cs, checkErrs nss c = [] := by
  constructor
  · intro h c hc
    cases he : checkErrs nss c with
    | nil => rfl
    | cons e es =>
      have : e ∈ allErrs nss cs := (mem_allErrs nss e cs).mpr ⟨c, hc, by rw [he]; simp⟩
      rw [h] at this
      cases this
  · intro h
    cases he : allErrs nss cs with
    | nil => rfl
    | cons e es =>
      obtain ⟨c, hc, hm⟩ := (mem_allErrs nss e cs).mp (by rw [he]; simp)
      rw [h c hc] at hm
      cases hm

/-! #### the predicates of the checks -/

/-- Some parsed namespace has the name `n`. -/
def Declared (nss : List Namespace) (n : String) : Prop := ∃ N ∈ nss, N.name = n

/-- The (first) namespace named `n` declares a relation (or permission) named `r`. -/
def HasRelation (nss : List Namespace) (n r : String) : Prop :=
  ∃ N, findNsT nss n = some N ∧ ∃ R ∈ N.relations, R.name = r

/-- The predicate of `checkAllRelationsTypesHaveRelation`, mirroring the depth-limited recursion of
    `recursiveCheckAllRelationsTypesHaveRelation` (`k = depth + 1`): `rel` is a relation of `ns`; every
    plain type `T` of `rel` declares `crel`; for every type `SubjectSet<T, r>` of `rel` the same holds of
    `r` in `T`, `k - 1` levels deep. At `k = 0` the check fails ("could not typecheck deeply nested
    SubjectSet further"). -/
def TypesHave (nss : List Namespace) (crel : String) : Nat → String → String → Prop
  | 0, _, _ => False
  | k+1, ns, rel =>
    ∃ R, findRelationT nss ns rel = some R ∧
      ∀ t ∈ R.types, (t.rel = "" → HasRelation nss t.ns crel) ∧ (t.rel ≠ "" → TypesHave nss crel k t.ns t.rel)

/-- The predicate a deferred check tests (one clause per kind of check). -/
def checkOk (nss : List Namespace) : TypeCheck → Prop
  /- `T[]`: the namespace `T` is declared -/
  | .nsExists ns => Declared nss (bstr ns.val)
  /- `SubjectSet<T, R>`: `T` is declared and declares `R` -/
  | .nsHasRelation ns rel => HasRelation nss (bstr ns.val) (bstr rel.val)
  /- `this.related.R.includes(…)`, `this.permits.R(ctx)`, `this.related.R.traverse(…)` in namespace `cur` -/
  | .curNsHasRelation cur rel => HasRelation nss cur (bstr rel.val)
  /- `this.related.R.traverse(x => x.related.C.includes(…) / x.permits.C(ctx))` in namespace `cur` -/
  | .allTypesHaveRelation cur relType crel =>
    TypesHave nss crel (Keto.Facts.tupleToSubjectSetTypeCheckMaxDepth + 1) cur (bstr relType.val)

/-- All deferred checks hold. -/
def checksOk (nss : List Namespace) (cs : List TypeCheck) : Prop := ∀ c ∈ cs, checkOk nss c

theorem findNsT_name {nss : List Namespace} {n : String} {N : Namespace} (h : findNsT nss n = some N) :
    N.name = n := by
  have := List.find?_some h
  simpa using this

theorem findNsT_mem {nss : List Namespace} {n : String} {N : Namespace} (h : findNsT nss n = some N) : N ∈ nss :=
  List.mem_of_find?_eq_some h

theorem findRelT_name {rs : List Relation} {r : String} {R : Relation} (h : findRelT rs r = some R) : R.name = r := by
  have := List.find?_some h
  simpa using this

theorem findRelT_mem {rs : List Relation} {r : String} {R : Relation} (h : findRelT rs r = some R) : R ∈ rs :=
  List.mem_of_find?_eq_some h

theorem findNsT_isSome_iff (nss : List Namespace) (n : String) : (findNsT nss n).isSome = true ↔ Declared nss n := by
  unfold findNsT Declared
  rw [List.find?_isSome]
  simp

theorem findNsT_none_iff (nss : List Namespace) (n : String) : findNsT nss n = none ↔ ∀ N ∈ nss, N.name ≠ n := by
  unfold findNsT
  rw [List.find?_eq_none]
  simp

theorem findRelT_isSome_iff (rs : List Relation) (r : String) : (findRelT rs r).isSome = true ↔ ∃ R ∈ rs, R.name = r := by
  unfold findRelT
  rw [List.find?_isSome]
  simp

theorem findRelT_none_iff (rs : List Relation) (r : String) : findRelT rs r = none ↔ ∀ R ∈ rs, R.name ≠ r := by
  unfold findRelT
  rw [List.find?_eq_none]
  simp

theorem findRelationT_isSome_iff (nss : List Namespace) (n r : String) :
    (findRelationT nss n r).isSome = true ↔ HasRelation nss n r := by
  unfold findRelationT HasRelation
  cases h : findNsT nss n with
  | none => simp
  | some N => simp [findRelT_isSome_iff]

theorem hasRelation_declared {nss : List Namespace} {n r : String} (h : HasRelation nss n r) : Declared nss n := by
  obtain ⟨N, hN, _⟩ := h
  exact ⟨N, findNsT_mem hN, findNsT_name hN⟩

theorem typesErrs_nil (recE : String → String → List PErr) (nss : List Namespace) (item : Item) (relation : String) :
    ∀ ts : List RelType, typesErrs recE nss item relation ts = [] ↔ ∀ t ∈ ts, typeErrs recE nss item relation t = []
  | [] => by simp [typesErrs]
  | t :: ts => by
    simp only [typesErrs, List.append_eq_nil_iff, typesErrs_nil recE nss item relation ts, List.mem_cons]
    constructor
    · rintro ⟨h1, h2⟩ x (rfl | hx)
      · exact h2
      · exact h1 x hx
    · intro h
      exact ⟨fun x hx => h x (Or.inr hx), h t (Or.inl rfl)⟩

theorem recErrs_nil (nss : List Namespace) (item : Item) (crel : String) : ∀ (k : Nat) (ns rel : String),
    recErrs nss item crel k ns rel = [] ↔ TypesHave nss crel k ns rel
  | 0, _, _ => by simp [recErrs, TypesHave]
  | k+1, ns, rel => by
    unfold recErrs TypesHave
    cases h : findRelationT nss ns rel with
    | none => simp
    | some R =>
      simp only [typesErrs_nil, Option.some.injEq, exists_eq_left']
      refine forall_congr' fun t => forall_congr' fun _ => ?_
      unfold typeErrs
      by_cases ht : t.rel = ""
      · have : (findRelationT nss t.ns crel).isNone = true ↔ ¬ HasRelation nss t.ns crel := by
          rw [← findRelationT_isSome_iff]
          cases findRelationT nss t.ns crel <;> simp
        simp only [ht, beq_self_eq_true, if_true, ne_eq, not_true_eq_false, false_implies, and_true, true_implies]
        by_cases hh : HasRelation nss t.ns crel
        · have hn : ¬ (findRelationT nss t.ns crel).isNone = true := fun h' => this.mp h' hh
          simp [hh, hn]
        · simp [hh, this.mpr hh]
      · have hb : (t.rel == "") = false := by simpa using ht
        simp only [hb, Bool.false_eq_true, if_false, ht, false_implies, true_and, ne_eq, not_false_eq_true, true_implies]
        exact recErrs_nil nss item crel k t.ns t.rel

/-- A check adds no error iff its predicate holds. -/
theorem checkErrs_nil (nss : List Namespace) (c : TypeCheck) : checkErrs nss c = [] ↔ checkOk nss c := by
  cases c with
  | nsExists ns =>
    simp only [checkErrs, checkOk]
    rw [← findNsT_isSome_iff]
    split <;> simp_all
  | nsHasRelation ns rel =>
    simp only [checkErrs, checkOk, HasRelation]
    cases h : findNsT nss (bstr ns.val) with
    | none => simp
    | some N =>
      simp only [Option.some.injEq, exists_eq_left', ← findRelT_isSome_iff]
      split <;> simp_all
  | curNsHasRelation cur rel =>
    simp only [checkErrs, checkOk, HasRelation]
    cases h : findNsT nss cur with
    | none => simp
    | some N =>
      simp only [Option.some.injEq, exists_eq_left', ← findRelT_isSome_iff]
      split <;> simp_all
  | allTypesHaveRelation cur relType rel =>
    simp only [checkErrs, checkOk]
    exact recErrs_nil _ _ _ _ _ _

/-- The type check reports no error iff all deferred checks hold. -/
theorem typeCheck_errors_nil (nss : List Namespace) (cs : List TypeCheck) :
    (typeCheck nss cs {}).errors = [] ↔ checksOk nss cs := by
  rw [typeCheck_errors]
  simp only [List.append_nil, allErrs_nil, checkErrs_nil]
  rfl

/-- Every error of the traverse check points at the item of the traversed relation. -/
theorem typesErrs_at (recE : String → String → List PErr) (nss : List Namespace) (item : Item) (relation : String)
    (hrec : ∀ a b, ∀ e ∈ recE a b, e.start = item.start ∧ e.stop = item.stop) :
    ∀ ts : List RelType, ∀ e ∈ typesErrs recE nss item relation ts, e.start = item.start ∧ e.stop = item.stop
  | [], e, he => by cases he
  | t :: ts, e, he => by
    simp only [typesErrs, List.mem_append] at he
    rcases he with he | he
    · exact typesErrs_at recE nss item relation hrec ts e he
    · unfold typeErrs at he
      split at he
      · split at he
        · simp at he; subst he; exact ⟨rfl, rfl⟩
        · cases he
      · exact hrec _ _ e he

theorem recErrs_at (nss : List Namespace) (item : Item) (relation : String) : ∀ (k : Nat) (ns rel : String),
    ∀ e ∈ recErrs nss item relation k ns rel, e.start = item.start ∧ e.stop = item.stop
  | 0, _, _, e, he => by
    simp [recErrs] at he; subst he; exact ⟨rfl, rfl⟩
  | k+1, ns, rel, e, he => by
    unfold recErrs at he
    split at he
    · simp at he; subst he; exact ⟨rfl, rfl⟩
    · exact typesErrs_at _ nss item relation (recErrs_at nss item relation k) _ e he

theorem mem_typesErrs_of_mem (recE : String → String → List PErr) (nss : List Namespace) (item : Item) (relation : String)
    (e : PErr) : ∀ (ts : List RelType) (t : RelType), t ∈ ts → e ∈ typeErrs recE nss item relation t →
      e ∈ typesErrs recE nss item relation ts
  | t' :: ts, t, ht, he => by
    simp only [typesErrs, List.mem_append]
    rcases List.mem_cons.mp ht with rfl | ht
    · exact Or.inr he
    · exact Or.inl (mem_typesErrs_of_mem recE nss item relation e ts t ht he)


/-! ### 2. the deferred checks the parser emits, for arbitrary input -/

theorem computedNamesL_append : ∀ a b : List Child,
    Child.computedNamesL (a ++ b) = Child.computedNamesL a ++ Child.computedNamesL b
  | [], b => by simp [Child.computedNamesL]
  | c :: a, b => by simp [Child.computedNamesL, computedNamesL_append a b]

theorem ttuNamesL_append : ∀ a b : List Child,
    Child.ttuNamesL (a ++ b) = Child.ttuNamesL a ++ Child.ttuNamesL b
  | [], b => by simp [Child.ttuNamesL]
  | c :: a, b => by simp [Child.ttuNamesL, ttuNamesL_append a b]

mutual
theorem computedNamesL_simplifyChildren (op : Op) : ∀ cs : List Child,
    Child.computedNamesL (simplifyChildren op cs) = Child.computedNamesL cs
  | [] => by simp [simplifyChildren]
  | c :: cs => by
    simp only [simplifyChildren, computedNamesL_append, Child.computedNamesL, computedNamesL_simplifyChild op c,
      computedNamesL_simplifyChildren op cs]
theorem computedNamesL_simplifyChild (op : Op) : ∀ c : Child,
    Child.computedNamesL (simplifyChild op c) = Child.computedNames c
  | .computed r => by simp [simplifyChild, Child.computedNamesL]
  | .ttu r c => by simp [simplifyChild, Child.computedNamesL]
  | .invert c => by simp [simplifyChild, Child.computedNamesL]
  | .rewrite op' cs => by
    simp only [simplifyChild]
    split
    · rw [computedNamesL_simplifyChildren op cs]
      simp [Child.computedNames]
    · simp [Child.computedNamesL]
end

mutual
theorem ttuNamesL_simplifyChildren (op : Op) : ∀ cs : List Child,
    Child.ttuNamesL (simplifyChildren op cs) = Child.ttuNamesL cs
  | [] => by simp [simplifyChildren]
  | c :: cs => by
    simp only [simplifyChildren, ttuNamesL_append, Child.ttuNamesL, ttuNamesL_simplifyChild op c,
      ttuNamesL_simplifyChildren op cs]
theorem ttuNamesL_simplifyChild (op : Op) : ∀ c : Child,
    Child.ttuNamesL (simplifyChild op c) = Child.ttuNames c
  | .computed r => by simp [simplifyChild, Child.ttuNamesL]
  | .ttu r c => by simp [simplifyChild, Child.ttuNamesL]
  | .invert c => by simp [simplifyChild, Child.ttuNamesL]
  | .rewrite op' cs => by
    simp only [simplifyChild]
    split
    · rw [ttuNamesL_simplifyChildren op cs]
      simp [Child.ttuNames]
    · simp [Child.ttuNamesL]
end

/-- A declared type is covered by a deferred check: `T[]` by `checkNamespaceExists(T)`,
    `SubjectSet<T, R>` by `checkNamespaceHasRelation(T, R)`. -/
def CovTy (cs : List TypeCheck) (ty : RelType) : Prop :=
  (ty.rel = "" ∧ ∃ i, TypeCheck.nsExists i ∈ cs ∧ bstr i.val = ty.ns) ∨
  (∃ a b, TypeCheck.nsHasRelation a b ∈ cs ∧ bstr a.val = ty.ns ∧ bstr b.val = ty.rel)

/-- The leaves of (a part of) a rewrite of namespace `cur` are covered by deferred checks: a computed
    subject set `r` by `checkCurrentNamespaceHasRelation(cur, r)`, a tuple-to-subject-set `rel`/`crel` by
    `checkAllRelationsTypesHaveRelation(cur, rel, crel)` and `checkCurrentNamespaceHasRelation(cur, rel)`. -/
structure CovChild (cs : List TypeCheck) (cur : String) (ch : Child) : Prop where
  computed : ∀ r ∈ ch.computedNames, ∃ i, TypeCheck.curNsHasRelation cur i ∈ cs ∧ bstr i.val = r
  ttu : ∀ q ∈ ch.ttuNames, ∃ i, TypeCheck.allTypesHaveRelation cur i q.2 ∈ cs ∧
    TypeCheck.curNsHasRelation cur i ∈ cs ∧ bstr i.val = q.1

def CovRel (cs : List TypeCheck) (cur : String) (R : Relation) : Prop :=
  (∀ ty ∈ R.types, CovTy cs ty) ∧ ∀ rw, R.rewrite = some rw → CovChild cs cur rw.toChild

def CovNs (cs : List TypeCheck) (N : Namespace) : Prop := ∀ R ∈ N.relations, CovRel cs N.name R

/-- Every parsed namespace and the namespace being parsed are covered by the deferred checks. -/
structure Cov (p : P) : Prop where
  nss : ∀ N ∈ p.nss, CovNs p.checks N
  ns : CovNs p.checks p.ns

theorem CovTy.mono {cs cs' : List TypeCheck} (h : ∀ c ∈ cs, c ∈ cs') {ty : RelType} (ht : CovTy cs ty) : CovTy cs' ty := by
  rcases ht with ⟨h1, i, hi, h2⟩ | ⟨a, b, hab, h1, h2⟩
  · exact Or.inl ⟨h1, i, h _ hi, h2⟩
  · exact Or.inr ⟨a, b, h _ hab, h1, h2⟩

theorem CovChild.mono {cs cs' : List TypeCheck} (h : ∀ c ∈ cs, c ∈ cs') {cur : String} {ch : Child}
    (hc : CovChild cs cur ch) : CovChild cs' cur ch := by
  refine ⟨fun r hr => ?_, fun q hq => ?_⟩
  · obtain ⟨i, h1, h2⟩ := hc.computed r hr
    exact ⟨i, h _ h1, h2⟩
  · obtain ⟨i, h1, h2, h3⟩ := hc.ttu q hq
    exact ⟨i, h _ h1, h _ h2, h3⟩

theorem CovRel.mono {cs cs' : List TypeCheck} (h : ∀ c ∈ cs, c ∈ cs') {cur : String} {R : Relation}
    (hc : CovRel cs cur R) : CovRel cs' cur R :=
  ⟨fun ty hty => (hc.1 ty hty).mono h, fun rw hrw => (hc.2 rw hrw).mono h⟩

theorem CovNs.mono {cs cs' : List TypeCheck} (h : ∀ c ∈ cs, c ∈ cs') {N : Namespace} (hc : CovNs cs N) : CovNs cs' N :=
  fun R hR => (hc R hR).mono h

/-- `CovChild` only depends on the names. -/
theorem CovChild.of_names {cs : List TypeCheck} {cur : String} {ch : Child}
    (hc : ∀ r ∈ ch.computedNames, ∃ ch', CovChild cs cur ch' ∧ r ∈ ch'.computedNames)
    (ht : ∀ q ∈ ch.ttuNames, ∃ ch', CovChild cs cur ch' ∧ q ∈ ch'.ttuNames) : CovChild cs cur ch := by
  refine ⟨fun r hr => ?_, fun q hq => ?_⟩
  · obtain ⟨ch', h1, h2⟩ := hc r hr
    exact h1.computed r h2
  · obtain ⟨ch', h1, h2⟩ := ht q hq
    exact h1.ttu q h2

theorem covChild_nil (cs : List TypeCheck) (cur : String) : CovChild cs cur nilRewrite :=
  ⟨fun r hr => by simp [nilRewrite, Child.computedNames, Child.computedNamesL] at hr,
   fun q hq => by simp [nilRewrite, Child.ttuNames, Child.ttuNamesL] at hq⟩

theorem CovChild.invert {cs : List TypeCheck} {cur : String} {ch : Child} (h : CovChild cs cur ch) :
    CovChild cs cur (.invert ch) :=
  ⟨fun r hr => h.computed r (by simpa [Child.computedNames] using hr),
   fun q hq => h.ttu q (by simpa [Child.ttuNames] using hq)⟩

theorem CovChild.op {cs : List TypeCheck} {cur : String} {r : Rewrite} (h : CovChild cs cur r.toChild) (op : Op) :
    CovChild cs cur (Rewrite.toChild ⟨op, [r.toChild]⟩) :=
  ⟨fun x hx => h.computed x (by simpa [Rewrite.toChild, Child.computedNames, Child.computedNamesL] using hx),
   fun q hq => h.ttu q (by simpa [Rewrite.toChild, Child.ttuNames, Child.ttuNamesL] using hq)⟩

theorem CovChild.simplify {cs : List TypeCheck} {cur : String} {r : Rewrite} (h : CovChild cs cur r.toChild) :
    CovChild cs cur (Rewrite.toChild ⟨r.op, simplifyChildren r.op r.children⟩) :=
  ⟨fun x hx => h.computed x (by
      simpa [Rewrite.toChild, Child.computedNames, computedNamesL_simplifyChildren] using hx),
   fun q hq => h.ttu q (by
      simpa [Rewrite.toChild, Child.ttuNames, ttuNamesL_simplifyChildren] using hq)⟩

theorem CovChild.addChild {cs : List TypeCheck} {cur : String} {root : Option Rewrite} {c : Child}
    (hr : ∀ r, root = some r → CovChild cs cur r.toChild) (hc : CovChild cs cur c) :
    CovChild cs cur (addChild root c).toChild := by
  cases root with
  | none =>
    cases c with
    | rewrite op cs' => exact hc
    | computed r =>
      exact ⟨fun x hx => hc.computed x (by simpa [Opl.addChild, Rewrite.toChild, Child.computedNames, Child.computedNamesL] using hx),
        fun q hq => by simp [Opl.addChild, Rewrite.toChild, Child.ttuNames, Child.ttuNamesL] at hq⟩
    | ttu a b =>
      exact ⟨fun x hx => by simp [Opl.addChild, Rewrite.toChild, Child.computedNames, Child.computedNamesL] at hx,
        fun q hq => hc.ttu q (by simpa [Opl.addChild, Rewrite.toChild, Child.ttuNames, Child.ttuNamesL] using hq)⟩
    | invert c' =>
      exact ⟨fun x hx => hc.computed x (by simpa [Opl.addChild, Rewrite.toChild, Child.computedNames, Child.computedNamesL] using hx),
        fun q hq => hc.ttu q (by simpa [Opl.addChild, Rewrite.toChild, Child.ttuNames, Child.ttuNamesL] using hq)⟩
  | some r =>
    have h := hr r rfl
    refine ⟨fun x hx => ?_, fun q hq => ?_⟩
    · have hx' : x ∈ Child.computedNamesL r.children ∨ x ∈ Child.computedNames c := by
        simpa [Opl.addChild, Rewrite.toChild, Child.computedNames, computedNamesL_append, Child.computedNamesL] using hx
      rcases hx' with h' | h'
      · exact h.computed x (by simpa [Rewrite.toChild, Child.computedNames] using h')
      · exact hc.computed x h'
    · have hq' : q ∈ Child.ttuNamesL r.children ∨ q ∈ Child.ttuNames c := by
        simpa [Opl.addChild, Rewrite.toChild, Child.ttuNames, ttuNamesL_append, Child.ttuNamesL] using hq
      rcases hq' with h' | h'
      · exact h.ttu q (by simpa [Rewrite.toChild, Child.ttuNames] using h')
      · exact hc.ttu q h'

/-- `q` is reached from `p` by parser actions that leave the namespaces alone and only add checks. -/
structure Ext (p q : P) : Prop where
  ns : q.ns = p.ns
  nss : q.nss = p.nss
  checks : ∀ c ∈ p.checks, c ∈ q.checks

theorem Ext.refl (p : P) : Ext p p := ⟨rfl, rfl, fun _ h => h⟩

theorem Ext.trans {p q r : P} (h1 : Ext p q) (h2 : Ext q r) : Ext p r :=
  ⟨h2.ns.trans h1.ns, h2.nss.trans h1.nss, fun c h => h2.checks c (h1.checks c h)⟩

theorem Ext.tick {p q : P} (h : Ext p q) : Ext p q.tick := ⟨h.ns, h.nss, h.checks⟩
theorem Ext.setPanic {p q : P} (h : Ext p q) : Ext p q.setPanic := ⟨h.ns, h.nss, h.checks⟩

theorem Ext.next {p q : P} (h : Ext p q) : Ext p q.next.2 := by
  unfold P.next
  split <;> exact ⟨h.ns, h.nss, h.checks⟩

theorem Ext.addErr {p q : P} (h : Ext p q) (i : Item) (k : ErrKind) : Ext p (q.addErr i k) := ⟨h.ns, h.nss, h.checks⟩
theorem Ext.addFatal {p q : P} (h : Ext p q) (i : Item) (k : ErrKind) : Ext p (q.addFatal i k) := ⟨h.ns, h.nss, h.checks⟩
theorem Ext.addCheck {p q : P} (h : Ext p q) (c : TypeCheck) : Ext p (q.addCheck c) :=
  ⟨h.ns, h.nss, fun c' hc' => List.mem_cons_of_mem _ (h.checks c' hc')⟩

theorem matchRest_ext : ∀ (ts : List (List UInt8)) (p : P), Ext p (matchRest ts p).2
  | [], p => Ext.refl p
  | t :: ts, p => by
    unfold matchRest
    simp only []
    split
    · exact (Ext.refl p).next.trans (matchRest_ext ts _)
    · exact (Ext.refl p).next.addFatal _ _

theorem optional_ext (ts : List (List UInt8)) (p : P) : Ext p (optional ts p).2 := by
  unfold optional
  split
  · exact Ext.refl p
  · split
    · exact (Ext.refl p).next.trans (matchRest_ext _ _)
    · exact Ext.refl p

theorem matchLoop_ext : ∀ (pats : List Pat) (caps : List Item) (p : P), Ext p (matchLoop pats caps p).2.2
  | [], caps, p => Ext.refl p
  | .lit t :: ps, caps, p => by
    unfold matchLoop
    simp only []
    split
    · exact (Ext.refl p).next.trans (matchLoop_ext ps caps _)
    · exact (Ext.refl p).next.addFatal _ _
  | .ident :: ps, caps, p => by
    unfold matchLoop
    simp only []
    split
    · exact (Ext.refl p).next.trans (matchLoop_ext ps _ _)
    · exact (Ext.refl p).next.addFatal _ _
  | .item :: ps, caps, p => by
    unfold matchLoop
    simp only []
    exact (Ext.refl p).next.trans (matchLoop_ext ps _ _)
  | .opt ts :: ps, caps, p => by
    unfold matchLoop
    simp only []
    split
    · exact (optional_ext ts p).trans (matchLoop_ext ps caps _)
    · exact optional_ext ts p

theorem mtch_ext (p : P) (pats : List Pat) : Ext p (p.mtch pats).2.2 := by
  unfold P.mtch
  split
  · exact Ext.refl p
  · exact matchLoop_ext pats [] p

theorem mtchIf_ext (p : P) (typ : ItemType) (pats : List Pat) : Ext p (p.mtchIf typ pats).2.2 := by
  unfold P.mtchIf
  split
  · exact Ext.refl p
  · split
    · exact Ext.refl p
    · exact mtch_ext p pats

theorem Ext.mtch {p q : P} (h : Ext p q) (pats : List Pat) : Ext p (q.mtch pats).2.2 := h.trans (mtch_ext q pats)
theorem Ext.mtchIf {p q : P} (h : Ext p q) (typ : ItemType) (pats : List Pat) : Ext p (q.mtchIf typ pats).2.2 :=
  h.trans (mtchIf_ext q typ pats)

theorem Ext.mpa {p q : P} (h : Ext p q) (pat : Pat) : Ext p (matchPropertyAccess pat q).2.2 := by
  unfold matchPropertyAccess
  simp only []
  split
  · exact h.mtchIf _ _
  · exact (h.mtchIf _ _).mtch _

/-- Backward chaining over the parser actions a state term is built from. -/
macro "ext_chain" : tactic => `(tactic| repeat' first
  | exact Ext.refl _
  | assumption
  | apply Ext.mtch
  | apply Ext.mtchIf
  | apply Ext.next
  | apply Ext.tick
  | apply Ext.setPanic
  | apply Ext.addFatal
  | apply Ext.addCheck
  | apply Ext.addErr
  | apply Ext.mpa)

/-- The result of parsing a permission check: the leaf is covered by the checks added. -/
def COk (p0 : P) (res : Option Child × P) : Prop :=
  Ext p0 res.2 ∧ ∀ c, res.1 = some c → CovChild res.2.checks res.2.ns.name c

/-- The result of parsing an expression: the leaves of the rewrite are covered. -/
def ROk (p0 : P) (res : Option Rewrite × P) : Prop :=
  Ext p0 res.2 ∧ ∀ rw, res.1 = some rw → CovChild res.2.checks res.2.ns.name rw.toChild

/-- The loop variable `root` is covered. -/
def RootOk (p : P) (root : Option Rewrite) : Prop := ∀ r, root = some r → CovChild p.checks p.ns.name r.toChild

theorem COk.none {p0 X : P} (h : Ext p0 X) : COk p0 (none, X) := ⟨h, fun c hc => by cases hc⟩

theorem COk.computed {p0 X : P} (h : Ext p0 X) (name : Item) :
    COk p0 (some (.computed (bstr name.val)), X.addCheck (.curNsHasRelation X.ns.name name)) := by
  refine ⟨h.addCheck _, fun c hc => ?_⟩
  cases hc
  refine ⟨fun r hr => ?_, fun q hq => ?_⟩
  · have : r = bstr name.val := by simpa [Child.computedNames] using hr
    subst this
    exact ⟨name, List.mem_cons_self, rfl⟩
  · simp [Child.ttuNames] at hq

theorem COk.ttu {p0 X : P} (h : Ext p0 X) (relation : Item) (ssr : String) :
    COk p0 (some (.ttu (bstr relation.val) ssr),
      (X.addCheck (.allTypesHaveRelation X.ns.name relation ssr)).addCheck
        (.curNsHasRelation (X.addCheck (.allTypesHaveRelation X.ns.name relation ssr)).ns.name relation)) := by
  refine ⟨(h.addCheck _).addCheck _, fun c hc => ?_⟩
  cases hc
  refine ⟨fun r hr => ?_, fun q hq => ?_⟩
  · simp [Child.computedNames] at hr
  · have : q = (bstr relation.val, ssr) := by simpa [Child.ttuNames] using hq
    subst this
    exact ⟨relation, List.mem_cons_of_mem _ List.mem_cons_self, List.mem_cons_self, rfl⟩

theorem ROk.none {p0 X : P} (h : Ext p0 X) : ROk p0 (none, X) := ⟨h, fun c hc => by cases hc⟩

theorem ROk.trans {p q : P} {res : Option Rewrite × P} (h : Ext p q) (hr : ROk q res) : ROk p res :=
  ⟨h.trans hr.1, hr.2⟩

theorem RootOk.ext {p q : P} {root : Option Rewrite} (hr : RootOk p root) (h : Ext p q) : RootOk q root := by
  intro r hroot
  rw [h.ns]
  exact (hr r hroot).mono h.checks

theorem ROk.root {p q : P} {root : Option Rewrite} (hr : RootOk p root) (h : Ext p q) : ROk p (root, q) :=
  ⟨h, fun rw hrw => hr.ext h rw hrw⟩

theorem RootOk.none (p : P) : RootOk p none := fun r hr => by cases hr

theorem RootOk.addChild {p : P} {root : Option Rewrite} {c : Child} (hr : RootOk p root)
    (hc : CovChild p.checks p.ns.name c) : RootOk p (some (addChild root c)) := by
  intro r h
  cases h
  exact CovChild.addChild hr hc

theorem RootOk.op {p : P} {r : Rewrite} (hr : RootOk p (some r)) (op : Op) : RootOk p (some ⟨op, [r.toChild]⟩) := by
  intro r' h
  cases h
  exact (hr r rfl).op op

theorem parseComputedSubjectSet_cov (relation : Item) (p0 p : P) (h0 : Ext p0 p) :
    COk p0 (parseComputedSubjectSet relation p) := by
  unfold parseComputedSubjectSet
  simp only []
  split
  · exact COk.none (by ext_chain)
  · exact COk.computed (by ext_chain) _

theorem parseTupleToSubjectSet_cov (relation : Item) (p0 p : P) (h0 : Ext p0 p) :
    COk p0 (parseTupleToSubjectSet relation p) := by
  unfold parseTupleToSubjectSet
  simp only []
  repeat' split
  all_goals first
    | exact COk.none (by ext_chain)
    | exact COk.ttu (by ext_chain) _ _

theorem parsePermissionExpression_cov (p0 p : P) (h0 : Ext p0 p) : COk p0 (parsePermissionExpression p) := by
  unfold parsePermissionExpression
  simp only []
  repeat' split
  all_goals first
    | exact parseTupleToSubjectSet_cov _ _ _ (by ext_chain)
    | exact parseComputedSubjectSet_cov _ _ _ (by ext_chain)
    | exact COk.none (by ext_chain)
    | exact COk.computed (by ext_chain) _

theorem covChild_inner {p : P} {res : Option Rewrite × P} (h : ROk p res) :
    CovChild res.2.checks res.2.ns.name (match res.1 with | none => nilRewrite | some ch => ch.toChild) := by
  obtain ⟨o, q⟩ := res
  cases o with
  | none => exact covChild_nil _ _
  | some ch => exact h.2 ch rfl

/-- The expression loop: the leaves of the rewrite it returns are covered by deferred checks. -/
theorem exprLoop_cov : ∀ (n : Nat) (fin : ItemType) (depth : Nat) (root : Option Rewrite) (expect : Bool) (p : P),
    RootOk p root → ROk p (exprLoop n fin depth root expect p)
  | 0, _, _, _, _, p, _ => by
    unfold exprLoop
    exact ROk.none (by ext_chain)
  | n+1, fin, depth, root, expect, p, hr => by
    unfold exprLoop
    by_cases hf : p.fatal = true
    · rw [if_pos hf]; exact ROk.none (Ext.refl p)
    · rw [if_neg hf]
      simp only []
      split
      · -- "("
        split
        · exact ROk.none (by ext_chain)
        · have e1 : Ext p p.tick.next.2 := by ext_chain
          have ih1 := exprLoop_cov n .parenRight (depth - 1) none true p.tick.next.2 (RootOk.none _)
          split
          · exact ROk.none (e1.trans ih1.1)
          · rename_i ch hch
            have e2 := e1.trans ih1.1
            exact ROk.trans e2 (exprLoop_cov n fin depth _ false _ ((hr.ext e2).addChild (ih1.2 ch hch)))
      · split
        · exact ROk.root hr (by ext_chain)
        · split
          · exact ROk.root hr (by ext_chain)
          · split
            · -- "&&" / "||"
              have e1 : Ext p p.tick.next.2 := by ext_chain
              split
              · exact ROk.none e1
              · exact ROk.trans e1 (exprLoop_cov n fin depth _ true _ ((hr.ext e1).op _))
            · split
              · -- "!"
                split
                · exact ROk.none (by ext_chain)
                · split
                  · split
                    · have e1 : Ext p (p.tick.next.2.next.2.addFatal p.tick.next.2.next.2.peek .nestedTooDeep) := by ext_chain
                      exact ROk.trans e1 (exprLoop_cov n fin depth _ false _
                        ((hr.ext e1).addChild (covChild_nil _ _).invert))
                    · have e1 : Ext p p.tick.next.2.next.2 := by ext_chain
                      have ih1 := exprLoop_cov n .parenRight (depth - 1 - 1) none true p.tick.next.2.next.2 (RootOk.none _)
                      have e2 := e1.trans ih1.1
                      exact ROk.trans e2 (exprLoop_cov n fin depth _ false _
                        ((hr.ext e2).addChild (covChild_inner ih1).invert))
                  · have e1 : Ext p p.tick.next.2 := by ext_chain
                    have ih1 := parsePermissionExpression_cov p.tick.next.2 p.tick.next.2 (Ext.refl _)
                    split
                    · exact ROk.none (e1.trans ih1.1)
                    · rename_i c hc
                      have e2 := e1.trans ih1.1
                      exact ROk.trans e2 (exprLoop_cov n fin depth _ false _
                        ((hr.ext e2).addChild (ih1.2 c hc).invert))
              · split
                · exact ROk.none (by ext_chain)
                · have e1 : Ext p p.tick := by ext_chain
                  have ih1 := parsePermissionExpression_cov p.tick p.tick (Ext.refl _)
                  split
                  · exact ROk.none (e1.trans ih1.1)
                  · rename_i c hc
                    have e2 := e1.trans ih1.1
                    exact ROk.trans e2 (exprLoop_cov n fin depth _ true _ ((hr.ext e2).addChild (ih1.2 c hc)))

theorem parsePermissionExpressions_cov (n : Nat) (fin : ItemType) (depth : Nat) (p : P) :
    ROk p (parsePermissionExpressions n fin depth p) := by
  unfold parsePermissionExpressions
  split
  · exact ROk.none (by ext_chain)
  · exact exprLoop_cov n fin depth none true p (RootOk.none p)


/-- The result of parsing types: every type is covered by a check. -/
def TOk (p0 : P) (res : List RelType × P) : Prop := Ext p0 res.2 ∧ ∀ ty ∈ res.1, CovTy res.2.checks ty

theorem matchSubjectSet_cov (p0 p : P) (h0 : Ext p0 p) :
    Ext p0 (matchSubjectSet p).2 ∧ CovTy (matchSubjectSet p).2.checks (matchSubjectSet p).1 := by
  unfold matchSubjectSet
  simp only []
  exact ⟨by ext_chain, Or.inr ⟨_, _, List.mem_cons_self, rfl, rfl⟩⟩

theorem TOk.snoc {p0 p q : P} {types : List RelType} {ty : RelType} (h0 : Ext p0 q) (hpq : Ext p q)
    (ht : ∀ t ∈ types, CovTy p.checks t) (hty : CovTy q.checks ty) : TOk p0 (types ++ [ty], q) := by
  refine ⟨h0, fun t h => ?_⟩
  rcases List.mem_append.mp h with h | h
  · exact (ht t h).mono hpq.checks
  · simp at h; subst h; exact hty

theorem parseTypeUnion_cov (endTok : ItemType) : ∀ (n : Nat) (types : List RelType) (p0 p : P),
    Ext p0 p → (∀ ty ∈ types, CovTy p.checks ty) → TOk p0 (parseTypeUnion endTok n types p)
  | 0, types, p0, p, h0, ht => by
    unfold parseTypeUnion
    exact ⟨by ext_chain, ht⟩
  | n+1, types, p0, p, h0, ht => by
    unfold parseTypeUnion
    by_cases hf : p.fatal = true
    · rw [if_pos hf]; exact ⟨h0, ht⟩
    · rw [if_neg hf]
      simp only []
      generalize htp : (if valIs (cap (p.tick.mtch [Pat.item]).2.1 0) b!"SubjectSet" = true then
          (types ++ [(matchSubjectSet (p.tick.mtch [Pat.item]).2.2).1], (matchSubjectSet (p.tick.mtch [Pat.item]).2.2).2)
        else (types ++ [(⟨bstr (cap (p.tick.mtch [Pat.item]).2.1 0).val, ""⟩ : RelType)],
              (p.tick.mtch [Pat.item]).2.2.addCheck (.nsExists (cap (p.tick.mtch [Pat.item]).2.1 0)))) = tp
      have htp0 : TOk p0 tp := by
        rw [← htp]
        split
        · have hm := matchSubjectSet_cov p (p.tick.mtch [Pat.item]).2.2 (by ext_chain)
          exact TOk.snoc (h0.trans hm.1) hm.1 ht hm.2
        · exact TOk.snoc (by ext_chain) (by ext_chain : Ext p _) ht
            (Or.inl ⟨rfl, _, List.mem_cons_self, rfl⟩)
      have hnx : ∀ ty ∈ tp.1, CovTy tp.2.next.2.checks ty :=
        fun ty h => (htp0.2 ty h).mono (Ext.refl tp.2).next.checks
      split
      · exact ⟨htp0.1.next, hnx⟩
      · split
        · exact parseTypeUnion_cov endTok n _ p0 _ htp0.1.next hnx
        · exact parseTypeUnion_cov endTok n _ p0 _ (htp0.1.next.addFatal _ _) hnx

/-- `q` is reached from `p` inside one class body: the name of the current namespace and the parsed
    namespaces are kept, checks are only added, and the current namespace stays covered. -/
structure Step (p q : P) : Prop where
  name : q.ns.name = p.ns.name
  nss : q.nss = p.nss
  checks : ∀ c ∈ p.checks, c ∈ q.checks
  cov : CovNs p.checks p.ns → CovNs q.checks q.ns

theorem Step.refl (p : P) : Step p p := ⟨rfl, rfl, fun _ h => h, id⟩

theorem Step.ext {p0 p q : P} (h0 : Step p0 p) (h : Ext p q) : Step p0 q :=
  ⟨by rw [h.ns]; exact h0.name, h.nss.trans h0.nss, fun c hc => h.checks c (h0.checks c hc),
   fun hc => by rw [h.ns]; exact (h0.cov hc).mono h.checks⟩

theorem Step.addRelation {p0 q : P} (h0 : Step p0 q) (R : Relation) (hR : CovRel q.checks q.ns.name R) :
    Step p0 (q.addRelation R) := by
  refine ⟨h0.name, h0.nss, h0.checks, fun hc R' hR' => ?_⟩
  have hR'' : R' ∈ q.ns.relations ∨ R' = R := by simpa [P.addRelation] using hR'
  rcases hR'' with h | h
  · exact h0.cov hc R' h
  · subst h; exact hR

theorem covRel_types {cs : List TypeCheck} {cur name : String} {types : List RelType}
    (h : ∀ ty ∈ types, CovTy cs ty) : CovRel cs cur ⟨name, types, none⟩ :=
  ⟨h, fun rw hrw => by cases hrw⟩

theorem relatedLoop_step : ∀ (n : Nat) (p0 p : P), Step p0 p → Step p0 (relatedLoop n p)
  | 0, p0, p, h0 => by
    unfold relatedLoop
    exact h0.ext (by ext_chain)
  | n+1, p0, p, h0 => by
    unfold relatedLoop
    by_cases hf : p.fatal = true
    · rw [if_pos hf]; exact h0
    · rw [if_neg hf]
      simp only []
      split
      · exact relatedLoop_step n p0 _ (h0.ext (by ext_chain))
      · split
        · exact h0.ext (by ext_chain)
        · split
          · split
            · -- Array<…>
              have e1 : Ext p ((p.tick.next.2.mtch [Pat.lit b!":"]).2.2.next.2.mtch [Pat.lit b!"<"]).2.2 := by ext_chain
              have htu := parseTypeUnion_cov .angledRight n [] _ _
                (Ext.refl ((p.tick.next.2.mtch [Pat.lit b!":"]).2.2.next.2.mtch [Pat.lit b!"<"]).2.2) (fun ty h => by cases h)
              exact relatedLoop_step n p0 _ ((h0.ext (e1.trans htu.1)).addRelation _ (covRel_types htu.2))
            · split
              · -- SubjectSet<…>[]
                have e1 : Ext p (p.tick.next.2.mtch [Pat.lit b!":"]).2.2.next.2 := by ext_chain
                have hm := matchSubjectSet_cov _ _ (Ext.refl (p.tick.next.2.mtch [Pat.lit b!":"]).2.2.next.2)
                have e2 : Ext (matchSubjectSet (p.tick.next.2.mtch [Pat.lit b!":"]).2.2.next.2).2
                    ((matchSubjectSet (p.tick.next.2.mtch [Pat.lit b!":"]).2.2.next.2).2.mtch
                      [.lit b!"[", .lit b!"]", .opt [b!","]]).2.2 := by ext_chain
                refine relatedLoop_step n p0 _ ((h0.ext ((e1.trans hm.1).trans e2)).addRelation _ (covRel_types ?_))
                intro ty hty
                simp at hty; subst hty
                exact hm.2.mono e2.checks
              · split
                · -- (A | B)[]
                  have e1 : Ext p (p.tick.next.2.mtch [Pat.lit b!":"]).2.2.next.2 := by ext_chain
                  have htu := parseTypeUnion_cov .parenRight n [] _ _
                    (Ext.refl (p.tick.next.2.mtch [Pat.lit b!":"]).2.2.next.2) (fun ty h => by cases h)
                  have e2 : Ext (parseTypeUnion .parenRight n [] (p.tick.next.2.mtch [Pat.lit b!":"]).2.2.next.2).2
                      ((parseTypeUnion .parenRight n [] (p.tick.next.2.mtch [Pat.lit b!":"]).2.2.next.2).2.mtch
                        [.lit b!"[", .lit b!"]", .opt [b!","]]).2.2 := by ext_chain
                  exact relatedLoop_step n p0 _ ((h0.ext ((e1.trans htu.1).trans e2)).addRelation _
                    (covRel_types (fun ty hty => (htu.2 ty hty).mono e2.checks)))
                · -- T[]
                  have e1 : Ext p (p.tick.next.2.mtch [Pat.lit b!":"]).2.2.next.2 := by ext_chain
                  have e2 : Ext ((p.tick.next.2.mtch [Pat.lit b!":"]).2.2.next.2.addCheck
                        (.nsExists (p.tick.next.2.mtch [Pat.lit b!":"]).2.2.next.1))
                      (((p.tick.next.2.mtch [Pat.lit b!":"]).2.2.next.2.addCheck
                        (.nsExists (p.tick.next.2.mtch [Pat.lit b!":"]).2.2.next.1)).mtch
                          [.lit b!"[", .lit b!"]", .opt [b!","]]).2.2 := by ext_chain
                  refine relatedLoop_step n p0 _ ((h0.ext ((e1.addCheck _).trans e2)).addRelation _ (covRel_types ?_))
                  intro ty hty
                  simp at hty; subst hty
                  exact Or.inl ⟨rfl, _, e2.checks _ List.mem_cons_self, rfl⟩
          · exact h0.ext (by ext_chain)

theorem parseRelated_step (n : Nat) (p0 p : P) (h0 : Step p0 p) : Step p0 (parseRelated n p) := by
  unfold parseRelated
  exact relatedLoop_step n p0 _ (h0.ext (by ext_chain))

theorem simplifyExpression_some {root : Option Rewrite} {rw : Rewrite} (h : simplifyExpression root = some rw) :
    ∃ r, root = some r ∧ rw = ⟨r.op, simplifyChildren r.op r.children⟩ := by
  cases root with
  | none => simp [simplifyExpression] at h
  | some r => exact ⟨r, rfl, by simpa [simplifyExpression] using h.symm⟩

theorem permitsLoop_step : ∀ (n : Nat) (p0 p : P), Step p0 p → Step p0 (permitsLoop n p)
  | 0, p0, p, h0 => by
    unfold permitsLoop
    exact h0.ext (by ext_chain)
  | n+1, p0, p, h0 => by
    unfold permitsLoop
    by_cases hf : p.fatal = true
    · rw [if_pos hf]; exact h0
    · rw [if_neg hf]
      simp only []
      split
      · exact h0.ext (by ext_chain)
      · split
        · have e1 : Ext p (p.tick.next.2.mtch [.lit b!":", .lit b!"(", .lit b!"ctx", .opt [b!":", b!"Context"],
              .lit b!")", .opt [b!":", b!"boolean"], .lit b!"=>"]).2.2 := by ext_chain
          have he := parsePermissionExpressions_cov n .opComma Keto.Facts.expressionNestingMaxDepth
            (p.tick.next.2.mtch [.lit b!":", .lit b!"(", .lit b!"ctx", .opt [b!":", b!"Context"],
              .lit b!")", .opt [b!":", b!"boolean"], .lit b!"=>"]).2.2
          split
          · exact h0.ext (e1.trans he.1)
          · rename_i rw hrw
            obtain ⟨r, hr1, hr2⟩ := simplifyExpression_some hrw
            refine permitsLoop_step n p0 _ ((h0.ext (e1.trans he.1)).addRelation _ ⟨fun ty h => (by cases h), ?_⟩)
            intro rw' hrw'
            cases hrw'
            rw [hr2]
            exact (he.2 r hr1).simplify
        · exact h0.ext (by ext_chain)

theorem parsePermits_step (n : Nat) (p0 p : P) (h0 : Step p0 p) : Step p0 (parsePermits n p) := by
  unfold parsePermits
  exact permitsLoop_step n p0 _ (h0.ext (by ext_chain))

/-- `q` is reached from `p` by the parser: checks are only added and coverage is kept. -/
structure Top (p q : P) : Prop where
  checks : ∀ c ∈ p.checks, c ∈ q.checks
  cov : Cov p → Cov q

theorem Top.refl (p : P) : Top p p := ⟨fun _ h => h, id⟩

theorem Top.trans {p q r : P} (h1 : Top p q) (h2 : Top q r) : Top p r :=
  ⟨fun c h => h2.checks c (h1.checks c h), fun h => h2.cov (h1.cov h)⟩

theorem Step.top {p q : P} (h : Step p q) : Top p q :=
  ⟨h.checks, fun hc => ⟨fun N hN => (hc.nss N (by rw [← h.nss]; exact hN)).mono h.checks, h.cov hc.ns⟩⟩

theorem Ext.top {p q : P} (h : Ext p q) : Top p q := ((Step.refl p).ext h).top

theorem classLoop_top : ∀ (n : Nat) (p0 p : P), Top p0 p → Top p0 (classLoop n p)
  | 0, p0, p, h0 => by
    unfold classLoop
    exact h0.trans (Ext.top (by ext_chain))
  | n+1, p0, p, h0 => by
    unfold classLoop
    by_cases hf : p.fatal = true
    · rw [if_pos hf]; exact h0
    · rw [if_neg hf]
      simp only []
      have e1 : Ext p p.tick.next.2 := by ext_chain
      split
      · refine h0.trans ⟨e1.checks, fun hc => ?_⟩
        have hc1 := e1.top.cov hc
        refine ⟨fun N hN => ?_, hc1.ns⟩
        rcases List.mem_append.mp hN with h | h
        · exact hc1.nss N h
        · simp at h; subst h; exact hc1.ns
      · split
        · exact classLoop_top n p0 _ (h0.trans (parseRelated_step n p p.tick.next.2 ((Step.refl p).ext e1)).top)
        · split
          · exact classLoop_top n p0 _ (h0.trans (parsePermits_step n p p.tick.next.2 ((Step.refl p).ext e1)).top)
          · split
            · exact classLoop_top n p0 _ (h0.trans e1.top)
            · exact h0.trans (Ext.top (by ext_chain))

theorem parseClass_top (n : Nat) (p0 p : P) (h0 : Top p0 p) : Top p0 (parseClass n p) := by
  unfold parseClass
  simp only []
  refine classLoop_top n p0 _ (h0.trans ?_)
  have e1 : Ext p (p.mtch [.ident, .lit b!"implements", .lit b!"Namespace", .lit b!"{"]).2.2 := by ext_chain
  refine ⟨e1.checks, fun hc => ⟨(e1.top.cov hc).nss, ?_⟩⟩
  intro R hR
  cases hR

theorem parseLoop_top : ∀ (n : Nat) (p0 p : P), Top p0 p → Top p0 (parseLoop n p)
  | 0, p0, p, h0 => by
    unfold parseLoop
    exact h0.trans (Ext.top (by ext_chain))
  | n+1, p0, p, h0 => by
    unfold parseLoop
    by_cases hf : p.fatal = true
    · rw [if_pos hf]; exact h0
    · rw [if_neg hf]
      simp only []
      have e1 : Ext p p.tick.next.2 := by ext_chain
      split
      · exact h0.trans e1.top
      · split
        · exact parseLoop_top n p0 _ (h0.trans (Ext.top (by ext_chain)))
        · split
          · exact parseLoop_top n p0 _ (parseClass_top n p0 _ (h0.trans e1.top))
          · exact parseLoop_top n p0 _ (h0.trans e1.top)

/-- **Coverage.** Whatever the input: every type of every relation and every leaf of every rewrite of
    every namespace the syntax phase produced is covered by a deferred check. -/
theorem parseItems_cov (items : List Item) : ∀ N ∈ (parseItems items).nss, CovNs (parseItems items).checks N := by
  unfold parseItems
  simp only []
  have h := parseLoop_top ((items.filter (fun i => !isComment i)).length + 2)
    { toks := items.filter (fun i => !isComment i) } { toks := items.filter (fun i => !isComment i) } (Top.refl _)
  exact (h.cov ⟨fun N hN => (by cases hN), fun R hR => (by cases hR)⟩).nss

end Keto.Opl

/-! ### 3. what acceptance means for the engine -/

namespace Keto
open Keto.Opl

/-- A declared type resolves: the namespace of `T[]` exists, `SubjectSet<T, R>` names a relation of `T`. -/
def relTypeOkB (c : Cfg) (ty : RelType) : Bool :=
  if ty.rel == "" then (findNsT c ty.ns).isSome else (findRelationT c ty.ns ty.rel).isSome

/-- `TypesHave` as a Boolean function. -/
def typesHaveB (c : Cfg) (crel : String) : Nat → String → String → Bool
  | 0, _, _ => false
  | k+1, ns, rel =>
    match findRelationT c ns rel with
    | none => false
    | some R => R.types.all fun t =>
        if t.rel == "" then (findRelationT c t.ns crel).isSome else typesHaveB c crel k t.ns t.rel

/-- The leaves of a rewrite of namespace `cur` resolve: computed subject sets and traversed relations are
    relations of `cur`; the target of a traversal is declared in every type of the traversed relation
    (as the type checker understands it: `TypesHave`). -/
def rewriteOkB (c : Cfg) (cur : String) (rw : Rewrite) : Bool :=
  (computedNames rw).all (fun r => (findRelationT c cur r).isSome) &&
  (ttuNames rw).all (fun q => (findRelationT c cur q.1).isSome &&
    typesHaveB c q.2 (Keto.Facts.tupleToSubjectSetTypeCheckMaxDepth + 1) cur q.1)

def relationOkB (c : Cfg) (cur : String) (R : Relation) : Bool :=
  R.types.all (relTypeOkB c) &&
  match R.rewrite with
  | none => true
  | some rw => rewriteOkB c cur rw

def typeOkB (c : Cfg) : Bool := c.all fun N => N.relations.all (relationOkB c N.name)

/-- The configuration type-checks: what the deferred checks of the OPL parser establish, stated on the
    configuration itself (decidable). Lookups are by name, first match, as in the type checker. -/
def TypeOk (c : Cfg) : Prop := typeOkB c = true

instance (c : Cfg) : Decidable (TypeOk c) := inferInstanceAs (Decidable (typeOkB c = true))

def plainTraversalsB (c : Cfg) : Bool :=
  c.all fun N => N.relations.all fun R =>
    match R.rewrite with
    | none => true
    | some rw => (ttuNames rw).all fun q =>
        match findRelationT c N.name q.1 with
        | none => false
        | some Rr => Rr.types.all fun ty => ty.rel == ""

/-- Every relation that is traversed (`this.related.rel.traverse(…)`) in a rewrite of a namespace is
    declared in that namespace with plain namespace types only (`T[]`, no `SubjectSet<T, R>`). -/
def PlainTraversals (c : Cfg) : Prop := plainTraversalsB c = true

instance (c : Cfg) : Decidable (PlainTraversals c) := inferInstanceAs (Decidable (plainTraversalsB c = true))

theorem typesHaveB_iff (c : Cfg) (crel : String) : ∀ (k : Nat) (ns rel : String),
    typesHaveB c crel k ns rel = true ↔ TypesHave c crel k ns rel
  | 0, _, _ => by simp [typesHaveB, TypesHave]
  | k+1, ns, rel => by
    unfold typesHaveB TypesHave
    cases h : findRelationT c ns rel with
    | none => simp
    | some R =>
      simp only [List.all_eq_true, Option.some.injEq, exists_eq_left']
      refine forall_congr' fun t => forall_congr' fun _ => ?_
      by_cases ht : t.rel = ""
      · simp [ht, findRelationT_isSome_iff]
      · have hb : (t.rel == "") = false := by simpa using ht
        simp only [hb, Bool.false_eq_true, if_false, ht, false_implies, true_and, ne_eq, not_false_eq_true, true_implies]
        exact typesHaveB_iff c crel k t.ns t.rel

theorem TypeOk.relation {c : Cfg} (h : TypeOk c) {N : Namespace} (hN : N ∈ c) {R : Relation} (hR : R ∈ N.relations) :
    relationOkB c N.name R = true := by
  unfold TypeOk typeOkB at h
  exact List.all_eq_true.mp (List.all_eq_true.mp h N hN) R hR

theorem TypeOk.types {c : Cfg} (h : TypeOk c) {N : Namespace} (hN : N ∈ c) {R : Relation} (hR : R ∈ N.relations)
    {ty : RelType} (hty : ty ∈ R.types) : relTypeOkB c ty = true := by
  have := h.relation hN hR
  unfold relationOkB at this
  exact List.all_eq_true.mp (Bool.and_eq_true _ _ |>.mp this).1 ty hty

theorem TypeOk.rewrite {c : Cfg} (h : TypeOk c) {N : Namespace} (hN : N ∈ c) {R : Relation} (hR : R ∈ N.relations)
    {rw : Rewrite} (hrw : R.rewrite = some rw) : rewriteOkB c N.name rw = true := by
  have := h.relation hN hR
  unfold relationOkB at this
  rw [hrw] at this
  exact (Bool.and_eq_true _ _ |>.mp this).2

theorem TypeOk.computed {c : Cfg} (h : TypeOk c) {N : Namespace} (hN : N ∈ c) {R : Relation} (hR : R ∈ N.relations)
    {rw : Rewrite} (hrw : R.rewrite = some rw) {r : String} (hr : r ∈ computedNames rw) :
    (findRelationT c N.name r).isSome = true := by
  have := h.rewrite hN hR hrw
  unfold rewriteOkB at this
  exact List.all_eq_true.mp (Bool.and_eq_true _ _ |>.mp this).1 r hr

theorem TypeOk.ttu {c : Cfg} (h : TypeOk c) {N : Namespace} (hN : N ∈ c) {R : Relation} (hR : R ∈ N.relations)
    {rw : Rewrite} (hrw : R.rewrite = some rw) {q : String × String} (hq : q ∈ ttuNames rw) :
    TypesHave c q.2 (Keto.Facts.tupleToSubjectSetTypeCheckMaxDepth + 1) N.name q.1 := by
  have := h.rewrite hN hR hrw
  unfold rewriteOkB at this
  have := List.all_eq_true.mp (Bool.and_eq_true _ _ |>.mp this).2 q hq
  exact (typesHaveB_iff _ _ _ _ _).mp (Bool.and_eq_true _ _ |>.mp this).2

theorem PlainTraversals.plain {c : Cfg} (h : PlainTraversals c) {N : Namespace} (hN : N ∈ c) {R : Relation}
    (hR : R ∈ N.relations) {rw : Rewrite} (hrw : R.rewrite = some rw) {q : String × String} (hq : q ∈ ttuNames rw) :
    ∃ Rr, findRelationT c N.name q.1 = some Rr ∧ ∀ ty ∈ Rr.types, ty.rel = "" := by
  unfold PlainTraversals plainTraversalsB at h
  have := List.all_eq_true.mp (List.all_eq_true.mp h N hN) R hR
  rw [hrw] at this
  have := List.all_eq_true.mp this q hq
  cases hf : findRelationT c N.name q.1 with
  | none => rw [hf] at this; cases this
  | some Rr =>
    rw [hf] at this
    exact ⟨Rr, rfl, fun ty hty => by simpa using List.all_eq_true.mp this ty hty⟩

/-- **Acceptance ⇒ `TypeOk`.** If the deferred checks cover the namespaces (`parseItems_cov`) and all
    hold, the configuration type-checks. -/
theorem typeOk_of_cov {nss : List Namespace} {cs : List TypeCheck} (hcov : ∀ N ∈ nss, CovNs cs N)
    (hok : checksOk nss cs) : TypeOk nss := by
  unfold TypeOk typeOkB
  refine List.all_eq_true.mpr fun N hN => List.all_eq_true.mpr fun R hR => ?_
  obtain ⟨hty, hrw⟩ := hcov N hN R hR
  unfold relationOkB
  refine Bool.and_eq_true _ _ |>.mpr ⟨List.all_eq_true.mpr fun ty h => ?_, ?_⟩
  · unfold relTypeOkB
    rcases hty ty h with ⟨h1, i, hi, h2⟩ | ⟨a, b, hab, h1, h2⟩
    · have : Declared nss (bstr i.val) := hok _ hi
      rw [h2] at this
      simp [h1, findNsT_isSome_iff, this]
    · have : HasRelation nss (bstr a.val) (bstr b.val) := hok _ hab
      rw [h1, h2] at this
      split
      · exact (findNsT_isSome_iff _ _).mpr (hasRelation_declared this)
      · exact (findRelationT_isSome_iff _ _ _).mpr this
  · cases hr : R.rewrite with
    | none => rfl
    | some rw =>
      have hc := hrw rw hr
      simp only []
      unfold rewriteOkB
      refine Bool.and_eq_true _ _ |>.mpr ⟨List.all_eq_true.mpr fun r h => ?_, List.all_eq_true.mpr fun q h => ?_⟩
      · obtain ⟨i, hi, h2⟩ := hc.computed r h
        have : HasRelation nss N.name (bstr i.val) := hok _ hi
        rw [h2] at this
        exact (findRelationT_isSome_iff _ _ _).mpr this
      · obtain ⟨i, hi1, hi2, h2⟩ := hc.ttu q h
        have h1 : HasRelation nss N.name (bstr i.val) := hok _ hi2
        have h3 : TypesHave nss q.2 (Keto.Facts.tupleToSubjectSetTypeCheckMaxDepth + 1) N.name (bstr i.val) := hok _ hi1
        rw [h2] at h1 h3
        exact Bool.and_eq_true _ _ |>.mpr ⟨(findRelationT_isSome_iff _ _ _).mpr h1, (typesHaveB_iff _ _ _ _ _).mpr h3⟩

/-- A relation the type checker finds is one `ASTRelationFor` does not reject. -/
theorem astRelationFor_ne_bad_of_isSome {c : Cfg} {n r : String} (h : (findRelationT c n r).isSome = true) :
    astRelationFor c n r ≠ .bad := by
  unfold astRelationFor
  split
  · intro e; cases e
  · unfold findRelationT at h
    have hn : findNs c n = findNsT c n := rfl
    rw [hn]
    cases hN : findNsT c n with
    | none => intro e; cases e
    | some N =>
      rw [hN] at h
      simp only [] at h ⊢
      split
      · intro e; cases e
      · have hr : findRel N r = findRelT N.relations r := rfl
        rw [hr]
        cases hR : findRelT N.relations r with
        | none => rw [hR] at h; cases h
        | some R => intro e; cases e

theorem astRelationFor_rel_find {c : Cfg} {ns rel : String} {R : Relation} (h : astRelationFor c ns rel = .rel R) :
    ∃ N, findNsT c ns = some N ∧ findRelT N.relations rel = some R := by
  unfold astRelationFor at h
  split at h
  · cases h
  · have hn : findNs c ns = findNsT c ns := rfl
    rw [hn] at h
    cases hN : findNsT c ns with
    | none => rw [hN] at h; cases h
    | some N =>
      rw [hN] at h
      simp only [] at h
      split at h
      · cases h
      · have hr : findRel N rel = findRelT N.relations rel := rfl
        rw [hr] at h
        cases hR : findRelT N.relations rel with
        | none => rw [hR] at h; cases h
        | some R' =>
          rw [hR] at h
          cases h
          exact ⟨N, rfl, hR⟩

/-- What `conformsTuple` says about a tuple with a subject set. -/
theorem conformsTuple_set {c : Cfg} {t : Tuple} (h : conformsTuple c t = true) {n : String} {o : Nat} {r : String}
    (hs : t.sub = .set n o r) :
    ∃ N R, findNsT c t.ns = some N ∧ findRelT N.relations t.rel = some R ∧ (⟨n, r⟩ : RelType) ∈ R.types := by
  unfold conformsTuple at h
  have hn : findNs c t.ns = findNsT c t.ns := rfl
  rw [hn] at h
  cases hN : findNsT c t.ns with
  | none => rw [hN] at h; cases h
  | some N =>
    rw [hN] at h
    simp only [] at h
    have hr : findRel N t.rel = findRelT N.relations t.rel := rfl
    rw [hr] at h
    cases hR : findRelT N.relations t.rel with
    | none => rw [hR] at h; cases h
    | some R =>
      rw [hR, hs] at h
      simp only [Bool.and_eq_true, List.any_eq_true, beq_iff_eq] at h
      obtain ⟨_, ty, hty, h1, h2⟩ := h
      refine ⟨N, R, rfl, hR, ?_⟩
      have : ty = ⟨n, r⟩ := by cases ty; simp_all
      rw [← this]; exact hty

/-- **`TypeOk` ⇒ `WellFormed`** for stores that conform to the declared types, if traversed relations have
    plain namespace types only. -/
theorem wellFormed_of_typeOk {c : Cfg} {T : List Tuple} (hty : TypeOk c) (hpl : PlainTraversals c)
    (hconf : conforms c T = true) : WellFormed c T := by
  have hct : ∀ t ∈ T, conformsTuple c t = true := fun t ht => List.all_eq_true.mp hconf t ht
  refine ⟨?_, ?_, ?_⟩
  · -- subject sets of stored tuples
    intro t ht n o r hs
    obtain ⟨N, R, hN, hR, hmem⟩ := conformsTuple_set (hct t ht) hs
    have h := hty.types (findNsT_mem hN) (findRelT_mem hR) hmem
    unfold relTypeOkB at h
    by_cases hr : r = ""
    · subst hr
      unfold astRelationFor
      simp
    · have hb : (r == "") = false := by simpa using hr
      simp only [hb, Bool.false_eq_true, if_false] at h
      exact astRelationFor_ne_bad_of_isSome h
  · -- computed subject sets
    intro ns rel R rw hast hrw r' hr'
    obtain ⟨N, hN, hR⟩ := astRelationFor_rel_find hast
    have h := hty.computed (findNsT_mem hN) (findRelT_mem hR) hrw hr'
    rw [findNsT_name hN] at h
    exact astRelationFor_ne_bad_of_isSome h
  · -- tuple-to-subject-set
    intro ns rel R rw hast hrw q hq t ht htns htrel n o r hs
    obtain ⟨N, hN, hR⟩ := astRelationFor_rel_find hast
    have hth := hty.ttu (findNsT_mem hN) (findRelT_mem hR) hrw hq
    obtain ⟨Rr, hRr, hplain⟩ := hpl.plain (findNsT_mem hN) (findRelT_mem hR) hrw hq
    rw [findNsT_name hN] at hth hRr
    -- the stored tuple is on the traversed relation, its subject set matches a declared type
    obtain ⟨N', R', hN', hR', hmem⟩ := conformsTuple_set (hct t ht) hs
    rw [htns, hN] at hN'
    cases hN'
    rw [htrel] at hR'
    have hRr' : findRelationT c ns q.1 = some R' := by
      unfold findRelationT
      rw [hN]
      exact hR'
    rw [hRr] at hRr'
    cases hRr'
    have hr0 : r = "" := hplain _ hmem
    subst hr0
    -- one level of the recursive check
    unfold TypesHave at hth
    obtain ⟨R2, hR2, hall⟩ := hth
    rw [hRr] at hR2
    cases hR2
    exact astRelationFor_ne_bad_of_isSome ((findRelationT_isSome_iff _ _ _).mpr ((hall _ hmem).1 rfl))

end Keto

/-! ### 4. the deferred checks per production (relation declarations)

For permission expressions `parseAtom_spec` (OplExprLemmas.lean) already states the checks: the state after an
atom is `afterAtom a rest p`, whose `checks` are `a.checks p.ns.name ++ p.checks`. The lemmas of
OplDeclLemmas.lean do not mention `checks`; here they are restated with them. -/

namespace Keto.Opl
open Keto

theorem next_checks (p : P) : p.next.2.checks = p.checks := by
  unfold P.next
  split <;> rfl

theorem matchRest_checks : ∀ (ts : List (List UInt8)) (p : P), (matchRest ts p).2.checks = p.checks
  | [], p => rfl
  | t :: ts, p => by
    unfold matchRest
    simp only []
    split
    · rw [matchRest_checks ts, next_checks]
    · exact next_checks p

theorem optional_checks (ts : List (List UInt8)) (p : P) : (optional ts p).2.checks = p.checks := by
  unfold optional
  split
  · rfl
  · split
    · rw [matchRest_checks, next_checks]
    · rfl

theorem matchLoop_checks : ∀ (pats : List Pat) (caps : List Item) (p : P), (matchLoop pats caps p).2.2.checks = p.checks
  | [], caps, p => rfl
  | .lit t :: ps, caps, p => by
    unfold matchLoop
    simp only []
    split
    · rw [matchLoop_checks ps, next_checks]
    · exact next_checks p
  | .ident :: ps, caps, p => by
    unfold matchLoop
    simp only []
    split
    · rw [matchLoop_checks ps, next_checks]
    · exact next_checks p
  | .item :: ps, caps, p => by
    unfold matchLoop
    simp only []
    rw [matchLoop_checks ps, next_checks]
  | .opt ts :: ps, caps, p => by
    unfold matchLoop
    simp only []
    split
    · rw [matchLoop_checks ps, optional_checks]
    · exact optional_checks ts p

/-- `match` adds no check. -/
theorem mtch_checks (p : P) (pats : List Pat) : (p.mtch pats).2.2.checks = p.checks := by
  unfold P.mtch
  split
  · rfl
  · exact matchLoop_checks pats [] p

/-- One member of a type union adds its check: `T` adds `checkNamespaceExists(T)`, `SubjectSet<N, r>` adds
    `checkNamespaceHasRelation(N, r)` (`typeUnion_step` with the checks). -/
theorem typeUnion_step_checks (endTok : ItemType) (n : Nat)
    (acc : List RelType) (p : P) (t : TyRef) (hw : t.wf) (tl : List Item) (hf : p.fatal = false)
    (ht : p.toks = t.toks ++ tl) :
    ∃ p1 : P, p1.toks = tl.tail ∧ Frame' p p1 ∧ p1.checks = t.check :: p.checks ∧
      parseTypeUnion endTok (n+1) acc p =
        if (tl.headD brokenItem).typ = endTok then (acc ++ [t.ty], p1)
        else if (tl.headD brokenItem).typ = .typeUnion then parseTypeUnion endTok n (acc ++ [t.ty]) p1
        else parseTypeUnion endTok n (acc ++ [t.ty]) (p1.addFatal (tl.headD brokenItem) .expectedUnion) := by
  obtain ⟨toks, nss, ns, errors, fatal, checks, steps, panic⟩ := p
  simp only at hf ht
  subst hf ht
  cases t with
  | plain t =>
    have hw' : valIs t b!"SubjectSet" = false := hw
    cases tl with
    | nil =>
      refine ⟨⟨([] : List Item).tail, nss, ns, errors, false, .nsExists t :: checks, steps + 3, panic⟩, rfl,
        ⟨rfl, rfl, rfl, rfl, rfl⟩, rfl, ?_⟩
      rw [parseTypeUnion]
      simp [P.tick, P.mtch, matchLoop, P.next, cap, hw', TyRef.toks, TyRef.ty, P.addCheck, brokenItem]
    | cons x xs =>
      refine ⟨⟨(x :: xs).tail, nss, ns, errors, false, .nsExists t :: checks, steps + 3, panic⟩, rfl,
        ⟨rfl, rfl, rfl, rfl, rfl⟩, rfl, ?_⟩
      rw [parseTypeUnion]
      simp [P.tick, P.mtch, matchLoop, P.next, cap, hw', TyRef.toks, TyRef.ty, P.addCheck]
  | sset a b =>
    cases tl with
    | nil =>
      refine ⟨⟨([] : List Item).tail, nss, ns, errors, false, .nsHasRelation a b :: checks, steps + 8, panic⟩, rfl,
        ⟨rfl, rfl, rfl, rfl, rfl⟩, rfl, ?_⟩
      rw [parseTypeUnion]
      simp [P.tick, P.mtch, matchLoop, matchSubjectSet, P.next, cap, TyRef.toks, TyRef.ty, P.addCheck, valIs_tk, tId, tLT, tGT,
        tComma, brokenItem]
    | cons x xs =>
      refine ⟨⟨(x :: xs).tail, nss, ns, errors, false, .nsHasRelation a b :: checks, steps + 8, panic⟩, rfl,
        ⟨rfl, rfl, rfl, rfl, rfl⟩, rfl, ?_⟩
      rw [parseTypeUnion]
      simp [P.tick, P.mtch, matchLoop, matchSubjectSet, P.next, cap, TyRef.toks, TyRef.ty, P.addCheck, valIs_tk, tId, tLT, tGT,
        tComma]

/-- **Source tie, type unions.** `parseTypeUnion` on `A | B | … <end>` returns the denoted types and adds
    exactly the checks of the members, in order (`checks` is kept latest first). -/
theorem typeUnion_checks (endTok : ItemType) (hend : endTok = .angledRight ∨ endTok = .parenRight) :
    ∀ (ts : List TyRef), ts ≠ [] → (∀ t ∈ ts, t.wf) → ∀ (n : Nat), ts.length ≤ n →
    ∀ (acc : List RelType) (p : P) (endItem : Item) (rest : List Item), endItem.typ = endTok → p.fatal = false →
      p.toks = unionToks ts ++ endItem :: rest →
      ∃ p' : P, p'.toks = rest ∧ Frame' p p' ∧ p'.checks = (ts.map TyRef.check).reverse ++ p.checks ∧
        parseTypeUnion endTok n acc p = (acc ++ ts.map TyRef.ty, p')
  | [], h, _, _, _, _, _, _, _, _, _, _ => absurd rfl h
  | [t], _, hw, n, hn, acc, p, endItem, rest, he, hf, ht => by
    obtain ⟨n', rfl⟩ : ∃ n', n = n' + 1 := ⟨n - 1, by simp at hn; omega⟩
    obtain ⟨p1, h1, h2, hc, h3⟩ := typeUnion_step_checks endTok n' acc p t (hw t (by simp)) (endItem :: rest) hf ht
    refine ⟨p1, h1, h2, by simpa using hc, ?_⟩
    rw [h3]
    simp [he]
  | t :: t' :: more, _, hw, n, hn, acc, p, endItem, rest, he, hf, ht => by
    obtain ⟨n', rfl⟩ : ∃ n', n = n' + 1 := ⟨n - 1, by simp at hn; omega⟩
    have ht' : p.toks = t.toks ++ (tPipe :: (unionToks (t' :: more) ++ endItem :: rest)) := by
      rw [ht]; simp [unionToks]
    obtain ⟨p1, h1, h2, hc, h3⟩ := typeUnion_step_checks endTok n' acc p t (hw t (by simp)) _ hf ht'
    obtain ⟨p2, g1, g2, gc, g3⟩ := typeUnion_checks endTok hend (t' :: more) (by simp) (fun x hx => hw x (by simp [hx]))
      n' (by simp at hn ⊢; omega) (acc ++ [t.ty]) p1 endItem rest he h2.1 (by rw [h1]; rfl)
    refine ⟨p2, g1, h2.trans g2, ?_, ?_⟩
    · rw [gc, hc]; simp
    · rw [h3, g3]
      have hne : ¬ (ItemType.typeUnion = endTok) := by rcases hend with h | h <;> simp [h]
      simp [tPipe, hne]

/-- **Source tie, relation declarations.** One iteration of the `parseRelated` loop on
    `name: T[]` / `name: SubjectSet<N, "r">[]` / `name: (A | B | …)[]` / `name: Array<A | B | …>` appends the
    declared relation to the current namespace (`related_decl`) and adds exactly one deferred check per declared
    type: `checkNamespaceExists(T)` for `T`, `checkNamespaceHasRelation(N, r)` for `SubjectSet<N, r>`. -/
theorem related_decl_checks (d : Decl) (hw : d.wf) (n : Nat) (hn : d.types.length ≤ n) (p : P) (rest : List Item)
    (hf : p.fatal = false) (ht : p.toks = d.toks ++ rest)
    (hc : d.comma = false → valIs (rest.headD brokenItem) b!"," = false) :
    ∃ p' : P, DeclPost p p' d rest ∧ p'.checks = (d.types.map TyRef.check).reverse ++ p.checks ∧
      relatedLoop (n+1) p = relatedLoop n p' := by
  obtain ⟨name, types, form, comma⟩ := d
  obtain ⟨hname, hne, hwt, hform⟩ := hw
  have hn1 := isName_or hname
  have hn2 := isName_not hname
  obtain ⟨toks, nss, ns, errors, fatal, checks, steps, panic⟩ := p
  simp only at hf ht hc hform hn hn1 hn2 hne hwt
  subst hf ht
  cases form with
  | paren =>
    obtain ⟨p2, g1, g2, gc, g3⟩ := typeUnion_checks .parenRight (Or.inr rfl) types hne hwt n hn []
      ⟨unionToks types ++ tRP :: tLB :: tRB :: (optComma comma ++ rest), nss, ns, errors, false, checks,
        steps + 1 + 1 + 1 + 1, panic⟩ tRP (tLB :: tRB :: (optComma comma ++ rest)) rfl rfl rfl
    obtain ⟨q', k1, k2, k3⟩ := optComma_step p2 comma rest g2.1 g1 hc
    have kc : q'.checks = p2.checks := by rw [← k3]; exact mtch_checks _ _
    refine ⟨q'.addRelation ⟨bstr name.val, types.map TyRef.ty, none⟩, ?_, ?_, ?_⟩
    · refine ⟨k1, k2.1, k2.2.1.trans g2.2.1, k2.2.2.1.trans g2.2.2.1, k2.2.2.2.2.trans g2.2.2.2.2, ?_⟩
      have hns : q'.ns = ns := k2.2.2.2.1.trans g2.2.2.2.1
      simp [P.addRelation, hns, Decl.relation]
    · show q'.checks = _
      rw [kc, gc]
    · rw [relatedLoop]
      have hv1 : valIs tColon b!":" = true := by decide
      simp [P.tick, next_mk, mtch_lit_mk, Decl.toks, Decl.typeToks, hn1, hn2.1, hn2.2, hv1, g3, k3, valIs_tk, tLP]
  | array =>
    have hcomma : comma = false := hform
    subst hcomma
    obtain ⟨p2, g1, g2, gc, g3⟩ := typeUnion_checks .angledRight (Or.inl rfl) types hne hwt n hn []
      ⟨unionToks types ++ tGT :: rest, nss, ns, errors, false, checks, steps + 1 + 1 + 1 + 1 + 1, panic⟩ tGT rest rfl rfl rfl
    refine ⟨p2.addRelation ⟨bstr name.val, types.map TyRef.ty, none⟩, ?_, ?_, ?_⟩
    · refine ⟨g1, g2.1, g2.2.1, g2.2.2.1, g2.2.2.2.2, ?_⟩
      have hns : p2.ns = ns := g2.2.2.2.1
      simp [P.addRelation, hns, Decl.relation]
    · show p2.checks = _
      rw [gc]
    · rw [relatedLoop]
      have hv1 : valIs tColon b!":" = true := by decide
      have hv2 : valIs tLT b!"<" = true := by decide
      simp [P.tick, next_mk, mtch_lit_mk, Decl.toks, Decl.typeToks, hn1, hn2.1, hn2.2, hv1, hv2, g3, valIs_tk, tId, optComma]
  | bare =>
    obtain ⟨t, hty, hplain⟩ := hform
    subst hty
    have hwt' := hwt t (by simp)
    cases t with
    | plain x =>
      obtain ⟨hx1, hx2⟩ := hplain x rfl
      have hx3 : valIs x b!"SubjectSet" = false := hwt'
      have hx2' : (x.typ == ItemType.parenLeft) = false := by simpa using hx2
      obtain ⟨q', k1, k2, k3⟩ := optComma_step
        ⟨tLB :: tRB :: (optComma comma ++ rest), nss, ns, errors, false, .nsExists x :: checks, steps + 1 + 1 + 1 + 1, panic⟩
        comma rest rfl rfl hc
      have kc : q'.checks = .nsExists x :: checks := by rw [← k3]; exact mtch_checks _ _
      refine ⟨q'.addRelation ⟨bstr name.val, [⟨bstr x.val, ""⟩], none⟩, ?_, ?_, ?_⟩
      · refine ⟨k1, k2.1, k2.2.1, k2.2.2.1, k2.2.2.2.2, ?_⟩
        have hns : q'.ns = ns := k2.2.2.2.1
        simp [P.addRelation, hns, Decl.relation, TyRef.ty]
      · show q'.checks = _
        rw [kc]; simp [TyRef.check]
      · rw [relatedLoop]
        have hv1 : valIs tColon b!":" = true := by decide
        simp [P.tick, next_mk, mtch_lit_mk, Decl.toks, Decl.typeToks, unionToks, TyRef.toks, hn1, hn2.1, hn2.2, hv1, hx1,
          hx2', hx3, P.addCheck, k3]
    | sset a b =>
      obtain ⟨q', k1, k2, k3⟩ := optComma_step
        ⟨tLB :: tRB :: (optComma comma ++ rest), nss, ns, errors, false, .nsHasRelation a b :: checks,
          steps + 1 + 1 + 1 + 1 + 1 + 1 + 1 + 1 + 1, panic⟩ comma rest rfl rfl hc
      have kc : q'.checks = .nsHasRelation a b :: checks := by rw [← k3]; exact mtch_checks _ _
      refine ⟨q'.addRelation ⟨bstr name.val, [⟨bstr a.val, bstr b.val⟩], none⟩, ?_, ?_, ?_⟩
      · refine ⟨k1, k2.1, k2.2.1, k2.2.2.1, k2.2.2.2.2, ?_⟩
        have hns : q'.ns = ns := k2.2.2.2.1
        simp [P.addRelation, hns, Decl.relation, TyRef.ty]
      · show q'.checks = _
        rw [kc]; simp [TyRef.check]
      · rw [relatedLoop]
        have hv1 : valIs tColon b!":" = true := by decide
        simp [P.tick, next_mk, mtch_lit_mk, matchSubjectSet_mk, Decl.toks, Decl.typeToks, unionToks, TyRef.toks, hn1, hn2.1,
          hn2.2, hv1, valIs_tk, tId, k3]

end Keto.Opl

/-! ### 5. `Parse` as a whole -/

namespace Keto.Opl
open Keto

/-- The item the errors of a failing check point at. -/
def TypeCheck.blame (nss : List Namespace) : TypeCheck → Item
  | .nsExists ns => ns
  | .nsHasRelation ns rel => if (findNsT nss (bstr ns.val)).isSome then rel else ns
  | .curNsHasRelation _ rel => rel
  | .allTypesHaveRelation _ relType _ => relType

theorem checkErrs_at (nss : List Namespace) (c : TypeCheck) :
    ∀ e ∈ checkErrs nss c, e.start = (c.blame nss).start ∧ e.stop = (c.blame nss).stop := by
  intro e he
  cases c with
  | nsExists ns =>
    simp only [checkErrs] at he
    split at he
    · cases he
    · simp at he; subst he; exact ⟨rfl, rfl⟩
  | nsHasRelation ns rel =>
    simp only [checkErrs, TypeCheck.blame] at he ⊢
    cases h : findNsT nss (bstr ns.val) with
    | none =>
      rw [h] at he
      simp at he; subst he; exact ⟨rfl, rfl⟩
    | some N =>
      rw [h] at he
      simp only [] at he
      split at he
      · cases he
      · simp at he; subst he; exact ⟨rfl, rfl⟩
  | curNsHasRelation cur rel =>
    simp only [checkErrs, TypeCheck.blame] at he ⊢
    cases h : findNsT nss cur with
    | none =>
      rw [h] at he
      simp at he; subst he; exact ⟨rfl, rfl⟩
    | some N =>
      rw [h] at he
      simp only [] at he
      split at he
      · cases he
      · simp at he; subst he; exact ⟨rfl, rfl⟩
  | allTypesHaveRelation cur relType rel =>
    simp only [checkErrs] at he
    exact recErrs_at _ _ _ _ _ _ e he

/-- The parser state after the syntax phase of `Parse` on the input `s`. -/
def synOf (s : List UInt8) : P := parseItems (lex s.toArray).items

theorem parse_namespaces (s : List UInt8) : (parse s).namespaces = (synOf s).nss := by
  unfold parse synOf
  simp only []
  split <;> rfl

/-- Syntax errors: the type check does not run. -/
theorem parse_errors_of_syntax (s : List UInt8) (h : (synOf s).errors ≠ []) :
    (parse s).errors = (synOf s).errors.reverse := by
  unfold parse
  simp only []
  have : (synOf s).errors.isEmpty = false := by
    cases he : (synOf s).errors with
    | nil => exact absurd he h
    | cons _ _ => rfl
  unfold synOf at this
  rw [this]
  rfl

/-- No syntax error: the errors of `Parse` are those of the deferred checks. -/
theorem parse_errors_of_checks (s : List UInt8) (h : (synOf s).errors = []) :
    (parse s).errors = (typeCheck (synOf s).nss (synOf s).checks.reverse {}).errors.reverse := by
  unfold parse
  simp only []
  have : (synOf s).errors.isEmpty = true := by rw [h]; rfl
  unfold synOf at this
  rw [this]
  rfl

theorem mem_parse_errors (s : List UInt8) (h : (synOf s).errors = []) (e : PErr) :
    e ∈ (parse s).errors ↔ ∃ c ∈ (synOf s).checks, e ∈ checkErrs (synOf s).nss c := by
  rw [parse_errors_of_checks s h, List.mem_reverse, mem_typeCheck_errors]
  simp only [List.mem_reverse]

/-- `Parse` accepts iff there is no syntax error and every deferred check holds. -/
theorem parse_accepts_iff (s : List UInt8) :
    (parse s).errors = [] ↔ (synOf s).errors = [] ∧ checksOk (synOf s).nss (synOf s).checks := by
  by_cases h : (synOf s).errors = []
  · rw [parse_errors_of_checks s h, List.reverse_eq_nil_iff, typeCheck_errors_nil]
    simp only [h, true_and, checksOk, List.mem_reverse]
  · rw [parse_errors_of_syntax s h, List.reverse_eq_nil_iff]
    simp [h]

/-- **Acceptance ⇒ `TypeOk`**, for every input. -/
theorem parse_typeOk (s : List UInt8) (h : (parse s).errors = []) : TypeOk (parse s).namespaces := by
  rw [parse_namespaces]
  exact typeOk_of_cov (parseItems_cov _) ((parse_accepts_iff s).mp h).2

end Keto.Opl
