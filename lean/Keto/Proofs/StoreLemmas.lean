/-
  Helper lemmas about the store model (Keto/Model/Store.lean): chunking is unobservable, the
  multiset abstraction commutes with every statement, frame lemmas per network, keyset pagination.
-/
import Keto.Model.Store
import Keto.Spec.Multiset

namespace Keto.Store

/-! ## `chunks` -/

theorem chunksF_flatten {α : Type} (n : Nat) (hn : 0 < n) :
    ∀ (f : Nat) (l : List α), l.length ≤ f → (chunksF n f l).flatten = l := by
  intro f
  induction f with
  | zero =>
    intro l h
    have : l = [] := List.eq_nil_of_length_eq_zero (Nat.le_zero.mp h)
    subst this; rfl
  | succ f ih =>
    intro l h
    cases l with
    | nil => rfl
    | cons a as =>
      simp only [chunksF, List.flatten_cons]
      rw [ih]
      · exact List.take_append_drop n (a :: as)
      · simp only [List.length_drop, List.length_cons] at h ⊢
        omega

theorem chunks_flatten {α : Type} (n : Nat) (hn : 0 < n) (l : List α) : (chunks n l).flatten = l :=
  chunksF_flatten n hn l.length l (Nat.le_refl _)

/-- Every chunk has at most `n` elements and is non-empty. -/
theorem chunksF_bound {α : Type} (n : Nat) :
    ∀ (f : Nat) (l : List α), ∀ c ∈ chunksF n f l, c.length ≤ n := by
  intro f
  induction f with
  | zero => intro l c h; simp [chunksF] at h
  | succ f ih =>
    intro l c h
    cases l with
    | nil => simp [chunksF] at h
    | cons a as =>
      simp only [chunksF, List.mem_cons] at h
      rcases h with h | h
      · subst h; simp [List.length_take]; omega
      · exact ih _ c h

/-! ## Chunking is unobservable -/

theorem insertRows_append (a b : List Row) (s : Store) :
    insertRows (a ++ b) s = insertRows b (insertRows a s) := by
  induction a generalizing s with
  | nil => rfl
  | cons x xs ih => simp only [List.cons_append, insertRows]; exact ih _

theorem insertChunks_eq (cs : List (List Row)) (s : Store) :
    insertChunks cs s = insertRows cs.flatten s := by
  induction cs generalizing s with
  | nil => rfl
  | cons c cs ih => simp only [insertChunks, List.flatten_cons, insertRows_append]; exact ih _

/-- `WriteRelationTuples` with any chunk size ≥ 1 is one big insert. -/
theorem writeC_eq (c : Nat) (hc : 0 < c) (nid : Nat) (ins : List (Tuple × Nat)) (s : Store) :
    writeC c nid ins s = insertRows (mkRows nid ins) s := by
  unfold writeC
  rw [insertChunks_eq, chunks_flatten c hc]

theorem listed_append (nid : Nat) (a b : List Tuple) (r : Row) :
    listed nid (a ++ b) r = (listed nid a r || listed nid b r) := by
  unfold listed
  by_cases h : inNet nid r = true <;> simp [h, List.mem_append]

theorem deleteStmt_append (nid : Nat) (a b : List Tuple) (s : Store) :
    deleteStmt nid (a ++ b) s = deleteStmt nid b (deleteStmt nid a s) := by
  unfold deleteStmt
  rw [List.filter_filter]
  congr 1
  funext r
  rw [listed_append]
  cases listed nid a r <;> cases listed nid b r <;> rfl

theorem deleteStmt_nil (nid : Nat) (s : Store) : deleteStmt nid [] s = s := by
  unfold deleteStmt listed
  simp

theorem deleteChunks_eq (nid : Nat) (cs : List (List Tuple)) (s : Store) :
    deleteChunks nid cs s = deleteStmt nid cs.flatten s := by
  induction cs generalizing s with
  | nil => simp [deleteChunks, deleteStmt_nil]
  | cons c cs ih => simp only [deleteChunks, List.flatten_cons, deleteStmt_append]; exact ih _

/-- `DeleteRelationTuples` with any chunk size ≥ 1 is one big delete. -/
theorem deleteC_eq (c : Nat) (hc : 0 < c) (nid : Nat) (ts : List Tuple) (s : Store) :
    deleteC c nid ts s = deleteStmt nid ts s := by
  unfold deleteC
  rw [deleteChunks_eq, chunks_flatten c hc]

theorem transactC_eq (cI cD : Nat) (hI : 0 < cI) (hD : 0 < cD) (nid : Nat) (ins : List (Tuple × Nat))
    (del : List Tuple) (s : Store) :
    transactC cI cD nid ins del s = deleteStmt nid del (insertRows (mkRows nid ins) s) := by
  unfold transactC
  rw [deleteC_eq cD hD, writeC_eq cI hI]

/-! ## The abstraction commutes with the statements -/

theorem abs_nil : abs [] = MS.empty := rfl

theorem abs_cons (r : Row) (s : Store) (n : Nat) (t : Tuple) :
    abs (r :: s) n t = abs s n t + (if r.nid = n ∧ r.t = t then 1 else 0) := by
  unfold abs
  rw [List.countP_cons]
  by_cases h : r.nid = n ∧ r.t = t <;> simp [h]

theorem abs_insertRow (r : Row) (s : Store) (n : Nat) (t : Tuple) :
    abs (insertRow r s) n t = abs s n t + (if r.nid = n ∧ r.t = t then 1 else 0) := by
  induction s with
  | nil => simp [insertRow, abs_cons]
  | cons x xs ih =>
    simp only [insertRow]
    split
    · rw [abs_cons]
    · rw [abs_cons, ih, abs_cons]; omega

theorem abs_insertRows (rows : List Row) (s : Store) (n : Nat) (t : Tuple) :
    abs (insertRows rows s) n t = abs s n t + abs rows n t := by
  induction rows generalizing s with
  | nil => simp [insertRows, abs, List.countP_nil]
  | cons r rs ih =>
    simp only [insertRows]
    rw [ih, abs_insertRow, abs_cons]; omega

theorem abs_mkRows (nid : Nat) (ins : List (Tuple × Nat)) (n : Nat) (t : Tuple) :
    abs (mkRows nid ins) n t = if n = nid then (ins.map (·.1)).count t else 0 := by
  induction ins with
  | nil => simp [mkRows, abs]
  | cons p ps ih =>
    have : mkRows nid (p :: ps) = ⟨p.2, nid, p.1⟩ :: mkRows nid ps := rfl
    rw [this, abs_cons, ih]
    simp only [List.map_cons, List.count_cons]
    by_cases hn : n = nid
    · subst hn
      by_cases ht : p.1 = t <;> simp [ht]
    · have : ¬ nid = n := fun h => hn h.symm
      simp [hn, this]

theorem abs_write (nid : Nat) (ins : List (Tuple × Nat)) (s : Store) :
    abs (insertRows (mkRows nid ins) s) = (abs s).create nid (ins.map (·.1)) := by
  funext n t
  rw [abs_insertRows, abs_mkRows]
  unfold MS.create
  split <;> simp

theorem abs_deleteStmt (nid : Nat) (ts : List Tuple) (s : Store) :
    abs (deleteStmt nid ts s) = (abs s).delete nid ts := by
  funext n t
  unfold MS.delete
  induction s with
  | nil => simp [deleteStmt, abs]
  | cons r rs ih =>
    have hcons : deleteStmt nid ts (r :: rs) =
        if listed nid ts r then deleteStmt nid ts rs else r :: deleteStmt nid ts rs := by
      unfold deleteStmt
      rw [List.filter_cons]
      cases listed nid ts r <;> simp
    rw [hcons]
    by_cases hl : listed nid ts r = true
    · rw [if_pos hl, ih, abs_cons]
      simp only [listed, inNet, Bool.and_eq_true, decide_eq_true_eq] at hl
      by_cases hc : n = nid ∧ t ∈ ts
      · simp [hc]
      · rw [if_neg hc, if_neg hc]
        have : ¬ (r.nid = n ∧ r.t = t) := by
          rintro ⟨h1, h2⟩
          exact hc ⟨by omega, h2 ▸ hl.2⟩
        simp [this]
    · rw [if_neg hl, abs_cons, ih, abs_cons]
      simp only [listed, inNet, Bool.and_eq_true, decide_eq_true_eq] at hl
      by_cases hc : n = nid ∧ t ∈ ts
      · have : ¬ (r.nid = n ∧ r.t = t) := by
          rintro ⟨h1, h2⟩
          exact hl ⟨by omega, h2 ▸ hc.2⟩
        simp only [if_pos hc, if_neg this]
      · simp only [if_neg hc]

theorem abs_deleteAll (nid : Nat) (q : Query) (s : Store) :
    abs (deleteAll nid q s) = (abs s).deleteAll nid q := by
  funext n t
  unfold MS.deleteAll
  induction s with
  | nil => simp [deleteAll, abs]
  | cons r rs ih =>
    have hcons : deleteAll nid q (r :: rs) =
        if hits nid q r then deleteAll nid q rs else r :: deleteAll nid q rs := by
      unfold deleteAll
      rw [List.filter_cons]
      cases hits nid q r <;> simp
    rw [hcons]
    by_cases hl : hits nid q r = true
    · rw [if_pos hl, ih, abs_cons]
      simp only [hits, inNet, Bool.and_eq_true, decide_eq_true_eq] at hl
      by_cases hc : n = nid ∧ q.matches t = true
      · simp [hc]
      · rw [if_neg hc, if_neg hc]
        have : ¬ (r.nid = n ∧ r.t = t) := by
          rintro ⟨h1, h2⟩
          exact hc ⟨by omega, h2 ▸ hl.2⟩
        simp [this]
    · rw [if_neg hl, abs_cons, ih, abs_cons]
      simp only [hits, inNet, Bool.and_eq_true, decide_eq_true_eq] at hl
      by_cases hc : n = nid ∧ q.matches t = true
      · have : ¬ (r.nid = n ∧ r.t = t) := by
          rintro ⟨h1, h2⟩
          exact hl ⟨by omega, h2 ▸ hc.2⟩
        simp only [if_pos hc, if_neg this]
      · simp only [if_neg hc]

/-! ## Transactions -/

/-- All statements of a transaction applied to the working copy. -/
def execAll : List Stmt → DB → DB
  | [], w => w
  | st :: rest, w => execAll rest (st.exec w)

theorem execAll_append (a b : List Stmt) (w : DB) : execAll (a ++ b) w = execAll b (execAll a w) := by
  induction a generalizing w with
  | nil => rfl
  | cons x xs ih => simp only [List.cons_append, execAll]; exact ih _

/-- Whatever the oracle: the statements either all ran, or the run was aborted. -/
theorem runStmts_cases (fail : Oracle) (sts : List Stmt) (k : Nat) (w : DB) :
    runStmts fail k sts w = none ∨ runStmts fail k sts w = some (execAll sts w) := by
  induction sts generalizing k w with
  | nil => right; rfl
  | cons st rest ih =>
    simp only [runStmts, execAll]
    split
    · left; rfl
    · exact ih _ _

theorem runStmts_noFail (sts : List Stmt) (k : Nat) (w : DB) :
    runStmts noFail k sts w = some (execAll sts w) := by
  induction sts generalizing k w with
  | nil => rfl
  | cons st rest ih => simp only [runStmts, execAll, noFail]; exact ih _ _

/-- The run is aborted iff some statement fails on the working copy it meets. -/
theorem runStmts_none_iff (fail : Oracle) (sts : List Stmt) (k : Nat) (w : DB) :
    runStmts fail k sts w = none ↔
      ∃ i, ∃ h : i < sts.length, fail (k + i) sts[i] (execAll (sts.take i) w) = true := by
  induction sts generalizing k w with
  | nil => simp [runStmts]
  | cons st rest ih =>
    simp only [runStmts]
    by_cases hf : fail k st w = true
    · simp only [hf, if_true, true_iff]
      exact ⟨0, by simp, by simpa [execAll] using hf⟩
    · simp only [hf, Bool.false_eq_true, if_false]
      rw [ih]
      constructor
      · rintro ⟨i, hi, h⟩
        refine ⟨i + 1, by simp; omega, ?_⟩
        simpa [execAll, Nat.add_assoc, Nat.add_comm 1 i] using h
      · rintro ⟨i, hi, h⟩
        cases i with
        | zero => simp [execAll] at h; exact absurd h hf
        | succ j =>
          refine ⟨j, by simp at hi; omega, ?_⟩
          simpa [execAll, Nat.add_assoc, Nat.add_comm 1 j] using h

theorem transaction_cases (fail : Oracle) (sts : List Stmt) (db : DB) :
    transaction fail sts db = (false, db) ∨ transaction fail sts db = (true, execAll sts db) := by
  unfold transaction
  rcases runStmts_cases fail sts 0 db with h | h <;> rw [h]
  · left; rfl
  · right; rfl

theorem transaction_noFail (sts : List Stmt) (db : DB) :
    transaction noFail sts db = (true, execAll sts db) := by
  unfold transaction
  rw [runStmts_noFail]

/-! ### What the statement lists of the persister do when they all run -/

theorem execAll_insert (cs : List (List Row)) (db : DB) :
    execAll (cs.map .insertRows) db = { db with rows := insertChunks cs db.rows } := by
  induction cs generalizing db with
  | nil => rfl
  | cons c cs ih => simp only [List.map_cons, execAll, Stmt.exec, insertChunks]; rw [ih]

theorem execAll_delete (nid : Nat) (cs : List (List Tuple)) (db : DB) :
    execAll (cs.map (.deleteRows nid)) db = { db with rows := deleteChunks nid cs db.rows } := by
  induction cs generalizing db with
  | nil => rfl
  | cons c cs ih => simp only [List.map_cons, execAll, Stmt.exec, deleteChunks]; rw [ih]

theorem execAll_maps_rows (cs : List (List (Nat × Nat))) (db : DB) :
    (execAll (cs.map .insertMaps) db).rows = db.rows := by
  induction cs generalizing db with
  | nil => rfl
  | cons c cs ih => simp only [List.map_cons, execAll, Stmt.exec]; rw [ih]

theorem execAll_writeStmts (c nid : Nat) (ins : List (Tuple × Nat)) (db : DB) :
    execAll (writeStmts c nid ins) db = { db with rows := writeC c nid ins db.rows } :=
  execAll_insert _ db

theorem execAll_deleteStmts (c nid : Nat) (ts : List Tuple) (db : DB) :
    execAll (deleteStmts c nid ts) db = { db with rows := deleteC c nid ts db.rows } :=
  execAll_delete nid _ db

theorem execAll_mapStmts_rows (c nid : Nat) (strs : List Nat) (db : DB) :
    (execAll (mapStmts c nid strs) db).rows = db.rows :=
  execAll_maps_rows _ db

/-- The rows after the statements of a write request (`FromTuple`'s mapping inserts, insert chunks, delete
    chunks) all ran. -/
theorem execAll_writeTx_rows (ck : Chunking) (nid : Nat) (strs : List Nat) (ins : List (Tuple × Nat))
    (del : List Tuple) (db : DB) :
    (execAll (mapStmts ck.maps nid strs ++ writeStmts ck.ins nid ins ++ deleteStmts ck.del nid del) db).rows
      = transactC ck.ins ck.del nid ins del db.rows := by
  rw [execAll_append, execAll_append, execAll_deleteStmts, execAll_writeStmts]
  simp only [transactC, execAll_mapStmts_rows]

/-! ## The API layer against the specification's notion of an acceptable request -/

def okOpt {ε α : Type} : Except ε α → Option α
  | .ok a => some a
  | .error _ => none

theorem specTuple_eq (cfg : Names) (t : ATuple) : specTuple cfg t = okOpt (fromTuple cfg t) := by
  unfold specTuple fromTuple ATuple.validate
  rcases t with ⟨ns, obj, rel, sid, sset⟩
  cases sid with
  | some u =>
    by_cases h : ns ∈ cfg <;> simp [h, okOpt]
  | none =>
    cases sset with
    | none => by_cases h : ns ∈ cfg <;> simp [h, okOpt]
    | some p =>
      rcases p with ⟨n, o, r⟩
      by_cases h : ns ∈ cfg <;> by_cases h2 : n ∈ cfg <;> simp [h, h2, okOpt]

theorem specTuples_eq (cfg : Names) (ts : List ATuple) : specTuples cfg ts = okOpt (fromTuples cfg ts) := by
  induction ts with
  | nil => rfl
  | cons t ts ih =>
    simp only [specTuples, fromTuples, specTuple_eq, ih]
    cases fromTuple cfg t <;> cases fromTuples cfg ts <;> rfl

theorem fromTuples_length (cfg : Names) (ts : List ATuple) (its : List Tuple)
    (h : fromTuples cfg ts = .ok its) : its.length = ts.length := by
  induction ts generalizing its with
  | nil => simp [fromTuples] at h; subst h; rfl
  | cons t ts ih =>
    simp only [fromTuples] at h
    cases h1 : fromTuple cfg t with
    | error e => simp [h1] at h
    | ok it =>
      cases h2 : fromTuples cfg ts with
      | error e => simp [h1, h2] at h
      | ok its' =>
        simp [h1, h2] at h
        subst h
        simp [ih its' h2]

theorem specTuple_none_of_not_validate (cfg : Names) (t : ATuple) (h : t.validate = false) :
    specTuple cfg t = none := by
  unfold ATuple.validate at h
  unfold specTuple
  cases hs : t.sid <;> cases hss : t.sset <;> simp_all

theorem specTuples_none_of_mem (cfg : Names) (ts : List ATuple) (t : ATuple) (hm : t ∈ ts)
    (h : specTuple cfg t = none) : specTuples cfg ts = none := by
  induction ts with
  | nil => cases hm
  | cons x xs ih =>
    simp only [specTuples]
    rcases List.mem_cons.mp hm with rfl | hm
    · rw [h]
    · rw [ih hm]
      cases specTuple cfg x <;> rfl

theorem specQuery_eq (cfg : Names) (q : Query) : specQuery cfg q = (q.nsOK cfg && q.subNsOK cfg) := by
  unfold specQuery Query.nsOK Query.subNsOK
  cases q.ns <;> cases q.sub with
  | none => simp
  | some s => cases s <;> simp

theorem withAction_tuples (a : Action) (ds : List Delta) :
    (withAction a ds).map (·.1) = deltaTuples a ds := by
  induction ds with
  | nil => rfl
  | cons d ds ih =>
    unfold deltaTuples at ih ⊢
    simp only [withAction, List.filterMap_cons]
    by_cases ha : d.action = a
    · simp only [ha, if_true]
      cases d.t with
      | none => simpa using ih
      | some t => simpa using ih
    · simp only [ha, if_false]
      simpa using ih

theorem MS.delete_nil (m : MS) (nid : Nat) : m.delete nid [] = m := by
  funext n t; simp [MS.delete]

/-! ## Commuting squares (no faults): model request ; abs = abs ; specification -/

theorem statusOfTx_snd (r : Bool × DB) : (statusOfTx r).2 = r.2 := rfl

theorem writeTx_abs (ck : Chunking) (hck : ck.pos) (cfg : Names) (nid : Nat) (ins : List (ATuple × Nat))
    (del : List ATuple) (db : DB) :
    abs (writeTx ck cfg noFail nid ins del db).2.rows =
      (match specTuples cfg (ins.map (·.1)), specTuples cfg del with
       | some i, some d => (abs db.rows).transact nid i d
       | _, _ => abs db.rows) := by
  unfold writeTx
  rw [specTuples_eq, specTuples_eq]
  cases h1 : fromTuples cfg (ins.map (·.1)) with
  | error e => simp [okOpt]
  | ok insI =>
    cases h2 : fromTuples cfg del with
    | error e => simp [okOpt]
    | ok delI =>
      simp only [okOpt, statusOfTx_snd, transaction_noFail]
      rw [execAll_writeTx_rows, transactC_eq _ _ hck.1 hck.2.1, abs_deleteStmt, abs_write]
      have hl : insI.length ≤ (ins.map (·.2)).length := by
        have := fromTuples_length cfg _ _ h1
        simp at this ⊢; omega
      rw [List.map_fst_zip hl]
      rfl

theorem applyDeltas_eq (cfg : Names) (nid : Nat) (ds : List Delta) (m : MS) :
    applyDeltas cfg nid ds m =
      (match specTuples cfg (deltaTuples .insert ds), specTuples cfg (deltaTuples .delete ds) with
       | some i, some d => m.transact nid i d
       | _, _ => m) := rfl

/-- A delta that carries a relationship without subject and a real action makes the request unacceptable. -/
theorem applyDeltas_invalid (cfg : Names) (nid : Nat) (ds : List Delta) (m : MS) (d : Delta) (t : ATuple)
    (hd : d ∈ ds) (ht : d.t = some t) (hv : t.validate = false) (ha : d.action ≠ .other) :
    applyDeltas cfg nid ds m = m := by
  have hn := specTuple_none_of_not_validate cfg t hv
  rw [applyDeltas_eq]
  have hmem : ∀ a, d.action = a → t ∈ deltaTuples a ds := by
    intro a h
    unfold deltaTuples
    rw [List.mem_filterMap]
    exact ⟨d, hd, by simp [h, ht]⟩
  cases hact : d.action with
  | other => exact absurd hact ha
  | insert =>
    rw [specTuples_none_of_mem cfg _ t (hmem _ hact) hn]
  | delete =>
    rw [specTuples_none_of_mem cfg _ t (hmem _ hact) hn]
    cases specTuples cfg (deltaTuples .insert ds) <;> rfl

theorem patchCheck_false (ds : List Delta) (h : patchCheck ds = false) :
    (∃ d ∈ ds, d.t = none ∨ d.action = .other) ∨
    (∃ d ∈ ds, ∃ t, d.t = some t ∧ t.validate = false ∧ d.action ≠ .other) := by
  induction ds with
  | nil => simp [patchCheck] at h
  | cons d ds ih =>
    simp only [patchCheck] at h
    cases ht : d.t with
    | none => left; exact ⟨d, by simp, Or.inl ht⟩
    | some t =>
      simp only [ht] at h
      by_cases hv : t.validate = true
      · by_cases ha : d.action = .other
        · left; exact ⟨d, by simp, Or.inr ha⟩
        · have : patchCheck ds = false := by
            simp [hv, ha] at h
            exact h
          rcases ih this with ⟨d', hd', h'⟩ | ⟨d', hd', h'⟩
          · left; exact ⟨d', List.mem_cons_of_mem _ hd', h'⟩
          · right; exact ⟨d', List.mem_cons_of_mem _ hd', h'⟩
      · by_cases ha : d.action = .other
        · left; exact ⟨d, by simp, Or.inr ha⟩
        · right; exact ⟨d, by simp, t, ht, by simpa using hv, ha⟩

theorem patchCheck_true (ds : List Delta) (h : patchCheck ds = true) :
    ds.all (fun d => d.t.isSome && d.action != .other) = true := by
  induction ds with
  | nil => rfl
  | cons d ds ih =>
    simp only [patchCheck] at h
    cases ht : d.t with
    | none => simp [ht] at h
    | some t =>
      simp only [ht, Bool.and_eq_true] at h
      simp only [List.all_cons, ht, Option.isSome_some, Bool.true_and, Bool.and_eq_true]
      exact ⟨h.1.2, ih h.2⟩

theorem restPatch_abs (ck : Chunking) (hck : ck.pos) (cfg : Names) (nid : Nat) (ds : List Delta) (db : DB) :
    abs (restPatch ck cfg noFail nid ds db).2.rows = specStep cfg nid (.restPatch ds) (abs db.rows) := by
  unfold restPatch
  simp only [specStep]
  by_cases hp : patchCheck ds = true
  · simp only [hp, Bool.not_true, Bool.false_eq_true, if_false, patchCheck_true ds hp, if_true]
    rw [writeTx_abs ck hck, applyDeltas_eq, withAction_tuples, withAction_tuples]
  · have hp' : patchCheck ds = false := by simpa using hp
    simp only [hp', Bool.not_false, if_true]
    split
    · rename_i hall
      rcases patchCheck_false ds hp' with ⟨d, hd, h⟩ | ⟨d, hd, t, ht, hv, ha⟩
      · exfalso
        have := List.all_eq_true.mp hall d hd
        rcases h with h | h <;> simp [h] at this
      · exact (applyDeltas_invalid cfg nid ds _ d t hd ht hv ha).symm
    · rfl

theorem protoCheck_false (a : Action) (ds : List Delta) (h : protoCheck a ds = false) :
    (∃ d ∈ ds, d.action = a ∧ d.t = none) ∨
    (∃ d ∈ ds, ∃ t, d.action = a ∧ d.t = some t ∧ t.validate = false) := by
  induction ds with
  | nil => simp [protoCheck] at h
  | cons d ds ih =>
    simp only [protoCheck] at h
    by_cases ha : d.action = a
    · simp only [ha, if_true] at h
      cases ht : d.t with
      | none => left; exact ⟨d, by simp, ha, ht⟩
      | some t =>
        simp only [ht] at h
        by_cases hv : t.validate = true
        · have : protoCheck a ds = false := by simpa [hv] using h
          rcases ih this with ⟨d', hd', h'⟩ | ⟨d', hd', h'⟩
          · left; exact ⟨d', List.mem_cons_of_mem _ hd', h'⟩
          · right; exact ⟨d', List.mem_cons_of_mem _ hd', h'⟩
        · right; exact ⟨d, by simp, t, ha, ht, by simpa using hv⟩
    · simp only [ha, if_false] at h
      rcases ih h with ⟨d', hd', h'⟩ | ⟨d', hd', h'⟩
      · left; exact ⟨d', List.mem_cons_of_mem _ hd', h'⟩
      · right; exact ⟨d', List.mem_cons_of_mem _ hd', h'⟩

theorem protoCheck_true (a : Action) (ds : List Delta) (h : protoCheck a ds = true) :
    ∀ d ∈ ds, d.action = a → d.t.isSome = true := by
  induction ds with
  | nil => intro d hd; cases hd
  | cons x xs ih =>
    intro d hd ha
    simp only [protoCheck] at h
    rcases List.mem_cons.mp hd with rfl | hd
    · simp only [ha, if_true] at h
      cases ht : d.t with
      | none => simp [ht] at h
      | some t => rfl
    · apply ih _ d hd ha
      by_cases hx : x.action = a
      · simp only [hx, if_true] at h
        cases ht : x.t with
        | none => simp [ht] at h
        | some t => simp only [ht, Bool.and_eq_true] at h; exact h.2
      · simpa [hx] using h

theorem grpcTransact_abs (ck : Chunking) (hck : ck.pos) (cfg : Names) (nid : Nat) (ds : List Delta) (db : DB) :
    abs (grpcTransact ck cfg noFail nid ds db).2.rows = specStep cfg nid (.grpcTransact ds) (abs db.rows) := by
  unfold grpcTransact
  simp only [specStep]
  -- a failing proto check: either a delta without relationship (the specification rejects the request) or a
  -- relationship without subject (no acceptable reading of the deltas)
  have key : ∀ a, a ≠ Action.other → protoCheck a ds = false →
      (if ds.all (fun d => d.action == .other || d.t.isSome) = true then applyDeltas cfg nid ds (abs db.rows)
        else abs db.rows) = abs db.rows := by
    intro a hne hf
    split
    · rename_i hall
      rcases protoCheck_false a ds hf with ⟨d, hd, ha, ht⟩ | ⟨d, hd, t, ha, ht, hv⟩
      · exfalso
        have := List.all_eq_true.mp hall d hd
        rw [ha, ht] at this
        cases a <;> simp at this hne
      · exact applyDeltas_invalid cfg nid ds _ d t hd ht hv (by rw [ha]; exact hne)
    · rfl
  by_cases hi : protoCheck .insert ds = true
  · by_cases hd : protoCheck .delete ds = true
    · simp only [hi, hd, Bool.not_true, Bool.false_eq_true, if_false]
      have hall : ds.all (fun d => d.action == .other || d.t.isSome) = true := by
        rw [List.all_eq_true]
        intro d hmem
        cases hact : d.action with
        | other => simp
        | insert => simp [protoCheck_true _ ds hi d hmem hact]
        | delete => simp [protoCheck_true _ ds hd d hmem hact]
      rw [if_pos hall, writeTx_abs ck hck, applyDeltas_eq, withAction_tuples, withAction_tuples]
    · have hd' : protoCheck .delete ds = false := by simpa using hd
      simp only [hi, hd', Bool.not_true, Bool.not_false, Bool.false_eq_true, if_false, if_true]
      exact (key .delete (by decide) hd').symm
  · have hi' : protoCheck .insert ds = false := by simpa using hi
    simp only [hi', Bool.not_false, if_true]
    exact (key .insert (by decide) hi').symm

theorem restCreate_abs (ck : Chunking) (hck : ck.pos) (cfg : Names) (nid : Nat) (t : ATuple) (sh : Nat) (db : DB) :
    abs (restCreate ck cfg noFail nid t sh db).2.rows = specStep cfg nid (.restCreate t sh) (abs db.rows) := by
  unfold restCreate
  simp only [specStep]
  by_cases hv : t.validate = true
  · simp only [hv, Bool.not_true, Bool.false_eq_true, if_false]
    rw [writeTx_abs ck hck]
    simp only [List.map_cons, List.map_nil, specTuples]
    cases specTuple cfg t with
    | none => rfl
    | some it => simp [MS.transact, MS.delete_nil]
  · have hv' : t.validate = false := by simpa using hv
    simp only [hv', Bool.not_false, if_true]
    rw [specTuple_none_of_not_validate cfg t hv']

theorem deleteByQuery_abs (cfg : Names) (nid : Nat) (q : Query) (db : DB) :
    abs (deleteByQuery cfg noFail nid q db).2.rows =
      if specQuery cfg q = true then (abs db.rows).deleteAll nid q else abs db.rows := by
  unfold deleteByQuery fromQuery
  rw [specQuery_eq]
  by_cases h : (q.nsOK cfg && q.subNsOK cfg) = true
  · simp only [h, if_true, statusOfTx_snd, transaction_noFail, execAll, Stmt.exec, abs_deleteAll]
  · simp only [h]
    rfl

theorem restDelete_abs (cfg : Names) (nid : Nat) (q : Query) (db : DB) :
    abs (restDelete cfg noFail nid q db).2.rows = specStep cfg nid (.restDelete q) (abs db.rows) := by
  unfold restDelete
  simp only [specStep]
  cases hq : q.ns with
  | none => simp
  | some n =>
    simp only [Option.isNone_some, Bool.false_eq_true, if_false, Option.isSome_some, Bool.true_and]
    rw [deleteByQuery_abs]

theorem grpcDelete_abs (cfg : Names) (nid : Nat) (q : Option Query) (db : DB) :
    abs (grpcDelete cfg noFail nid q db).2.rows = specStep cfg nid (.grpcDelete q) (abs db.rows) := by
  unfold grpcDelete
  cases q with
  | none => rfl
  | some q => simp only [specStep]; rw [deleteByQuery_abs]

/-! ## The read API leaves the database alone -/

theorem mapStrings_readOnly (ck : Chunking) (fail : Oracle) (nid : Nat) (strs : List Nat) (db : DB) :
    mapStrings true ck fail nid strs db = (true, db) := rfl

theorem mapQuery_readOnly_snd (ck : Chunking) (cfg : Names) (fail : Oracle) (nid : Nat) (q : Query) (db : DB) :
    (mapQuery true ck cfg fail nid q db).2 = db := by
  unfold mapQuery
  cases fromQuery cfg q <;> rfl

theorem listReq_snd (ck : Chunking) (cfg : Names) (nid : Nat) (q : Option Query) (size : Int) (tok : Token)
    (db : DB) : (listReq ck cfg nid q size tok db).2 = db := by
  unfold listReq
  cases q with
  | none => rfl
  | some q =>
    simp only
    split
    · exact mapQuery_readOnly_snd ..
    · split <;> exact mapQuery_readOnly_snd ..

theorem listAllReq_snd (ck : Chunking) (cfg : Names) (nid : Nat) (q : Option Query) (size : Int) (db : DB) :
    (listAllReq ck cfg nid q size db).2 = db := by
  unfold listAllReq
  cases q with
  | none => rfl
  | some q =>
    simp only
    split
    · exact mapQuery_readOnly_snd ..
    · split
      · exact mapQuery_readOnly_snd ..
      · split <;> exact mapQuery_readOnly_snd ..

theorem pList_snd (nid : Nat) (q : Query) (size : Int) (tok : Token) (db : DB) :
    (pList nid q size tok db).2 = db := by
  unfold pList
  split <;> rfl

theorem pExists_snd (nid : Nat) (q : Query) (db : DB) : (pExists nid q db).2 = db := rfl

theorem readOnlyMap_snd (ck : Chunking) (nid : Nat) (strs : List Nat) (db : DB) :
    (readOnlyMap ck nid strs db).2 = db := rfl

/-- Every read operation of the model returns the database unchanged (whatever the fault oracle). -/
theorem step_read (ck : Chunking) (cfg : Names) (fail : Oracle) (nid : Nat) (op : Op) (db : DB)
    (h : op.isRead = true) : (step ck cfg fail nid op db).2 = db := by
  cases op <;> simp only [Op.isRead, Bool.false_eq_true] at h <;> simp only [step]
  · exact listReq_snd ..
  · exact listAllReq_snd ..
  · exact pList_snd ..
  · exact pExists_snd ..
  · exact readOnlyMap_snd ..

/-! ## One request, then a whole history, against the specification -/

theorem wOut_snd (r : Status × DB) : (wOut r).2 = r.2 := rfl

theorem step_abs (ck : Chunking) (hck : ck.pos) (cfg : Names) (nid : Nat) (op : Op) (db : DB) :
    abs (step ck cfg noFail nid op db).2.rows = specStep cfg nid op (abs db.rows) := by
  cases op with
  | restCreate t sh => simp only [step, wOut_snd]; exact restCreate_abs ck hck cfg nid t sh db
  | restDelete q => simp only [step, wOut_snd]; exact restDelete_abs cfg nid q db
  | restPatch ds => simp only [step, wOut_snd]; exact restPatch_abs ck hck cfg nid ds db
  | grpcTransact ds => simp only [step, wOut_snd]; exact grpcTransact_abs ck hck cfg nid ds db
  | grpcDelete q => simp only [step, wOut_snd]; exact grpcDelete_abs cfg nid q db
  | pWrite ins =>
    simp only [step, wOut_snd, pWrite, statusOfTx_snd, transaction_noFail, execAll_writeStmts, specStep]
    rw [writeC_eq _ hck.1, abs_write]
  | pDelete ts =>
    simp only [step, wOut_snd, pDelete, statusOfTx_snd, transaction_noFail, execAll_deleteStmts, specStep]
    rw [deleteC_eq _ hck.2.1, abs_deleteStmt]
  | pDeleteAll q =>
    simp only [step, wOut_snd, pDeleteAll, statusOfTx_snd, transaction_noFail, execAll, Stmt.exec, specStep,
      abs_deleteAll]
  | pTransact ins del =>
    simp only [step, wOut_snd, pTransact, statusOfTx_snd, transaction_noFail, execAll_append,
      execAll_writeStmts, execAll_deleteStmts, specStep]
    rw [deleteC_eq _ hck.2.1, writeC_eq _ hck.1, abs_deleteStmt, abs_write]
    rfl
  | pMap strs =>
    simp only [step, wOut_snd, pMap, statusOfTx_snd, transaction_noFail, execAll_mapStmts_rows, specStep]
  | malformed => rfl
  | list q size tok => rw [step_read _ _ _ _ _ _ rfl]; rfl
  | listAll q size => rw [step_read _ _ _ _ _ _ rfl]; rfl
  | pList q size tok => rw [step_read _ _ _ _ _ _ rfl]; rfl
  | pExists q => rw [step_read _ _ _ _ _ _ rfl]; rfl
  | readOnlyMap strs => rw [step_read _ _ _ _ _ _ rfl]; rfl

theorem run_abs (ck : Chunking) (hck : ck.pos) (cfg : Names) (h : History) (db : DB) :
    abs (run ck cfg noFail h db).2.rows = specRun cfg h (abs db.rows) := by
  induction h generalizing db with
  | nil => rfl
  | cons x h ih =>
    rcases x with ⟨nid, op⟩
    simp only [run, specRun]
    rw [ih, step_abs ck hck]

/-! ## Keyset pagination -/

theorem perPage_pos (size : Int) (h : 0 ≤ size) : 0 < perPage size := by
  unfold perPage
  split
  · decide
  · omega

/-- What `LIMIT n+1`, "drop the extra row", "token = last returned id" amount to. -/
theorem cut_take (n : Nat) (R : List Row) :
    cut n (R.take (n + 1)) =
      ⟨R.take n, if n < R.length then (R.take n).getLast?.map (·.shard) else none⟩ := by
  unfold cut
  by_cases h : n < R.length
  · have h1 : n < (R.take (n + 1)).length := by simp [List.length_take]; omega
    have h2 : (R.take (n + 1)).dropLast = R.take n := by
      rw [List.dropLast_eq_take, List.take_take]
      simp [List.length_take]
      congr 1; omega
    simp only [h1, h, if_true, h2]
  · have h1 : ¬ n < (R.take (n + 1)).length := by simp [List.length_take]; omega
    have h2 : R.take (n + 1) = R := List.take_of_length_le (by omega)
    have h3 : R.take n = R := List.take_of_length_le (by omega)
    simp only [h, if_false, h2, h3]

theorem Sorted.filter {s : List Row} (h : Sorted s) (p : Row → Bool) : Sorted (s.filter p) :=
  List.Pairwise.filter p h

theorem cands_sorted {s : Store} (h : Sorted s) (nid : Nat) (q : Query) (last : Nat) :
    Sorted (cands nid q last s) := h.filter _

theorem mem_cands {nid : Nat} {q : Query} {last : Nat} {s : Store} {r : Row} :
    r ∈ cands nid q last s ↔ r ∈ s ∧ hits nid q r = true ∧ last < r.shard := by
  unfold cands
  simp [List.mem_filter]

/-- The next request (token = shard id of the last row `x` of the page `a`) sees exactly the rest `b`. -/
theorem cands_after {s : Store} (hs : Sorted s) (nid : Nat) (q : Query) (last : Nat) (a b : List Row) (x : Row)
    (hab : cands nid q last s = a ++ b) (hx : a.getLast? = some x) :
    cands nid q x.shard s = b := by
  obtain ⟨ini, rfl⟩ := List.getLast?_eq_some_iff.mp hx
  have hsorted : Sorted ((ini ++ [x]) ++ b) := hab ▸ cands_sorted hs nid q last
  have hxmem : x ∈ cands nid q last s := by rw [hab]; simp
  have hxl : last < x.shard := (mem_cands.mp hxmem).2.2
  have h1 : cands nid q x.shard s = (cands nid q last s).filter (fun r => decide (x.shard < r.shard)) := by
    unfold cands
    rw [List.filter_filter]
    apply List.filter_congr
    intro r _
    by_cases h : x.shard < r.shard
    · have : last < r.shard := by omega
      simp [h, this]
    · simp [h]
  rw [h1, hab]
  unfold Sorted at hsorted
  rw [List.pairwise_append] at hsorted
  obtain ⟨hl, _, hcross⟩ := hsorted
  rw [List.pairwise_append] at hl
  obtain ⟨_, _, hini⟩ := hl
  rw [List.filter_append]
  have ha : (ini ++ [x]).filter (fun r => decide (x.shard < r.shard)) = [] := by
    rw [List.filter_eq_nil_iff]
    intro r hr
    simp only [List.mem_append, List.mem_singleton] at hr
    rcases hr with hr | rfl
    · have := hini r hr x (by simp); simp; omega
    · simp
  have hb : b.filter (fun r => decide (x.shard < r.shard)) = b := by
    rw [List.filter_eq_self]
    intro r hr
    have := hcross x (by simp) r hr
    simpa using this
  rw [ha, hb, List.nil_append]

theorem getPage_ok (nid : Nat) (q : Query) (size : Int) (hsz : 0 ≤ size) (tok : Token) (last : Nat)
    (ht : tokLast tok = some last) (s : Store) :
    getPage nid q size tok s =
      .ok ⟨(cands nid q last s).take (perPage size),
           if perPage size < (cands nid q last s).length then
             ((cands nid q last s).take (perPage size)).getLast?.map (·.shard) else none⟩ := by
  unfold getPage
  have : ¬ size < 0 := by omega
  simp only [this, if_false, ht, cut_take]

/-- The shape of a complete iteration: all pages but the last are full and carry a token, the last page
    carries none. -/
def PagesShape (n : Nat) (ps : List Page) : Prop :=
  (∀ p ∈ ps, p.rows.length ≤ n) ∧
  ∃ ini lst, ps = ini ++ [lst] ∧ lst.next = none ∧ ∀ p ∈ ini, p.next ≠ none ∧ p.rows.length = n

theorem follow_spec {s : Store} (hs : Sorted s) (nid : Nat) (q : Query) (size : Int) (hsz : 0 ≤ size) :
    ∀ (f : Nat) (tok : Token) (last : Nat), tokLast tok = some last →
      (cands nid q last s).length < f →
      ∃ ps, follow nid q size s f tok = some ps ∧ pagesRows ps = cands nid q last s ∧
        PagesShape (perPage size) ps := by
  have hn := perPage_pos size hsz
  intro f
  induction f with
  | zero => intro tok last _ h; omega
  | succ f ih =>
    intro tok last ht hlen
    simp only [follow, getPage_ok nid q size hsz tok last ht s]
    generalize hR : cands nid q last s = R at hlen ⊢
    generalize hnn : perPage size = n at hn ⊢
    by_cases hbig : n < R.length
    · -- a full page and a token
      have hne : R.take n ≠ [] := by
        intro h
        have h0 : (R.take n).length = 0 := by rw [h]; rfl
        rw [List.length_take] at h0
        omega
      obtain ⟨x, hx⟩ : ∃ x, (R.take n).getLast? = some x := by
        cases h : (R.take n).getLast? with
        | none => exact absurd (List.getLast?_eq_none_iff.mp h) hne
        | some x => exact ⟨x, rfl⟩
      simp only [hbig, if_true, hx, Option.map_some]
      have hnext : cands nid q x.shard s = R.drop n :=
        cands_after hs nid q last (R.take n) (R.drop n) x (by rw [hR, List.take_append_drop]) hx
      have hlen' : (cands nid q x.shard s).length < f := by
        rw [hnext, List.length_drop]; omega
      obtain ⟨ps, hps, hrows, hbound, ini, lst, hshape, hlast, hini⟩ := ih (.at x.shard) x.shard rfl hlen'
      rw [hnn] at hbound hini
      refine ⟨⟨R.take n, some x.shard⟩ :: ps, ?_, ?_, ?_, ?_⟩
      · rw [hps]; rfl
      · simp only [pagesRows, List.map_cons, List.flatten_cons] at hrows ⊢
        rw [hrows, hnext, List.take_append_drop]
      · intro p hp
        rcases List.mem_cons.mp hp with rfl | hp
        · simp [List.length_take]; omega
        · exact hbound p hp
      · refine ⟨⟨R.take n, some x.shard⟩ :: ini, lst, by rw [hshape]; rfl, hlast, ?_⟩
        intro p hp
        rcases List.mem_cons.mp hp with rfl | hp
        · refine ⟨by simp, ?_⟩
          simp [List.length_take]; omega
        · exact hini p hp
    · -- the last page
      simp only [hbig, if_false]
      have ht : R.take n = R := List.take_of_length_le (by omega)
      refine ⟨[⟨R, none⟩], by rw [ht], by simp [pagesRows], ?_, [], ⟨R, none⟩, rfl, rfl, by simp⟩
      intro p hp
      simp only [List.mem_singleton] at hp
      subst hp
      simp; omega

theorem cands_zero {s : Store} (hpos : ∀ r ∈ s, 0 < r.shard) (nid : Nat) (q : Query) :
    cands nid q 0 s = matching nid q s := by
  unfold cands matching
  apply List.filter_congr
  intro r hr
  simp [hpos r hr]

/-! ## Pagination while other rows come and go -/

theorem Sorted.nodup {s : List Row} (h : Sorted s) : s.Nodup := by
  unfold Sorted at h
  unfold List.Nodup
  apply List.Pairwise.imp _ h
  intro a b hab heq
  rw [heq] at hab
  exact Nat.lt_irrefl _ hab

theorem sorted_split {a b : List Row} {x : Row} (hs : Sorted (a ++ b)) (hx : a.getLast? = some x) :
    (∀ r ∈ a, r.shard ≤ x.shard) ∧ (∀ r ∈ b, x.shard < r.shard) := by
  obtain ⟨ini, rfl⟩ := List.getLast?_eq_some_iff.mp hx
  unfold Sorted at hs
  rw [List.pairwise_append] at hs
  obtain ⟨hl, _, hcross⟩ := hs
  rw [List.pairwise_append] at hl
  obtain ⟨_, _, hini⟩ := hl
  constructor
  · intro r hr
    simp only [List.mem_append, List.mem_singleton] at hr
    rcases hr with hr | rfl
    · exact Nat.le_of_lt (hini r hr x (by simp))
    · exact Nat.le_refl _
  · intro r hr
    exact hcross x (by simp) r hr

/-- Invariant of an iteration over a changing table, for a row `r` that is in every table the iteration
    sees: the pages from a request with token `last` on contain `r` exactly once if `last < r.shard` (it is
    still to come) and not at all otherwise (it was returned before). -/
theorem followI_count (nid : Nat) (q : Query) (size : Int) (hsz : 0 ≤ size) (r : Row)
    (hr : hits nid q r = true) :
    ∀ (stores : List Store), (∀ s ∈ stores, Sorted s ∧ r ∈ s) →
    ∀ (tok : Token) (last : Nat) (ps : List Page), tokLast tok = some last →
      followI nid q size tok stores = some ps →
      (pagesRows ps).count r = if last < r.shard then 1 else 0 := by
  intro stores
  induction stores with
  | nil => intro _ tok last ps _ h; simp [followI] at h
  | cons s ss ih =>
    intro hall tok last ps ht hf
    have hs : Sorted s := (hall s (by simp)).1
    have hrs : r ∈ s := (hall s (by simp)).2
    have hall' : ∀ s' ∈ ss, Sorted s' ∧ r ∈ s' := fun s' h' => hall s' (List.mem_cons_of_mem _ h')
    simp only [followI, getPage_ok nid q size hsz tok last ht s] at hf
    generalize hR : cands nid q last s = R at hf
    generalize hnn : perPage size = n at hf
    have hRs : Sorted R := hR ▸ cands_sorted hs nid q last
    have hmemR : r ∈ R ↔ last < r.shard := by
      rw [← hR, mem_cands]
      exact ⟨fun h => h.2.2, fun h => ⟨hrs, hr, h⟩⟩
    have htake_nodup : (R.take n).Nodup := List.Nodup.sublist (List.take_sublist n R) hRs.nodup
    by_cases hbig : n < R.length
    · have hn : 0 < n := hnn ▸ perPage_pos size hsz
      have hne : R.take n ≠ [] := by
        intro h
        have h0 : (R.take n).length = 0 := by rw [h]; rfl
        rw [List.length_take] at h0
        omega
      obtain ⟨x, hx⟩ : ∃ x, (R.take n).getLast? = some x := by
        cases h : (R.take n).getLast? with
        | none => exact absurd (List.getLast?_eq_none_iff.mp h) hne
        | some x => exact ⟨x, rfl⟩
      simp only [hbig, if_true, hx, Option.map_some] at hf
      cases hrest : followI nid q size (.at x.shard) ss with
      | none => simp [hrest] at hf
      | some ps' =>
        simp only [hrest, Option.map_some, Option.some.injEq] at hf
        subst hf
        have ih' := ih hall' (.at x.shard) x.shard ps' rfl hrest
        have hsplit := sorted_split (a := R.take n) (b := R.drop n) (x := x)
          (by rw [List.take_append_drop]; exact hRs) hx
        have hxR : x ∈ R := List.mem_of_mem_take (List.mem_of_getLast? hx)
        have hxlast : last < x.shard := by
          have := (mem_cands.mp (hR ▸ hxR)).2.2
          exact this
        simp only [pagesRows, List.map_cons, List.flatten_cons, List.count_append] at ih' ⊢
        rw [ih', htake_nodup.count]
        by_cases h1 : last < r.shard
        · have hrR : r ∈ R := hmemR.mpr h1
          by_cases h2 : x.shard < r.shard
          · have : r ∉ R.take n := fun hm => by
              have := hsplit.1 r hm
              omega
            simp [this, h1, h2]
          · have : r ∈ R.take n := by
              rw [← List.take_append_drop n R] at hrR
              rcases List.mem_append.mp hrR with h | h
              · exact h
              · exact absurd (hsplit.2 r h) h2
            simp [this, h1, h2]
        · have hnot : r ∉ R.take n := fun hm => h1 (hmemR.mp (List.mem_of_mem_take hm))
          have h2 : ¬ x.shard < r.shard := by omega
          simp [hnot, h1, h2]
    · simp only [hbig, if_false] at hf
      simp only [Option.some.injEq] at hf
      subst hf
      have ht' : R.take n = R := List.take_of_length_le (by omega)
      simp only [pagesRows, List.map_cons, List.map_nil, List.flatten_cons, List.flatten_nil, List.append_nil, ht']
      rw [hRs.nodup.count]
      by_cases h1 : last < r.shard
      · simp [hmemR.mpr h1, h1]
      · have : r ∉ R := fun h => h1 (hmemR.mp h)
        simp [this, h1]

/-! ## The table invariant is preserved -/

theorem mem_insertRow {r x : Row} {s : Store} : x ∈ insertRow r s ↔ x = r ∨ x ∈ s := by
  induction s with
  | nil => simp [insertRow]
  | cons y ys ih =>
    simp only [insertRow]
    split
    · simp
    · simp only [List.mem_cons, ih]
      constructor
      · rintro (h | h | h)
        · exact Or.inr (Or.inl h)
        · exact Or.inl h
        · exact Or.inr (Or.inr h)
      · rintro (h | h | h)
        · exact Or.inr (Or.inl h)
        · exact Or.inl h
        · exact Or.inr (Or.inr h)

theorem insertRow_sorted {r : Row} {s : Store} (hs : Sorted s) (hf : ∀ x ∈ s, x.shard ≠ r.shard) :
    Sorted (insertRow r s) := by
  induction s with
  | nil => simp [insertRow, Sorted]
  | cons y ys ih =>
    unfold Sorted at hs ⊢
    rw [List.pairwise_cons] at hs
    simp only [insertRow]
    split
    · rename_i hlt
      rw [List.pairwise_cons]
      refine ⟨?_, List.pairwise_cons.mpr hs⟩
      intro x hx
      rcases List.mem_cons.mp hx with rfl | hx
      · exact hlt
      · exact Nat.lt_trans hlt (hs.1 x hx)
    · rename_i hnlt
      rw [List.pairwise_cons]
      refine ⟨?_, ih hs.2 (fun x hx => hf x (List.mem_cons_of_mem _ hx))⟩
      intro x hx
      rcases mem_insertRow.mp hx with rfl | hx
      · have := hf y (by simp)
        omega
      · exact hs.1 x hx

theorem mem_insertRows {rows : List Row} {x : Row} {s : Store} :
    x ∈ insertRows rows s ↔ x ∈ rows ∨ x ∈ s := by
  induction rows generalizing s with
  | nil => simp [insertRows]
  | cons r rs ih =>
    simp only [insertRows, ih, mem_insertRow, List.mem_cons]
    constructor
    · rintro (h | h | h)
      · exact Or.inl (Or.inr h)
      · exact Or.inl (Or.inl h)
      · exact Or.inr h
    · rintro ((h | h) | h)
      · exact Or.inr (Or.inl h)
      · exact Or.inl h
      · exact Or.inr (Or.inr h)

theorem insertRows_WF {rows : List Row} {s : Store} (hs : WF s) (hf : Fresh (rows.map (·.shard)) s) :
    WF (insertRows rows s) := by
  induction rows generalizing s with
  | nil => exact hs
  | cons r rs ih =>
    simp only [insertRows]
    obtain ⟨hnd, hfr⟩ := hf
    simp only [List.map_cons, List.nodup_cons] at hnd
    have hr := hfr r.shard (by simp)
    apply ih
    · refine ⟨insertRow_sorted hs.1 hr.2, ?_⟩
      intro x hx
      rcases mem_insertRow.mp hx with rfl | hx
      · exact hr.1
      · exact hs.2 x hx
    · refine ⟨hnd.2, ?_⟩
      intro n hn
      have := hfr n (by simp [hn])
      refine ⟨this.1, ?_⟩
      intro x hx
      rcases mem_insertRow.mp hx with rfl | hx
      · intro heq
        apply hnd.1
        rw [heq]
        exact hn
      · exact this.2 x hx

theorem filter_WF {s : Store} (hs : WF s) (p : Row → Bool) : WF (s.filter p) :=
  ⟨hs.1.filter p, fun r hr => hs.2 r (List.mem_filter.mp hr).1⟩

theorem mkRows_shards (nid : Nat) (ins : List (Tuple × Nat)) :
    (mkRows nid ins).map (·.shard) = ins.map (·.2) := by
  unfold mkRows
  rw [List.map_map]
  rfl

/-- The rows a statement list leaves, when every insert gets fresh ids. -/
theorem execAll_writeTx_WF (ck : Chunking) (hck : ck.pos) (nid : Nat) (strs : List Nat) (ins : List (Tuple × Nat))
    (del : List Tuple) (db : DB) (hs : WF db.rows) (hf : Fresh (ins.map (·.2)) db.rows) :
    WF (execAll (mapStmts ck.maps nid strs ++ writeStmts ck.ins nid ins ++ deleteStmts ck.del nid del) db).rows := by
  rw [execAll_writeTx_rows, transactC_eq _ _ hck.1 hck.2.1]
  apply filter_WF
  apply insertRows_WF hs
  rw [mkRows_shards]
  exact hf

theorem writeTx_WF (ck : Chunking) (hck : ck.pos) (cfg : Names) (fail : Oracle) (nid : Nat)
    (ins : List (ATuple × Nat)) (del : List ATuple) (db : DB) (hs : WF db.rows)
    (hf : Fresh (ins.map (·.2)) db.rows) : WF (writeTx ck cfg fail nid ins del db).2.rows := by
  unfold writeTx
  cases h1 : fromTuples cfg (ins.map (·.1)) with
  | error e => exact hs
  | ok insI =>
    cases h2 : fromTuples cfg del with
    | error e => exact hs
    | ok delI =>
      simp only [statusOfTx_snd]
      rcases transaction_cases fail
        (mapStmts ck.maps nid (stringsOf (ins.map (·.1) ++ del)) ++ writeStmts ck.ins nid (insI.zip (ins.map (·.2)))
          ++ deleteStmts ck.del nid delI) db with h | h <;> rw [h]
      · exact hs
      · apply execAll_writeTx_WF ck hck _ _ _ _ _ hs
        have hl : (ins.map (·.2)).length ≤ insI.length := by
          have := fromTuples_length cfg _ _ h1
          simp at this ⊢; omega
        rw [List.map_snd_zip hl]
        exact hf

theorem Fresh_nil (s : Store) : Fresh [] s := ⟨List.nodup_nil, fun _ h => by cases h⟩

theorem step_WF (ck : Chunking) (hck : ck.pos) (cfg : Names) (fail : Oracle) (nid : Nat) (op : Op) (db : DB)
    (hs : WF db.rows) (hf : Fresh op.shards db.rows) : WF (step ck cfg fail nid op db).2.rows := by
  cases op with
  | restCreate t sh =>
    simp only [step, wOut_snd, restCreate]
    split
    · exact hs
    · exact writeTx_WF ck hck cfg fail nid _ _ db hs hf
  | restDelete q =>
    simp only [step, wOut_snd, restDelete, deleteByQuery]
    split
    · exact hs
    · split
      · exact hs
      · simp only [statusOfTx_snd]
        rcases transaction_cases fail [.deleteWhere nid _] db with h | h <;> rw [h]
        · exact hs
        · exact filter_WF hs _
  | restPatch ds =>
    simp only [step, wOut_snd, restPatch]
    split
    · exact hs
    · exact writeTx_WF ck hck cfg fail nid _ _ db hs hf
  | grpcTransact ds =>
    simp only [step, wOut_snd, grpcTransact]
    split
    · exact hs
    · split
      · exact hs
      · exact writeTx_WF ck hck cfg fail nid _ _ db hs hf
  | grpcDelete q =>
    simp only [step, wOut_snd, grpcDelete]
    cases q with
    | none => exact hs
    | some q =>
      simp only [deleteByQuery]
      split
      · exact hs
      · simp only [statusOfTx_snd]
        rcases transaction_cases fail [.deleteWhere nid _] db with h | h <;> rw [h]
        · exact hs
        · exact filter_WF hs _
  | pWrite ins =>
    simp only [step, wOut_snd, pWrite, statusOfTx_snd]
    rcases transaction_cases fail (writeStmts ck.ins nid ins) db with h | h <;> rw [h]
    · exact hs
    · rw [execAll_writeStmts, writeC_eq _ hck.1]
      apply insertRows_WF hs
      rw [mkRows_shards]; exact hf
  | pDelete ts =>
    simp only [step, wOut_snd, pDelete, statusOfTx_snd]
    rcases transaction_cases fail (deleteStmts ck.del nid ts) db with h | h <;> rw [h]
    · exact hs
    · rw [execAll_deleteStmts, deleteC_eq _ hck.2.1]
      exact filter_WF hs _
  | pDeleteAll q =>
    simp only [step, wOut_snd, pDeleteAll, statusOfTx_snd]
    rcases transaction_cases fail [.deleteWhere nid q] db with h | h <;> rw [h]
    · exact hs
    · exact filter_WF hs _
  | pTransact ins del =>
    simp only [step, wOut_snd, pTransact, statusOfTx_snd]
    rcases transaction_cases fail (writeStmts ck.ins nid ins ++ deleteStmts ck.del nid del) db with h | h <;> rw [h]
    · exact hs
    · rw [execAll_append, execAll_deleteStmts, execAll_writeStmts, deleteC_eq _ hck.2.1, writeC_eq _ hck.1]
      apply filter_WF
      apply insertRows_WF hs
      rw [mkRows_shards]; exact hf
  | pMap strs =>
    simp only [step, wOut_snd, pMap, statusOfTx_snd]
    rcases transaction_cases fail (mapStmts ck.maps nid strs) db with h | h <;> rw [h]
    · exact hs
    · rw [execAll_mapStmts_rows]; exact hs
  | malformed => exact hs
  | list q size tok => rw [step_read _ _ _ _ _ _ rfl]; exact hs
  | listAll q size => rw [step_read _ _ _ _ _ _ rfl]; exact hs
  | pList q size tok => rw [step_read _ _ _ _ _ _ rfl]; exact hs
  | pExists q => rw [step_read _ _ _ _ _ _ rfl]; exact hs
  | readOnlyMap strs => rw [step_read _ _ _ _ _ _ rfl]; exact hs

theorem run_WF (ck : Chunking) (hck : ck.pos) (cfg : Names) (fail : Oracle) (h : History) (db : DB)
    (hs : WF db.rows) (hf : FreshRun ck cfg fail h db) : WF (run ck cfg fail h db).2.rows := by
  induction h generalizing db with
  | nil => exact hs
  | cons x h ih =>
    rcases x with ⟨nid, op⟩
    simp only [run]
    exact ih _ (step_WF ck hck cfg fail nid op db hs hf.1) hf.2

/-! ## Frame lemmas: a statement of network A does not touch what network B has -/

theorem view_insertRow {r : Row} {B : Nat} (h : r.nid ≠ B) (s : Store) :
    view B (insertRow r s) = view B s := by
  have hr : inNet B r = false := by simp [inNet, h]
  induction s with
  | nil => simp [insertRow, view, hr]
  | cons y ys ih =>
    simp only [insertRow]
    split
    · simp [view, List.filter_cons, hr]
    · unfold view at ih ⊢
      rw [List.filter_cons, List.filter_cons, ih]

theorem view_insertRows {rows : List Row} {B : Nat} (h : ∀ r ∈ rows, r.nid ≠ B) (s : Store) :
    view B (insertRows rows s) = view B s := by
  induction rows generalizing s with
  | nil => rfl
  | cons r rs ih =>
    simp only [insertRows]
    rw [ih (fun x hx => h x (List.mem_cons_of_mem _ hx)), view_insertRow (h r (by simp))]

theorem view_filter_other {A B : Nat} (hAB : A ≠ B) (p : Row → Bool) (s : Store)
    (hp : ∀ r, p r = false → r.nid = A) : view B (s.filter p) = view B s := by
  unfold view
  rw [List.filter_filter]
  apply List.filter_congr
  intro r _
  by_cases hb : inNet B r = true
  · have : r.nid = B := by simpa [inNet] using hb
    cases hpr : p r with
    | true => simp
    | false => exact absurd ((hp r hpr).symm.trans this) hAB
  · simp [hb]

theorem view_deleteStmt {A B : Nat} (hAB : A ≠ B) (ts : List Tuple) (s : Store) :
    view B (deleteStmt A ts s) = view B s := by
  apply view_filter_other hAB
  intro r h
  simp only [listed, inNet, Bool.not_eq_false', Bool.and_eq_true, decide_eq_true_eq] at h
  exact h.1

theorem view_deleteAll {A B : Nat} (hAB : A ≠ B) (q : Query) (s : Store) :
    view B (deleteAll A q s) = view B s := by
  apply view_filter_other hAB
  intro r h
  simp only [hits, inNet, Bool.not_eq_false', Bool.and_eq_true, decide_eq_true_eq] at h
  exact h.1

/-- A statement that only concerns network `A` (every statement the persister of `A` issues: the inserted
    rows carry `A`, the deletes carry `nid = A`). -/
def Stmt.inNetwork (A : Nat) : Stmt → Prop
  | .insertMaps _ => True
  | .insertRows rs => ∀ r ∈ rs, r.nid = A
  | .deleteRows nid _ => nid = A
  | .deleteWhere nid _ => nid = A

theorem view_exec {A B : Nat} (hAB : A ≠ B) (st : Stmt) (hst : st.inNetwork A) (db : DB) :
    view B (st.exec db).rows = view B db.rows := by
  cases st with
  | insertMaps ms => rfl
  | insertRows rs =>
    simp only [Stmt.exec]
    exact view_insertRows (fun r hr => by rw [hst r hr]; exact hAB) _
  | deleteRows nid ts =>
    simp only [Stmt.exec]
    rw [show nid = A from hst]
    exact view_deleteStmt hAB ts _
  | deleteWhere nid q =>
    simp only [Stmt.exec]
    rw [show nid = A from hst]
    exact view_deleteAll hAB q _

theorem view_execAll {A B : Nat} (hAB : A ≠ B) (sts : List Stmt) (hst : ∀ st ∈ sts, st.inNetwork A) (db : DB) :
    view B (execAll sts db).rows = view B db.rows := by
  induction sts generalizing db with
  | nil => rfl
  | cons st rest ih =>
    simp only [execAll]
    rw [ih (fun x hx => hst x (List.mem_cons_of_mem _ hx)), view_exec hAB st (hst st (by simp))]

theorem view_transaction {A B : Nat} (hAB : A ≠ B) (fail : Oracle) (sts : List Stmt)
    (hst : ∀ st ∈ sts, st.inNetwork A) (db : DB) :
    view B (transaction fail sts db).2.rows = view B db.rows := by
  rcases transaction_cases fail sts db with h | h <;> rw [h]
  exact view_execAll hAB sts hst db

theorem mem_chunksF {α : Type} (n : Nat) : ∀ (f : Nat) (l : List α) (c : List α) (x : α),
    c ∈ chunksF n f l → x ∈ c → x ∈ l := by
  intro f
  induction f with
  | zero => intro l c x h; simp [chunksF] at h
  | succ f ih =>
    intro l c x h hx
    cases l with
    | nil => simp [chunksF] at h
    | cons a as =>
      simp only [chunksF, List.mem_cons] at h
      rcases h with rfl | h
      · exact List.mem_of_mem_take hx
      · exact List.mem_of_mem_drop (ih _ c x h hx)

theorem writeStmts_inNetwork (c nid : Nat) (ins : List (Tuple × Nat)) :
    ∀ st ∈ writeStmts c nid ins, st.inNetwork nid := by
  intro st hst
  unfold writeStmts at hst
  obtain ⟨ch, hch, rfl⟩ := List.mem_map.mp hst
  intro r hr
  have := mem_chunksF c _ _ ch r hch hr
  unfold mkRows at this
  obtain ⟨p, _, rfl⟩ := List.mem_map.mp this
  rfl

theorem deleteStmts_inNetwork (c nid : Nat) (ts : List Tuple) :
    ∀ st ∈ deleteStmts c nid ts, st.inNetwork nid := by
  intro st hst
  unfold deleteStmts at hst
  obtain ⟨ch, _, rfl⟩ := List.mem_map.mp hst
  rfl

theorem mapStmts_inNetwork (c nid A : Nat) (strs : List Nat) :
    ∀ st ∈ mapStmts c nid strs, st.inNetwork A := by
  intro st hst
  unfold mapStmts at hst
  obtain ⟨ch, _, rfl⟩ := List.mem_map.mp hst
  trivial

theorem writeTx_view {A B : Nat} (hAB : A ≠ B) (ck : Chunking) (cfg : Names) (fail : Oracle)
    (ins : List (ATuple × Nat)) (del : List ATuple) (db : DB) :
    view B (writeTx ck cfg fail A ins del db).2.rows = view B db.rows := by
  unfold writeTx
  cases fromTuples cfg (ins.map (·.1)) with
  | error e => rfl
  | ok insI =>
    cases fromTuples cfg del with
    | error e => rfl
    | ok delI =>
      simp only [statusOfTx_snd]
      apply view_transaction hAB
      intro st hst
      simp only [List.mem_append] at hst
      rcases hst with (h | h) | h
      · exact mapStmts_inNetwork _ _ _ _ st h
      · exact writeStmts_inNetwork _ _ _ st h
      · exact deleteStmts_inNetwork _ _ _ st h

theorem deleteByQuery_view {A B : Nat} (hAB : A ≠ B) (cfg : Names) (fail : Oracle) (q : Query) (db : DB) :
    view B (deleteByQuery cfg fail A q db).2.rows = view B db.rows := by
  unfold deleteByQuery
  cases fromQuery cfg q with
  | error e => rfl
  | ok iq =>
    simp only [statusOfTx_snd]
    apply view_transaction hAB
    intro st hst
    simp only [List.mem_singleton] at hst
    subst hst
    rfl

/-- Any request in network `A`, with any fault oracle, leaves the rows of network `B ≠ A` alone. -/
theorem step_view {A B : Nat} (hAB : A ≠ B) (ck : Chunking) (cfg : Names) (fail : Oracle) (op : Op) (db : DB) :
    view B (step ck cfg fail A op db).2.rows = view B db.rows := by
  cases op with
  | restCreate t sh =>
    simp only [step, wOut_snd, restCreate]
    split
    · rfl
    · exact writeTx_view hAB ..
  | restDelete q =>
    simp only [step, wOut_snd, restDelete]
    split
    · rfl
    · exact deleteByQuery_view hAB ..
  | restPatch ds =>
    simp only [step, wOut_snd, restPatch]
    split
    · rfl
    · exact writeTx_view hAB ..
  | grpcTransact ds =>
    simp only [step, wOut_snd, grpcTransact]
    split
    · rfl
    · split
      · rfl
      · exact writeTx_view hAB ..
  | grpcDelete q =>
    simp only [step, wOut_snd, grpcDelete]
    cases q with
    | none => rfl
    | some q => exact deleteByQuery_view hAB ..
  | pWrite ins =>
    simp only [step, wOut_snd, pWrite, statusOfTx_snd]
    exact view_transaction hAB fail _ (writeStmts_inNetwork _ _ _) db
  | pDelete ts =>
    simp only [step, wOut_snd, pDelete, statusOfTx_snd]
    exact view_transaction hAB fail _ (deleteStmts_inNetwork _ _ _) db
  | pDeleteAll q =>
    simp only [step, wOut_snd, pDeleteAll, statusOfTx_snd]
    apply view_transaction hAB
    intro st hst
    simp only [List.mem_singleton] at hst
    subst hst
    rfl
  | pTransact ins del =>
    simp only [step, wOut_snd, pTransact, statusOfTx_snd]
    apply view_transaction hAB
    intro st hst
    rcases List.mem_append.mp hst with h | h
    · exact writeStmts_inNetwork _ _ _ st h
    · exact deleteStmts_inNetwork _ _ _ st h
  | pMap strs =>
    simp only [step, wOut_snd, pMap, statusOfTx_snd]
    exact view_transaction hAB fail _ (mapStmts_inNetwork _ _ _ _) db
  | malformed => rfl
  | list q size tok => rw [step_read _ _ _ _ _ _ rfl]
  | listAll q size => rw [step_read _ _ _ _ _ _ rfl]
  | pList q size tok => rw [step_read _ _ _ _ _ _ rfl]
  | pExists q => rw [step_read _ _ _ _ _ _ rfl]
  | readOnlyMap strs => rw [step_read _ _ _ _ _ _ rfl]

theorem run_view (B : Nat) (ck : Chunking) (cfg : Names) (fail : Oracle) (h : History)
    (hB : ∀ x ∈ h, x.1 ≠ B) (db : DB) :
    view B (run ck cfg fail h db).2.rows = view B db.rows := by
  induction h generalizing db with
  | nil => rfl
  | cons x h ih =>
    rcases x with ⟨A, op⟩
    simp only [run]
    rw [ih (fun y hy => hB y (List.mem_cons_of_mem _ hy)), step_view (hB (A, op) (by simp))]

/-! ### Observations in `B` only look at `view B` -/

theorem cands_view (B : Nat) (q : Query) (last : Nat) (s : Store) :
    cands B q last (view B s) = cands B q last s := by
  unfold cands view
  rw [List.filter_filter]
  apply List.filter_congr
  intro r _
  unfold hits
  cases inNet B r <;> simp

theorem getPage_view (B : Nat) (q : Query) (size : Int) (tok : Token) (s : Store) :
    getPage B q size tok (view B s) = getPage B q size tok s := by
  unfold getPage
  split
  · rfl
  · split
    · rfl
    · rw [cands_view]

theorem existsTuples_view (B : Nat) (q : Query) (s : Store) :
    existsTuples B q (view B s) = existsTuples B q s := by
  unfold existsTuples view
  rw [List.any_filter]
  congr 1
  funext r
  unfold hits
  cases inNet B r <;> simp

theorem follow_view (B : Nat) (q : Query) (size : Int) (s : Store) (f : Nat) (tok : Token) :
    follow B q size (view B s) f tok = follow B q size s f tok := by
  induction f generalizing tok with
  | zero => rfl
  | succ f ih =>
    simp only [follow, getPage_view]
    cases getPage B q size tok s with
    | error e => rfl
    | ok p =>
      simp only
      cases p.next with
      | none => rfl
      | some l => simp only; rw [ih]

/-! ## Listings against the specification -/

theorem count_matching (nid : Nat) (q : Query) (s : Store) (t : Tuple) :
    ((matching nid q s).map (·.t)).count t = (abs s).list nid q t := by
  unfold MS.list
  induction s with
  | nil => simp [matching, abs]
  | cons r rs ih =>
    have hcons : matching nid q (r :: rs) = if hits nid q r then r :: matching nid q rs else matching nid q rs := by
      unfold matching
      rw [List.filter_cons]
    rw [hcons, abs_cons]
    by_cases hh : hits nid q r = true
    · rw [if_pos hh, List.map_cons, List.count_cons, ih]
      simp only [hits, inNet, Bool.and_eq_true, decide_eq_true_eq] at hh
      by_cases hm : q.matches t = true
      · simp only [hm, if_true]
        by_cases ht : r.t = t
        · simp [ht, hh.1]
        · simp [ht]
      · simp only [hm, Bool.false_eq_true, if_false]
        have : ¬ r.t = t := fun h => hm (h ▸ hh.2)
        simp [this]
    · rw [if_neg hh, ih]
      simp only [hits, inNet, Bool.and_eq_true, decide_eq_true_eq] at hh
      by_cases hm : q.matches t = true
      · simp only [hm, if_true]
        have : ¬ (r.nid = nid ∧ r.t = t) := fun h => hh ⟨h.1, h.2 ▸ hm⟩
        simp [this]
      · simp only [hm, Bool.false_eq_true, if_false]

theorem abs_pos_iff (s : Store) (n : Nat) (t : Tuple) : 0 < abs s n t ↔ ∃ r ∈ s, r.nid = n ∧ r.t = t := by
  unfold abs
  rw [List.countP_pos_iff]
  simp

theorem existsTuples_iff (nid : Nat) (q : Query) (s : Store) :
    existsTuples nid q s = true ↔ (abs s).has nid q := by
  unfold existsTuples MS.has
  rw [List.any_eq_true]
  constructor
  · rintro ⟨r, hr, hh⟩
    simp only [hits, inNet, Bool.and_eq_true, decide_eq_true_eq] at hh
    exact ⟨r.t, hh.2, (abs_pos_iff s nid r.t).mpr ⟨r, hr, hh.1, rfl⟩⟩
  · rintro ⟨t, hm, hpos⟩
    obtain ⟨r, hr, hn, ht⟩ := (abs_pos_iff s nid t).mp hpos
    refine ⟨r, hr, ?_⟩
    simp [hits, inNet, hn, ht, hm]

theorem follow_listAll (nid : Nat) (q : Query) (size : Int) (s : Store) :
    (follow nid q size s (s.length + 1) .empty).map pagesRows = listAll nid q size s := rfl

/-- A complete listing through the API on a well-formed table: accepted iff the specification accepts it,
    and then it returns the matching rows. -/
theorem listAllReq_spec (ck : Chunking) (cfg : Names) (nid : Nat) (q : Option Query) (size : Int) (db : DB)
    (hwf : WF db.rows) :
    match (listAllReq ck cfg nid q size db).1.pages, specListAll cfg nid q size (abs db.rows) with
    | some ps, some f => ∀ t, ((pagesRows ps).map (·.t)).count t = f t
    | none, none => True
    | _, _ => False := by
  unfold listAllReq specListAll
  cases q with
  | none => simp
  | some q =>
    simp only [mapQuery, fromQuery, mapStrings_readOnly, specQuery_eq]
    by_cases hq : (q.nsOK cfg && q.subNsOK cfg) = true
    · simp only [hq, if_true, Bool.true_and]
      by_cases hsz : size < 0
      · have : ¬ 0 ≤ size := by omega
        simp [hsz, this]
      · have hsz' : 0 ≤ size := by omega
        simp only [hsz, if_false, hsz', decide_true, if_true]
        have hlen : (matching nid q db.rows).length < db.rows.length + 1 :=
          Nat.lt_succ_of_le (List.length_filter_le _ _)
        obtain ⟨ps, hps, hrows, _⟩ :=
          follow_spec hwf.1 nid q size hsz' (db.rows.length + 1) .empty 0 rfl
            (by rw [cands_zero hwf.2]; exact hlen)
        rw [cands_zero hwf.2] at hrows
        rw [hps]
        simp only
        intro t
        rw [hrows, count_matching]
    · simp [hq]

/-! ## Normal form of a write request: rejected before any statement, or one transaction -/

theorem fromTuple_err (cfg : Names) (t : ATuple) (e : Status) (h : fromTuple cfg t = .error e) : e ≠ .ok := by
  unfold fromTuple at h
  split at h
  · cases h; decide
  · split at h
    · cases h; decide
    · split at h
      · cases h
      · split at h
        · cases h; decide
        · cases h
      · cases h; decide

theorem fromTuples_err (cfg : Names) (ts : List ATuple) (e : Status) (h : fromTuples cfg ts = .error e) :
    e ≠ .ok := by
  induction ts with
  | nil => cases h
  | cons t ts ih =>
    simp only [fromTuples] at h
    cases h1 : fromTuple cfg t with
    | error e1 =>
      rw [h1] at h
      cases h
      exact fromTuple_err cfg t _ h1
    | ok it =>
      rw [h1] at h
      simp only at h
      cases h2 : fromTuples cfg ts with
      | error e2 =>
        rw [h2] at h
        cases h
        exact ih h2
      | ok its => rw [h2] at h; cases h

/-- Either rejected with a fixed non-ok status and no effect, whatever the oracle; or one transaction over a
    statement list that does not depend on the oracle. -/
def NormalForm (f : Oracle → Status × DB) (db : DB) : Prop :=
  (∃ e, e ≠ Status.ok ∧ ∀ fail, f fail = (e, db)) ∨
  (∃ sts, ∀ fail, f fail = statusOfTx (transaction fail sts db))

theorem writeTx_form (ck : Chunking) (cfg : Names) (nid : Nat) (ins : List (ATuple × Nat)) (del : List ATuple)
    (db : DB) : NormalForm (fun fail => writeTx ck cfg fail nid ins del db) db := by
  unfold writeTx
  cases h1 : fromTuples cfg (ins.map (·.1)) with
  | error e => exact Or.inl ⟨e, fromTuples_err _ _ _ h1, fun _ => rfl⟩
  | ok insI =>
    cases h2 : fromTuples cfg del with
    | error e => exact Or.inl ⟨e, fromTuples_err _ _ _ h2, fun _ => rfl⟩
    | ok delI => exact Or.inr ⟨_, fun _ => rfl⟩

theorem deleteByQuery_form (cfg : Names) (nid : Nat) (q : Query) (db : DB) :
    NormalForm (fun fail => deleteByQuery cfg fail nid q db) db := by
  unfold deleteByQuery fromQuery
  by_cases h : (q.nsOK cfg && q.subNsOK cfg) = true
  · simp only [h, if_true]
    exact Or.inr ⟨_, fun _ => rfl⟩
  · simp only [h]
    exact Or.inl ⟨.notFound, by decide, fun _ => rfl⟩

def Op.request (ck : Chunking) (cfg : Names) (nid : Nat) (op : Op) (db : DB) (fail : Oracle) : Status × DB :=
  ((step ck cfg fail nid op db).1.status, (step ck cfg fail nid op db).2)

theorem pair_eta {α β : Type} (p : α × β) : (p.1, p.2) = p := rfl

theorem NormalForm.of_eq {f g : Oracle → Status × DB} {db : DB} (hf : NormalForm f db)
    (h : ∀ fail, g fail = f fail) : NormalForm g db := by
  have : g = f := funext h
  rw [this]; exact hf

theorem step_form (ck : Chunking) (cfg : Names) (nid : Nat) (op : Op) (db : DB) (hw : op.isRead = false) :
    NormalForm (op.request ck cfg nid db) db := by
  unfold Op.request
  cases op with
  | restCreate t sh =>
    simp only [step, wOut, restCreate]
    by_cases hv : t.validate = true
    · simp only [hv, Bool.not_true, Bool.false_eq_true, if_false]
      exact (writeTx_form ck cfg nid _ _ db).of_eq (fun _ => pair_eta _)
    · have hv' : t.validate = false := by simpa using hv
      simp only [hv', Bool.not_false, if_true]
      exact Or.inl ⟨.bad, by decide, fun _ => rfl⟩
  | restDelete q =>
    simp only [step, wOut, restDelete]
    by_cases hn : q.ns.isNone = true
    · simp only [hn, if_true]
      exact Or.inl ⟨.bad, by decide, fun _ => rfl⟩
    · simp only [hn, Bool.false_eq_true, if_false]
      exact (deleteByQuery_form cfg nid q db).of_eq (fun _ => pair_eta _)
  | restPatch ds =>
    simp only [step, wOut, restPatch]
    by_cases hp : patchCheck ds = true
    · simp only [hp, Bool.not_true, Bool.false_eq_true, if_false]
      exact (writeTx_form ck cfg nid _ _ db).of_eq (fun _ => pair_eta _)
    · have hp' : patchCheck ds = false := by simpa using hp
      simp only [hp', Bool.not_false, if_true]
      exact Or.inl ⟨.bad, by decide, fun _ => rfl⟩
  | grpcTransact ds =>
    simp only [step, wOut, grpcTransact]
    by_cases hi : protoCheck .insert ds = true
    · by_cases hd : protoCheck .delete ds = true
      · simp only [hi, hd, Bool.not_true, Bool.false_eq_true, if_false]
        exact (writeTx_form ck cfg nid _ _ db).of_eq (fun _ => pair_eta _)
      · have hd' : protoCheck .delete ds = false := by simpa using hd
        simp only [hi, hd', Bool.not_true, Bool.not_false, Bool.false_eq_true, if_false, if_true]
        exact Or.inl ⟨.bad, by decide, fun _ => rfl⟩
    · have hi' : protoCheck .insert ds = false := by simpa using hi
      simp only [hi', Bool.not_false, if_true]
      exact Or.inl ⟨.bad, by decide, fun _ => rfl⟩
  | grpcDelete q =>
    simp only [step, wOut, grpcDelete]
    cases q with
    | none => exact Or.inl ⟨.bad, by decide, fun _ => rfl⟩
    | some q => exact (deleteByQuery_form cfg nid q db).of_eq (fun _ => pair_eta _)
  | pWrite ins => exact Or.inr ⟨_, fun _ => rfl⟩
  | pDelete ts => exact Or.inr ⟨_, fun _ => rfl⟩
  | pDeleteAll q => exact Or.inr ⟨_, fun _ => rfl⟩
  | pTransact ins del => exact Or.inr ⟨_, fun _ => rfl⟩
  | pMap strs => exact Or.inr ⟨_, fun _ => rfl⟩
  | malformed => exact Or.inl ⟨.bad, by decide, fun _ => rfl⟩
  | list q size tok => cases hw
  | listAll q size => cases hw
  | pList q size tok => cases hw
  | pExists q => cases hw
  | readOnlyMap strs => cases hw

/-- All or nothing for anything in normal form: with an arbitrary oracle the outcome is either (ok, what the
    fault-free run gives) or (not ok, the database before). -/
theorem normalForm_all_or_nothing {f : Oracle → Status × DB} {db : DB} (h : NormalForm f db) (fail : Oracle) :
    ((f fail).1 = .ok → f fail = f noFail) ∧ ((f fail).1 ≠ .ok → (f fail).2 = db) := by
  rcases h with ⟨e, he, hf⟩ | ⟨sts, hf⟩
  · rw [hf fail, hf noFail]
    exact ⟨fun _ => rfl, fun _ => rfl⟩
  · rw [hf fail, hf noFail, transaction_noFail]
    rcases transaction_cases fail sts db with h | h <;> rw [h]
    · exact ⟨fun h => (by cases h), fun _ => rfl⟩
    · exact ⟨fun _ => rfl, fun h => absurd rfl h⟩

/-! ## Unacceptable writes are answered with an error -/

theorem okOpt_none {ε α : Type} {x : Except ε α} (h : okOpt x = none) : ∃ e, x = .error e := by
  cases x with
  | error e => exact ⟨e, rfl⟩
  | ok a => cases h

theorem writeTx_rejects (ck : Chunking) (cfg : Names) (fail : Oracle) (nid : Nat) (ins : List (ATuple × Nat))
    (del : List ATuple) (db : DB)
    (h : specTuples cfg (ins.map (·.1)) = none ∨ specTuples cfg del = none) :
    (writeTx ck cfg fail nid ins del db).1 ≠ .ok := by
  unfold writeTx
  rw [specTuples_eq, specTuples_eq] at h
  cases h1 : fromTuples cfg (ins.map (·.1)) with
  | error e => exact fromTuples_err _ _ _ h1
  | ok insI =>
    cases h2 : fromTuples cfg del with
    | error e => exact fromTuples_err _ _ _ h2
    | ok delI =>
      rw [h1, h2] at h
      rcases h with h | h <;> cases h

theorem mem_deltaTuples {a : Action} {ds : List Delta} {d : Delta} {t : ATuple} (hd : d ∈ ds)
    (ha : d.action = a) (ht : d.t = some t) : t ∈ deltaTuples a ds := by
  unfold deltaTuples
  rw [List.mem_filterMap]
  exact ⟨d, hd, by simp [ha, ht]⟩

theorem deltas_reject (ck : Chunking) (cfg : Names) (fail : Oracle) (nid : Nat) (ds : List Delta) (db : DB)
    (d : Delta) (t : ATuple) (hd : d ∈ ds) (ha : d.action ≠ .other) (ht : d.t = some t)
    (hs : specTuple cfg t = none) :
    (writeTx ck cfg fail nid (withAction .insert ds) ((withAction .delete ds).map (·.1)) db).1 ≠ .ok := by
  apply writeTx_rejects
  rw [withAction_tuples, withAction_tuples]
  cases hact : d.action with
  | other => exact absurd hact ha
  | insert => exact Or.inl (specTuples_none_of_mem cfg _ t (mem_deltaTuples hd hact ht) hs)
  | delete => exact Or.inr (specTuples_none_of_mem cfg _ t (mem_deltaTuples hd hact ht) hs)

/-! ## Requests that do not name a row keep it -/

theorem fromTuple_internal (cfg : Names) (t : ATuple) (it : Tuple) (h : fromTuple cfg t = .ok it) :
    t.internal? = some it := by
  unfold fromTuple at h
  unfold ATuple.internal?
  split at h
  · cases h
  · split at h
    · cases h
    · split at h
      · cases h; rfl
      · split at h
        · cases h
        · cases h; rfl
      · cases h

theorem fromTuples_mem (cfg : Names) (ts : List ATuple) (its : List Tuple) (h : fromTuples cfg ts = .ok its) :
    ∀ it ∈ its, ∃ t ∈ ts, t.internal? = some it := by
  induction ts generalizing its with
  | nil => simp [fromTuples] at h; subst h; intro it hit; cases hit
  | cons t ts ih =>
    simp only [fromTuples] at h
    cases h1 : fromTuple cfg t with
    | error e => simp [h1] at h
    | ok it0 =>
      cases h2 : fromTuples cfg ts with
      | error e => simp [h1, h2] at h
      | ok its' =>
        simp [h1, h2] at h
        subst h
        intro it hit
        rcases List.mem_cons.mp hit with rfl | hit
        · exact ⟨t, by simp, fromTuple_internal cfg t _ h1⟩
        · obtain ⟨t', ht', h'⟩ := ih its' h2 it hit
          exact ⟨t', List.mem_cons_of_mem _ ht', h'⟩

theorem mem_filter_not {s : Store} {r : Row} {p : Row → Bool} (hr : r ∈ s) (hp : p r = false) :
    r ∈ s.filter (fun x => !p x) := by
  rw [List.mem_filter]
  exact ⟨hr, by simp [hp]⟩

theorem transaction_keeps (fail : Oracle) (sts : List Stmt) (db : DB) (r : Row) (hr : r ∈ db.rows)
    (h : r ∈ (execAll sts db).rows) : r ∈ (transaction fail sts db).2.rows := by
  rcases transaction_cases fail sts db with h' | h' <;> rw [h']
  · exact hr
  · exact h

theorem writeTx_keeps (ck : Chunking) (hck : ck.pos) (cfg : Names) (fail : Oracle) (nid : Nat)
    (ins : List (ATuple × Nat)) (del : List ATuple) (db : DB) (r : Row) (hr : r ∈ db.rows)
    (hdel : (decide (r.nid = nid) && del.any fun t => decide (t.internal? = some r.t)) = false) :
    r ∈ (writeTx ck cfg fail nid ins del db).2.rows := by
  unfold writeTx
  cases h1 : fromTuples cfg (ins.map (·.1)) with
  | error e => exact hr
  | ok insI =>
    cases h2 : fromTuples cfg del with
    | error e => exact hr
    | ok delI =>
      simp only [statusOfTx_snd]
      apply transaction_keeps fail _ db r hr
      rw [execAll_writeTx_rows, transactC_eq _ _ hck.1 hck.2.1]
      apply mem_filter_not (mem_insertRows.mpr (Or.inr hr))
      unfold listed inNet
      by_cases hn : r.nid = nid
      · simp only [hn, decide_true, Bool.true_and, decide_eq_false_iff_not]
        intro hmem
        obtain ⟨t, ht, hti⟩ := fromTuples_mem cfg del delI h2 r.t hmem
        simp only [hn, decide_true, Bool.true_and] at hdel
        have : (del.any fun t => decide (t.internal? = some r.t)) = true :=
          List.any_eq_true.mpr ⟨t, ht, by simp [hti]⟩
        rw [this] at hdel
        cases hdel
      · simp [hn]

theorem deleteByQuery_keeps (cfg : Names) (fail : Oracle) (nid : Nat) (q : Query) (db : DB) (r : Row)
    (hr : r ∈ db.rows) (hq : (decide (r.nid = nid) && q.matches r.t) = false) :
    r ∈ (deleteByQuery cfg fail nid q db).2.rows := by
  unfold deleteByQuery fromQuery
  by_cases h : (q.nsOK cfg && q.subNsOK cfg) = true
  · simp only [h, if_true, statusOfTx_snd]
    apply transaction_keeps fail _ db r hr
    simp only [execAll, Stmt.exec]
    exact mem_filter_not hr (by simpa [hits, inNet] using hq)
  · simp only [h]
    exact hr

/-- A request that does not name `r` for deletion keeps `r` (same shard id, same content) — whatever else it
    inserts or deletes, and whatever the fault oracle. -/
theorem step_keeps (ck : Chunking) (hck : ck.pos) (cfg : Names) (fail : Oracle) (n : Nat) (op : Op) (db : DB)
    (r : Row) (hr : r ∈ db.rows) (hop : op.mayDelete n r = false) :
    r ∈ (step ck cfg fail n op db).2.rows := by
  cases op with
  | restCreate t sh =>
    simp only [step, wOut_snd, restCreate]
    split
    · exact hr
    · exact writeTx_keeps ck hck cfg fail n _ [] db r hr (by simp)
  | restDelete q =>
    simp only [step, wOut_snd, restDelete]
    split
    · exact hr
    · exact deleteByQuery_keeps cfg fail n q db r hr hop
  | restPatch ds =>
    simp only [step, wOut_snd, restPatch]
    split
    · exact hr
    · apply writeTx_keeps ck hck cfg fail n _ _ db r hr
      simpa [Op.mayDelete, List.any_map, Function.comp_def] using hop
  | grpcTransact ds =>
    simp only [step, wOut_snd, grpcTransact]
    split
    · exact hr
    · split
      · exact hr
      · apply writeTx_keeps ck hck cfg fail n _ _ db r hr
        simpa [Op.mayDelete, List.any_map, Function.comp_def] using hop
  | grpcDelete q =>
    simp only [step, wOut_snd, grpcDelete]
    cases q with
    | none => exact hr
    | some q => exact deleteByQuery_keeps cfg fail n q db r hr hop
  | pWrite ins =>
    simp only [step, wOut_snd, pWrite, statusOfTx_snd]
    apply transaction_keeps fail _ db r hr
    rw [execAll_writeStmts, writeC_eq _ hck.1]
    exact mem_insertRows.mpr (Or.inr hr)
  | pDelete ts =>
    simp only [step, wOut_snd, pDelete, statusOfTx_snd]
    apply transaction_keeps fail _ db r hr
    rw [execAll_deleteStmts, deleteC_eq _ hck.2.1]
    exact mem_filter_not hr (by simpa [Op.mayDelete, listed, inNet] using hop)
  | pDeleteAll q =>
    simp only [step, wOut_snd, pDeleteAll, statusOfTx_snd]
    apply transaction_keeps fail _ db r hr
    simp only [execAll, Stmt.exec]
    exact mem_filter_not hr (by simpa [Op.mayDelete, hits, inNet] using hop)
  | pTransact ins del =>
    simp only [step, wOut_snd, pTransact, statusOfTx_snd]
    apply transaction_keeps fail _ db r hr
    rw [execAll_append, execAll_deleteStmts, execAll_writeStmts, deleteC_eq _ hck.2.1, writeC_eq _ hck.1]
    exact mem_filter_not (mem_insertRows.mpr (Or.inr hr)) (by simpa [Op.mayDelete, listed, inNet] using hop)
  | pMap strs =>
    simp only [step, wOut_snd, pMap, statusOfTx_snd]
    apply transaction_keeps fail _ db r hr
    rw [execAll_mapStmts_rows]; exact hr
  | malformed => exact hr
  | list q size tok => rw [step_read _ _ _ _ _ _ rfl]; exact hr
  | listAll q size => rw [step_read _ _ _ _ _ _ rfl]; exact hr
  | pList q size tok => rw [step_read _ _ _ _ _ _ rfl]; exact hr
  | pExists q => rw [step_read _ _ _ _ _ _ rfl]; exact hr
  | readOnlyMap strs => rw [step_read _ _ _ _ _ _ rfl]; exact hr

theorem run_keeps (ck : Chunking) (hck : ck.pos) (cfg : Names) (fail : Oracle) (h : History) (db : DB)
    (r : Row) (hr : r ∈ db.rows) (hh : ∀ x ∈ h, x.2.mayDelete x.1 r = false) :
    r ∈ (run ck cfg fail h db).2.rows := by
  induction h generalizing db with
  | nil => exact hr
  | cons x h ih =>
    rcases x with ⟨n, op⟩
    simp only [run]
    exact ih _ (step_keeps ck hck cfg fail n op db r hr (hh (n, op) (by simp)))
      (fun y hy => hh y (List.mem_cons_of_mem _ hy))

theorem storesOf_inv (ck : Chunking) (hck : ck.pos) (cfg : Names) (fail : Oracle) (r : Row) :
    ∀ (hs : List History) (db : DB), WF db.rows → r ∈ db.rows → FreshRuns ck cfg fail db hs →
      (∀ h ∈ hs, ∀ x ∈ h, x.2.mayDelete x.1 r = false) →
      ∀ s ∈ storesOf ck cfg fail db hs, WF s ∧ r ∈ s := by
  intro hs
  induction hs with
  | nil =>
    intro db hwf hr _ _ s hs
    simp only [storesOf, List.mem_singleton] at hs
    subst hs
    exact ⟨hwf, hr⟩
  | cons h hs ih =>
    intro db hwf hr hf hsp s hs
    simp only [storesOf, List.mem_cons] at hs
    rcases hs with rfl | hs
    · exact ⟨hwf, hr⟩
    · exact ih _ (run_WF ck hck cfg fail h db hwf hf.1)
        (run_keeps ck hck cfg fail h db r hr (hsp h (by simp))) hf.2
        (fun h' hh' => hsp h' (List.mem_cons_of_mem _ hh')) s hs

end Keto.Store
