/-
  Completeness of the engine model: what strict mode (`namespaces.experimental_strict_mode`) needs.
  In strict mode the engine skips the direct lookup for relations with a rewrite, the subject-set
  expansion for relations without a subject-set type, and the union-shortcut candidates with a
  rewrite. That is harmless when the store conforms to the configuration (`conforms`).

  Helper lemmas only; the property theorems live in Keto/Props/C01complete.lean.
-/
import Keto.Model.Engine
import Keto.Spec.Membership
import Keto.Proofs.EngineCompleteLogic

namespace Keto

theorem conformsTuple_of_mem {c : Cfg} {T : List Tuple} (h : conforms c T = true) {t : Tuple} (ht : t ∈ T) :
    conformsTuple c t = true := by
  unfold conforms at h
  rw [List.all_eq_true] at h
  exact h t ht

/-- The lookup of the relation of a conforming tuple: a relation without rewrite whose types allow
    the tuple's subject set. -/
theorem conformsTuple_lookup {c : Cfg} {t : Tuple} (h : conformsTuple c t = true) :
    ∃ R, astRelationFor c t.ns t.rel = .rel R ∧ R.rewrite = none ∧ t.rel ≠ "" ∧
      ∀ n o r, t.sub = .set n o r → R.types.any (fun ty => ty.ns == n && ty.rel == r) = true := by
  unfold conformsTuple at h
  split at h
  · cases h
  · next N hN =>
    split at h
    · cases h
    · next R hR =>
      simp only [Bool.and_eq_true, Option.isNone_iff_eq_none, bne_iff_ne, ne_eq] at h
      obtain ⟨⟨hrw, hne⟩, hsub⟩ := h
      refine ⟨R, ?_, hrw, hne, ?_⟩
      · unfold astRelationFor
        have h1 : (t.rel == "") = false := by simpa using hne
        have h2 : N.relations.isEmpty = false := by
          unfold findRel at hR
          cases hrel : N.relations with
          | nil => rw [hrel] at hR; cases hR
          | cons _ _ => rfl
        simp only [h1, Bool.false_eq_true, if_false, hN, h2, hR]
      · intro n o r hs
        rw [hs] at hsub
        exact hsub

/-- No stored tuple is on a relation with a rewrite. -/
theorem conforms_no_rewrite {c : Cfg} {T : List Tuple} (h : conforms c T = true) {t : Tuple} (ht : t ∈ T)
    {R : Relation} (hR : astRelationFor c t.ns t.rel = .rel R) : R.rewrite = none := by
  obtain ⟨R', hR', hrw, _, _⟩ := conformsTuple_lookup (conformsTuple_of_mem h ht)
  rw [hR] at hR'
  cases hR'
  exact hrw

/-- A subject set stored in a relation that has no subject-set type has the empty relation. -/
theorem conforms_set_rel {c : Cfg} {T : List Tuple} (h : conforms c T = true) {ns : String} {obj : Nat}
    {rel : String} {n : String} {o : Nat} {r : String} (ht : (⟨ns, obj, rel, .set n o r⟩ : Tuple) ∈ T)
    {R : Relation} (hR : astRelationFor c ns rel = .rel R) (hss : containsSubjectSetExpand R = false) : r = "" := by
  obtain ⟨R', hR', _, _, hty⟩ := conformsTuple_lookup (conformsTuple_of_mem h ht)
  have hR'' : astRelationFor c ns rel = .rel R' := hR'
  rw [hR] at hR''
  cases hR''
  have := hty n o r rfl
  rw [List.any_eq_true] at this
  obtain ⟨ty, hm, hc⟩ := this
  simp only [Bool.and_eq_true, beq_iff_eq] at hc
  unfold containsSubjectSetExpand at hss
  have hall : ∀ ty, ty ∈ R.types → ty.rel = "" := by
    intro ty hty
    have := List.any_eq_false.1 hss ty hty
    simpa using this
  rw [← hc.2]
  exact hall ty hm

/-- Nobody is a member of a subject set with the empty relation (in a conforming store). -/
theorem conforms_empty_rel {c : Cfg} {T : List Tuple} (h : conforms c T = true) (V : List VKey) (k : Nat)
    (n : String) (o : Nat) (sub : Subject) : ¬ MemN c T V k ⟨n, o, "", sub⟩ := by
  intro hm
  cases hm with
  | direct _ _ ht =>
    obtain ⟨_, _, _, hne, _⟩ := conformsTuple_lookup (conformsTuple_of_mem h ht)
    exact hne rfl
  | expand _ _ n' o' r' ht _ _ =>
    obtain ⟨_, _, _, hne, _⟩ := conformsTuple_lookup (conformsTuple_of_mem h ht)
    exact hne rfl
  | rewrite _ _ R rw hR _ _ =>
    unfold astRelationFor at hR
    simp at hR

end Keto
