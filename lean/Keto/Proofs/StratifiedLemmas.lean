/-
  The stratified semantics `TrN` / `HTrN` / `FaN` / `HFaN` (Keto/Spec/Stratified.lean):

  * monotonicity in the height, a common height for finitely many derivations;
  * exclusivity (`tr_fa_aux`): a derivation of membership and a refutation under the assumption set
    `A` of the same node exhibit a member among `A` — so with `A = []` they cannot coexist;
  * the reference evaluator `refEval` is correct for it, for every configuration, `!` included
    (`refEval_strat_aux`): a `t` answer yields a `TrN` derivation, an `f` answer a `FaN` refutation
    whose assumption set is the part of the path entered at the current negation level;
  * on the positive fragment `Tr` is `Mem` (`tr_of_mem`, `mem_of_trN`).

  Helper lemmas only; the property theorems live in Keto/Props/C01neg.lean.
-/
import Keto.Model.Engine
import Keto.Spec.Membership
import Keto.Spec.Positive
import Keto.Spec.Stratified
import Keto.Proofs.EngineSound
import Keto.Proofs.EngineCompleteFrame
import Keto.Proofs.RefEvalLemmas

namespace Keto

variable {c : Cfg} {T : List Tuple}

/-! ### monotonicity in the height -/

theorem strat_succ : ∀ k,
    (∀ t, TrN c T k t → TrN c T (k+1) t) ∧
    (∀ ch t, HTrN c T k ch t → HTrN c T (k+1) ch t) ∧
    (∀ A t, FaN c T k A t → FaN c T (k+1) A t) ∧
    (∀ A ch t, HFaN c T k A ch t → HFaN c T (k+1) A ch t) := by
  intro k
  induction k with
  | zero =>
    refine ⟨?_, ?_, ?_, ?_⟩
    · intro t h; cases h
    · intro ch t h; cases h
    · intro A t h; cases h
    · intro A ch t h; cases h
  | succ k ih =>
    obtain ⟨ih1, ih2, ih3, ih4⟩ := ih
    refine ⟨?_, ?_, ?_, ?_⟩
    · intro t h
      cases h with
      | direct _ _ hm => exact .direct _ _ hm
      | expand _ _ n o r h1 h3 => exact .expand _ _ n o r h1 (ih1 _ h3)
      | rewrite _ _ R rw h1 h2 h3 => exact .rewrite _ _ R rw h1 h2 (ih2 _ _ h3)
    · intro ch t h
      cases h with
      | computed _ _ rel h1 => exact .computed _ _ rel (ih1 _ h1)
      | ttu _ _ rel crel n o r h1 h2 => exact .ttu _ _ rel crel n o r h1 (ih1 _ h2)
      | or _ _ cs ch hm h1 => exact .or _ _ cs ch hm (ih2 _ _ h1)
      | and _ _ cs hne hall => exact .and _ _ cs hne (fun ch hm => ih2 _ _ (hall ch hm))
      | invert _ _ ch h1 => exact .invert _ _ ch (ih4 _ _ _ h1)
    · intro A t h
      cases h with
      | cut _ _ _ hin => exact .cut _ _ _ hin
      | node _ _ _ hnin hnT hnb hexp hrw =>
        exact .node _ _ _ hnin hnT hnb (fun n o r hm => ih3 _ _ (hexp n o r hm))
          (fun R rw h1 h2 => ih4 _ _ _ (hrw R rw h1 h2))
    · intro A ch t h
      cases h with
      | computed _ _ _ rel h1 => exact .computed _ _ _ rel (ih3 _ _ h1)
      | ttu _ _ _ rel crel hall => exact .ttu _ _ _ rel crel (fun n o r hm => ih3 _ _ (hall n o r hm))
      | or _ _ _ cs hall => exact .or _ _ _ cs (fun ch hm => ih4 _ _ _ (hall ch hm))
      | andNil _ _ _ => exact .andNil _ _ _
      | and _ _ _ cs ch hm h1 => exact .and _ _ _ cs ch hm (ih4 _ _ _ h1)
      | invert _ _ _ ch h1 => exact .invert _ _ _ ch (ih2 _ _ h1)

theorem TrN.mono_k {k k' : Nat} {t : Tuple} (h : TrN c T k t) (hk : k ≤ k') : TrN c T k' t := by
  induction hk with
  | refl => exact h
  | step _ ih => exact (strat_succ _).1 _ ih

theorem HTrN.mono_k {k k' : Nat} {ch : Child} {t : Tuple} (h : HTrN c T k ch t) (hk : k ≤ k') :
    HTrN c T k' ch t := by
  induction hk with
  | refl => exact h
  | step _ ih => exact (strat_succ _).2.1 _ _ ih

theorem FaN.mono_k {k k' : Nat} {A : List VKey} {t : Tuple} (h : FaN c T k A t) (hk : k ≤ k') :
    FaN c T k' A t := by
  induction hk with
  | refl => exact h
  | step _ ih => exact (strat_succ _).2.2.1 _ _ ih

theorem HFaN.mono_k {k k' : Nat} {A : List VKey} {ch : Child} {t : Tuple} (h : HFaN c T k A ch t)
    (hk : k ≤ k') : HFaN c T k' A ch t := by
  induction hk with
  | refl => exact h
  | step _ ih => exact (strat_succ _).2.2.2 _ _ _ ih

/-- A common height for finitely many height-indexed, height-monotone facts. -/
theorem common_height {α : Type} (P : Nat → α → Prop)
    (mono : ∀ k k' x, k ≤ k' → P k x → P k' x) : ∀ (l : List α),
    (∀ x, x ∈ l → ∃ k, P k x) → ∃ K, ∀ x, x ∈ l → P K x
  | [], _ => ⟨0, fun _ h => by cases h⟩
  | a :: l, h => by
    obtain ⟨k1, h1⟩ := h a (List.mem_cons_self ..)
    obtain ⟨k2, h2⟩ := common_height P mono l (fun x hm => h x (List.mem_cons_of_mem _ hm))
    refine ⟨max k1 k2, fun x hm => ?_⟩
    cases hm with
    | head => exact mono _ _ _ (Nat.le_max_left ..) h1
    | tail _ hm' => exact mono _ _ _ (Nat.le_max_right ..) (h2 x hm')

theorem Tuple.eta (t : Tuple) : (⟨t.ns, t.obj, t.rel, t.sub⟩ : Tuple) = t := by
  cases t; rfl

/-! ### exclusivity -/

/-- Some node of `A`, with subject `sub`, is a member by a derivation not higher than `k`. -/
def MemberAmong (c : Cfg) (T : List Tuple) (A : List VKey) (k : Nat) (sub : Subject) : Prop :=
  ∃ s, s ∈ A ∧ ∃ j, j ≤ k ∧ TrN c T j ⟨s.1, s.2.1, s.2.2, sub⟩

theorem MemberAmong.lift {A : List VKey} {k k' : Nat} {sub : Subject} (h : MemberAmong c T A k sub)
    (hk : k ≤ k') : MemberAmong c T A k' sub := by
  obtain ⟨s, hs, j, hj, htr⟩ := h
  exact ⟨s, hs, j, Nat.le_trans hj hk, htr⟩

/-- A membership derivation against a refutation under assumptions `A`: one of the assumptions is
    wrong (and by a derivation not higher than the given one). -/
theorem tr_fa_aux : ∀ (N k₁ k₂ : Nat), k₁ + k₂ ≤ N →
    (∀ A t, TrN c T k₁ t → FaN c T k₂ A t → MemberAmong c T A k₁ t.sub) ∧
    (∀ A ch t, HTrN c T k₁ ch t → HFaN c T k₂ A ch t → MemberAmong c T A k₁ t.sub) := by
  intro N
  induction N with
  | zero =>
    intro k₁ k₂ hle
    have h0 : k₁ = 0 := by omega
    subst h0
    constructor
    · intro A t h; cases h
    · intro A ch t h; cases h
  | succ N ih =>
    intro k₁ k₂ hle
    constructor
    · intro A t h1 h2
      have h2c := h2
      cases h2 with
      | cut k2 _ _ hin =>
        refine ⟨nodeKey t, hin, k₁, Nat.le_refl _, ?_⟩
        show TrN c T k₁ ⟨t.ns, t.obj, t.rel, t.sub⟩
        rw [Tuple.eta]; exact h1
      | node k2 _ _ hnin hnT hnb hexp hrw =>
        -- what to do with a wrong assumption found below the node
        have back : ∀ k1', k1' + 1 = k₁ → MemberAmong c T (nodeKey t :: A) k1' t.sub →
            MemberAmong c T A k₁ t.sub := by
          intro k1' hk1 hm
          obtain ⟨s, hs, j, hj, htr⟩ := hm
          cases hs with
          | head =>
            have htr' : TrN c T j t := by
              have := htr
              rw [show (⟨(nodeKey t).1, (nodeKey t).2.1, (nodeKey t).2.2, t.sub⟩ : Tuple) = t from
                Tuple.eta t] at this
              exact this
            exact ((ih j (k2 + 1) (by omega)).1 A t htr' h2c).lift (by omega)
          | tail _ hs' => exact ⟨s, hs', j, by omega, htr⟩
        cases h1 with
        | direct _ _ hm => exact absurd hm hnT
        | expand k1 _ n o r hm hsub =>
          exact back k1 rfl ((ih k1 k2 (by omega)).1 _ ⟨n, o, r, t.sub⟩ hsub (hexp n o r hm))
        | rewrite k1 _ R rw hR hrwe hh =>
          exact back k1 rfl ((ih k1 k2 (by omega)).2 _ _ t hh (hrw R rw hR hrwe))
    · intro A ch t h1 h2
      cases h1 with
      | computed k1 _ rel h1' =>
        cases h2 with
        | computed k2 _ _ _ h2' =>
          exact MemberAmong.lift ((ih k1 k2 (by omega)).1 A { t with rel := rel } h1' h2') (Nat.le_succ _)
      | ttu k1 _ rel crel n o r hm h1' =>
        cases h2 with
        | ttu k2 _ _ _ _ hall =>
          exact MemberAmong.lift ((ih k1 k2 (by omega)).1 A ⟨n, o, crel, t.sub⟩ h1' (hall n o r hm)) (Nat.le_succ _)
      | or k1 _ cs ch' hm h1' =>
        cases h2 with
        | or k2 _ _ _ hall =>
          exact MemberAmong.lift ((ih k1 k2 (by omega)).2 A _ t h1' (hall ch' hm)) (Nat.le_succ _)
      | and k1 _ cs hne hall =>
        cases h2 with
        | andNil k2 _ _ => exact absurd rfl hne
        | and k2 _ _ _ ch' hm h2' =>
          exact MemberAmong.lift ((ih k1 k2 (by omega)).2 A _ t (hall ch' hm) h2') (Nat.le_succ _)
      | invert k1 _ ch' h1' =>
        cases h2 with
        | invert k2 _ _ _ h2' =>
          obtain ⟨s, hs, _⟩ := (ih k2 k1 (by omega)).2 [] _ _ h2' h1'
          cases hs

theorem trN_faN_exclusive {k₁ k₂ : Nat} {t : Tuple} (h1 : TrN c T k₁ t) (h2 : FaN c T k₂ [] t) :
    False := by
  obtain ⟨s, hs, _⟩ := (tr_fa_aux (k₁ + k₂) k₁ k₂ (Nat.le_refl _)).1 [] t h1 h2
  cases hs

theorem htrN_hfaN_exclusive {k₁ k₂ : Nat} {ch : Child} {t : Tuple} (h1 : HTrN c T k₁ ch t)
    (h2 : HFaN c T k₂ [] ch t) : False := by
  obtain ⟨s, hs, _⟩ := (tr_fa_aux (k₁ + k₂) k₁ k₂ (Nat.le_refl _)).2 [] ch t h1 h2
  cases hs

/-! ### the reference evaluator -/

theorem levelKeys_cons_same (key : VKey) (nl : Nat) (path : List (VKey × Nat)) :
    levelKeys ((key, nl) :: path) nl = key :: levelKeys path nl := by
  simp [levelKeys]

/-- Every entry of the path was pushed at a level not above the current one, so right after a
    negation the current positive path is empty. -/
theorem levelKeys_succ_nil {path : List (VKey × Nat)} {nl : Nat} (h : ∀ p, p ∈ path → p.2 ≤ nl) :
    levelKeys path (nl + 1) = [] := by
  unfold levelKeys
  rw [List.map_eq_nil_iff, List.filter_eq_nil_iff]
  intro p hp hb
  have h1 := h p hp
  have h2 : p.2 = nl + 1 := by simpa using hb
  omega

/-- What a `t` answer of a reference call claims. -/
def RefCall.TSpec (c : Cfg) (T : List Tuple) : RefCall → Prop
  | .node t => ∃ k, TrN c T k t
  | .child t ch => ∃ k, HTrN c T k ch t

/-- What an `f` answer of a reference call evaluated under the positive path `A` claims. -/
def RefCall.FSpec (c : Cfg) (T : List Tuple) (A : List VKey) : RefCall → Prop
  | .node t => ∃ k, FaN c T k A t
  | .child t ch => ∃ k, HFaN c T k A ch t

theorem RV.not_eq_t {x : RV} (h : x.not = .t) : x = .f := by
  cases x <;> first | rfl | cases h

theorem RV.not_eq_f {x : RV} (h : x.not = .f) : x = .t := by
  cases x <;> first | rfl | cases h

theorem refEval_strat_aux : ∀ (fuel : Nat) (path : List (VKey × Nat)) (nl : Nat) (call : RefCall),
    (∀ p, p ∈ path → p.2 ≤ nl) →
    (refEval c T fuel path nl call = .t → RefCall.TSpec c T call) ∧
    (refEval c T fuel path nl call = .f → RefCall.FSpec c T (levelKeys path nl) call) := by
  intro fuel
  induction fuel with
  | zero =>
    intro path nl call _
    constructor <;> intro h <;> simp [refEval] at h
  | succ fuel ih =>
    intro path nl call hinv
    cases call with
    | node t =>
      have hinv' : ∀ p, p ∈ (nodeKey t, nl) :: path → p.2 ≤ nl := by
        intro p hp
        cases hp with
        | head => exact Nat.le_refl _
        | tail _ hp' => exact hinv p hp'
      constructor
      · intro h
        show ∃ k, TrN c T k t
        simp only [refEval] at h
        split at h
        · split at h <;> cases h
        · have hmem := kAny_eq_t h
          rw [List.mem_cons, List.mem_cons] at hmem
          rcases hmem with hd | hrw | hex
          · split at hd
            · next hcont => exact ⟨1, .direct _ _ (contains_mem hcont)⟩
            · cases hd
          · split at hrw
            · cases hrw
            · cases hrw
            · next R hR =>
              split at hrw
              · cases hrw
              · next rw hrwe =>
                obtain ⟨k, hk⟩ := (ih _ _ (.child t (.rewrite rw.op rw.children)) hinv').1 hrw.symm
                exact ⟨k + 1, .rewrite _ t R rw hR hrwe hk⟩
          · rw [List.mem_map] at hex
            obtain ⟨⟨n, o, r⟩, hs, he⟩ := hex
            obtain ⟨k, hk⟩ := (ih _ _ (.node ⟨n, o, r, t.sub⟩) hinv').1 he
            exact ⟨k + 1, .expand _ t n o r (mem_subjectSetsOf hs) hk⟩
      · intro h
        show ∃ k, FaN c T k (levelKeys path nl) t
        simp only [refEval] at h
        split at h
        · next p hfind =>
          have hp := List.mem_of_find?_eq_some hfind
          have hkey := List.find?_some hfind
          simp only [beq_iff_eq] at hkey
          split at h
          · next hlv =>
            refine ⟨1, .cut 0 _ t ?_⟩
            exact List.mem_map.2 ⟨p, List.mem_filter.2 ⟨hp, hlv⟩, hkey⟩
          · cases h
        · next hfind =>
          have hall := kAny_eq_f h
          have hnotin : nodeKey t ∉ levelKeys path nl := by
            intro hin
            obtain ⟨p, hp, hk⟩ := List.mem_map.1 hin
            have := List.find?_eq_none.1 hfind p (List.mem_filter.1 hp).1
            exact this (by simpa using hk)
          have hnT : t ∉ T := by
            intro hm
            have := hall _ (List.mem_cons_self ..)
            rw [if_pos (mem_contains hm)] at this
            cases this
          -- the expansions
          have hexp : ∃ K, ∀ s, s ∈ subjectSetsOf T t.ns t.obj t.rel →
              FaN c T K (nodeKey t :: levelKeys path nl) ⟨s.1, s.2.1, s.2.2, t.sub⟩ := by
            refine common_height
              (fun K (s : VKey) => FaN c T K (nodeKey t :: levelKeys path nl) ⟨s.1, s.2.1, s.2.2, t.sub⟩)
              (fun _ _ _ hk hf => hf.mono_k hk) _ (fun s hs => ?_)
            have hin : refEval c T fuel ((nodeKey t, nl) :: path) nl (.node ⟨s.1, s.2.1, s.2.2, t.sub⟩) = .f :=
              hall _ (List.mem_cons_of_mem _ (List.mem_cons_of_mem _ (List.mem_map.2 ⟨s, hs, rfl⟩)))
            have := (ih _ _ (.node ⟨s.1, s.2.1, s.2.2, t.sub⟩) hinv').2 hin
            rw [levelKeys_cons_same] at this
            exact this
          -- the rewrite
          have hrw : astRelationFor c t.ns t.rel ≠ .bad ∧ ∃ K, ∀ R rw,
              astRelationFor c t.ns t.rel = .rel R → R.rewrite = some rw →
              HFaN c T K (nodeKey t :: levelKeys path nl) (.rewrite rw.op rw.children) t := by
            have hin := hall _ (List.mem_cons_of_mem _ (List.mem_cons_self ..))
            cases hL : astRelationFor c t.ns t.rel with
            | bad => simp only [hL] at hin; cases hin
            | none => exact ⟨fun h => (by cases h), 0, fun R rw h1 _ => (by cases h1)⟩
            | rel R =>
              refine ⟨fun h => (by cases h), ?_⟩
              cases hR : R.rewrite with
              | none =>
                refine ⟨0, fun R' rw' h1 h2 => ?_⟩
                cases h1
                rw [hR] at h2; cases h2
              | some rw =>
                simp only [hL, hR] at hin
                have := (ih _ _ (.child t (.rewrite rw.op rw.children)) hinv').2 hin
                rw [levelKeys_cons_same] at this
                obtain ⟨K, hK⟩ := this
                refine ⟨K, fun R' rw' h1 h2 => ?_⟩
                cases h1
                rw [hR] at h2; cases h2
                exact hK
          obtain ⟨K1, hK1⟩ := hexp
          obtain ⟨hnb, K2, hK2⟩ := hrw
          refine ⟨max K1 K2 + 1, .node _ _ t hnotin hnT hnb (fun n o r hm => ?_) (fun R rw h1 h2 => ?_)⟩
          · exact (hK1 (n, o, r) (subjectSetsOf_of_mem hm)).mono_k (Nat.le_max_left ..)
          · exact (hK2 R rw h1 h2).mono_k (Nat.le_max_right ..)
    | child t ch =>
      cases ch with
      | computed rel =>
        constructor
        · intro h
          simp only [refEval] at h
          obtain ⟨k, hk⟩ := (ih _ _ (.node { t with rel := rel }) hinv).1 h
          exact ⟨k + 1, .computed _ t rel hk⟩
        · intro h
          simp only [refEval] at h
          obtain ⟨k, hk⟩ := (ih _ _ (.node { t with rel := rel }) hinv).2 h
          exact ⟨k + 1, .computed _ _ t rel hk⟩
      | ttu rel crel =>
        constructor
        · intro h
          simp only [refEval] at h
          have hmem := kAny_eq_t h
          rw [List.mem_map] at hmem
          obtain ⟨⟨n, o, r⟩, hs, he⟩ := hmem
          obtain ⟨k, hk⟩ := (ih _ _ (.node ⟨n, o, crel, t.sub⟩) hinv).1 he
          exact ⟨k + 1, .ttu _ t rel crel n o r (mem_subjectSetsOf hs) hk⟩
        · intro h
          simp only [refEval] at h
          have hall := kAny_eq_f h
          obtain ⟨K, hK⟩ := common_height
            (fun K (s : VKey) => FaN c T K (levelKeys path nl) ⟨s.1, s.2.1, crel, t.sub⟩)
            (fun _ _ _ hk hf => hf.mono_k hk) (subjectSetsOf T t.ns t.obj rel) (fun s hs =>
              (ih _ _ (.node ⟨s.1, s.2.1, crel, t.sub⟩) hinv).2
                (hall _ (List.mem_map.2 ⟨s, hs, rfl⟩)))
          exact ⟨K + 1, .ttu _ _ t rel crel (fun n o r hm => hK (n, o, r) (subjectSetsOf_of_mem hm))⟩
      | rewrite op cs =>
        cases op with
        | or =>
          constructor
          · intro h
            simp only [refEval] at h
            have hmem := kAny_eq_t h
            rw [List.mem_map] at hmem
            obtain ⟨ch', hm, he⟩ := hmem
            obtain ⟨k, hk⟩ := (ih _ _ (.child t ch') hinv).1 he
            exact ⟨k + 1, .or _ t cs ch' hm hk⟩
          · intro h
            simp only [refEval] at h
            have hall := kAny_eq_f h
            obtain ⟨K, hK⟩ := common_height
              (fun K (ch' : Child) => HFaN c T K (levelKeys path nl) ch' t)
              (fun _ _ _ hk hf => hf.mono_k hk) cs (fun ch' hm =>
                (ih _ _ (.child t ch') hinv).2 (hall _ (List.mem_map.2 ⟨ch', hm, rfl⟩)))
            exact ⟨K + 1, .or _ _ t cs hK⟩
        | and =>
          constructor
          · intro h
            simp only [refEval] at h
            split at h
            · cases h
            · next hne =>
              obtain ⟨K, hK⟩ := common_height
                (fun K (ch' : Child) => HTrN c T K ch' t)
                (fun _ _ _ hk hf => hf.mono_k hk) cs (fun ch' hm =>
                  (ih _ _ (.child t ch') hinv).1 (kAll_eq_t h _ (List.mem_map.2 ⟨ch', hm, rfl⟩)))
              exact ⟨K + 1, .and _ t cs (fun hnil => hne (by rw [hnil]; rfl)) hK⟩
          · intro h
            simp only [refEval] at h
            split at h
            · next hemp =>
              have : cs = [] := List.isEmpty_iff.1 hemp
              subst this
              exact ⟨1, .andNil 0 _ t⟩
            · have hmem := kAll_eq_f h
              rw [List.mem_map] at hmem
              obtain ⟨ch', hm, he⟩ := hmem
              obtain ⟨k, hk⟩ := (ih _ _ (.child t ch') hinv).2 he
              exact ⟨k + 1, .and _ _ t cs ch' hm hk⟩
      | invert ch' =>
        have hinv1 : ∀ p, p ∈ path → p.2 ≤ nl + 1 := fun p hp => Nat.le_succ_of_le (hinv p hp)
        constructor
        · intro h
          simp only [refEval] at h
          have := (ih path (nl + 1) (.child t ch') hinv1).2 (RV.not_eq_t h)
          rw [levelKeys_succ_nil hinv] at this
          obtain ⟨k, hk⟩ := this
          exact ⟨k + 1, .invert _ t ch' hk⟩
        · intro h
          simp only [refEval] at h
          obtain ⟨k, hk⟩ := (ih path (nl + 1) (.child t ch') hinv1).1 (RV.not_eq_f h)
          exact ⟨k + 1, .invert _ _ t ch' hk⟩

/-! ### the positive fragment: `Tr` is `Mem` -/

theorem tr_of_mem {t : Tuple} (h : Mem c T t) : ∃ k, TrN c T k t := by
  refine Mem.rec (motive_1 := fun t _ => ∃ k, TrN c T k t)
    (motive_2 := fun ch t _ => ∃ k, HTrN c T k ch t) ?_ ?_ ?_ ?_ ?_ ?_ ?_ h
  · intro t hm
    exact ⟨1, .direct _ _ hm⟩
  · intro t n o r h1 _ ih
    obtain ⟨k, hk⟩ := ih
    exact ⟨k+1, .expand _ _ n o r h1 hk⟩
  · intro t R rw h1 h2 _ ih
    obtain ⟨k, hk⟩ := ih
    exact ⟨k+1, .rewrite _ _ R rw h1 h2 hk⟩
  · intro t rel _ ih
    obtain ⟨k, hk⟩ := ih
    exact ⟨k+1, .computed _ _ rel hk⟩
  · intro t rel crel n o r h1 _ ih
    obtain ⟨k, hk⟩ := ih
    exact ⟨k+1, .ttu _ _ rel crel n o r h1 hk⟩
  · intro t cs ch hm _ ih
    obtain ⟨k, hk⟩ := ih
    exact ⟨k+1, .or _ _ cs ch hm hk⟩
  · intro t cs hne _ ih
    obtain ⟨K, hK⟩ := common_height (fun K (ch : Child) => HTrN c T K ch t)
      (fun _ _ _ hk hf => hf.mono_k hk) cs ih
    exact ⟨K+1, .and _ _ cs hne hK⟩

theorem mem_of_trN (hc : Cfg.pos c) : ∀ k,
    (∀ t, TrN c T k t → Mem c T t) ∧
    (∀ ch t, Child.pos ch = true → HTrN c T k ch t → Holds c T ch t) := by
  intro k
  induction k with
  | zero =>
    constructor
    · intro t h; cases h
    · intro ch t _ h; cases h
  | succ k ih =>
    constructor
    · intro t h
      cases h with
      | direct _ _ hm => exact .direct _ hm
      | expand _ _ n o r h1 h3 => exact .expand _ n o r h1 (ih.1 _ h3)
      | rewrite _ _ R rw h1 h2 h3 => exact .rewrite _ R rw h1 h2 (ih.2 _ _ (hc _ _ R rw h1 h2) h3)
    · intro ch t hp h
      cases h with
      | computed _ _ rel h1 => exact .computed _ rel (ih.1 _ h1)
      | ttu _ _ rel crel n o r h1 h2 => exact .ttu _ rel crel n o r h1 (ih.1 _ h2)
      | or _ _ cs ch hm h1 =>
        have hpos : Child.posList cs = true := hp
        exact .or _ cs ch hm (ih.2 _ _ (posList_mem hpos hm) h1)
      | and _ _ cs hne hall =>
        have hpos : Child.posList cs = true := hp
        exact .and _ cs hne (fun ch hm => ih.2 _ _ (posList_mem hpos hm) (hall ch hm))
      | invert _ _ ch _ => cases hp

/-! ### a non-stratified instance: neither a member nor refuted -/

namespace C01negex

/-- A relation defined as its own negation: not stratified. -/
def cfgP : Cfg := [⟨"x", [⟨"p", [], some ⟨.and, [.invert (.computed "p")]⟩⟩]⟩]

theorem cfgP_lookup : astRelationFor cfgP "x" "p" =
    .rel ⟨"p", [], some ⟨.and, [.invert (.computed "p")]⟩⟩ := by
  simp [astRelationFor, findNs, findRel, cfgP]

/-- With `p = !p` a derivation of membership contains a refutation and vice versa. -/
theorem cfgP_tr_iff_fa (o : Nat) (sub : Subject) :
    (Tr cfgP [] ⟨"x", o, "p", sub⟩ → Fa cfgP [] ⟨"x", o, "p", sub⟩) ∧
    (Fa cfgP [] ⟨"x", o, "p", sub⟩ → Tr cfgP [] ⟨"x", o, "p", sub⟩) := by
  constructor
  · intro ⟨k, h⟩
    cases h with
    | direct _ _ hm => cases hm
    | expand _ _ n o r hm _ => cases hm
    | rewrite k' _ R rw hR hrwe hh =>
      have hR' : astRelationFor cfgP "x" "p" = .rel R := hR
      rw [cfgP_lookup] at hR'
      cases hR'
      cases hrwe
      cases hh with
      | and k2 _ _ _ hall =>
        have h1 := hall _ (List.mem_cons_self ..)
        cases h1 with
        | invert k3 _ _ h2 =>
          cases h2 with
          | computed k4 _ _ _ h3 => exact ⟨k4, h3⟩
  · intro ⟨k, h⟩
    cases h with
    | cut _ _ _ hin => cases hin
    | node k' _ _ _ _ _ _ hrw =>
      have h1 := hrw _ _ cfgP_lookup rfl
      cases h1 with
      | and k2 _ _ _ ch hm hch =>
        cases hm with
        | head =>
          cases hch with
          | invert k3 _ _ _ h2 =>
            cases h2 with
            | computed k4 _ _ h3 => exact ⟨k4, h3⟩
        | tail _ hm' => cases hm'

end C01negex

end Keto
