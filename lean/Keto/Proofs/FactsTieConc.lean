/-
  Fact ties (registry pre-warming, lazy getters, lock use: C14, C19), kept apart from Keto/Proofs/FactsTie.lean so that only the properties that rely on
  them depend on them: a change to the code that breaks one of these tables breaks the proof obligations of
  those properties, not of every property that imports a fact tie.
-/
import Keto.Generated.Facts

namespace Keto.FactsTie
open Keto.Facts

/-- Registry members that request goroutines obtain through lazy getters. -/
def requestPathGetters : List String := ["Tracer", "Writer", "Mapper", "ReadOnlyMapper", "PermissionEngine", "ExpandEngine"]

/-- Every such member is created in `RegistryDefault.Init`, which runs once before any
    request is served (repair 727229a), so request goroutines only read it. -/
theorem prewarm_tie :
    requestPathGetters.all (fun g =>
      initCalls.contains ("internal/driver/registry_default.go", "RegistryDefault.Init", g)) = true := by decide

/-- The unguarded lazy getters of the registry are exactly the known ones (a new lazy
    member must be added to `requestPathGetters` or shown to be startup-only). -/
def expectedLazyInit : List (String × String × String) := [
  ("RegistryDefault.Mapper", "r.mapper", "unguarded"),
  ("RegistryDefault.ReadOnlyMapper", "r.readOnlyMapper", "unguarded"),
  ("RegistryDefault.HealthServer", "r.healthServer", "unguarded"),
  ("RegistryDefault.Tracer", "r.tracer", "unguarded"),
  ("RegistryDefault.MetricsHandler", "r.metricsHandler", "unguarded"),
  ("RegistryDefault.PrometheusManager", "r.pmm", "unguarded"),
  ("RegistryDefault.Logger", "r.l", "unguarded"),
  ("RegistryDefault.Writer", "r.w", "unguarded"),
  ("RegistryDefault.PermissionEngine", "r.ce", "unguarded"),
  ("RegistryDefault.ExpandEngine", "r.ee", "unguarded"),
  ("RegistryDefault.MigrationBox", "r.mb", "unguarded"),
  ("Config.NamespaceManager", "k.nm", "guarded")
]

theorem lazyInit_tie : lazyInit = expectedLazyInit := by decide

/-- Locking discipline of the shared mutable state that requests touch: the namespace
    managers swap their map under the write lock and read it under the read lock (so a
    reader sees the map before or after a complete `set`, C19), the visited set locks
    around check-and-add. -/
def expectedLockUse : List (String × String × String) := [
  ("internal/driver/config/namespace_memory.go", "memoryNamespaceManager.GetNamespaceByName", "RLock"),
  ("internal/driver/config/namespace_memory.go", "memoryNamespaceManager.GetNamespaceByConfigID", "RLock"),
  ("internal/driver/config/namespace_memory.go", "memoryNamespaceManager.Namespaces", "RLock"),
  ("internal/driver/config/namespace_memory.go", "memoryNamespaceManager.ShouldReload", "RLock"),
  ("internal/driver/config/namespace_memory.go", "memoryNamespaceManager.set", "Lock"),
  ("internal/driver/config/namespace_watcher.go", "NamespaceWatcher.handleRemove", "Lock"),
  ("internal/driver/config/namespace_watcher.go", "NamespaceWatcher.handleChange", "Lock"),
  ("internal/driver/config/namespace_watcher.go", "NamespaceWatcher.handleError", "none"),
  ("internal/driver/config/namespace_watcher.go", "NamespaceWatcher.readNamespaceFile", "none"),
  ("internal/driver/config/namespace_watcher.go", "NamespaceWatcher.GetNamespaceByName", "RLock"),
  ("internal/driver/config/namespace_watcher.go", "NamespaceWatcher.GetNamespaceByConfigID", "RLock"),
  ("internal/driver/config/namespace_watcher.go", "NamespaceWatcher.Namespaces", "RLock"),
  ("internal/driver/config/namespace_watcher.go", "NamespaceWatcher.NamespaceFiles", "RLock"),
  ("internal/driver/config/namespace_watcher.go", "NamespaceWatcher.ShouldReload", "none"),
  ("internal/driver/config/opl_config_namespace_watcher.go", "oplConfigWatcher.ShouldReload", "none"),
  ("internal/driver/config/opl_config_namespace_watcher.go", "oplConfigWatcher.handleChange", "Lock"),
  ("internal/driver/config/opl_config_namespace_watcher.go", "oplConfigWatcher.handleRemove", "Lock"),
  ("internal/driver/config/opl_config_namespace_watcher.go", "oplConfigWatcher.handleError", "none"),
  ("internal/driver/config/opl_config_namespace_watcher.go", "oplConfigWatcher.parseFiles", "none"),
  ("internal/x/graph/graph_utils.go", "stringSet.addNoDuplicate", "Lock")
]

theorem lockUse_tie : lockUse = expectedLockUse := by decide

end Keto.FactsTie
