/-
  Reachability in the relationship graph: what an expansion of a subject set is
  supposed to show.

  * `Reach T S s`: `s` is the subject of a tuple on `S`, or of a tuple on a subject
    set reachable from `S` (the least such relation).
  * `ReachIn T k S s`: the same along a path of exactly `k ≥ 1` tuples.
  * `reachWithin T d S`: executable, level by level: the subjects at distance
    `1 … d-1` from `S`, i.e. those that fit into a tree of `d` levels below the root `S`.
    `reachAll T S`: the same without a bound (`T.length + 2` levels exhaust the graph).
-/
import Keto.Model.Engine

namespace Keto

inductive Reach (T : List Tuple) (S : Subject) : Subject → Prop where
  | direct {n : String} {o : Nat} {r : String} {s : Subject} :
      S = .set n o r → ⟨n, o, r, s⟩ ∈ T → Reach T S s
  | step {n : String} {o : Nat} {r : String} {s : Subject} :
      Reach T S (.set n o r) → ⟨n, o, r, s⟩ ∈ T → Reach T S s

inductive ReachIn (T : List Tuple) (S : Subject) : Nat → Subject → Prop where
  | direct {n : String} {o : Nat} {r : String} {s : Subject} :
      S = .set n o r → ⟨n, o, r, s⟩ ∈ T → ReachIn T S 1 s
  | step {k : Nat} {n : String} {o : Nat} {r : String} {s : Subject} :
      ReachIn T S k (.set n o r) → ⟨n, o, r, s⟩ ∈ T → ReachIn T S (k + 1) s

/-- The subjects of the tuples on a subject set, in storage order. -/
def succs (T : List Tuple) : Subject → List Subject
  | .set n o r => (rowsOf T n o r).map (·.sub)
  | .id _ => []

/-- Insert the elements of `xs` that are not yet in `acc` (first occurrence wins). -/
def addNew : List Subject → List Subject → List Subject
  | [], acc => acc
  | x :: xs, acc => if acc.contains x then addNew xs acc else addNew xs (acc ++ [x])

def succsAll (T : List Tuple) : List Subject → List Subject
  | [] => []
  | s :: ss => succs T s ++ succsAll T ss

/-- Breadth first: `seen` holds the subjects at distance `1 … i`, `front` those found
    in the last round (initially the start). -/
def reachLevels (T : List Tuple) : Nat → List Subject → List Subject → List Subject
  | 0, _, seen => seen
  | k+1, front, seen =>
    let seen' := addNew (succsAll T front) seen
    let next := seen'.drop seen.length
    if next.isEmpty then seen else reachLevels T k next seen'

/-- Subjects at distance `1 … d-1` from `S`. -/
def reachWithin (T : List Tuple) (d : Nat) (S : Subject) : List Subject :=
  reachLevels T (d - 1) [S] []

def reachAll (T : List Tuple) (S : Subject) : List Subject :=
  reachLevels T (T.length + 2) [S] []

def idsOf : List Subject → List Nat
  | [] => []
  | .id u :: ss => u :: idsOf ss
  | .set _ _ _ :: ss => idsOf ss

end Keto
