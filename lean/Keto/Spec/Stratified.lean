/-
  Declarative semantics of a check for configurations WITH `!` (stratified negation).

  Four mutually inductive, strictly positive, height-indexed judgements:

  * `TrN c T k t`      — "`t` is provably a member" (derivation of height `≤ k`);
  * `HTrN c T k ch t`  — "the rewrite child `ch` provably holds for `t`";
  * `FaN c T k A t`    — "`t` is provably NOT a member, assuming that the nodes in `A` (the nodes on the
                          current positive path, i.e. since the last negation) are not": a node of `A`
                          that is reached again is refuted by the cut (least fixpoint: a membership that
                          could only be justified through itself is no membership);
  * `HFaN c T k A ch t` — "the rewrite child `ch` provably fails for `t`" (under the same assumption).

  Negation (`.invert ch`) swaps the two sides: `!ch` holds when `ch` provably fails — and the
  refutation has to be a closed one, its assumption set restarts empty —, `!ch` fails when `ch`
  provably holds.  On a non-stratified instance (`p = !p`) neither `Tr` nor `Fa` is derivable.

  An undeclared relation (`astRelationFor = .bad`, the engine's "relation does not exist") blocks the
  refutation of its node: nothing is claimed about such a node unless it is a member for another
  reason.  `.rewrite .and []` fails (as in the engine and in `refEval`).

  Definitions only; the facts (`TrN`/`FaN` exclusive, `refEval` correct for them, agreement with `Mem`
  on the positive fragment) are in Keto/Proofs/StratifiedLemmas.lean and Keto/Props/C01neg.lean.
-/
import Keto.Model.Engine
import Keto.Spec.Membership

namespace Keto

/-- The subject-set node a tuple queries. -/
abbrev nodeKey (t : Tuple) : VKey := (t.ns, t.obj, t.rel)

mutual
inductive TrN (c : Cfg) (T : List Tuple) : Nat → Tuple → Prop where
  | direct (k : Nat) (t : Tuple) : t ∈ T → TrN c T (k+1) t
  | expand (k : Nat) (t : Tuple) (n : String) (o : Nat) (r : String) :
      ⟨t.ns, t.obj, t.rel, .set n o r⟩ ∈ T → TrN c T k ⟨n, o, r, t.sub⟩ → TrN c T (k+1) t
  | rewrite (k : Nat) (t : Tuple) (R : Relation) (rw : Rewrite) :
      astRelationFor c t.ns t.rel = .rel R → R.rewrite = some rw →
      HTrN c T k (.rewrite rw.op rw.children) t → TrN c T (k+1) t
inductive HTrN (c : Cfg) (T : List Tuple) : Nat → Child → Tuple → Prop where
  | computed (k : Nat) (t : Tuple) (rel : String) :
      TrN c T k { t with rel := rel } → HTrN c T (k+1) (.computed rel) t
  | ttu (k : Nat) (t : Tuple) (rel crel : String) (n : String) (o : Nat) (r : String) :
      ⟨t.ns, t.obj, rel, .set n o r⟩ ∈ T → TrN c T k ⟨n, o, crel, t.sub⟩ →
      HTrN c T (k+1) (.ttu rel crel) t
  | or (k : Nat) (t : Tuple) (cs : List Child) (ch : Child) :
      ch ∈ cs → HTrN c T k ch t → HTrN c T (k+1) (.rewrite .or cs) t
  | and (k : Nat) (t : Tuple) (cs : List Child) :
      cs ≠ [] → (∀ ch, ch ∈ cs → HTrN c T k ch t) → HTrN c T (k+1) (.rewrite .and cs) t
  | invert (k : Nat) (t : Tuple) (ch : Child) :
      HFaN c T k [] ch t → HTrN c T (k+1) (.invert ch) t
inductive FaN (c : Cfg) (T : List Tuple) : Nat → List VKey → Tuple → Prop where
  | cut (k : Nat) (A : List VKey) (t : Tuple) : nodeKey t ∈ A → FaN c T (k+1) A t
  | node (k : Nat) (A : List VKey) (t : Tuple) :
      nodeKey t ∉ A → t ∉ T → astRelationFor c t.ns t.rel ≠ .bad →
      (∀ n o r, (⟨t.ns, t.obj, t.rel, .set n o r⟩ : Tuple) ∈ T →
        FaN c T k (nodeKey t :: A) ⟨n, o, r, t.sub⟩) →
      (∀ R rw, astRelationFor c t.ns t.rel = .rel R → R.rewrite = some rw →
        HFaN c T k (nodeKey t :: A) (.rewrite rw.op rw.children) t) →
      FaN c T (k+1) A t
inductive HFaN (c : Cfg) (T : List Tuple) : Nat → List VKey → Child → Tuple → Prop where
  | computed (k : Nat) (A : List VKey) (t : Tuple) (rel : String) :
      FaN c T k A { t with rel := rel } → HFaN c T (k+1) A (.computed rel) t
  | ttu (k : Nat) (A : List VKey) (t : Tuple) (rel crel : String) :
      (∀ n o r, (⟨t.ns, t.obj, rel, .set n o r⟩ : Tuple) ∈ T → FaN c T k A ⟨n, o, crel, t.sub⟩) →
      HFaN c T (k+1) A (.ttu rel crel) t
  | or (k : Nat) (A : List VKey) (t : Tuple) (cs : List Child) :
      (∀ ch, ch ∈ cs → HFaN c T k A ch t) → HFaN c T (k+1) A (.rewrite .or cs) t
  | andNil (k : Nat) (A : List VKey) (t : Tuple) : HFaN c T (k+1) A (.rewrite .and []) t
  | and (k : Nat) (A : List VKey) (t : Tuple) (cs : List Child) (ch : Child) :
      ch ∈ cs → HFaN c T k A ch t → HFaN c T (k+1) A (.rewrite .and cs) t
  | invert (k : Nat) (A : List VKey) (t : Tuple) (ch : Child) :
      HTrN c T k ch t → HFaN c T (k+1) A (.invert ch) t
end

/-- `t` is a member (stratified semantics). -/
def Tr (c : Cfg) (T : List Tuple) (t : Tuple) : Prop := ∃ k, TrN c T k t

/-- `t` is refuted (stratified semantics): a closed refutation, nothing assumed. -/
def Fa (c : Cfg) (T : List Tuple) (t : Tuple) : Prop := ∃ k, FaN c T k [] t

/-- The nodes of the evaluator's path entered at negation level `nl`: the current positive path. -/
def levelKeys (path : List (VKey × Nat)) (nl : Nat) : List VKey :=
  (path.filter (fun p => p.2 == nl)).map (·.1)

end Keto
