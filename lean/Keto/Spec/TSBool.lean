/-
  Specification side of C10: boolean expressions as TypeScript reads them.

  `E α` is an expression tree over atoms `α` (`group` = parentheses written in the source,
  needed or not). `evalTS` is its value. `render` prints it as TypeScript source tokens,
  adding parentheses exactly where the JavaScript precedence `! > && > ||` needs them, so
  that a TypeScript parser reads `render e` back as `e` (up to `group` and associativity).
  `renderFull` parenthesises every compound operand.

  `denote` is the meaning of a parsed permission rewrite (`Keto.Child`): `or` = any child,
  `and` = all children, `invert` = negation, given the value of the leaves.

  `evalL2R` is the reading that ignores precedence: the operators of one parenthesis level
  are applied strictly left to right. (It is what the OPL parser implements, see
  `Keto/Props/C10.lean`.)
-/
import Keto.Model.Data

namespace Keto.TS

inductive E (α : Type) where
  | atom (a : α)
  | not (e : E α)
  | and (l r : E α)
  | or (l r : E α)
  | group (e : E α)
  deriving Repr, Inhabited, DecidableEq

variable {α : Type}

/-- The value of the expression in TypeScript. -/
def evalTS (v : α → Bool) : E α → Bool
  | .atom a => v a
  | .not e => !evalTS v e
  | .and l r => evalTS v l && evalTS v r
  | .or l r => evalTS v l || evalTS v r
  | .group e => evalTS v e

inductive Tok (α : Type) where
  | atom (a : α) | and | or | not | lp | rp
  deriving Repr, Inhabited, DecidableEq

/-- Binding strength of the top operator: `||` 1, `&&` 2, `!` 3, primary 4. -/
def prec : E α → Nat
  | .or _ _ => 1
  | .and _ _ => 2
  | .not _ => 3
  | .atom _ => 4
  | .group _ => 4

def wrap (b : Bool) (ts : List (Tok α)) : List (Tok α) := if b then .lp :: ts ++ [.rp] else ts

/-- TypeScript source with the parentheses that precedence requires (binary operators are
    left-associative) and those written as `group`. -/
def render : E α → List (Tok α)
  | .atom a => [.atom a]
  | .group e => .lp :: render e ++ [.rp]
  | .not e => .not :: wrap (prec e < 3) (render e)
  | .and l r => wrap (prec l < 2) (render l) ++ .and :: wrap (prec r < 3) (render r)
  | .or l r => wrap (prec l < 1) (render l) ++ .or :: wrap (prec r < 2) (render r)

/-- Every compound operand in parentheses. -/
def renderFull : E α → List (Tok α)
  | .atom a => [.atom a]
  | .group e => .lp :: renderFull e ++ [.rp]
  | .not e => .not :: wrap (prec e < 4) (renderFull e)
  | .and l r => wrap (prec l < 4) (renderFull l) ++ .and :: wrap (prec r < 4) (renderFull r)
  | .or l r => wrap (prec l < 4) (renderFull l) ++ .or :: wrap (prec r < 4) (renderFull r)

def isAnd : E α → Bool
  | .and _ _ => true
  | _ => false

def isNot : E α → Bool
  | .not _ => true
  | _ => false

/-- Some parenthesis level of `render e` contains both `||` and `&&`: an `||` has an
    unparenthesised `&&` operand. (An `&&` never has an unparenthesised `||` operand.) -/
def mixed : E α → Bool
  | .atom _ => false
  | .group e => mixed e
  | .not e => mixed e
  | .and l r => mixed l || mixed r
  | .or l r => isAnd l || isAnd r || mixed l || mixed r

/-- `!!x` occurs (valid TypeScript; the OPL parser rejects it). -/
def doubleNeg : E α → Bool
  | .atom _ => false
  | .group e => doubleNeg e
  | .not e => isNot e || doubleNeg e
  | .and l r => doubleNeg l || doubleNeg r
  | .or l r => doubleNeg l || doubleNeg r

/-- No `!` at all. -/
def negFree : E α → Bool
  | .atom _ => true
  | .group e => negFree e
  | .not _ => false
  | .and l r => negFree l && negFree r
  | .or l r => negFree l && negFree r

/-! ### the left-to-right reading -/

/-- Where a left-to-right reader stands inside one parenthesis level. -/
inductive St where
  | start                       -- nothing read yet
  | val (b : Bool)              -- a complete operand sequence with value `b`
  | pend (isAnd : Bool) (b : Bool)   -- `b &&` / `b ||` read, operand missing
  deriving Repr, DecidableEq, Inhabited

def St.value : St → Bool
  | .start => false
  | .val b => b
  | .pend _ b => b

/-- Reading an operand with value `x`. -/
def St.operand (s : St) (x : Bool) : St :=
  match s with
  | .start => .val x
  | .val b => .val (b || x)          -- not produced by `render`
  | .pend true b => .val (b && x)
  | .pend false b => .val (b || x)

/-- Reading the tokens of `render e` inside the current level; an operand that `render`
    wraps in parentheses is a level of its own. -/
def l2r (v : α → Bool) : St → E α → St
  | s, .atom a => s.operand (v a)
  | s, .group e => s.operand (l2r v .start e).value
  | s, .not e => s.operand (!(l2r v .start e).value)
  | s, .and l r =>
    let sl := if prec l < 2 then s.operand (l2r v .start l).value else l2r v s l
    if prec r < 3 then (St.pend true sl.value).operand (l2r v .start r).value
    else l2r v (.pend true sl.value) r
  | s, .or l r =>
    let sl := if prec l < 1 then s.operand (l2r v .start l).value else l2r v s l
    if prec r < 2 then (St.pend false sl.value).operand (l2r v .start r).value
    else l2r v (.pend false sl.value) r

/-- The value of `render e` when the operators of each parenthesis level are applied
    strictly left to right. -/
def evalL2R (v : α → Bool) (e : E α) : Bool := (l2r v .start e).value

end Keto.TS

namespace Keto

mutual
/-- The meaning of a permission rewrite given the value `v` of its leaves
    (`computed` / `ttu`). -/
def denote (v : Child → Bool) : Child → Bool
  | .computed r => v (.computed r)
  | .ttu r c => v (.ttu r c)
  | .rewrite .or cs => denoteAny v cs
  | .rewrite .and cs => denoteAll v cs
  | .invert c => !denote v c
def denoteAny (v : Child → Bool) : List Child → Bool
  | [] => false
  | c :: cs => denote v c || denoteAny v cs
def denoteAll (v : Child → Bool) : List Child → Bool
  | [] => true
  | c :: cs => denote v c && denoteAll v cs
end

def denoteRewrite (v : Child → Bool) (r : Rewrite) : Bool := denote v (.rewrite r.op r.children)

end Keto
