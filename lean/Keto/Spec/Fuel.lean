/-
  How much fuel a call of the engine model (`Keto.build`) needs (core Lean only).

  Every recursion of the engine consumes depth or descends in the rewrite AST:
  * `.isAllowed _ d _` (with `d > 0`) calls `.rewrite _ rw d` for the rewrite `rw` the
    configuration gives the relation, and `.isAllowed _ (d-1) _` (subject-set expansion);
  * `.rewrite _ rw d` calls `.isAllowed _ (d-1) _` (union shortcut) and `.child _ ch d _` for
    the children of `rw`;
  * `.child _ ch d _` calls `.isAllowed _ (d-1) _` (computed subject set, tuple-to-subject-set),
    `.rewrite _ ⟨op, cs⟩ d'` with `d' ∈ {d, d-1}` (nested rewrite) or `.invert _ c d`;
  * `.invert _ c d` calls `.child _ c d true`.
  So the number of nested `build` steps between an `.isAllowed _ d _` and the next
  `.isAllowed _ (d-1) _` is bounded by the nesting height of the rewrites of the configuration,
  and the fuel a check needs is a function of the depth and that height only — the stored
  tuples (cycles included) do not matter.
-/
import Keto.Model.Engine

namespace Keto

mutual
/-- Number of nested `build` steps from `.child _ ch _ _` down to (excluding) the next
    `.isAllowed`: a computed subject set / tuple-to-subject-set is one step, a nested rewrite
    two (`.child`, `.rewrite`) plus its highest child, `!c` two (`.child`, `.invert`) plus `c`. -/
def Child.height : Child → Nat
  | .computed _ => 1
  | .ttu _ _ => 1
  | .rewrite _ cs => 2 + Child.heightList cs
  | .invert c => 2 + Child.height c
def Child.heightList : List Child → Nat
  | [] => 0
  | c :: cs => max (Child.height c) (Child.heightList cs)
end

def Rewrite.height (rw : Rewrite) : Nat := Child.height (.rewrite rw.op rw.children)

def Relation.height (r : Relation) : Nat :=
  match r.rewrite with
  | some rw => rw.height
  | none => 0

def Namespace.height (n : Namespace) : Nat := (n.relations.map Relation.height).foldr max 0

/-- The nesting height of the configuration: the maximum over the rewrites of all relations. -/
def Cfg.height (c : Cfg) : Nat := (c.map Namespace.height).foldr max 0

/-- Fuel for `.isAllowed _ d _` when every rewrite of the configuration has height `≤ H`. -/
def allowedFuel (H : Nat) (d : Int) : Nat := d.toNat * (H + 1) + 1

/-- Fuel that is enough for a call (`H` bounds the heights of the rewrites of the configuration). -/
def Call.need (H : Nat) : Call → Nat
  | .isAllowed _ d _ => allowedFuel H d
  | .rewrite _ rw d => 1 + Child.heightList rw.children + allowedFuel H (d - 1)
  | .child _ ch d _ => ch.height + allowedFuel H (d - 1)
  | .invert _ c d => 1 + c.height + allowedFuel H (d - 1)

/-- Fuel that is enough for `check` with effective depth `d`:
    `d * (height of the configuration + 1) + 1`. -/
def checkFuel (c : Cfg) (d : Int) : Nat := allowedFuel (Cfg.height c) d

end Keto
