/-
  Configurations (together with the stored tuples) whose relation references resolve: every
  relation name the engine can look up while it answers a query exists (core Lean only).

  In the engine model the only source of `ErrKind.schema` is `.isAllowed t …` with
  `astRelationFor cfg t.ns t.rel = .bad`. The tuples `t` the engine builds come from
  * the query,
  * subject sets of stored tuples (subject-set expansion): `n:o#r`,
  * computed subject sets `r'` of a rewrite, evaluated in the namespace of the object,
  * tuple-to-subject-set `rel`/`crel`: relation `crel` in the namespace of every subject set the
    relation `rel` of the object holds.
-/
import Keto.Model.Engine

namespace Keto

def Lookup.isBad : Lookup → Bool
  | .bad => true
  | _ => false

theorem Lookup.ne_bad_of_isBad {l : Lookup} (h : l.isBad = false) : l ≠ .bad := by
  intro e
  rw [e] at h
  cases h

mutual
/-- all `r'` with `.computed r'` anywhere inside the child -/
def Child.computedNames : Child → List String
  | .computed r => [r]
  | .ttu _ _ => []
  | .rewrite _ cs => Child.computedNamesL cs
  | .invert c => Child.computedNames c
def Child.computedNamesL : List Child → List String
  | [] => []
  | c :: cs => Child.computedNames c ++ Child.computedNamesL cs
end

mutual
/-- all `(rel, crel)` with `.ttu rel crel` anywhere inside the child -/
def Child.ttuNames : Child → List (String × String)
  | .computed _ => []
  | .ttu rel crel => [(rel, crel)]
  | .rewrite _ cs => Child.ttuNamesL cs
  | .invert c => Child.ttuNames c
def Child.ttuNamesL : List Child → List (String × String)
  | [] => []
  | c :: cs => Child.ttuNames c ++ Child.ttuNamesL cs
end

def computedNames (rw : Rewrite) : List String := Child.computedNames (.rewrite rw.op rw.children)

def ttuNames (rw : Rewrite) : List (String × String) := Child.ttuNames (.rewrite rw.op rw.children)

/-- Every relation name the engine can look up while answering queries resolves. -/
structure WellFormed (c : Cfg) (T : List Tuple) : Prop where
  /-- subject sets of stored tuples name existing relations -/
  subjectSets : ∀ t ∈ T, ∀ n o r, t.sub = .set n o r → astRelationFor c n r ≠ .bad
  /-- computed subject sets name relations of the same namespace -/
  computed : ∀ ns rel R rw, astRelationFor c ns rel = .rel R → R.rewrite = some rw →
    ∀ r' ∈ computedNames rw, astRelationFor c ns r' ≠ .bad
  /-- tuple-to-subject-set `rel`/`crel`: `crel` exists in the namespace of every subject set that
      is stored in relation `rel` of an object of the namespace (of the subject set *itself* —
      its relation does not matter) -/
  ttu : ∀ ns rel R rw, astRelationFor c ns rel = .rel R → R.rewrite = some rw →
    ∀ p ∈ ttuNames rw, ∀ t ∈ T, t.ns = ns → t.rel = p.1 →
      ∀ n o r, t.sub = .set n o r → astRelationFor c n p.2 ≠ .bad

/-- The names used in `ch`, evaluated for an object of namespace `ns`, resolve. -/
structure ChildOK (c : Cfg) (T : List Tuple) (ns : String) (ch : Child) : Prop where
  computed : ∀ r' ∈ ch.computedNames, astRelationFor c ns r' ≠ .bad
  ttu : ∀ p ∈ ch.ttuNames, ∀ t ∈ T, t.ns = ns → t.rel = p.1 →
    ∀ n o r, t.sub = .set n o r → astRelationFor c n p.2 ≠ .bad

/-- The call's own lookups are fine: the relation of an `.isAllowed` resolves; the rewrite / child
    of the other calls only uses names that resolve for the namespace of the call's object. -/
def Call.WF (c : Cfg) (T : List Tuple) : Call → Prop
  | .isAllowed t _ _ => astRelationFor c t.ns t.rel ≠ .bad
  | .rewrite t rw _ => ChildOK c T t.ns (.rewrite rw.op rw.children)
  | .child t ch _ _ => ChildOK c T t.ns ch
  | .invert t ch _ => ChildOK c T t.ns ch

/-- `n:_#r` resolves (`true` for a subject id). -/
def subjectOkB (c : Cfg) (s : Subject) (rel : Option String) : Bool :=
  match s with
  | .set n _ r => !(astRelationFor c n (rel.getD r)).isBad
  | .id _ => true

/-- Decidable check of `WellFormed` (it checks the relations of *every* namespace entry, also of
    entries shadowed by an earlier entry of the same name: sufficient, not necessary). -/
def wellFormedB (c : Cfg) (T : List Tuple) : Bool :=
  T.all (fun t => subjectOkB c t.sub none) &&
  c.all fun N => N.relations.all fun R =>
    match R.rewrite with
    | none => true
    | some rw =>
      (computedNames rw).all (fun r' => !(astRelationFor c N.name r').isBad) &&
      (ttuNames rw).all fun p => T.all fun t =>
        !(t.ns == N.name && t.rel == p.1) || subjectOkB c t.sub (some p.2)

end Keto
