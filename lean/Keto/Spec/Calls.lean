/-
  How many storage operations a check of the engine model (`Keto.build`) can make (core Lean only).

  `World.calls` is bumped once per direct lookup, per subject-set expansion query, per
  union-shortcut query and per page of the tuple-to-subject-set listing. Between an
  `.isAllowed _ d _` and the `.isAllowed _ d' _` (`d' ≤ d-1`) it starts, the engine
  * walks the rewrite of the relation (if any): every rewrite node (the top one and the nested
    ones) may ask one union-shortcut query; every computed-subject-set leaf starts one
    `.isAllowed`; every tuple-to-subject-set leaf lists its rows page by page (one operation per
    page) and starts one `.isAllowed` per row — the rows are NOT limited by max-width
    (finding F-ttu-width), only by the number of stored tuples;
  * makes one direct lookup;
  * makes one expansion query and starts one `.isAllowed` per subject set it keeps — at most
    max-width of them (and of course not more than there are tuples).
  So the number of operations obeys the recurrence `callsBound` in the depth; it depends on the
  configuration only through three counts of its rewrites (`Cfg.nRw`, `Cfg.nComp`, `Cfg.nTtu`),
  and on the store only through the number of tuples.
-/
import Keto.Model.Engine

namespace Keto

mutual
/-- Weighted size of a rewrite child: `wc` per computed-subject-set leaf, `wt` per
    tuple-to-subject-set leaf, `wr` per (nested) rewrite node; `!` is free. -/
def Child.weight (wc wt wr : Nat) : Child → Nat
  | .computed _ => wc
  | .ttu _ _ => wt
  | .rewrite _ cs => wr + Child.weightList wc wt wr cs
  | .invert c => Child.weight wc wt wr c
def Child.weightList (wc wt wr : Nat) : List Child → Nat
  | [] => 0
  | c :: cs => Child.weight wc wt wr c + Child.weightList wc wt wr cs
end

def Rewrite.weight (wc wt wr : Nat) (rw : Rewrite) : Nat := Child.weight wc wt wr (.rewrite rw.op rw.children)

def Relation.weight (wc wt wr : Nat) (r : Relation) : Nat :=
  match r.rewrite with
  | some rw => rw.weight wc wt wr
  | none => 0

def Namespace.maxWeight (wc wt wr : Nat) (n : Namespace) : Nat :=
  (n.relations.map (Relation.weight wc wt wr)).foldr max 0

/-- The largest weight of the rewrite of any relation of the configuration. -/
def Cfg.maxWeight (wc wt wr : Nat) (c : Cfg) : Nat := (c.map (Namespace.maxWeight wc wt wr)).foldr max 0

/-- The largest number of rewrite nodes (the top-level one included) in the rewrite of a relation. -/
def Cfg.nRw (c : Cfg) : Nat := Cfg.maxWeight 0 0 1 c

/-- The largest number of computed-subject-set leaves in the rewrite of a relation. -/
def Cfg.nComp (c : Cfg) : Nat := Cfg.maxWeight 1 0 0 c

/-- The largest number of tuple-to-subject-set leaves in the rewrite of a relation. -/
def Cfg.nTtu (c : Cfg) : Nat := Cfg.maxWeight 0 1 0 c

/-- Number of pages of a listing of at most `nTuples` rows (`pageSize = 0`: one page). -/
def pagesBound (pageSize nTuples : Nat) : Nat := nTuples / pageSize + 1

/-- Bound on the number of storage operations of a check with `depth` levels left:
    per level `2 + nRw + nTtu * pages` operations of its own and
    `nComp + nTtu * nTuples + min width nTuples` checks one level down. -/
def callsBound (nRw nComp nTtu : Nat) (width pageSize nTuples : Nat) : Nat → Nat
  | 0 => 0
  | depth+1 =>
    2 + nRw + nTtu * pagesBound pageSize nTuples
      + (nComp + nTtu * nTuples + min width nTuples) * callsBound nRw nComp nTtu width pageSize nTuples depth

/-- The bound for a check on `E` with effective depth `d`. -/
def checkCallsBound (E : Env) (d : Int) : Nat :=
  callsBound (Cfg.nRw E.cfg) (Cfg.nComp E.cfg) (Cfg.nTtu E.cfg) E.maxWidth E.pageSize E.T.length d.toNat

end Keto
