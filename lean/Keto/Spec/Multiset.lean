/-
  Specification of the relationship store (C04): per network, a multiset of relationships.

  A multiset is its count function.  `create` adds, `delete` removes all copies of every listed
  relationship, `deleteAll` removes everything that matches, `transact` = (s + ins) − matches(del)
  (insert first, as the code does), `list` = filter.  A write request is applied completely if it is
  acceptable (every relationship has a subject and names only configured namespaces, …) and has no
  effect otherwise.  (The types of requests are shared with the model: `Keto.Store.Op`.)
-/
import Keto.Model.Store

namespace Keto.Store

/-- network → relationship → number of copies. -/
abbrev MS := Nat → Tuple → Nat

def MS.empty : MS := fun _ _ => 0

def MS.create (m : MS) (nid : Nat) (ts : List Tuple) : MS :=
  fun n t => if n = nid then m n t + ts.count t else m n t

def MS.delete (m : MS) (nid : Nat) (ts : List Tuple) : MS :=
  fun n t => if n = nid ∧ t ∈ ts then 0 else m n t

def MS.deleteAll (m : MS) (nid : Nat) (q : Query) : MS :=
  fun n t => if n = nid ∧ q.matches t = true then 0 else m n t

def MS.transact (m : MS) (nid : Nat) (ins del : List Tuple) : MS :=
  (m.create nid ins).delete nid del

/-- The result of a listing, as a multiset of relationships. -/
def MS.list (m : MS) (nid : Nat) (q : Query) : Tuple → Nat :=
  fun t => if q.matches t = true then m nid t else 0

def MS.has (m : MS) (nid : Nat) (q : Query) : Prop := ∃ t, q.matches t = true ∧ 0 < m nid t

/-- The abstraction function: a table as a multiset per network (forget shard ids and order). -/
def abs (s : Store) : MS := fun n t => s.countP fun r => decide (r.nid = n ∧ r.t = t)

/-! ### Which requests are acceptable -/

/-- A relationship is acceptable iff it has a subject and names only configured namespaces. -/
def specTuple (cfg : Names) (t : ATuple) : Option Tuple :=
  match t.sid, t.sset with
  | some u, _ => if t.ns ∈ cfg then some ⟨t.ns, t.obj, t.rel, .id u⟩ else none
  | none, some (n, o, r) => if t.ns ∈ cfg ∧ n ∈ cfg then some ⟨t.ns, t.obj, t.rel, .set n o r⟩ else none
  | none, none => none

def specTuples (cfg : Names) : List ATuple → Option (List Tuple)
  | [] => some []
  | t :: ts =>
    match specTuple cfg t, specTuples cfg ts with
    | some it, some its => some (it :: its)
    | _, _ => none

/-- A query is acceptable iff the namespaces it names are configured. -/
def specQuery (cfg : Names) (q : Query) : Bool :=
  (match q.ns with | some n => decide (n ∈ cfg) | none => true) &&
  (match q.sub with | some (.set n _ _) => decide (n ∈ cfg) | _ => true)

/-- The relationships of the deltas with action `a`. -/
def deltaTuples (a : Action) (ds : List Delta) : List ATuple :=
  ds.filterMap fun d => if d.action = a then d.t else none

def applyDeltas (cfg : Names) (nid : Nat) (ds : List Delta) (m : MS) : MS :=
  match specTuples cfg (deltaTuples .insert ds), specTuples cfg (deltaTuples .delete ds) with
  | some ins, some del => m.transact nid ins del
  | _, _ => m

/-- The effect of one request on the multiset. -/
def specStep (cfg : Names) (nid : Nat) : Op → MS → MS
  | .restCreate t _, m =>
    match specTuple cfg t with
    | some it => m.create nid [it]
    | none => m
  | .restDelete q, m => if q.ns.isSome && specQuery cfg q then m.deleteAll nid q else m
  | .restPatch ds, m =>
    -- every element must carry a relationship and a known action
    if ds.all (fun d => d.t.isSome && d.action != .other) then applyDeltas cfg nid ds m else m
  | .grpcTransact ds, m =>
    -- elements with an unspecified action are ignored; the others must carry a relationship
    if ds.all (fun d => d.action == .other || d.t.isSome) then applyDeltas cfg nid ds m else m
  | .grpcDelete (some q), m => if specQuery cfg q then m.deleteAll nid q else m
  | .grpcDelete none, m => m
  | .pWrite ins, m => m.create nid (ins.map (·.1))
  | .pDelete ts, m => m.delete nid ts
  | .pDeleteAll q, m => m.deleteAll nid q
  | .pTransact ins del, m => m.transact nid (ins.map (·.1)) del
  | .pMap _, m => m
  | .malformed, m => m
  | .list .., m => m
  | .listAll .., m => m
  | .pList .., m => m
  | .pExists .., m => m
  | .readOnlyMap .., m => m

def specRun (cfg : Names) : History → MS → MS
  | [], m => m
  | (nid, op) :: h, m => specRun cfg h (specStep cfg nid op m)

/-- What a complete listing through the API must return (`none`: the request is rejected). -/
def specListAll (cfg : Names) (nid : Nat) (q : Option Query) (size : Int) (m : MS) : Option (Tuple → Nat) :=
  match q with
  | none => none
  | some q => if specQuery cfg q && decide (0 ≤ size) then some (m.list nid q) else none

end Keto.Store
