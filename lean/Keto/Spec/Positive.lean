/-
  The positive fragment (configurations without `!`) and what each engine call is
  supposed to establish (`Call.Spec`).
-/
import Keto.Spec.Membership

namespace Keto

mutual
def Child.pos : Child → Bool
  | .computed _ => true
  | .ttu _ _ => true
  | .rewrite _ cs => Child.posList cs
  | .invert _ => false
def Child.posList : List Child → Bool
  | [] => true
  | c :: cs => Child.pos c && Child.posList cs
end

/-- No relation of the configuration uses `!`. -/
def Cfg.pos (c : Cfg) : Prop :=
  ∀ ns rel R rw, astRelationFor c ns rel = .rel R → R.rewrite = some rw → Child.posList rw.children = true

def Cfg.posB (c : Cfg) : Bool :=
  c.all fun n => n.relations.all fun r =>
    match r.rewrite with
    | some rw => Child.posList rw.children
    | none => true

def Call.pos : Call → Bool
  | .isAllowed _ _ _ => true
  | .rewrite _ rw _ => Child.posList rw.children
  | .child _ ch _ _ => Child.pos ch
  | .invert _ _ _ => false

/-- What an `isMember` answer of the call claims. -/
def Call.Spec (c : Cfg) (T : List Tuple) : Call → Prop
  | .isAllowed t _ _ => Mem c T t
  | .rewrite t rw _ => Holds c T (.rewrite rw.op rw.children) t
  | .child t ch _ _ => Holds c T ch t
  | .invert _ _ _ => False

/-- A thunk is sound for `P` if it only answers `isMember` when `P` holds, whatever
    context and world it is run in. -/
def SoundT (P : Prop) (th : Thunk) : Prop := ∀ ctx w, (th ctx w).1.memb = .isMember → P

end Keto
