/-
  Reference semantics of a check ("RefSem"): the Zanzibar reading of a configuration.

  * `Mem` / `Holds`: the least fixpoint, as an inductive predicate, for the positive
    fragment (no `!`).
  * `refEval`: an executable idealised evaluator including `!`: no depth or width
    limit, no errors, cycles cut per *path* (sound and complete for monotone Boolean
    equation systems; a cut that crosses a negation means the instance is not
    stratified and yields `bad`).
-/
import Keto.Model.Engine

namespace Keto

mutual
inductive Mem (c : Cfg) (T : List Tuple) : Tuple → Prop where
  | direct (t : Tuple) : t ∈ T → Mem c T t
  | expand (t : Tuple) (n : String) (o : Nat) (r : String) :
      ⟨t.ns, t.obj, t.rel, .set n o r⟩ ∈ T → Mem c T ⟨n, o, r, t.sub⟩ → Mem c T t
  | rewrite (t : Tuple) (R : Relation) (rw : Rewrite) :
      astRelationFor c t.ns t.rel = .rel R → R.rewrite = some rw →
      Holds c T (.rewrite rw.op rw.children) t → Mem c T t
inductive Holds (c : Cfg) (T : List Tuple) : Child → Tuple → Prop where
  | computed (t : Tuple) (rel : String) : Mem c T { t with rel := rel } → Holds c T (.computed rel) t
  | ttu (t : Tuple) (rel crel : String) (n : String) (o : Nat) (r : String) :
      ⟨t.ns, t.obj, rel, .set n o r⟩ ∈ T → Mem c T ⟨n, o, crel, t.sub⟩ → Holds c T (.ttu rel crel) t
  | or (t : Tuple) (cs : List Child) (ch : Child) : ch ∈ cs → Holds c T ch t → Holds c T (.rewrite .or cs) t
  | and (t : Tuple) (cs : List Child) : cs ≠ [] → (∀ ch, ch ∈ cs → Holds c T ch t) → Holds c T (.rewrite .and cs) t
end

/-- Three-valued outcome of the reference evaluator. -/
inductive RV where
  | t | f | bad
  deriving DecidableEq, Repr, Inhabited

def RV.not : RV → RV
  | .t => .f | .f => .t | .bad => .bad

/-- Kleene disjunction of a list. -/
def kAny : List RV → RV
  | [] => .f
  | x :: xs =>
    match x with
    | .t => .t
    | .f => kAny xs
    | .bad => match kAny xs with | .t => .t | _ => .bad

/-- Kleene conjunction of a list. -/
def kAll : List RV → RV
  | [] => .t
  | x :: xs =>
    match x with
    | .f => .f
    | .t => kAll xs
    | .bad => match kAll xs with | .f => .f | _ => .bad

inductive RefCall where
  | node (t : Tuple)
  | child (t : Tuple) (ch : Child)

/-- `path` holds the subject-set nodes being evaluated, each with the negation level
    at which it was entered; `nl` is the current negation level. -/
def refEval (c : Cfg) (T : List Tuple) : Nat → List (VKey × Nat) → Nat → RefCall → RV
  | 0, _, _, _ => .bad
  | fuel+1, path, nl, .node t =>
    let key : VKey := (t.ns, t.obj, t.rel)
    match path.find? (fun p => p.1 == key) with
    | some p => if p.2 == nl then .f else .bad
    | none =>
      let path' := (key, nl) :: path
      let direct : RV := if T.contains t then .t else .f
      let exps := (subjectSetsOf T t.ns t.obj t.rel).map fun s =>
        refEval c T fuel path' nl (.node ⟨s.1, s.2.1, s.2.2, t.sub⟩)
      let rw : RV :=
        match astRelationFor c t.ns t.rel with
        | .bad => .bad
        | .none => .f
        | .rel R =>
          match R.rewrite with
          | none => .f
          | some rw => refEval c T fuel path' nl (.child t (.rewrite rw.op rw.children))
      kAny (direct :: rw :: exps)
  | fuel+1, path, nl, .child t ch =>
    match ch with
    | .computed rel => refEval c T fuel path nl (.node { t with rel := rel })
    | .ttu rel crel =>
      kAny ((subjectSetsOf T t.ns t.obj rel).map fun s =>
        refEval c T fuel path nl (.node ⟨s.1, s.2.1, crel, t.sub⟩))
    | .rewrite .or cs => kAny (cs.map fun ch' => refEval c T fuel path nl (.child t ch'))
    | .rewrite .and cs =>
      if cs.isEmpty then .f else kAll (cs.map fun ch' => refEval c T fuel path nl (.child t ch'))
    | .invert ch' => (refEval c T fuel path (nl + 1) (.child t ch')).not

/-- A store conforms to a configuration if every tuple is on a declared relation
    without a rewrite and its subject set (if any) is allowed by a declared type. -/
def conformsTuple (c : Cfg) (t : Tuple) : Bool :=
  match findNs c t.ns with
  | none => false
  | some n =>
    match findRel n t.rel with
    | none => false
    | some r =>
      r.rewrite.isNone && t.rel != "" &&
      match t.sub with
      | .id _ => true
      | .set sn _ sr => r.types.any (fun ty => ty.ns == sn && ty.rel == sr)

def conforms (c : Cfg) (T : List Tuple) : Bool := T.all (conformsTuple c)

end Keto
