import Keto.Model.Data
import Keto.Model.Engine
import Keto.Spec.Membership
