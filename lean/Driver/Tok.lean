/-
  Token-level parsing helpers for the line protocol (core Lean only).
  A line is a list of space-separated tokens. Strings are `s` followed by the hex
  encoding of their UTF-8 bytes; numbers are decimal (integers may carry `-`).
-/
namespace Driver

abbrev P := StateT (List String) Option

def tok : P String := do
  match (← get) with
  | [] => failure
  | t :: ts => set ts; pure t

def expect (s : String) : P Unit := do
  let t ← tok
  if t == s then pure () else failure

def hexVal (c : Char) : Option Nat :=
  if '0' ≤ c ∧ c ≤ '9' then some (c.toNat - '0'.toNat)
  else if 'a' ≤ c ∧ c ≤ 'f' then some (c.toNat - 'a'.toNat + 10)
  else none

def unhexBytes : List Char → Option (List UInt8)
  | [] => some []
  | a :: b :: rest => do
    let x ← hexVal a
    let y ← hexVal b
    let r ← unhexBytes rest
    pure ((x * 16 + y).toUInt8 :: r)
  | _ => none

def bytesTok : P (List UInt8) := do
  let t ← tok
  match t.toList with
  | 's' :: rest => match unhexBytes rest with
    | some bs => pure bs
    | none => failure
  | _ => failure

def str : P String := do
  let bs ← bytesTok
  match String.fromUTF8? (ByteArray.mk bs.toArray) with
  | some s => pure s
  | none => failure

def nat : P Nat := do
  let t ← tok
  match t.toNat? with
  | some n => pure n
  | none => failure

def int : P Int := do
  let t ← tok
  match t.toInt? with
  | some n => pure n
  | none => failure

def bool : P Bool := do
  let n ← nat
  pure (n != 0)

def many {α} (p : P α) : Nat → P (List α)
  | 0 => pure []
  | n+1 => do
    let x ← p
    let xs ← many p n
    pure (x :: xs)

def counted {α} (p : P α) : P (List α) := do
  let n ← nat
  many p n

def hexDigit (n : Nat) : Char :=
  if n < 10 then Char.ofNat ('0'.toNat + n) else Char.ofNat ('a'.toNat + n - 10)

def hexOfBytes (bs : List UInt8) : String :=
  String.ofList (bs.foldr (fun b acc => hexDigit (b.toNat / 16) :: hexDigit (b.toNat % 16) :: acc) [])

def hexOfString (s : String) : String := "s" ++ hexOfBytes s.toUTF8.toList

def run {α} (p : P α) (toks : List String) : Option α :=
  match p toks with
  | some (a, []) => some a
  | _ => none

end Driver
