/-
  Line-protocol handler of component `opl` (lexer, parser, type checks, error positions,
  TypeScript reading of permission expressions).

    lex   <bytes>                     items of the real lexer vs the lexer model
    parse <bytes>                     schema.Parse vs the parser model
    expr  <bytes> <k> <leaf>*k <tree> a document with one permission whose body renders <tree>
                                      (a TS expression over atoms 0..k-1): truth tables
    refparse <bytes> <a> <b> <kind> <reject|accept>
                                      a document in which the reference token at bytes [a,b) was replaced by an
                                      undeclared name (or a traverse-target counterpart): parse columns plus the
                                      position the error must point at (`blame`)

  leaf := c <name> | t <rel> <crel>          tree := a <i> | n tree | A tree tree | O tree tree | g tree
-/
import Keto.Model.Typecheck
import Keto.Spec.TSBool
import Driver.Tok

namespace Driver.OplDrv
open Driver Keto Keto.Opl

def typNum : ItemType → Nat
  | .error => 0 | .eof => 1 | .identifier => 2 | .comment => 3 | .stringLiteral => 4
  | .kwClass => 5 | .kwImplements => 6 | .kwThis => 7 | .kwCtx => 8
  | .opAnd => 9 | .opOr => 10 | .opNot => 11 | .opAssign => 12 | .opArrow => 13 | .opDot => 14
  | .opColon => 15 | .opComma => 16 | .semicolon => 17 | .typeUnion => 18
  | .parenLeft => 19 | .parenRight => 20 | .braceLeft => 21 | .braceRight => 22
  | .bracketLeft => 23 | .bracketRight => 24 | .angledLeft => 25 | .angledRight => 26

def lexErrStr : LexErr → String
  | .none => "none" | .unexpectedToken => "unexpected-token" | .unclosedComment => "unclosed-comment"
  | .unclosedString => "unclosed-string" | .brokenState => "broken-state"

def itemStr (i : Item) : String :=
  let v := if i.typ == .error then lexErrStr i.err else "s" ++ hexOfBytes i.val
  s!"{typNum i.typ}:{i.start}-{i.stop}:{v}"

def kindStr : Opl.ErrKind → String
  | .fatalLex e => "fatal-" ++ lexErrStr e
  | .expectedToken => "expected-token"
  | .expectedIdentifier => "expected-identifier"
  | .expectedPermitsOrRelated => "expected-permits-or-related"
  | .expectedIdentOrBrace => "expected-identifier-or-brace"
  | .expectedUnion => "expected-union"
  | .nestedTooDeep => "nested-too-deeply"
  | .unexpectedExpression => "unexpected-expression"
  | .expectedTraverseOrIncludes => "expected-traverse-or-includes"
  | .expectedRelatedOrPermits => "expected-related-or-permits"
  | .nsNotDeclared => "ns-not-declared"
  | .nsNoRelation => "ns-no-relation"
  | .tcTooDeep => "tc-too-deep"
  | .relNotDeclared => "rel-not-declared"

def b01 (b : Bool) : String := if b then "1" else "0"

/-- The bytes a model name stands for (`bstr` is one `Char` per byte). -/
def nameTok (s : String) : String := "s" ++ hexOfBytes (s.toList.map fun c => c.toNat.toUInt8)

def opStr : Op → String
  | .or => "or" | .and => "and"

mutual
def childToks : Child → List String
  | .computed r => ["c", nameTok r]
  | .ttu r c => ["t", nameTok r, nameTok c]
  | .rewrite op cs =>
    if cs.isEmpty && op == .or then ["z"]      -- nil *SubjectSetRewrite
    else ["r", opStr op, toString cs.length] ++ childrenToks cs
  | .invert c => "n" :: childToks c
def childrenToks : List Child → List String
  | [] => []
  | c :: cs => childToks c ++ childrenToks cs
end

def relToks (r : Relation) : List String :=
  [nameTok r.name, toString r.types.length]
    ++ r.types.flatMap (fun t => [nameTok t.ns, nameTok t.rel])
    ++ (match r.rewrite with
        | some rw => ["1", opStr rw.op, toString rw.children.length] ++ childrenToks rw.children
        | none => ["0"])

def nsToks (nss : List Namespace) : List String :=
  ["N", toString nss.length] ++ nss.flatMap (fun n =>
    [nameTok n.name, toString n.relations.length] ++ n.relations.flatMap relToks)

def errStr (s : List UInt8) (e : PErr) : String :=
  let a := toSrcPos s e.start
  let b := toSrcPos s e.stop
  s!"{kindStr e.kind}@{a.line}:{a.col}-{b.line}:{b.col}"

def maxErrsShown : Nat := 32

/-- The columns every op on a document prints. Only the first `maxErrsShown` errors are
    spelled out (`+k` for the rest); `nerr` is the full count. -/
def parseCols (s : List UInt8) (r : ParseResult) : String :=
  let shown := r.errors.take maxErrsShown
  let rendered := shown.map (renderError s)
  let rpanic := rendered.any (·.panic)
  let more := if r.errors.length > maxErrsShown then [s!"+{r.errors.length - maxErrsShown}"] else []
  let cols := [
    s!"nerr={r.errors.length}",
    "errs=" ++ ";".intercalate (shown.map (errStr s) ++ more),
    "offs=" ++ ";".intercalate (shown.map fun e => s!"{e.start}-{e.stop}"),
    "meta=" ++ String.join (rendered.map fun x => b01 x.metaError),
    s!"panic={b01 (r.panic || rpanic)}",
    "hang=0",
    "endpoints_agree=1",
    s!"len={s.length}", s!"rows={rowCount s}", s!"nitems={r.nItems}", s!"lsteps={r.lexSteps}", s!"psteps={r.parseSteps}",
    s!"steps={r.lexSteps + r.parseSteps}", s!"tcsteps={r.tcSteps}"]
  let cols := if r.errors.isEmpty then cols ++ ["ns=" ++ "_".intercalate (nsToks r.namespaces)] else cols
  "\t".intercalate cols

def handleLex (s : List UInt8) : String :=
  let r := lex s.toArray
  "\t".intercalate [
    "toks=" ++ ";".intercalate (r.items.map itemStr),
    "after=" ++ itemStr brokenItem,
    s!"panic={b01 r.panic}", s!"len={s.length}", s!"rows={rowCount s}", s!"nitems={r.items.length}", s!"lsteps={r.steps}"]

partial def pTree : P (TS.E Nat) := do
  let t ← tok
  if t == "a" then return .atom (← nat)
  else if t == "n" then return .not (← pTree)
  else if t == "g" then return .group (← pTree)
  else if t == "A" then
    let l ← pTree
    let r ← pTree
    return .and l r
  else if t == "O" then
    let l ← pTree
    let r ← pTree
    return .or l r
  else failure

def pLeaf : P Child := do
  let t ← tok
  if t == "c" then return .computed (bstr (← bytesTok))
  else if t == "t" then
    let r ← bytesTok
    let c ← bytesTok
    return .ttu (bstr r) (bstr c)
  else failure

def leafEq : Child → Child → Bool
  | .computed a, .computed b => a == b
  | .ttu a b, .ttu c d => a == c && b == d
  | _, _ => false

def leafIndex (leaves : List Child) (c : Child) : Option Nat :=
  leaves.findIdx? (leafEq c)

def bit (m i : Nat) : Bool := (m / 2 ^ i) % 2 == 1

def firstRewrite (nss : List Namespace) : Option Rewrite :=
  (nss.flatMap (·.relations)).findSome? (·.rewrite)

def table (k : Nat) (f : Nat → Bool) : String :=
  String.join ((List.range (2 ^ k)).map fun m => b01 (f m))

def handleExpr (s : List UInt8) (leaves : List Child) (e : TS.E Nat) : String :=
  let r := parse s
  let k := leaves.length
  let tt := if !r.errors.isEmpty then "err" else
    match firstRewrite r.namespaces with
    | none => "none"
    | some rw => table k fun m =>
      denoteRewrite (fun c => match leafIndex leaves c with | some i => bit m i | none => false) rw
  let ts := table k fun m => TS.evalTS (bit m) e
  let lr := table k fun m => TS.evalL2R (bit m) e
  parseCols s r ++ "\t" ++ "\t".intercalate [
    s!"tt={tt}", s!"ts={ts}", s!"l2r={lr}", s!"mixed={b01 (TS.mixed e)}", s!"dneg={b01 (TS.doubleNeg e)}"]

/-! ### refparse: one reference of an accepted document replaced (C11, converse) -/

def rangeStr (s : List UInt8) (a b : Nat) : String :=
  let x := toSrcPos s a
  let y := toSrcPos s b
  s!"{x.line}:{x.col}-{y.line}:{y.col}"

/-- `TypeCheck.blame` of Keto/Proofs/TypecheckLemmas.lean (the item every error of the check
    points at, `C11_tc_rejects_at`), repeated here because the driver links Model and Spec only. -/
def blameOf (nss : List Namespace) : TypeCheck → Item
  | .nsExists ns => ns
  | .nsHasRelation ns rel => if (findNsT nss (bstr ns.val)).isSome then rel else ns
  | .curNsHasRelation _ rel => rel
  | .allTypesHaveRelation _ relType _ => relType

def itemAt (i : Item) (a b : Nat) : Bool := i.start == a && i.stop == b

/-- Does the deferred check concern the reference token at `[a, b)` (whose text is `name`)?
    The target of a traverse is kept by the check only as a string. -/
def checkConcerns (a b : Nat) (name : String) : TypeCheck → Bool
  | .nsExists ns => itemAt ns a b
  | .nsHasRelation ns rel => itemAt ns a b || itemAt rel a b
  | .curNsHasRelation _ rel => itemAt rel a b
  | .allTypesHaveRelation _ relType rel => itemAt relType a b || rel == name

def handleRefParse (s : List UInt8) (a b : Nat) (expect : String) : String :=
  let r := parse s
  let syn := parseItems (lex s.toArray).items
  let name := bstr ((s.drop a).take (b - a))
  -- the checks in the order they were added
  let blame := match syn.checks.reverse.find? (checkConcerns a b name) with
    | some c => let i := blameOf syn.nss c; rangeStr s i.start i.stop
    | none => "none"
  parseCols s r ++ "\t" ++ "\t".intercalate [
    s!"mut={rangeStr s a b}", s!"mustreject={b01 (expect == "reject")}", s!"mustaccept={b01 (expect == "accept")}",
    s!"blame={blame}"]

def pOplOp : P String := do
  let op ← tok
  if op == "lex" then return handleLex (← bytesTok)
  else if op == "parse" then
    let s ← bytesTok
    return parseCols s (parse s)
  else if op == "refparse" then
    let s ← bytesTok
    let a ← nat
    let b ← nat
    let _kind ← tok
    let expect ← tok
    if a ≤ b && b ≤ s.length && (expect == "reject" || expect == "accept") then return handleRefParse s a b expect
    else failure
  else if op == "expr" then
    let s ← bytesTok
    let leaves ← counted pLeaf
    let e ← pTree
    return handleExpr s leaves e
  else failure

end Driver.OplDrv

def Driver.handleOpl (toks : List String) : String :=
  match Driver.run Driver.OplDrv.pOplOp toks with
  | some out => out
  | none => "bad-op"
