/-
  Line protocol of component `store` (streams store, store-nets, store-faults, store-readonly).

  One line carries a whole history:

    store <id> <verbose:0|1> <fault> N <n> <ns:str>… H <n> <op>…

    fault  := 0 | 1 <insert-poison relation:str> <delete-poison relation:str> <poison string id:nat>
    op     := MARK | <network:nat> <code> <args>
    code   := C <atuple> <shard>                  PUT    /admin/relation-tuples
            | D <query>                           DELETE /admin/relation-tuples
            | P <n> <delta>…                      PATCH  /admin/relation-tuples
            | T <n> <delta>…                      WriteService.TransactRelationTuples
            | G <0 | 1 query>                     WriteService.DeleteRelationTuples
            | W <n> (<tuple> <shard>)…            Persister.WriteRelationTuples
            | X <n> <tuple>…                      Persister.DeleteRelationTuples
            | A <query>                           Persister.DeleteAllRelationTuples
            | Y <n> (<tuple> <shard>)… <n> <tuple>…   Persister.TransactRelationTuples
            | MS <n> <nat>…                       Persister.MapStringsToUUIDs
            | M                                   a request rejected while decoding
            | L <0 | 1 query> <size:int> <token>  GET /relation-tuples, ReadService.ListRelationTuples (one page)
            | LA <0 | 1 query> <size:int>         the same, following the tokens to the end
            | PL <query> <size:int> <token>       Persister.GetRelationTuples
            | E <query>                           Persister.ExistsRelationTuples
            | RM <n> <nat>…                       check/expand/…: names through the read-only mapper
    atuple := <ns:str> <obj:nat> <rel:str> <0 | 1 nat> <0 | 1 str nat str>
    tuple  := <ns:str> <obj:nat> <rel:str> <subject>       subject := i <nat> | s <str> <nat> <str>
    query  := <0 | 1 str> <0 | 1 nat> <0 | 1 str> <0 | 1 subject>
    delta  := <i|d|o> <0 | 1 atuple> <shard>
    token  := e | t <nat> | b | n <j>      (`n <j>`: the next-page token item <j> of this line returned; empty if none)

  Output columns, `<i>` = 0-based position of the op in the line (MARK prints nothing):
    s<i>  status           o<i>  observation digest          d<i>  table in shard order (digest)
    m<i>  table as a sorted multiset (digest)                 u<i>  mapping table (digest)
    f<i>  1 iff the rows of all OTHER networks (with their shard ids) are what they were before the op
  spec columns (looked at by the property oracles only):
    k<i>  the op code      sm<i> the multiset specification's state      so<i> its answer to a complete listing
    pp<i> page size in force for L/LA/PL (`neg` for a negative size)
    tk<i> kind of page token for L/PL: e empty, n the non-empty token an earlier item returned (`n <j>`), t another
          well-formed token, b malformed
    sc<i> for an L/PL request the specification accepts: the number of relationships matching its query
    spec  1 iff the model agreed with the specification at every step
    changed  1 iff the database differs from the one at the last MARK (or the initial one)
-/
import Keto.Model.Store
import Keto.Spec.Multiset
import Driver.Tok

namespace Driver.StoreP
open Driver Keto Keto.Store
abbrev SOp := Keto.Store.Op

def pSubject : P Subject := do
  let t ← tok
  if t == "i" then return .id (← nat)
  else if t == "s" then
    let n ← str
    let o ← nat
    let r ← str
    return .set n o r
  else failure

def pTuple : P Tuple := do
  let n ← str
  let o ← nat
  let r ← str
  let s ← pSubject
  pure ⟨n, o, r, s⟩

def opt {α} (p : P α) : P (Option α) := do
  let t ← tok
  if t == "0" then pure none
  else if t == "1" then return some (← p)
  else failure

def pATuple : P ATuple := do
  let n ← str
  let o ← nat
  let r ← str
  let sid ← opt nat
  let sset ← opt (do
    let a ← str
    let b ← nat
    let c ← str
    pure (a, b, c))
  pure { ns := n, obj := o, rel := r, sid := sid, sset := sset }

def pQuery : P Query := do
  let n ← opt str
  let o ← opt nat
  let r ← opt str
  let s ← opt pSubject
  pure { ns := n, obj := o, rel := r, sub := s }

def pAction : P Action := do
  let t ← tok
  if t == "i" then pure .insert
  else if t == "d" then pure .delete
  else if t == "o" then pure .other
  else failure

def pDelta : P Delta := do
  let a ← pAction
  let t ← opt pATuple
  let sh ← nat
  pure { action := a, t := t, shard := sh }

/-- A token and, for `n <j>`, the item whose answer supplies it. -/
def pToken : P (Token × Option Nat) := do
  let t ← tok
  if t == "e" then pure (.empty, none)
  else if t == "b" then pure (.bad, none)
  else if t == "t" then return (.at (← nat), none)
  else if t == "n" then return (.empty, some (← nat))
  else failure

def pIns : P (Tuple × Nat) := do
  let t ← pTuple
  let sh ← nat
  pure (t, sh)

def pOp' : P SOp := do
  let c ← tok
  if c == "C" then
    let t ← pATuple
    let sh ← nat
    return .restCreate t sh
  else if c == "D" then return .restDelete (← pQuery)
  else if c == "P" then return .restPatch (← counted pDelta)
  else if c == "T" then return .grpcTransact (← counted pDelta)
  else if c == "G" then return .grpcDelete (← opt pQuery)
  else if c == "W" then return .pWrite (← counted pIns)
  else if c == "X" then return .pDelete (← counted pTuple)
  else if c == "A" then return .pDeleteAll (← pQuery)
  else if c == "Y" then
    let ins ← counted pIns
    let del ← counted pTuple
    return .pTransact ins del
  else if c == "MS" then return .pMap (← counted nat)
  else if c == "M" then return .malformed
  else if c == "LA" then
    let q ← opt pQuery
    let sz ← int
    return .listAll q sz
  else if c == "E" then return .pExists (← pQuery)
  else if c == "RM" then return .readOnlyMap (← counted nat)
  else failure

/-- An op and, for a page request with token `n <j>`, the item whose answer supplies the token. -/
def pOp : P (SOp × Option Nat) := do
  match (← get) with
  | "L" :: rest =>
    set rest
    let q ← opt pQuery
    let sz ← int
    let t ← pToken
    pure (.list q sz t.1, t.2)
  | "PL" :: rest =>
    set rest
    let q ← pQuery
    let sz ← int
    let t ← pToken
    pure (.pList q sz t.1, t.2)
  | _ => return (← pOp', none)

/-- `none` = MARK. -/
def pItem : P (Option (Nat × SOp) × Option Nat) := do
  match (← get) with
  | "MARK" :: rest => set rest; pure (none, none)
  | _ =>
    let n ← nat
    let op ← pOp
    pure (some (n, op.1), op.2)

structure Line where
  verbose : Bool
  poison : Option (String × String × Nat)
  cfg : Names
  items : List (Option (Nat × SOp))
  refs : List (Option Nat)          -- per item: the item supplying its page token (`n <j>`)

def pLine : P Line := do
  let v ← bool
  let poison ← opt (do
    let r ← str
    let d ← str
    let s ← nat
    pure (r, d, s))
  expect "N"
  let cfg ← counted str
  expect "H"
  let items ← counted pItem
  pure { verbose := v, poison := poison, cfg := cfg, items := items.map (·.1), refs := items.map (·.2) }

/-! ### Rendering and digests (must agree byte for byte with harness/drive/store_canon.go) -/

def rSub : Subject → String
  | .id u => "i" ++ toString u
  | .set n o r => "s" ++ hexOfString n ++ "," ++ toString o ++ "," ++ hexOfString r

def rTuple (t : Tuple) : String :=
  hexOfString t.ns ++ "|" ++ toString t.obj ++ "|" ++ hexOfString t.rel ++ "|" ++ rSub t.sub

def rRow (r : Row) : String := toString r.nid ++ "@" ++ rTuple r.t

def fnv64 (s : String) : UInt64 :=
  s.toUTF8.foldl (fun h b => (h ^^^ b.toUInt64) * 1099511628211) 14695981039346656037

def hex64 (x : UInt64) : String := String.ofList (Nat.toDigits 16 x.toNat)

/-- `<count>:<fnv-1a 64 of the ';'-joined items>`, or the joined items themselves when verbose. -/
def digest (verbose : Bool) (items : List String) : String :=
  let joined := ";".intercalate items
  toString items.length ++ ":" ++ (if verbose then joined else hex64 (fnv64 joined))

def sortStrs (l : List String) : List String := l.mergeSort (fun a b => decide (a ≤ b))

def statusStr : Status → String
  | .ok => "ok" | .bad => "bad" | .notFound => "notfound" | .internal => "internal"

def nextStr : Option Nat → String
  | none => "-"
  | some n => toString n

def maxLen : List Page → Nat
  | [] => 0
  | p :: ps => max p.rows.length (maxLen ps)

def obsStr (verbose : Bool) (o : ReadOut) : String :=
  match o.page, o.pages, o.found with
  | some p, _, _ => digest verbose (p.rows.map (rTuple ·.t)) ++ "/" ++ nextStr p.next
  | none, some ps, _ =>
    digest verbose (sortStrs ((pagesRows ps).map (rTuple ·.t))) ++ "/" ++ toString ps.length ++ "/" ++ toString (maxLen ps)
  | none, none, some b => if b then "1" else "0"
  | none, none, none => "-"

/-- The fault injected by the harness' sqlite triggers: an INSERT fails if one of its rows carries the
    insert-poison relation, a DELETE fails if it would delete a row carrying the delete-poison relation, a
    mapping INSERT fails if it contains the poison string. -/
def poisonOracle (rel drel : String) (pstr : Nat) : Oracle := fun _ st w =>
  match st with
  | .insertRows rs => rs.any (fun r => r.t.rel == rel)
  | .deleteRows nid ts => w.rows.any (fun r => listed nid ts r && r.t.rel == drel)
  | .deleteWhere nid q => w.rows.any (fun r => hits nid q r && r.t.rel == drel)
  | .insertMaps ms => pstr != 0 && ms.any (fun p => p.2 == pstr)

/-! ### The finite tupleUniverse on which the specification's count functions are printed -/

def atupleAny (t : ATuple) : Option Tuple :=
  match t.sid, t.sset with
  | some u, _ => some ⟨t.ns, t.obj, t.rel, .id u⟩
  | none, some (n, o, r) => some ⟨t.ns, t.obj, t.rel, .set n o r⟩
  | none, none => none

def insertedBy : SOp → List Tuple
  | .restCreate t _ => (atupleAny t).toList
  | .restPatch ds | .grpcTransact ds =>
    ds.filterMap fun d => if d.action = .insert then d.t.bind atupleAny else none
  | .pWrite ins => ins.map (·.1)
  | .pTransact ins _ => ins.map (·.1)
  | _ => []

def dedupSorted : List (String × Tuple) → List (String × Tuple)
  | a :: b :: rest => if a.1 == b.1 then dedupSorted (b :: rest) else a :: dedupSorted (b :: rest)
  | l => l

def tupleUniverse (items : List (Option (Nat × SOp))) : List (String × Tuple) :=
  let ts := items.foldr (fun it acc => match it with | some (_, op) => insertedBy op ++ acc | none => acc) []
  dedupSorted ((ts.map fun t => (rTuple t, t)).mergeSort (fun a b => decide (a.1 ≤ b.1)))

def networks (items : List (Option (Nat × SOp))) : List Nat :=
  (items.filterMap fun it => it.map (·.1)).eraseDups

def specStateItems (nets : List Nat) (U : List (String × Tuple)) (m : MS) : List String :=
  sortStrs (nets.foldr (fun n acc =>
    U.foldr (fun u acc => List.replicate (m n u.2) (toString n ++ "@" ++ u.1) ++ acc) acc) [])

/-- A count function tabulated on the universe (it is 0 elsewhere: the universe holds every relationship a
    request of the line can insert).  The driver keeps the specification's state as such a table so that the
    closures built by `specStep` do not pile up. -/
abbrev Table := List (Nat × List (Tuple × Nat))

def tabulate (nets : List Nat) (U : List (String × Tuple)) (m : MS) : Table :=
  nets.map fun n => (n, U.filterMap fun u => let c := m n u.2; if c = 0 then none else some (u.2, c))

def ofTable (tbl : Table) : MS := fun n t =>
  match tbl.lookup n with
  | some row => (row.lookup t).getD 0
  | none => 0

def specListItems (U : List (String × Tuple)) (f : Tuple → Nat) : List String :=
  sortStrs (U.foldr (fun u acc => List.replicate (f u.2) u.1 ++ acc) [])

def mapsItems (ms : List (Nat × Nat)) : List String :=
  sortStrs (ms.map fun p => toString p.1 ++ "@" ++ toString p.2)

def sizeOf? : SOp → Option Int
  | .list _ sz _ | .listAll _ sz | .pList _ sz _ => some sz
  | _ => none

def opCode : SOp → String
  | .restCreate .. => "C" | .restDelete .. => "D" | .restPatch .. => "P" | .grpcTransact .. => "T"
  | .grpcDelete .. => "G" | .pWrite .. => "W" | .pDelete .. => "X" | .pDeleteAll .. => "A"
  | .pTransact .. => "Y" | .pMap .. => "MS" | .malformed => "M" | .list .. => "L" | .listAll .. => "LA"
  | .pList .. => "PL" | .pExists .. => "E" | .readOnlyMap .. => "RM"

structure St where
  db : DB
  mark : DB
  tbl : Table             -- the specification's state, tabulated
  i : Nat := 0
  cols : Array String := #[]
  specOK : Bool := true
  nexts : Array Token := #[]        -- per item: the token its answer hands to a follower

def withToken (t : Token) : SOp → SOp
  | .list q sz _ => .list q sz t
  | .pList q sz _ => .pList q sz t
  | op => op

def stepItem (L : Line) (fail : Oracle) (nets : List Nat) (U : List (String × Tuple)) (st : St)
    (itr : Option (Nat × SOp) × Option Nat) : St :=
  match itr.1 with
  | none => { st with mark := st.db, i := st.i + 1, nexts := st.nexts.push .empty }
  | some (nid, op0) =>
    let op := match itr.2 with
      | some j => withToken (st.nexts.getD j .empty) op0
      | none => op0
    let v := L.verbose
    let ck : Chunking := {}
    let r := step ck L.cfg fail nid op st.db
    -- with a fault oracle the specification (which knows no faults) says: a failed request has no effect
    let m0 := ofTable st.tbl
    let tbl' := if r.1.status == .internal then st.tbl else tabulate nets U (specStep L.cfg nid op m0)
    let m' := ofTable tbl'
    let i := toString st.i
    let mDig := digest v (sortStrs (r.2.rows.map rRow))
    let smDig := digest v (specStateItems nets U m')
    let cols := st.cols
      |>.push ("s" ++ i ++ "=" ++ statusStr r.1.status)
      |>.push ("o" ++ i ++ "=" ++ obsStr v r.1)
      |>.push ("d" ++ i ++ "=" ++ digest v (r.2.rows.map rRow))
      |>.push ("m" ++ i ++ "=" ++ mDig)
      |>.push ("u" ++ i ++ "=" ++ digest v (mapsItems r.2.maps))
      |>.push ("f" ++ i ++ "=" ++
          (if r.2.rows.filter (fun x => x.nid != nid) == st.db.rows.filter (fun x => x.nid != nid) then "1" else "0"))
      |>.push ("sm" ++ i ++ "=" ++ smDig)
    let cols := cols.push ("k" ++ i ++ "=" ++ opCode op)
    let cols := match sizeOf? op with
      | some sz => cols.push ("pp" ++ i ++ "=" ++ (if sz < 0 then "neg" else toString (perPage sz)))
      | none => cols
    let cols := match op with
      | .list _ _ t | .pList _ _ t =>
        cols.push ("tk" ++ i ++ "=" ++
          (match t with | .empty => "e" | .at _ => (if itr.2.isSome then "n" else "t") | .bad => "b"))
      | _ => cols
    -- the number of relationships the specification says match a page request it accepts
    let specCount : Option Nat := match op with
      | .list q sz _ => (specListAll L.cfg nid q sz m0).map fun f => U.foldl (fun a u => a + f u.2) 0
      | .pList q sz _ => if sz < 0 then none else some (U.foldl (fun a u => a + m0.list nid q u.2) 0)
      | _ => none
    let cols := match specCount with
      | some c => cols.push ("sc" ++ i ++ "=" ++ toString c)
      | none => cols
    -- the specification's answer to a complete listing
    let (cols, okL) := match op with
      | .listAll q sz =>
        match specListAll L.cfg nid q sz m0 with
        | none => (cols.push ("so" ++ i ++ "=rej"), r.1.pages.isNone)
        | some f =>
          let sd := digest v (specListItems U f)
          let md := match r.1.pages with
            | some ps => digest v (sortStrs ((pagesRows ps).map (rTuple ·.t)))
            | none => "none"
          (cols.push ("so" ++ i ++ "=" ++ sd), sd == md)
      | _ => (cols, true)
    let stateOK := mDig == smDig
    let nx : Token := match r.1.page with
      | some p => (match p.next with | some l => .at l | none => .empty)
      | none => .empty
    { st with db := r.2, tbl := tbl', i := st.i + 1, cols := cols, specOK := st.specOK && okL && stateOK,
              nexts := st.nexts.push nx }

def handleStore (toks : List String) : String :=
  match run pLine toks with
  | none => "bad-op"
  | some L =>
    let fail : Oracle := match L.poison with
      | some (rel, drel, s) => poisonOracle rel drel s
      | none => noFail
    let U := tupleUniverse L.items
    let nets := networks L.items
    let st0 : St := { db := {}, mark := {}, tbl := [] }
    let st := (L.items.zip L.refs).foldl (stepItem L fail nets U) st0
    let cols := st.cols
      |>.push ("spec=" ++ (if st.specOK then "1" else "0"))
      |>.push ("changed=" ++ (if st.db == st.mark then "0" else "1"))
      |>.push ("ops=" ++ toString st.i)
    "\t".intercalate cols.toList

end Driver.StoreP

namespace Driver
def handleStore := StoreP.handleStore
end Driver
