import Keto.Model.Encoding
import Driver.Tok

/-
  Component `enc`: the relationship encodings (C18).

    enc <id> <op> <args…>

  tuple   := <ns> <obj> <rel> <subj>          subj  := n | i <s> | s <s> <s> <s> | b <s> <s> <s> <s>
  query   := <opt> <opt> <opt> <subj>         opt   := - | <s>
  values  := <n> (<key> <value>)*n
  ptuple  := <ns> <obj> <rel> <psubj>         psubj := n | e | i <s> | s <s> <s> <s> | z
  pquery  := <opt> <opt> <opt> <psubj>
  jobj    := <n> (<key> <jval>)*n             jval  := s <s> | z | x | o <n> (<key> <jleaf>)*n
                                              jleaf := s <s> | z | x
  (<s> is a hex string token, see Driver.Tok)
-/
namespace Driver.EncOps
open Driver Keto.Enc

def estr : P Str := do
  let s ← str
  pure s.toList

def eopt : P (Option Str) := do
  match (← get) with
  | "-" :: ts => set ts; pure none
  | _ => do let s ← estr; pure (some s)

def pESet : P Keto.Enc.SubjectSet := do
  let a ← estr
  let b ← estr
  let c ← estr
  pure ⟨a, b, c⟩

def pESubj : P (Option Str × Option Keto.Enc.SubjectSet) := do
  let t ← tok
  if t == "n" then pure (none, none)
  else if t == "i" then do let s ← estr; pure (some s, none)
  else if t == "s" then do let ss ← pESet; pure (none, some ss)
  else if t == "b" then do
    let s ← estr
    let ss ← pESet
    pure (some s, some ss)
  else failure

def pETuple : P RelationTuple := do
  let a ← estr
  let b ← estr
  let c ← estr
  let s ← pESubj
  pure ⟨a, b, c, s.1, s.2⟩

def pEQuery : P RelationQuery := do
  let a ← eopt
  let b ← eopt
  let c ← eopt
  let s ← pESubj
  pure ⟨a, b, c, s.1, s.2⟩

def pEPair : P (Str × Str) := do
  let k ← estr
  let v ← estr
  pure (k, v)

def pEValues : P Values := counted pEPair

def pPSubj : P (Option PSubject) := do
  let t ← tok
  if t == "n" then pure none
  else if t == "e" then pure (some ⟨none⟩)
  else if t == "i" then do let s ← estr; pure (some ⟨some (.id s)⟩)
  else if t == "s" then do let ss ← pESet; pure (some ⟨some (.set ss.ns ss.obj ss.rel)⟩)
  else if t == "z" then pure (some ⟨some .setNil⟩)
  else failure

def pPTuple : P PTuple := do
  let a ← estr
  let b ← estr
  let c ← estr
  let s ← pPSubj
  pure ⟨a, b, c, s⟩

def pPQuery : P PQuery := do
  let a ← eopt
  let b ← eopt
  let c ← eopt
  let s ← pPSubj
  pure ⟨a, b, c, s⟩

def pJLeaf : P JLeaf := do
  let t ← tok
  if t == "s" then do let s ← estr; pure (.str s)
  else if t == "z" then pure .null
  else if t == "x" then pure .other
  else failure

def pJLeafField : P (Str × JLeaf) := do
  let k ← estr
  let v ← pJLeaf
  pure (k, v)

def pJVal : P JVal := do
  let t ← tok
  if t == "s" then do let s ← estr; pure (.leaf (.str s))
  else if t == "z" then pure (.leaf .null)
  else if t == "x" then pure (.leaf .other)
  else if t == "o" then do let fs ← counted pJLeafField; pure (.obj fs)
  else failure

def pJField : P (Str × JVal) := do
  let k ← estr
  let v ← pJVal
  pure (k, v)

def pJObj : P JObj := counted pJField

/-! canonical output -/

def hs (s : Str) : String := hexOfString (String.ofList s)

def hopt : Option Str → String
  | none => "-"
  | some s => hs s

def csvSet (ss : Keto.Enc.SubjectSet) : String := hs ss.ns ++ "," ++ hs ss.obj ++ "," ++ hs ss.rel

def csvSubj : Option Str → Option Keto.Enc.SubjectSet → String
  | none, none => "n"
  | some s, none => "i," ++ hs s
  | none, some ss => "s," ++ csvSet ss
  | some s, some ss => "b," ++ hs s ++ "," ++ csvSet ss

def csvTuple (t : RelationTuple) : String :=
  hs t.ns ++ "," ++ hs t.obj ++ "," ++ hs t.rel ++ "," ++ csvSubj t.subjectID t.subjectSet

def csvQuery (q : RelationQuery) : String :=
  hopt q.ns ++ "," ++ hopt q.obj ++ "," ++ hopt q.rel ++ "," ++ csvSubj q.subjectID q.subjectSet

def errName : Err → String
  | .malformed => "malformed"
  | .droppedSubjectKey => "dropped-subject-key"
  | .duplicateSubject => "duplicate-subject"
  | .incompleteSubject => "incomplete-subject"
  | .nilSubject => "nil-subject"
  | .incompleteTuple => "incomplete-tuple"
  | .typeMismatch => "type-mismatch"
  | .panic => "panic"

/-- `<k>=ok\t<v>=<canonical value>` or `<k>=err:<kind>\t<v>=-`. -/
def resKV {α} (k v : String) (f : α → String) : Res α → String
  | .ok a => k ++ "=ok\t" ++ v ++ "=" ++ f a
  | .err e => k ++ "=err:" ++ errName e ++ "\t" ++ v ++ "=-"

def b01 (b : Bool) : String := if b then "1" else "0"

/-- `Values.Encode` sorts by key (byte order) and keeps the values of a key in order
    (stable insertion sort). -/
def insertKV (p : Str × Str) : Values → Values
  | [] => [p]
  | q :: r => if String.ofList q.1 < String.ofList p.1 then q :: insertKV p r else p :: q :: r

def sortValues (v : Values) : Values := v.foldr insertKV []

def csvValues (v : Values) : String :=
  ",".intercalate ((sortValues v).map fun p => hs p.1 ++ ":" ++ hs p.2)

def isOkEq {α} [DecidableEq α] (r : Res α) (a : α) : Bool := decide (r = .ok a)

def validUTF8 (bs : List UInt8) : Bool :=
  (String.fromUTF8? (ByteArray.mk bs.toArray)).isSome

def handleEncOp (op : String) : P String := do
  if op == "str-parse" then
    let s ← estr
    let r := RelationTuple.fromStr s
    match r with
    | .err _ => pure (resKV "res" "val" csvTuple r ++ "\tcli=same\top=str-parse")
    | .ok t =>
      let r2 := RelationTuple.fromStr t.toStr
      pure (resKV "res" "val" csvTuple r ++ "\tstr=" ++ hs t.toStr ++ "\t" ++ resKV "res2" "val2" csvTuple r2
        ++ "\tcli=same\top=str-parse\tone=" ++ b01 t.oneSubject ++ "\tdom=" ++ b01 (DomString t)
        ++ "\ttrimclass=" ++ b01 (TrimClass t) ++ "\tidem=" ++ b01 (isOkEq r2 t))
  else if op == "tuple-string" then
    let t ← pETuple
    let r := RelationTuple.fromStr t.toStr
    pure ("str=" ++ hs t.toStr ++ "\t" ++ resKV "res" "val" csvTuple r
      ++ "\top=tuple-string\tin=" ++ csvTuple t ++ "\tone=" ++ b01 t.oneSubject ++ "\tdom=" ++ b01 (DomString t)
      ++ "\ttrimclass=" ++ b01 (TrimClass t) ++ "\tsame=" ++ b01 (isOkEq r t))
  else if op == "sset-parse" then
    let s ← estr
    let r := Keto.Enc.SubjectSet.fromStr s
    match r with
    | .err _ => pure (resKV "res" "val" csvSet r ++ "\top=sset-parse")
    | .ok ss => pure (resKV "res" "val" csvSet r ++ "\tstr=" ++ hs ss.toStr ++ "\top=sset-parse")
  else if op == "url-tuple" then
    let t ← pETuple
    let r := RelationTuple.fromURLQuery t.toURLQuery
    pure ("enc=" ++ csvValues t.toURLQuery ++ "\t" ++ resKV "res" "val" csvTuple r ++ "\t" ++ resKV "dres" "dval" csvTuple r
      ++ "\top=url-tuple\tin=" ++ csvTuple t ++ "\twf=" ++ b01 t.oneSubject ++ "\tsame=" ++ b01 (isOkEq r t))
  else if op == "url-query" then
    let q ← pEQuery
    let r := RelationQuery.fromURLQuery q.toURLQuery
    pure ("enc=" ++ csvValues q.toURLQuery ++ "\t" ++ resKV "res" "val" csvQuery r ++ "\t" ++ resKV "dres" "dval" csvQuery r
      ++ "\top=url-query\tin=" ++ csvQuery q ++ "\twf=" ++ b01 q.atMostOneSubject ++ "\tsame=" ++ b01 (isOkEq r q))
  else if op == "proto-tuple" then
    let t ← pETuple
    match t.toProto with
    | .err e => pure ("pres=err:" ++ errName e ++ "\top=proto-tuple\tin=" ++ csvTuple t ++ "\twf=" ++ b01 t.oneSubject ++ "\tsame=0")
    | .ok p =>
      let r := RelationTuple.fromDataProvider p
      let f := RelationTuple.fromProto p
      pure ("pres=ok\t" ++ resKV "res" "val" csvTuple r ++ "\t" ++ resKV "dres" "dval" csvTuple r ++ "\t"
        ++ resKV "fres" "fval" csvTuple f
        ++ "\top=proto-tuple\tin=" ++ csvTuple t ++ "\twf=" ++ b01 t.oneSubject
        ++ "\tsame=" ++ b01 (isOkEq r t && isOkEq f t))
  else if op == "proto-query" then
    let q ← pEQuery
    let r := RelationQuery.fromDataProvider q.toProto
    pure (resKV "res" "val" csvQuery r ++ "\t" ++ resKV "dres" "dval" csvQuery r
      ++ "\top=proto-query\tin=" ++ csvQuery q ++ "\twf=" ++ b01 q.atMostOneSubject ++ "\tsame=" ++ b01 (isOkEq r q))
  else if op == "json-tuple" then
    let t ← pETuple
    let r := RelationTuple.fromJSON t.toJSON
    pure (resKV "res" "val" csvTuple r
      ++ "\top=json-tuple\tin=" ++ csvTuple t ++ "\twf=1\tsame=" ++ b01 (isOkEq r t))
  else if op == "json-query" then
    let q ← pEQuery
    let r := RelationQuery.fromJSON q.toJSON
    pure (resKV "res" "val" csvQuery r
      ++ "\top=json-query\tin=" ++ csvQuery q ++ "\twf=1\tsame=" ++ b01 (isOkEq r q))
  else if op == "url-dec-tuple" then
    let v ← pEValues
    pure (resKV "res" "val" csvTuple (RelationTuple.fromURLQuery v) ++ "\top=url-dec-tuple")
  else if op == "url-dec-query" then
    let v ← pEValues
    pure (resKV "res" "val" csvQuery (RelationQuery.fromURLQuery v) ++ "\top=url-dec-query")
  else if op == "url-dec-sset" then
    let v ← pEValues
    pure ("res=ok\tval=" ++ csvSet (Keto.Enc.SubjectSet.fromURLQuery v) ++ "\top=url-dec-sset")
  else if op == "proto-dec-tuple" then
    let p ← pPTuple
    pure (resKV "res" "val" csvTuple (RelationTuple.fromDataProvider p) ++ "\t"
      ++ resKV "fres" "fval" csvTuple (RelationTuple.fromProto p) ++ "\top=proto-dec-tuple")
  else if op == "proto-dec-query" then
    let p ← pPQuery
    pure (resKV "res" "val" csvQuery (RelationQuery.fromDataProvider p) ++ "\top=proto-dec-query")
  else if op == "json-dec-tuple" then
    let o ← pJObj
    pure (resKV "res" "val" csvTuple (RelationTuple.fromJSON o) ++ "\top=json-dec-tuple")
  else if op == "json-dec-query" then
    let o ← pJObj
    pure (resKV "res" "val" csvQuery (RelationQuery.fromJSON o) ++ "\top=json-dec-query")
  else if op == "utf8" then
    let bs ← bytesTok
    pure ("valid=" ++ b01 (validUTF8 bs) ++ "\top=utf8")
  else failure

end Driver.EncOps

namespace Driver

/-- Component `enc`: the first token selects the op; malformed lines print `bad-op`. -/
def handleEnc (toks : List String) : String :=
  match toks with
  | [] => "bad-op"
  | op :: rest =>
    match run (EncOps.handleEncOp op) rest with
    | some s => s
    | none => "bad-op"

end Driver
