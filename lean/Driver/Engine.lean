import Keto.Model.Engine
import Keto.Spec.Calls
import Keto.Spec.Membership
import Keto.Spec.Fuel
import Keto.Spec.WellFormed
import Keto.Generated.Facts
import Driver.Tok

namespace Driver
open Keto

def pOp : P Op := do
  let t ← tok
  if t == "or" then pure .or else if t == "and" then pure .and else failure

partial def pChild : P Child := do
  let t ← tok
  if t == "c" then return .computed (← str)
  else if t == "t" then
    let r ← str
    let cr ← str
    return .ttu r cr
  else if t == "r" then
    let op ← pOp
    let n ← nat
    let cs ← many pChild n
    return .rewrite op cs
  else if t == "n" then
    return .invert (← pChild)
  else failure

def pRelType : P RelType := do
  let n ← str
  let r ← str
  pure ⟨n, r⟩

def pRelation : P Relation := do
  let name ← str
  let types ← counted pRelType
  let has ← bool
  if has then
    let op ← pOp
    let n ← nat
    let cs ← many pChild n
    pure ⟨name, types, some ⟨op, cs⟩⟩
  else pure ⟨name, types, none⟩

def pNamespace : P Namespace := do
  let name ← str
  let rels ← counted pRelation
  pure ⟨name, rels⟩

def pSubject : P Subject := do
  let t ← tok
  if t == "i" then return .id (← nat)
  else if t == "s" then
    let n ← str
    let o ← nat
    let r ← str
    return .set n o r
  else failure

def pTuple : P Tuple := do
  let n ← str
  let o ← nat
  let r ← str
  let s ← pSubject
  pure ⟨n, o, r, s⟩

structure EngineCase where
  strict : Bool
  gdepth : Int
  width : Nat
  rdepth : Int
  pageSize : Nat
  faultAt : Nat
  faultPersistent : Bool
  nss : List Namespace
  tuples : List Tuple
  query : Tuple

def pEngineCase : P EngineCase := do
  let strict ← bool
  let gdepth ← int
  let width ← nat
  let rdepth ← int
  let pageSize ← nat
  let faultAt ← nat
  let faultPersistent ← bool
  expect "N"
  let nss ← counted pNamespace
  expect "T"
  let tuples ← counted pTuple
  expect "Q"
  let q ← pTuple
  pure { strict, gdepth, width, rdepth, pageSize, faultAt, faultPersistent, nss, tuples, query := q }

def membStr : Memb → String
  | .unknown => "unknown" | .isMember => "isMember" | .notMember => "notMember"

def errStr : Option ErrKind → String
  | none => "none" | some .storage => "storage" | some .schema => "schema"
  | some .ctx => "ctx" | some .diverged => "diverged"

def resStr (r : Res) : String := membStr r.memb ++ "/" ++ errStr r.err

def rvStr : RV → String
  | .t => "t" | .f => "f" | .bad => "bad"

def childSize : Child → Nat
  | .computed _ => 1
  | .ttu _ _ => 1
  | .rewrite _ cs => 1 + sizeList cs
  | .invert c => 1 + childSize c
where sizeList : List Child → Nat
  | [] => 0
  | c :: cs => childSize c + sizeList cs

def cfgSize (nss : List Namespace) : Nat :=
  nss.foldl (fun acc n => n.relations.foldl (fun a r =>
    a + 1 + (match r.rewrite with | some rw => childSize (.rewrite rw.op rw.children) | none => 0)) acc) 0

def childHasNot : Child → Bool
  | .computed _ => false
  | .ttu _ _ => false
  | .rewrite _ cs => anyNot cs
  | .invert _ => true
where anyNot : List Child → Bool
  | [] => false
  | c :: cs => childHasNot c || anyNot cs

def cfgHasNot (nss : List Namespace) : Bool :=
  nss.any fun n => n.relations.any fun r =>
    match r.rewrite with
    | some rw => childHasNot (.rewrite rw.op rw.children)
    | none => false

def handleEngine (toks : List String) : String :=
  match run pEngineCase toks with
  | none => "bad-op"
  | some c =>
    let cfg : Cfg := c.nss
    -- the harness ends runaway checks the same way: every storage call beyond its budget fails
    -- (harness/drive/engrun.go callBudget); runs within the budget are not affected
    let budget : Nat := 4000
    let fails : Nat → Bool := fun k =>
      k > budget || (c.faultAt != 0 && (if c.faultPersistent then k ≥ c.faultAt else k == c.faultAt))
    let pageSize := if c.pageSize == 0 then Keto.Facts.defaultPageSize else c.pageSize
    let E : Env := { cfg := cfg, strict := c.strict, maxWidth := c.width, T := c.tuples, fails := fails,
                     pageSize := pageSize }
    let size := cfgSize c.nss
    -- proven sufficient (`check_no_diverge`, `check_fuel_irrelevant`): above this bound fuel is irrelevant
    let d := effDepth c.rdepth c.gdepth
    let fuel := checkFuel cfg d + 1
    let rw := check E c.gdepth fuel c.query c.rdepth
    -- fault-free run (for the C03 oracle)
    let E0 : Env := { E with fails := fun k => k > budget }
    let rw0 := check E0 c.gdepth fuel c.query c.rdepth
    let nodes := (c.tuples.length + 2) * (size + c.tuples.length + 2)
    let rfuel := nodes * (size + 3) + 16
    let ref := refEval cfg c.tuples rfuel [] 0 (.node c.query)
    -- C15_calls_bounded: no check of this environment makes more storage operations than this
    let cbound := checkCallsBound E d
    s!"cbound={cbound}\tres={resStr rw.1}\tref={rvStr ref}\tlim={rw.2.limitHits}\tcalls={rw.2.calls}\tres0={resStr rw0.1}\tlim0={rw0.2.limitHits}\tcalls0={rw0.2.calls}\tconf={if conforms cfg c.tuples then 1 else 0}\tneg={if cfgHasNot c.nss then 1 else 0}\tstrict={if c.strict then 1 else 0}\twf={if wellFormedB cfg c.tuples then 1 else 0}\tqdecl={match astRelationFor cfg c.query.ns c.query.rel with | .rel _ => 1 | _ => 0}"

end Driver
