import Keto.Model.Checkgroup
import Driver.Tok
import Driver.Engine

namespace Driver
open Keto

def codeRes : Nat → Res
  | 0 => Res.nm
  | 1 => Res.unk
  | 2 => Res.isM
  | _ => Res.error .storage

/-- Walk the scripted checks in `Add` order (they run one at a time,
    `C15_cg_one_at_a_time`): the check that cancels the context ends the group with the
    context error; a decisive result ends it with that result. -/
def cgWalk (cancelAt : Int) : Nat → List Nat → Res × Nat
  | i, [] => (Res.nm, i)
  | i, c :: cs =>
    if (i : Int) == cancelAt then (CG.ctxErr, i + 1)
    else if (codeRes c).decisive then (codeRes c, i + 1)
    else cgWalk cancelAt (i + 1) cs

def pCg : P (Int × List Nat) := do
  let c ← int
  let codes ← counted nat
  pure (c, codes)

def handleCg (toks : List String) : String :=
  match run pCg toks with
  | none => "bad-op"
  | some (cancelAt, codes) =>
    let (r, started) := cgWalk cancelAt 0 codes
    -- spec column: without cancellation the walk is the sequential group semantics
    let exp := CG.expected (codes.map codeRes)
    s!"res={resStr r}\tstarted={started}\tleak=0\texpected={resStr exp}"

end Driver
