import Keto.Model.Expand
import Keto.Model.ExpandFault
import Keto.Spec.Reach
import Keto.Generated.Facts
import Driver.Tok
import Driver.Engine

/-
  Component `expand`:
    <gdepth> <rdepth> <pageSize or 0 = Facts.defaultPageSize> T <n> tuples… S <subject>
  Correspondence columns: tree (canonical prefix rendering, children in the returned
  order), calls (storage calls), leaves, checkleaves. Spec columns: cuts, reach, reachd, eff,
  ferr (for k = 0 … min calls 12 - 1: '1' iff the expansion answers the error when exactly
  the storage call number k fails, `Keto.faultColumn`; empty when there are no calls).
-/
namespace Driver
open Keto

structure ExpandCase where
  gdepth : Int
  rdepth : Int
  pageSize : Nat
  tuples : List Tuple
  subject : Subject

def pExpandCase : P ExpandCase := do
  let gdepth ← int
  let rdepth ← int
  let pageSize ← nat
  expect "T"
  let tuples ← counted pTuple
  expect "S"
  let subject ← pSubject
  pure { gdepth, rdepth, pageSize, tuples, subject }

def subjStr : Subject → String
  | .id u => "i" ++ toString u
  | .set n o r => "s" ++ hexOfBytes n.toUTF8.toList ++ ":" ++ toString o ++ ":" ++ hexOfBytes r.toUTF8.toList

mutual
def treeStr : Tree → String
  | .leaf s => "L" ++ subjStr s
  | .union s cs => "U" ++ subjStr s ++ "(" ++ treeStrL cs ++ ")"
def treeStrL : List Tree → String
  | [] => ""
  | [c] => treeStr c
  | c :: c' :: cs => treeStr c ++ "," ++ treeStrL (c' :: cs)
end

def dedupSorted : List Nat → List Nat
  | [] => []
  | [x] => [x]
  | x :: y :: xs => if x == y then dedupSorted (y :: xs) else x :: dedupSorted (y :: xs)

def natSetStr (xs : List Nat) : String :=
  ",".intercalate ((dedupSorted (xs.toArray.qsort (· < ·)).toList).map toString)

def handleExpand (toks : List String) : String :=
  match run pExpandCase toks with
  | none => "bad-op"
  | some c =>
    let ps := if c.pageSize == 0 then Keto.Facts.defaultPageSize else c.pageSize
    let E : XEnv := { T := c.tuples, g := c.gdepth, pageSize := ps }
    let rs := buildTree E c.rdepth c.subject
    let tree := if rs.2.oof then "diverged" else
      match rs.1 with
      | none => "nil"
      | some t => treeStr t
    let leaves := match rs.1 with
      | none => []
      | some t => idsOf t.descendants
    let reach := idsOf (reachAll c.tuples c.subject)
    let reachd := idsOf (reachWithin c.tuples (effDepth c.rdepth c.gdepth).toNat c.subject)
    let ferr := String.ofList ((faultColumn E c.rdepth c.subject (min rs.2.calls 12)).map fun b => if b then '1' else '0')
    s!"tree={tree}\tcalls={rs.2.calls}\tleaves={natSetStr leaves}\tcheckleaves={natSetStr reach}\tcuts={rs.2.cuts}\treach={natSetStr reach}\treachd={natSetStr reachd}\teff={effDepth c.rdepth c.gdepth}\tferr={ferr}"

end Driver
