import Driver.Engine
import Driver.Cg
import Driver.Enc
import Driver.Handlers
import Driver.Mapper
import Driver.Watch
import Driver.Store
import Driver.Expand
import Driver.Opl

open Driver

def dispatch (comp : String) (toks : List String) : String :=
  if comp == "engine" then handleEngine toks
  else if comp == "cg" then handleCg toks
  else if comp == "enc" then handleEnc toks
  else if comp == "hcheck" then handleHCheck toks
  else if comp == "hfuzz" then handleHFuzz toks
  else if comp == "mapper" then handleMapper toks
  else if comp == "watch" then handleWatch toks
  else if comp == "conc" then handleConc toks
  else if comp == "store" then handleStore toks
  else if comp == "expand" then handleExpand toks
  else if comp == "opl" then handleOpl toks
  else "bad-op"

partial def loop (h : IO.FS.Stream) (out : IO.FS.Stream) : IO Unit := do
  let line ← h.getLine
  if line.isEmpty then return ()
  let toks := (line.trimAscii.toString.splitOn " ").filter (· != "")
  match toks with
  | comp :: id :: rest =>
    out.putStrLn (id ++ "\t" ++ dispatch comp rest)
  | _ => out.putStrLn "?\tbad-op"
  loop h out

def main : IO Unit := do
  let stdin ← IO.getStdin
  let stdout ← IO.getStdout
  loop stdin stdout
