/-
  Component `mapper` of the line-protocol driver (C16).

    mapper <id> rt  <pageSize> <seed> NS <k> <ns>… P <m> <str>… B <n> <tuple>…
    mapper <id> e2e <pageSize> <seed> NS <k> <ns>… B <n> <tuple>… X <ns> <obj> <rel>

    tuple := z                                 (a nil tuple)
           | t <ns> <obj> <rel> n              (no subject)
           | t <ns> <obj> <rel> i <sid>
           | t <ns> <obj> <rel> s <ns> <obj> <rel>
           | t <ns> <obj> <rel> b <sid> <ns> <obj> <rel>      (both subject fields set)

  `pageSize = 0` means the default page size of the code (regenerated fact). `P` lists the strings of the
  case that the mapping table already holds. Strings are byte strings (hex); they are embedded into
  Lean `String`s byte-per-character (injective), since the model only compares strings for equality —
  so byte strings that are not valid UTF-8 are representable.

  The hash is concrete and injective on the strings of the line: the position of a string in the
  list of distinct strings of the line.
-/
import Keto.Model.Mapping
import Keto.Generated.Facts
import Driver.Tok

namespace Driver
open Keto Keto.Mapping

def mpStr : P String := do
  let bs ← bytesTok
  pure (String.ofList (bs.map (fun b => Char.ofNat b.toNat)))

def mpHex (s : String) : String := "s" ++ hexOfBytes (s.toList.map (fun c => c.toNat.toUInt8))

def mpSet : P ApiSubjectSet := do
  let n ← mpStr
  let o ← mpStr
  let r ← mpStr
  pure ⟨n, o, r⟩

def mpTuple : P (Option ApiTuple) := do
  let t ← tok
  if t == "z" then return none
  else if t == "t" then
    let ns ← mpStr
    let obj ← mpStr
    let rel ← mpStr
    let k ← tok
    if k == "n" then return some ⟨ns, obj, rel, none, none⟩
    else if k == "i" then
      let s ← mpStr
      return some ⟨ns, obj, rel, some s, none⟩
    else if k == "s" then
      let ss ← mpSet
      return some ⟨ns, obj, rel, none, some ss⟩
    else if k == "b" then
      let s ← mpStr
      let ss ← mpSet
      return some ⟨ns, obj, rel, some s, some ss⟩
    else failure
  else failure

def mpSetStr (ss : ApiSubjectSet) : String := mpHex ss.ns ++ "," ++ mpHex ss.obj ++ "," ++ mpHex ss.rel

def mpSubStr (sid : Option String) (sset : Option ApiSubjectSet) : String :=
  match sid, sset with
  | none, none => "n"
  | some s, none => "i:" ++ mpHex s
  | none, some ss => "s:" ++ mpSetStr ss
  | some s, some ss => "b:" ++ mpHex s ++ "|" ++ mpSetStr ss

def mpTupleStr (t : ApiTuple) : String :=
  mpHex t.ns ++ "," ++ mpHex t.obj ++ "," ++ mpHex t.rel ++ "," ++ mpSubStr t.subjectId t.subjectSet

def mpBatchStr (b : List ApiTuple) : String := ";".intercalate (b.map mpTupleStr)

def mpErrStr : MErr → String
  | .notFound => "notFound" | .nilSubject => "nilSubject" | .malformed => "malformed" | .panic => "panic"

def mpInsertStr (s : String) : List String → List String
  | [] => [s]
  | x :: xs => if s ≤ x then s :: x :: xs else x :: mpInsertStr s xs

def mpSort : List String → List String
  | [] => []
  | x :: xs => mpInsertStr x (mpSort xs)

def mpDedup : List String → List String → List String
  | seen, [] => seen
  | seen, x :: xs => if seen.contains x then mpDedup seen xs else mpDedup (seen ++ [x]) xs

def mpOptStrings : List (Option ApiTuple) → List String
  | [] => []
  | none :: r => mpOptStrings r
  | some t :: r => strsOf t ++ mpOptStrings r

def mpAllSome : List (Option ApiTuple) → Option (List ApiTuple)
  | [] => some []
  | none :: _ => none
  | some t :: r => (mpAllSome r).map (t :: ·)

def mpNats (l : List Nat) : String := ".".intercalate (l.map toString)

structure MapCase where
  pageSize : Nat
  seed : Nat
  nss : List String
  pre : List String
  batch : List (Option ApiTuple)

def mpHead : P (Nat × Nat × List String) := do
  let pageSize ← nat
  let seed ← nat
  expect "NS"
  let nss ← counted mpStr
  pure (pageSize, seed, nss)

def pMapRt : P MapCase := do
  let (pageSize, seed, nss) ← mpHead
  expect "P"
  let pre ← counted mpStr
  expect "B"
  let batch ← counted mpTuple
  pure { pageSize, seed, nss, pre, batch }

def pMapE2e : P (MapCase × ApiSubjectSet) := do
  let (pageSize, seed, nss) ← mpHead
  expect "B"
  let batch ← counted mpTuple
  expect "X"
  let x ← mpSet
  pure ({ pageSize, seed, nss, pre := [], batch }, x)

def mpEnvs (c : MapCase) (extra : List String) : Env × Env × Table :=
  let univ := mpDedup [] (c.pre ++ mpOptStrings c.batch ++ extra)
  let h : String → Id := fun s => univ.idxOf s
  let pageSize := if c.pageSize == 0 then Keto.Facts.defaultPageSize else c.pageSize
  let Erw : Env := { h := h, nss := c.nss, readOnly := false, pageSize := pageSize,
                     chunk := Keto.Facts.chunkSizeInsertUUIDMappings, keyOrder := seedOrder c.seed }
  let Ero : Env := { Erw with readOnly := true }
  let T0 : Table := Table.insertRows [] (c.pre.map (fun s => (h s, s)))
  (Erw, Ero, T0)

def mpFlatIds (its : List Tuple) : List Id := its.flatMap (fun t => [subjId t.sub, t.obj])

def mpRoundtrip (E : Env) (T : Table) (r : Except MErr (List Tuple)) : String :=
  match r with
  | .error _ => "-"
  | .ok its =>
    match toTuple E T its with
    | .ok res => mpBatchStr res
    | .error e => "!" ++ mpErrStr e

def mpB (b : Bool) : String := if b then "1" else "0"

def handleMapRt (c : MapCase) : String :=
  let (Erw, Ero, T0) := mpEnvs c []
  -- read-only mapper first, on the table as it is
  let r0 := fromTuple Ero T0 c.batch
  let ro := mpRoundtrip Ero r0.2 r0.1
  -- read-write mapper
  let r1 := fromTuple Erw T0 c.batch
  let err := match r1.1 with | .ok _ => "none" | .error e => mpErrStr e
  let rt := mpRoundtrip Erw r1.2 r1.1
  let ids := match r1.1 with | .ok its => mpNats (classes (mpFlatIds its)) | .error _ => "-"
  -- the same read with another page size and another key order
  let Ealt : Env := { Ero with pageSize := c.seed % 7 + 1, keyOrder := seedOrder (c.seed + 1) }
  let alt := mpRoundtrip Ealt r1.2 r1.1
  -- spec columns
  let want := match mpAllSome c.batch with | some b => mpBatchStr b | none => "-"
  let wantn := match mpAllSome c.batch with | some b => mpBatchStr (b.map ApiTuple.normalize) | none => "-"
  let wf := match mpAllSome c.batch with | some b => b.all (·.wellFormed) | none => false
  let sc := match collectFrom Erw c.batch with
    | .ok (_, ss) => mpNats (classes ss)
    | .error _ => "-"
  let inj := ids == sc
  s!"err={err}\trt={rt}\tids={ids}\tro={ro}\tnew={r1.2.length - T0.length}\tsame={mpB (r0.1 == r1.1)}\trotbl={mpB (r0.2 == T0)}\twant={want}\twantn={wantn}\tok={mpB (rt == want)}\tsc={sc}\tinj={mpB inj}\twf={mpB wf}\talt={mpB (alt == rt)}"

def mpMatches (q : Query) (t : Tuple) : Bool :=
  (match q.ns with | some n => t.ns == n | none => true) &&
  (match q.obj with | some o => t.obj == o | none => true) &&
  (match q.rel with | some r => t.rel == r | none => true) &&
  (match q.sub with | some s => t.sub == s | none => true)

def mpLeafStr : ATree → String
  | .node _ sid sset _ => mpSubStr sid sset

def handleMapE2e (c : MapCase) (x : ApiSubjectSet) : String :=
  let (Erw, Ero, T0) := mpEnvs c [x.obj]
  -- write: FromTuple through the read-write mapper, then the store keeps the internal tuples
  let r1 := fromTuple Erw T0 c.batch
  match r1.1 with
  | .error e => s!"wr={mpErrStr e}\trest=-\tgrpc=-\tqo=-\texp=-\texpg=-"
  | .ok its =>
    let T := r1.2
    -- list: everything stored, through the read-only mapper
    let list := match toTuple Ero T its with
      | .ok res => ";".intercalate (mpSort (res.map mpTupleStr))
      | .error e => "!" ++ mpErrStr e
    -- list filtered by (namespace, object, relation) of X: FromQuery → store → ToTuple
    let q : ApiQuery := { ns := some x.ns, obj := some x.obj, rel := some x.rel, subjectId := none, subjectSet := none }
    let qo := match (fromQuery Ero T q).1 with
      | .error e => mpErrStr e
      | .ok iq =>
        match toTuple Ero T (its.filter (mpMatches iq)) with
        | .ok res => ";".intercalate (mpSort (res.map mpTupleStr))
        | .error e => "!" ++ mpErrStr e
    -- expand X to depth 2: FromSubjectSet → one leaf per stored tuple → ToTree
    let exp := match (fromSubjectSet Ero T x).1 with
      | .error e => mpErrStr e
      | .ok root =>
        let iq : Query := { ns := some x.ns, obj := some (subjId root), rel := some x.rel, sub := none }
        let kids := (its.filter (mpMatches iq)).map (fun (t : Tuple) => ITree.node "leaf" t.sub [])
        if kids.isEmpty then "notFound" else
        match toTree Ero T (.node "union" root kids) with
        | .error e => "!" ++ mpErrStr e
        | .ok (.node ty sid sset cs) =>
          ty ++ ":" ++ mpSubStr sid sset ++ ">" ++ ";".intercalate (mpSort (cs.map mpLeafStr))
    -- spec columns: what the request says, without any mapping
    let written := match mpAllSome c.batch with | some b => b.map ApiTuple.normalize | none => []
    let atX := written.filter (fun t => t.ns == x.ns && t.obj == x.obj && t.rel == x.rel)
    let want := ";".intercalate (mpSort (written.map mpTupleStr))
    let wqo := if !c.nss.contains x.ns then "notFound"   -- an unknown namespace in a query is a 404, not an empty list
      else ";".intercalate (mpSort (atX.map mpTupleStr))
    let wexp := if atX.isEmpty then "notFound" else
      "union:s:" ++ mpSetStr x ++ ">" ++ ";".intercalate (mpSort (atX.map (fun t => mpSubStr t.subjectId t.subjectSet)))
    let wf := written.all (·.wellFormed) && (match mpAllSome c.batch with | some b => b.all (·.wellFormed) | none => false)
    s!"wr=ok\trest={list}\tgrpc={list}\tqo={qo}\texp={exp}\texpg={exp}\twant={want}\twqo={wqo}\twexp={wexp}\twf={mpB wf}"

def handleMapper (toks : List String) : String :=
  match toks with
  | "rt" :: rest =>
    match run pMapRt rest with
    | some c => handleMapRt c
    | none => "bad-op"
  | "e2e" :: rest =>
    match run pMapE2e rest with
    | some (c, x) => handleMapE2e c x
    | none => "bad-op"
  | _ => "bad-op"

end Driver
