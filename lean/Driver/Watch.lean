import Keto.Model.Watcher
import Driver.Tok

namespace Driver
open Keto

structure WEv where
  file : Nat
  valid : Bool
  removed : Bool       -- the file is removed (token 2); 0 = a version that does not parse, 1 = a valid version
  reload : Bool        -- token 3: the configuration is reloaded, namespace target unchanged (file, names ignored)
  names : List String

def pWEv : P WEv := do
  let f ← nat
  let v ← nat
  let ns ← counted str
  if v > 3 then failure else pure ⟨f, v == 1, v == 2, v == 3, ns⟩

def insertSorted (x : String) : List String → List String
  | [] => [x]
  | y :: ys => if x ≤ y then x :: y :: ys else y :: insertSorted x ys

def sortStrings (l : List String) : List String := l.foldr insertSorted []

def insertNat (x : Nat) : List Nat → List Nat
  | [] => [x]
  | y :: ys => if x ≤ y then x :: y :: ys else y :: insertNat x ys

def sortNats (l : List Nat) : List Nat := l.foldr insertNat []

def stateStr (l : List String) : String := ",".intercalate (sortStrings l)

def handleWatch (toks : List String) : String :=
  match toks with
  | kind :: npreTok :: rest =>
    match run (counted pWEv) rest, npreTok.toNat? with
    | some evs, some npre =>
      -- content id = index of the event; parse is given by the line
      let parse : W.Parse := fun c =>
        match evs[c]? with
        | some e => if e.valid then some e.names else none
        | none => none
      let all : List (W.CEv × Nat) := evs.zipIdx.map fun (e, i) =>
        (if e.reload then .reload true
         else if e.removed then .file (.remove s!"f{e.file}") else .file (.change s!"f{e.file}" i), e.file)
      -- versions written before the watcher started: only the last one per file is ever
      -- seen, and the initial load walks the directory in file-name order (reload events never
      -- occur among them)
      let pre := all.take npre
      let files := sortNats ((pre.map (·.2)).eraseDups)
      let preEvents : List W.CEv := files.filterMap fun f => ((pre.filter (·.2 == f)).getLast?).map (·.1)
      let events : List W.CEv := preEvents ++ (all.drop npre).map (·.1)
      -- the initial load is one step as far as an observer is concerned only for the
      -- legacy watcher's per-file map; both watchers publish after each file, so every
      -- prefix is a possible observation
      let prefixes := (List.range (events.length + 1)).map fun k => events.take k
      let states : List String :=
        if kind == "o" then prefixes.map fun es => stateStr (W.oall (W.orunC parse es))
        else prefixes.map fun es => stateStr (W.lall (W.lrunC parse es))
      let final := states.getLast?.getD ""
      s!"final={final}\tstates={"|".intercalate states}"
    | _, _ => "bad-op"
  | _ => "bad-op"

end Driver
