import Keto.Model.Watcher
import Driver.Tok

namespace Driver
open Keto

structure WEv where
  file : Nat
  valid : Bool
  names : List String

def pWEv : P WEv := do
  let f ← nat
  let v ← bool
  let ns ← counted str
  pure ⟨f, v, ns⟩

def insertSorted (x : String) : List String → List String
  | [] => [x]
  | y :: ys => if x ≤ y then x :: y :: ys else y :: insertSorted x ys

def sortStrings (l : List String) : List String := l.foldr insertSorted []

def stateStr (l : List String) : String := ",".intercalate (sortStrings l)

def handleWatch (toks : List String) : String :=
  match toks with
  | kind :: rest =>
    match run (counted pWEv) rest with
    | none => "bad-op"
    | some evs =>
      -- content id = index of the event; parse is given by the line
      let parse : W.Parse := fun c =>
        match evs[c]? with
        | some e => if e.valid then some e.names else none
        | none => none
      let events : List W.Ev := evs.zipIdx.map fun (e, i) => .change s!"f{e.file}" i
      let prefixes := (List.range (events.length + 1)).map fun k => events.take k
      let states : List String :=
        if kind == "o" then prefixes.map fun es => stateStr (W.oall (W.orun parse es))
        else prefixes.map fun es => stateStr (W.lall (W.lrun parse es))
      let final := states.getLast?.getD ""
      s!"final={final}\tstates={"|".intercalate states}"
  | _ => "bad-op"

end Driver
