import Keto.Model.Handlers
import Keto.Model.HandlerTable
import Keto.Generated.Facts
import Driver.Tok

namespace Driver
open Keto

def pHEntry : P H.Entry := do
  let tupleOk ← bool
  let nsKnown ← bool
  let m ← nat
  let e ← nat
  let memb : Memb := match m with | 1 => .isMember | 2 => .notMember | _ => .unknown
  let err : Option ErrKind := match e with
    | 0 => none | 1 => some .storage | 2 => some .schema | 3 => some .ctx | _ => some .diverged
  pure ⟨tupleOk, nsKnown, ⟨memb, err⟩⟩

def httpStr : H.Http → String
  | .ok true => "200:1"
  | .ok false => "200:0"
  | .forbidden => "403"
  | .badRequest => "400"
  | .serverError => "500"

def grpcStr : H.Grpc → String
  | .ok true => "ok:1"
  | .ok false => "ok:0"
  | .invalidArgument => "InvalidArgument"
  | .notFound => "NotFound"
  | .internal => "Internal"

def b01 (b : Bool) : String := if b then "1" else "0"

def handleHCheck (toks : List String) : String :=
  match run (counted pHEntry) toks with
  | none => "bad-op"
  | some es =>
    let cols := es.zipIdx.map fun (e, i) =>
      let mg := httpStr (H.restMirror e)
      let mp := httpStr (H.restMirrorPost e)
      let og := httpStr (H.restOpen e)
      let op := httpStr (H.restOpenPost e)
      let mirror := if mg == mp then mg else s!"get={mg}/post={mp}"
      let opn := if og == op then og else s!"get={og}/post={op}"
      s!"e{i}={mirror}|{opn}|{grpcStr (H.grpcCheck e)}"
    let dec := ",".intercalate (es.map fun e => b01 (H.decision e))
    -- the harness runs with the default limit.max_batch_check_size (from the configuration schema)
    let max := Keto.Facts.defaultMaxBatchCheckSize
    match H.batchLimited max es with
    | some rs =>
      let b := ";".intercalate (rs.map fun (a, er) => s!"{b01 a},{b01 er}")
      "\t".intercalate cols ++ s!"\tbatch_rest={b}\tbatch_grpc={b}\tdecisions={dec}\tmaxbatch={max}"
    | none =>
      "\t".intercalate cols ++ s!"\tbatch_rest=status400\tbatch_grpc=err:InvalidArgument\tdecisions={dec}\tmaxbatch={max}"

end Driver

namespace Driver
open Keto

def classStr : HT.Class → String
  | .ok => "ok" | .client => "client" | .server => "server" | .panic => "panic"

def handleHFuzz (toks : List String) : String :=
  match toks with
  | [e, m] =>
    match HT.lookup e m with
    | some cs => s!"classes={",".intercalate (cs.map classStr)}\tchanged_on_error=0\tread_changed=0\tmustreject={if HT.mustReject e m then 1 else 0}"
    | none => "bad-op"
  | _ => "bad-op"

end Driver

namespace Driver

/-- C14 (`conc`): by `C14_noninterference` every concurrently served request answers what
    it answers alone; the race-detector mode has no model-side content beyond that. -/
def handleConc (toks : List String) : String :=
  match toks with
  | [_, _] => "same=1\traced=0"
  | _ => "bad-op"

end Driver
