#!/bin/bash
# usage: tools/adopt.sh <round-tag> <prop> <suffix>   e.g. tools/adopt.sh mut5 C07 r1
# Confirms /tmp/<tag>-<prop>-OUT/m1 in a scratch worktree (the demonstration passes on HEAD, fails with the patch, the
# patched tree builds) and copies it to /verif/seeded/<prop>-<suffix>/ (patch.diff, demo_test.go, README.md).
set -u
tag=$1; p=$2; suf=$3
src=/tmp/$tag-$p-OUT/m1
dst=/verif/seeded/$p-$suf
wt=/tmp/kw-adopt-$tag-$p
export GOFLAGS=-mod=mod GOPROXY=off
[ -d $wt ] || git -C /repo worktree add -q --detach $wt HEAD
git -C $wt reset -q --hard $(git -C /repo rev-parse HEAD); git -C $wt clean -qfd
demo=$(ls $src/*_test.go | head -1)
pkg=$(head -5 $demo | grep -o 'pkgdir: *[^ ]*' | head -1 | sed 's/pkgdir: *//')
[ -n "$pkg" ] || { echo "$p: no pkgdir line"; exit 2; }
tests=$(grep -o '^func Test[A-Za-z0-9_]*' $demo | sed 's/func //' | paste -sd'|')
cp $demo $wt/$pkg/zz_demo_${p}_${suf}_test.go
(cd $wt && timeout 900 go test -count=1 -tags sqlite -run "^($tests)\$" ./$pkg/ > /tmp/adopt_${p}_${suf}_clean.log 2>&1); rc_clean=$?
git -C $wt apply $src/patch.diff || { echo "$p: PATCH DOES NOT APPLY"; git -C /repo worktree remove --force $wt; exit 2; }
(cd $wt && go build ./... ) || { echo "$p: DOES NOT BUILD"; git -C /repo worktree remove --force $wt; exit 2; }
(cd $wt && timeout 900 go test -count=1 -tags sqlite -run "^($tests)\$" ./$pkg/ > /tmp/adopt_${p}_${suf}_patched.log 2>&1); rc_patched=$?
echo "$p: demo without patch: exit $rc_clean ; with patch: exit $rc_patched"
if [ $rc_clean -eq 0 ] && [ $rc_patched -ne 0 ]; then
  mkdir -p $dst; cp $src/patch.diff $dst/; cp $demo $dst/demo_test.go; cp $src/README.md $dst/ 2>/dev/null
  echo "adopted -> $dst"
else
  echo "NOT CONFIRMED"; tail -5 /tmp/adopt_${p}_${suf}_clean.log; tail -5 /tmp/adopt_${p}_${suf}_patched.log
fi
git -C /repo worktree remove --force $wt
