#!/bin/bash
# usage: tools/revert_check.sh <repo-commit> <property> — reverts one fix: commit in /repo's working tree,
# runs the check (expects a VIOLATION), restores the tree.
set -u
c=$1; p=$2
git -C /repo diff --quiet || { echo "/repo not clean"; exit 2; }
git -C /repo show "$c" | git -C /repo apply -R || { echo "cannot revert $c"; exit 2; }
./check "$p" --tier quick > /tmp/revert_$p_$c.log 2>&1
rc=$?
git -C /repo checkout -- .
echo "revert $c property $p => exit $rc"
grep -E "VIOLATION|KNOWN-FINDING|^  " /tmp/revert_$p_$c.log | head -8
