#!/bin/bash
# usage: tools/stress.sh <rounds> <parallel> [props…] — runs the quick checks of the unchanged tree several times,
# several at once (each property in a private copy of /verif under /tmp/stress-<p>), with different seeds; prints
# every run that does not exit 0. Looks for checks that are flaky under load.
rounds=$1; par=$2; shift 2
props=${@:-C01 C02 C03 C04 C05 C06 C07 C08 C09 C10 C11 C12 C13 C14 C15 C16 C17 C18 C19}
one() {
  p=$1; rounds=$2
  d=/tmp/stress-$p
  mkdir -p $d
  rsync -a --delete --exclude .git --exclude .work --exclude replays --exclude evidence /verif/ $d/
  for k in $(seq 1 $rounds); do
    (cd $d && VERIF_SEED=$((k*7+1)) ./check $p --tier quick > $d/out.$k.log 2>&1); rc=$?
    if [ $rc -ne 0 ]; then echo "FLAKE? $p seed=$((k*7+1)) exit=$rc"; grep -E "VIOLATION|^  " $d/out.$k.log | cut -c1-300 | head -5; mkdir -p /tmp/stress-keep; cp $d/out.$k.log /tmp/stress-keep/$p.$k.log; cp -r $d/replays /tmp/stress-keep/$p.$k.replays 2>/dev/null; else echo "ok $p seed=$((k*7+1)) $(grep -o 'wall=[0-9.]*s' $d/out.$k.log)"; fi
  done
  rm -rf $d
}
export -f one
echo $props | tr ' ' '\n' | xargs -P $par -I{} bash -c "one {} $rounds"
