#!/usr/bin/env python3
"""Small DSL to write engine corpus cases in the line protocol (see
harness/drive/engcase.go). Usage: python3 tools/mkcase.py > corpus/Cxx/name.case"""
import sys


def S(s):
    return "s" + s.encode().hex()


def c(rel):
    return f"c {S(rel)}"


def ttu(rel, crel):
    return f"t {S(rel)} {S(crel)}"


def OR(*ch):
    return f"r or {len(ch)} " + " ".join(ch)


def AND(*ch):
    return f"r and {len(ch)} " + " ".join(ch)


def NOT(ch):
    return f"n {ch}"


def rel(name, types=()):
    ts = " ".join(f"{S(n)} {S(r)}" for n, r in types)
    return f"{S(name)} {len(types)}" + (" " + ts if ts else "") + " 0"


def perm(name, op, *children):
    return f"{S(name)} 0 1 {op} {len(children)} " + " ".join(children)


def ns(name, *rels):
    return f"{S(name)} {len(rels)}" + ("" if not rels else " " + " ".join(rels))


def tup(s):
    """ns:obj#rel@sub where obj is a number, sub is a number (subject id) or ns:obj#rel"""
    left, sub = s.split("@", 1)
    n, rest = left.split(":", 1)
    o, r = rest.split("#", 1)
    if ":" in sub:
        sn, srest = sub.split(":", 1)
        so, sr = srest.split("#", 1)
        return f"{S(n)} {o} {S(r)} s {S(sn)} {so} {S(sr)}"
    return f"{S(n)} {o} {S(r)} i {sub}"


def case(cid, nss, tuples, query, strict=0, g=5, w=100, r=0, fault=0, persistent=0, comment=None):
    if comment:
        print("# " + comment)
    print(f"engine {cid} {strict} {g} {w} {r} 0 {fault} {persistent} N {len(nss)} " + " ".join(nss) +
          f" T {len(tuples)} " + " ".join(tup(t) for t in tuples) + " Q " + tup(query))


if __name__ == "__main__":
    which = sys.argv[1] if len(sys.argv) > 1 else ""
    doc = lambda *perms: ns("doc", rel("a", [("group", "member")]), rel("b", [("group", "member")]),
                            rel("banned", [("group", "member")]), rel("top", [("doc", "ok"), ("doc", "view")]), *perms)
    group = ns("group", rel("member", [("group", "member")]))
    base = ["group:10#member@group:11#member", "group:11#member@1"]
    if which == "C01":
        # F-visited (fixed by a78f613): ok = a && !banned reached through an expansion
        nss = [doc(perm("ok", "and", c("a"), NOT(c("banned"))), perm("view", "and", c("a"), c("b"))), group]
        T = base + ["doc:1#a@group:10#member", "doc:1#banned@group:10#member", "doc:1#b@group:10#member",
                    "doc:3#top@doc:1#ok", "doc:4#top@doc:1#view"]
        case("visited-not-top", nss, T, "doc:3#top@1", g=12,
             comment="banned user reached through doc:3#top@doc:1#ok must be denied (was allowed: shared visited set under !)")
        case("visited-not-direct", nss, T, "doc:1#ok@1", g=12)
        case("visited-and-top", nss, T, "doc:4#top@1", g=12,
             comment="view = a && b reached through an expansion must be allowed (was denied: shared visited set across && operands)")
        case("visited-and-direct", nss, T, "doc:1#view@1", g=12)
        # wrong ALLOW variant: the parser wraps the first operand in or[..] (evaluated lazily), so the
        # operand that marks group:10#member must be an eager (second) operand: ok2 = x && a && !banned
        nss2 = [ns("doc", rel("x", [("group", "member")]), rel("a", [("group", "member")]), rel("banned", [("group", "member")]),
                   rel("top", [("doc", "ok2")]), perm("ok2", "and", c("x"), c("a"), NOT(c("banned")))), group]
        T2 = base + ["doc:1#x@1", "doc:1#a@group:10#member", "doc:1#banned@group:10#member", "doc:5#top@doc:1#ok2"]
        case("visited-not-top2", nss2, T2, "doc:5#top@1", g=12,
             comment="banned user must be denied through doc:5#top@doc:1#ok2 (was ALLOWED: a marks group:10#member visited, banned is skipped, ! flips)")
        case("visited-not-direct2", nss2, T2, "doc:1#ok2@1", g=12)
        # traverse over several parents, membership through a subject-set indirection on one of them:
        # the decision must not depend on goroutine scheduling (independent mutant C01-m3: shared loop variable)
        nss3 = [ns("Folder", rel("viewers", [("group", "member")]), perm("view", "or", c("viewers"))),
                ns("Doc", rel("parents", [("Folder", "")]), perm("view", "or", ttu("parents", "viewers"))), group]
        for k in range(1, 4):
            T3 = [f"Doc:1#parents@Folder:{j}#" for j in range(1, 6)] + [f"Folder:{k}#viewers@group:10#member"] + base
            case(f"ttu-parents-{k}", nss3, T3, "Doc:1#view@1", g=10,
                 comment="traverse over five parents, one of them grants through group:10#member -> group:11#member" if k == 1 else None)
        # F-alias (fixed by 561187c): ("a-b", o, "c") vs ("a", o, "b-c")
        nss = [ns("n", rel("r", [("a-b", "c"), ("a", "b-c")])), ns("a-b", rel("c", [("a-b", "m")]), rel("m")),
               ns("a", rel("b-c", [("a", "m")]), rel("m"))]
        T = ["n:0#r@a-b:0#c", "n:0#r@a:0#b-c", "a:0#b-c@a:0#m", "a:0#m@1"]
        case("alias-1", nss, T, "n:0#r@1",
             comment="subject sets (a-b,0,c) and (a,0,b-c) must not share a visited key: whichever is stored second was skipped")
        T = ["n:0#r@a:0#b-c", "n:0#r@a-b:0#c", "a-b:0#c@a-b:0#m", "a-b:0#m@1"]
        case("alias-2", nss, T, "n:0#r@1")
    elif which == "C02":
        # F-unknown (known finding): banned four hops away, depth 3
        nss = [ns("doc", rel("a", [("group", "member")]), rel("banned", [("group", "member")]),
                  perm("ok", "and", c("a"), NOT(c("banned")))), group]
        T = ["doc:1#a@1", "doc:1#banned@group:10#member", "group:10#member@group:11#member",
             "group:11#member@group:12#member", "group:12#member@group:13#member", "group:13#member@1"]
        case("unknown-under-not", nss, T, "doc:1#ok@1", g=4,
             comment="KNOWN FINDING F-unknown: banned is cut short by max-depth, Unknown collapses to NotMember, ! flips it")
    elif which == "C11":
        nss = [ns("Doc", rel("parents", [("G2", "members")]), perm("view", "or", ttu("parents", "viewers"))),
               ns("G2", rel("members", [("Folder", "")])), ns("Folder", rel("viewers", [("Folder", "")]))]
        T = ["Doc:1#parents@G2:5#members", "G2:5#members@1"]
        case("ttu-subjectset", nss, T, "Doc:1#view@1", g=6,
             comment="KNOWN FINDING F-ttu-type: accepted by the type checker, conforming store, run-time schema error")
    elif which == "C15":
        nss = [ns("doc", rel("a", [("group", "member")]), perm("p", "and", c("a"), c("p")), perm("q", "or", NOT(c("q")))), group]
        T = ["doc:1#a@1"]
        case("self-recursion-and", nss, T, "doc:1#p@1", g=5,
             comment="F-rec (fixed by f8476dd): p = a && p must terminate within max-depth (was unbounded recursion during construction)")
        case("self-recursion-not", nss, T, "doc:1#q@1", g=5)
    elif which == "C03":
        nss = [ns("doc", rel("a", [("group", "member")]), rel("banned", [("group", "member")]),
                  perm("ok", "and", c("a"), NOT(c("banned"))), perm("nand", "or", NOT(AND(c("a"), c("banned"))))), group]
        T = ["doc:1#a@1", "doc:1#banned@1"]
        for k in range(1, 6):
            case(f"swallow-k{k}", nss, T, "doc:1#ok@1", g=8, fault=k,
                 comment="F-swallow (fixed by b47d4a5): a failing direct lookup of banned must not make ok allowed" if k == 1 else None)
        for k in range(1, 6):
            case(f"fliperr-k{k}", nss, T, "doc:1#nand@1", g=8, fault=k,
                 comment="F-flip-err (fixed by dd6f8fe): !(a && banned) with a fault must not be allowed together with an error" if k == 1 else None)
