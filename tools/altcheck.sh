#!/bin/bash
# usage: tools/altcheck.sh <repo-dir> <property> [tier]
# Runs ./check for <property> against another checkout of ory/keto (e.g. a scratch worktree with a seeded
# change) in a private copy of /verif under /tmp/verif-alt, so that /repo and /verif are not disturbed.
set -u
repo=$(readlink -f "$1"); p=$2; tier=${3:-quick}
alt=/tmp/verif-alt
mkdir -p $alt
rsync -a --delete --exclude .git --exclude .work --exclude replays --exclude evidence /verif/ $alt/
sed -i "s#=> /repo/proto#=> $repo/proto#; s#=> /repo\$#=> $repo#" $alt/harness/go.mod
cd $alt && VERIF_REPO=$repo ./check "$p" --tier "$tier"
rc=$?
echo "altcheck repo=$repo property=$p exit=$rc"
exit $rc
