#!/usr/bin/env python3
"""usage: tools/mutant_prompt.py <property-id> <round-tag>   (e.g. C07 mut5)
Prints the prompt for a fresh sub-agent that writes ONE seeded change against a property. The agent gets the
property's text and anchors, the list of sites seeded before (so that it looks elsewhere) and a scratch worktree
/tmp/<round-tag>-<id> (created by the caller: git -C /repo worktree add --detach /tmp/<tag>-<id> HEAD) - nothing
from /verif. Its output goes to /tmp/<round-tag>-<id>-OUT/m1/ and is confirmed and adopted with tools/adopt.sh."""
import json, sys, glob, os
pid, tag = sys.argv[1], sys.argv[2]
prop = next(json.loads(l) for l in open('/verif/properties.jsonl') if json.loads(l)['id'] == pid)
seen = []
for f in sorted(glob.glob(f'/verif/seeded/{pid}-*/meta.json')) + sorted(glob.glob(f'/verif/seeded/*/meta.json')):
    m = json.load(open(f))
    if m.get('breaks_property') != pid:
        continue
    pd = os.path.join(os.path.dirname(f), 'patch.diff')
    files = sorted({l[6:].strip() for l in open(pd) if l.startswith('+++ b/')}) if os.path.exists(pd) else []
    line = f"- {', '.join(files)}: {m.get('needs_to_manifest', '')[:160]}"
    if line not in seen:
        seen.append(line)
wt, out = f"/tmp/{tag}-{pid}", f"/tmp/{tag}-{pid}-OUT"
print(f"""You are helping to evaluate a verification framework for the Go project ory/keto (a Zanzibar-style authorization server). Your job: write ONE realistic defect ("seeded change") that breaks a given semantic property of keto while looking like a plausible refactoring, optimisation or clean-up that a reviewer could let through.

Work ONLY inside the scratch git worktree {wt} (a checkout of ory/keto at its current HEAD) and write your results to {out}/m1/ . Do not read or write anything under /verif or /repo, and do not look for verification tooling: you are deliberately given nothing but the property. No network: `export GOFLAGS=-mod=mod GOPROXY=off` in every shell; build and test with `-tags sqlite`.

THE PROPERTY ({pid}: {prop['title']})
{prop['statement']}
Quantifier: {prop['quantifier']['text']}
Code it is anchored in: {', '.join(prop['anchors']['files'])}

REQUIREMENTS for the change
1. It changes non-test source files of keto only (no test files, no go.mod), is small (ideally < 40 changed lines), compiles (`go build ./...` and `go build -tags sqlite ./...`) and carries a believable comment / rationale.
2. The existing tests still pass: run at least `go test -count=1 -short -tags sqlite` on every package you touched and on ./internal/check/... ./internal/driver/... ./internal/relationtuple/... ./internal/persistence/... ./internal/schema/... ./internal/expand/... as far as they are affected (say exactly what you ran).
3. It really breaks the property above (not merely some other behaviour), for inputs the property quantifies over.
4. It needs something SPECIFIC to manifest - preferably two conditions at once (a particular size AND a particular shape, a boundary value, a second tenant/network, an error at a particular position, a particular interleaving, a particular spelling ...). A change that shows on the first trivial request is not wanted.
5. It must be in a DIFFERENT place / of a different kind than the changes that were already tried for this property:
{chr(10).join(seen) if seen else '- (none yet)'}

DELIVERABLES in {out}/m1/
- patch.diff : `git diff` of your change against HEAD (must apply with `git apply` on a clean checkout).
- demo_test.go : a Go test file whose FIRST line is a comment `// pkgdir: <package directory relative to the repository root>` (where the file has to be copied to), with uniquely named Test functions (prefix TestMut5{pid}), that FAILS with your change and PASSES on the unchanged tree. It may use the package's test helpers (e.g. driver.NewSqliteTestRegistry).
- README.md : what you changed, why it breaks the property, exactly what is needed for it to manifest, and the commands you ran with their results (with and without the change).
Verify both directions yourself (demo passes on clean HEAD, fails with the patch). At the end restore the worktree (`git checkout -- . && git clean -fd`). Report a three-line summary when done.""")
