#!/bin/bash
# usage: tools/adopt2.sh <prop> <i>  — confirms /tmp/mut2-<prop>-OUT/m<i> in a scratch worktree (demo fails with the
# patch, passes without, tree builds) and copies it to /verif/seeded/<prop>-n<i>/.
set -u
p=$1; i=$2
src=/tmp/mut4-$p-OUT/m$i
dst=/verif/seeded/$p-q$i
wt=/tmp/kw-adopt4-$p
export GOFLAGS=-mod=mod GOPROXY=off
[ -d $wt ] || git -C /repo worktree add -q --detach $wt HEAD
git -C $wt reset -q --hard $(git -C /repo rev-parse HEAD); git -C $wt clean -qfd
demo=$(ls $src/*_test.go | head -1)
pkg=$(head -5 $demo | grep -o 'pkgdir: *[^ ]*' | head -1 | sed 's/pkgdir: *//')
[ -n "$pkg" ] || { echo "$p m$i: no pkgdir line"; exit 2; }
tests=$(grep -o '^func Test[A-Za-z0-9_]*' $demo | sed 's/func //' | paste -sd'|')
cp $demo $wt/$pkg/zz_demo_${p}_n${i}_test.go
(cd $wt && timeout 900 go test -count=1 -tags sqlite -run "^($tests)\$" ./$pkg/ > /tmp/adopt2_${p}_${i}_clean.log 2>&1); rc_clean=$?
git -C $wt apply $src/patch.diff || { echo "$p m$i: PATCH DOES NOT APPLY"; exit 2; }
(cd $wt && go build ./... ) || { echo "$p m$i: DOES NOT BUILD"; exit 2; }
(cd $wt && timeout 900 go test -count=1 -tags sqlite -run "^($tests)\$" ./$pkg/ > /tmp/adopt2_${p}_${i}_patched.log 2>&1); rc_patched=$?
echo "$p m$i: demo without patch: exit $rc_clean ; with patch: exit $rc_patched"
if [ $rc_clean -eq 0 ] && [ $rc_patched -ne 0 ]; then
  mkdir -p $dst; cp $src/patch.diff $dst/; cp $demo $dst/demo_test.go; cp $src/README.md $dst/ 2>/dev/null
  echo "adopted -> $dst"
else
  echo "NOT CONFIRMED"; tail -5 /tmp/adopt2_${p}_${i}_clean.log; tail -5 /tmp/adopt2_${p}_${i}_patched.log
fi
git -C $wt reset -q --hard; git -C $wt clean -qfd
