#!/usr/bin/env python3
"""usage: record_seed.py <seed-id> <property> <caught|missed> <detected-by> <needs…>
Writes /verif/seeded/<seed-id>/meta.json."""
import json, sys, os
sid, prop, caught, by = sys.argv[1:5]
needs = " ".join(sys.argv[5:])
d = f"/verif/seeded/{sid}"
meta = {
    "id": sid,
    "breaks_property": prop,
    "needs_to_manifest": needs,
    "origin": "revert of a fix: commit" if sid.startswith("revert-") else "independent sub-agent given only the property text and a scratch worktree",
    "confirmed": "patch applied in a scratch worktree of /repo: builds, the demonstration fails with the patch and passes without (tools/adopt_mutant.sh / tools/seedcheck.sh)",
    "ran": f"tools/seedcheck.sh {sid} {prop}",
    "result": caught,
    "detected_by": by,
}
json.dump(meta, open(os.path.join(d, "meta.json"), "w"), indent=1)
