#!/bin/bash
# usage: tools/adopt_mutant.sh <prop> <i> <pkgdir> [go test args…]
# Confirms a sub-agent's mutant in a scratch worktree (demo fails with the patch, passes without, tree builds)
# and copies it to /verif/seeded/<prop>-m<i>/.
set -u
p=$1; i=$2; pkg=$3; shift 3
src=/tmp/mut-$p/OUT/m$i
dst=/verif/seeded/$p-m$i
wt=/tmp/kw-seed
export GOFLAGS=-mod=mod GOPROXY=off
[ -d $wt ] || git -C /repo worktree add -q --detach $wt HEAD
git -C $wt reset -q --hard $(git -C /repo rev-parse HEAD); git -C $wt clean -qfd
demo=$(ls $src/*_test.go | head -1)
cp $demo $wt/$pkg/zz_demo_${p}_m${i}_test.go
(cd $wt && go test -count=1 -tags sqlite "$@" ./$pkg/ > /tmp/adopt_clean.log 2>&1); rc_clean=$?
git -C $wt apply $src/patch.diff || { echo "PATCH DOES NOT APPLY"; exit 2; }
(cd $wt && go build ./... ) || { echo "DOES NOT BUILD"; exit 2; }
(cd $wt && go test -count=1 -tags sqlite "$@" ./$pkg/ > /tmp/adopt_patched.log 2>&1); rc_patched=$?
echo "demo without patch: exit $rc_clean ; with patch: exit $rc_patched"
if [ $rc_clean -eq 0 ] && [ $rc_patched -ne 0 ]; then
  mkdir -p $dst; cp $src/patch.diff $dst/; cp $demo $dst/demo_test.go; cp $src/README.md $dst/ 2>/dev/null
  echo "adopted -> $dst"
else
  echo "NOT CONFIRMED"; tail -5 /tmp/adopt_clean.log; tail -5 /tmp/adopt_patched.log
fi
git -C $wt reset -q --hard; git -C $wt clean -qfd
