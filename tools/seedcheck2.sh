#!/bin/bash
# usage: tools/seedcheck2.sh <seed-id> <property> [tier] — like seedcheck.sh but with a private worktree and a private
# copy of /verif per seed, so that several can run at once.
set -u
id=$1; p=$2; tier=${3:-quick}
wt=/tmp/kw-seed-$id
alt=/tmp/verif-alt-$id
export GOFLAGS=-mod=mod GOPROXY=off
[ -d $wt ] || git -C /repo worktree add -q --detach $wt HEAD || exit 2
git -C $wt reset -q --hard $(git -C /repo rev-parse HEAD) && git -C $wt clean -qfd
git -C $wt apply /verif/seeded/$id/patch.diff || { echo "patch does not apply"; exit 2; }
(cd $wt && go build ./... ) || { echo "seeded tree does not build"; exit 2; }
mkdir -p $alt
rsync -a --delete --exclude .git --exclude .work --exclude replays --exclude evidence /verif/ $alt/
sed -i "s#=> /repo/proto#=> $wt/proto#; s#=> /repo\$#=> $wt#" $alt/harness/go.mod
(cd $alt && VERIF_REPO=$wt ./check "$p" --tier "$tier" > $alt/out.log 2>&1); rc=$?
echo "== $id $p exit=$rc"
grep -E "VIOLATION|KNOWN-FINDING|^OK|^  " $alt/out.log | cut -c1-400 | head -12
mkdir -p /tmp/seedres; cp $alt/out.log /tmp/seedres/$id-$p.log
git -C /repo worktree remove --force $wt
rm -rf $alt
