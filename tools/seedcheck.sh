#!/bin/bash
# usage: tools/seedcheck.sh <seed-id> <property> [tier] — applies seeded/<id>/patch.diff to a scratch worktree
# of /repo (never to /repo itself) and runs the property's check against it.
set -u
id=$1; p=$2; tier=${3:-quick}
wt=/tmp/kw-seed
if [ ! -d $wt ]; then git -C /repo worktree add -q --detach $wt HEAD || exit 2; fi
git -C $wt reset -q --hard $(git -C /repo rev-parse HEAD) && git -C $wt clean -qfd
git -C $wt apply /verif/seeded/$id/patch.diff || { echo "patch does not apply"; exit 2; }
(cd $wt && GOFLAGS=-mod=mod GOPROXY=off go build ./... ) || { echo "seeded tree does not build"; exit 2; }
/verif/tools/altcheck.sh $wt $p $tier 2>&1 | grep -E "VIOLATION|KNOWN-FINDING|^OK|^  |altcheck" | head -12
