"""Per-property configuration of ./check: Lean module and theorems to audit,
correspondence streams, property oracles (implementation vs spec columns computed by
the Lean driver)."""

TRUSTED_BASE = [
    "Lean 4.33 kernel; axioms allowed: propext, Classical.choice, Quot.sound (audited per theorem with #print axioms)",
    "Lean compiler for the ketomodel driver (runs the same definitions the theorems are about)",
    "fact translator /verif/harness/cmd/facts (go/ast) and its hand-written expectations in Keto/Proofs/FactsTie*.lean (one module per concern)",
    "correspondence harness /verif/harness/drive (generators, canonicalisation) and ./check",
    "modelled, not verified: the Go code itself; SQL engine semantics (sqlite only), Go runtime/scheduler, encoding libraries",
]


def _allowed(res):
    return res.startswith("isMember/")


# ---------------------------------------------------------------- engine oracles

CALL_BUDGET = 4000      # harness/drive/engrun.go callBudget


def _hang(impl, m=None):
    for k in ("res", "cres", "fres"):
        if impl.get(k, "").startswith("hang"):
            return ("check-hang", f"the check did not return within the watchdog time ({k})")
    if m is not None and m.get("cbound", "").isdigit():
        # C15_calls_bounded: the proven bound on the storage operations of any check of this environment
        for k in ("calls", "lcalls", "x_over"):
            if impl.get(k, "").isdigit() and int(impl[k]) > int(m["cbound"]) and (k == "x_over" or int(impl[k]) <= CALL_BUDGET):
                return ("check-unbounded", f"the check issued {impl[k]}{'+' if k == 'x_over' else ''} storage operations; the bound "
                                           f"proved from depth, width, configuration and store size is {m['cbound']}")
    if "x_over" in impl and m is not None and m.get("calls", "").isdigit() and int(m["calls"]) <= CALL_BUDGET:
        return ("check-unbounded", f"the check issued more than {CALL_BUDGET} storage operations (stopped by the harness); "
                                   f"the model needs {m['calls']}")
    return None


def oracle_c01(cid, impl, m):
    """Check(C,m,T,q) = RefSem when limits are not binding (read off the model),
    no error, and (strict mode) the store conforms to the declared types."""
    if _hang(impl, m):
        return _hang(impl, m)
    if "res" not in impl:
        return None          # over the harness's storage-call budget (legitimately: the model needs that many too)
    if "res" not in m or m.get("ref") in (None, "bad"):
        return None
    if m.get("lim") != "0" or not m["res"].endswith("/none"):
        return None
    if m.get("strict") == "1" and m.get("conf") != "1":
        return None
    want = "isMember/none" if m["ref"] == "t" else "notMember/none"
    if impl.get("res") != want:
        return ("c01-deviation", f"check answered {impl.get('res')} but the reference semantics says {want} (limits not binding)")
    # schedule independence: the concurrent checkgroup must give the same decision
    if "cres" in impl and impl["cres"] != want:
        return ("c01-schedule", f"concurrent checkgroup answered {impl['cres']}, sequential {impl['res']}, reference {want}")
    return True


def oracle_c02(cid, impl, m):
    """Fail closed: allowed under any limits implies allowed by the unbounded semantics. Clamp: the request
    answers as the same request (request depth 0) against a fresh engine whose global limit is the effective depth."""
    if _hang(impl, m):
        return _hang(impl, m)
    if "res" not in impl:
        return None          # over the harness's storage-call budget (legitimately: the model needs that many too)
    if "fres" in impl and impl.get("res") != impl["fres"]:
        return ("c02-clamp", f"request answered {impl.get('res')}, the same request against a fresh server whose global limit is the "
                             f"effective depth answers {impl['fres']}")
    if "res" not in m or m.get("ref") in (None, "bad"):
        return None
    if not impl.get("res", "").endswith("/none"):
        return None
    if m.get("strict") == "1" and m.get("conf") != "1":
        return None
    if _allowed(impl["res"]) and m["ref"] == "f":
        tag = "unknown-under-not" if (m.get("neg") == "1" and m.get("lim") != "0" and impl["res"] == m["res"]) else "c02-fail-open"
        return (tag, f"allowed under limits (limit events={m.get('lim')}) but denied by the unbounded semantics")
    return True


def oracle_c01_batch(cid, impl, m):
    """Engine.BatchCheck answers entry i what CheckRelationTuple answers for entry i (judged through the
    handlers: the C08 oracle)."""
    return oracle_c08(cid, impl, m)


def oracle_c02_transports(cid, impl, m):
    """The per-request depth as the transports hand it to the engine (stream hcheck: REST max-depth absent / 0 / negative / k,
    gRPC max_depth in both request forms, batch; global limits 3, 5, 7, 8; data that needs up to 7 levels): every transport
    answers what the engine answers for (request depth, global limit) - i.e. values <= 0, absent or above the global limit
    mean the global limit, others lower it."""
    v = oracle_c08(cid, impl, m)
    if v is None or v is True:
        return v
    return ("c02-transport-depth", "a transport does not hand the request depth to the engine as the property states: " + v[1])


def _c03_one(res, m):
    memb, _, err = res.partition("/")
    if err != "none" and memb == "isMember":
        return ("c03-allowed-with-error", f"answer {res} carries an error and says allowed")
    if err == "none" and m["res0"].endswith("/none") and res != m["res0"]:
        if _allowed(res) and not _allowed(m["res0"]):
            return ("c03-fail-open", f"storage fault turned {m['res0']} into {res}")
        return ("c03-changed", f"storage fault changed the answer from {m['res0']} to {res} without an error")
    return True


def oracle_c03(cid, impl, m):
    """With the k-th storage call failing (any error value: generic, cancelled query,
    timeout, closed connection): an error, or the fault-free answer; never allowed when
    the fault-free answer is denied; an answer with an error is never allowed. Judged for
    the sequential and (cres) the real concurrent checkgroup."""
    if _hang(impl, m):
        return _hang(impl, m)
    if "sres" in impl:
        # a single SQL statement of the check was cancelled; the model's `res` is the answer when the storage call it
        # belongs to fails as a whole
        if "res" not in m or "res0" not in m:
            return None
        memb, _, err = impl["sres"].partition("/")
        if err != "none" and memb == "isMember":
            return ("c03-allowed-with-error", f"answer {impl['sres']} carries an error and says allowed")
        if err == "none" and not m["res"].endswith("/none") and impl["sres"] != m["res0"]:
            kind = "c03-fail-open" if _allowed(impl["sres"]) and not _allowed(m["res0"]) else "c03-changed"
            return (kind, f"SQL statement {impl.get('x_stmt')} failed: the check answered {impl['sres']} without an error; the undisturbed "
                          f"answer is {m['res0']}, and the failure of the whole storage call gives {m['res']}")
        return True
    if "res" not in impl:
        return None          # over the harness's storage-call budget (legitimately: the model needs that many too)
    # faults raised inside the storage layer (a stored row that cannot be decoded): judged against the
    # implementation's own fault-free answer
    if impl.get("x_poison") and impl.get("x_base"):
        for pr in impl["x_poison"].split(","):
            v = _c03_one(pr, {"res0": impl["x_base"]})
            if v is not True:
                return (v[0], "with one stored row undecodable (driver error while rows are fetched): " + v[1])
    if "res" not in m or "res0" not in m:
        return None
    for key in ("res", "cres"):
        if key in impl:
            if key == "cres" and (m.get("lim0") != "0" or m.get("lim") != "0"):
                # the concurrent runs use a depth that cannot bind; comparable with the model's
                # fault-free answer only when that answer does not depend on the depth
                memb, _, err = impl[key].partition("/")
                if err != "none" and memb == "isMember":
                    return ("c03-allowed-with-error", f"concurrent checkgroup: answer {impl[key]} carries an error and says allowed")
                continue
            v = _c03_one(impl[key], m)
            if v is not True:
                return (v[0], ("concurrent checkgroup: " if key == "cres" else "") + v[1])
    return True


def oracle_c11(cid, impl, m):
    """An OPL document accepted by the real parser/type checker, a store that conforms
    to the declared types and a query on a declared relation: no schema error."""
    if _hang(impl, m):
        return _hang(impl, m)
    if "res" not in impl:
        return None          # over the harness's storage-call budget (legitimately: the model needs that many too)
    if "res" not in m or impl.get("opl") != "1":
        return None
    if m.get("conf") != "1" or m.get("qdecl") != "1":
        return None
    if impl.get("res", "").endswith("/schema"):
        tag = "ttu-subjectset-type" if (m.get("wf") == "0" and impl["res"] == m["res"]) else "c11-schema-error"
        return (tag, "accepted OPL + conforming store + declared query, yet the check failed with a schema error")
    if m.get("wf") == "1" and m["res"].endswith("/schema"):
        return ("c11-model-schema", "model reports a schema error on a well-formed instance")
    return True


def oracle_c15_life(cid, impl, m):
    """Every check returns, with the fault-free answer or an error of the injected kind,
    and releases its goroutines."""
    if "returned" not in impl:
        return None
    if _hang(impl, m):
        return _hang(impl, m)
    if impl["returned"] != "1":
        return ("c15-hang", f"check did not return within 10 s ({impl.get('kind')})")
    if impl.get("leak") != "0":
        return ("c15-leak", f"{impl.get('leak')} goroutine(s) left after the check returned and its context was released ({impl.get('kind')})")
    lres = impl.get("lres", "")
    kind = impl.get("kind")
    ok = {m.get("res0")}
    if kind in ("cancel", "precancel", "batchcancel"):
        ok |= {"unknown/ctx", "notMember/ctx"}
    if kind in ("fault", "corpus"):
        ok |= {m.get("res"), "unknown/storage", "notMember/storage"}
    if m.get("lim0") not in (None, "0"):
        # the depth or width limit binds in the undisturbed run: with the real concurrent checkgroup the answer then
        # depends on which sibling expansion marks a shared subject set visited first (DESIGN 9.7) - the
        # "fault-free answer" is not one value; what is judged is that the check returns, without leaking,
        # and never allowed together with an error
        ok |= {"isMember/none", "notMember/none", "unknown/none"}
    if kind == "batchfault":
        # the k-th storage call of the WHOLE batch fails: an entry answers what its own check answers, or
        # carries the storage error
        ok |= {"unknown/storage", "notMember/storage"}
    if lres not in ok:
        return ("c15-result", f"{kind}: answered {lres}, expected one of {sorted(x for x in ok if x)}")
    if lres.startswith("isMember/") and not lres.endswith("/none"):
        return ("c15-allowed-with-error", f"{lres}")
    return True


def oracle_c03_batch(cid, impl, m):
    """Engine.BatchCheck with a failing storage call / a cancelled request: every entry is either the
    answer of its own undisturbed check or carries the error; never 'allowed' together with an error,
    and never another entry's answer."""
    if not impl.get("kind", "").startswith("batch"):
        return None
    r = oracle_c15_life(cid, dict(impl, leak="0"), m)
    if r is True or r is None:
        return r
    return ("c03-batch:" + r[0], r[1])


def oracle_c03_stmt(cid, impl, m):
    """Wide nodes (the storage layer's own page loops and probes): only the statement-level fault lines are C03's."""
    if "sres" not in impl:
        return None
    return oracle_c03(cid, impl, m)


def oracle_c15_wide(cid, impl, m):
    """Very wide nodes: the check returns, after the number of storage operations the model predicts (the
    correspondence: calls)."""
    if _hang(impl, m):
        return _hang(impl, m)
    if "res" not in impl:
        return None          # over the harness's storage-call budget (legitimately: the model needs that many too)
    if "res" not in impl:
        return None
    return True


def oracle_c15_cg(cid, impl, m):
    if "res" not in m or "expected" not in m:
        return None
    if impl.get("leak") != "0":
        return ("c15-cg-leak", f"checkgroup left {impl.get('leak')} goroutine(s)")
    if impl.get("res") == "hang":
        return ("c15-cg-hang", "checkgroup result never arrived")
    return True


# ---------------------------------------------------------------- encodings (C18)

def _c18_impl_eq_model(impl, m):
    """The implementation's line equals the faithful model's line on every compared key."""
    return all((k in m and m[k] == v) for k, v in impl.items() if not k.startswith("x_"))


def oracle_c18(cid, impl, m):
    """decode(encode x) = x for the URL-query / proto / JSON codecs on well-formed values;
    FromString(String x) = x on DomString; a parsed string prints and re-parses to the same
    value (or the input is rejected with an error). `in`, `wf`, `dom`, `trimclass` are spec
    columns computed by the Lean driver from the INPUT (resp. from the model's parse)."""
    op = m.get("op")
    if op is None:
        return None
    if op == "str-parse":
        if impl.get("cli") == "differs":
            return ("c18-cli-parse", "`keto relation-tuple parse` and FromString disagree on the same row")
        res = impl.get("res", "")
        if res.startswith("err:"):
            return True                      # rejected with an error, not mis-parsed
        if res != "ok":
            return None
        val = impl.get("val", "")
        kind = val.split(",")[3:4]
        if kind not in (["i"], ["s"]):
            return ("c18-parse-subject-kind", f"FromString returned a tuple without exactly one subject kind: {val}")
        if impl.get("res2") == "ok" and impl.get("val2") == val:
            return True
        msg = (f"parse → print → parse is not stable: parsed {val}, printed {impl.get('str')}, "
               f"re-parsed {impl.get('res2')} {impl.get('val2')}")
        if m.get("trimclass") == "1" and _c18_impl_eq_model(impl, m):
            return ("trim-parens", msg)
        return ("c18-reparse", msg)
    if op == "tuple-string":
        if m.get("dom") != "1":
            return None
        if impl.get("res") == "ok" and impl.get("val") == m.get("in"):
            return True
        return ("c18-string-dom", f"FromString(String(x)) != x on the documented domain: x={m.get('in')} "
                                  f"printed {impl.get('str')} parsed {impl.get('res')} {impl.get('val')}")
    if op in ("url-tuple", "url-query", "proto-tuple", "proto-query", "json-tuple", "json-query"):
        if m.get("wf") != "1":
            return None
        want = m.get("in")
        if op == "proto-tuple" and impl.get("pres") != "ok":
            return ("c18-" + op, f"ToProto failed on a well-formed tuple {want}: {impl.get('pres')}")
        for rk, vk in (("res", "val"), ("dres", "dval"), ("fres", "fval")):
            if rk not in impl:
                continue
            if impl[rk] != "ok" or impl.get(vk) != want:
                return ("c18-" + op, f"decode(encode x) != x ({rk}/{vk}): x={want} got {impl[rk]} {impl.get(vk)}")
        return True
    return None      # decoder-only ops, sset-parse, utf8: correspondence only


def oracle_c08(cid, impl, m):
    """Every transport reports the engine's decision; mirror endpoints answer 200 iff allowed,
    403 iff denied; batch entries are the single decisions in request order."""
    if "decisions" not in m:
        return None
    dec = m["decisions"].split(",") if m["decisions"] else []
    for i, d in enumerate(dec):
        v = impl.get(f"e{i}")
        if v is None:
            return ("c08-missing", f"no result for entry {i}")
        for part in v.split("|"):
            for x in part.split("/"):
                x = x.split("=", 1)[-1]
                allowed = x in ("200:1", "ok:1", "403:1")
                if allowed != (d == "1"):
                    return ("c08-disagree", f"entry {i}: transport answered {v}, engine decision {d}")
                if x == "200:0" and "403" in v.split("|")[0] and False:
                    pass
        mirror = v.split("|")[0]
        for x in mirror.split("/"):
            x = x.split("=", 1)[-1]
            if d == "1" and x != "200:1":
                return ("c08-mirror", f"entry {i}: allowed but mirror endpoint answered {x}")
            if x == "200:0":
                return ("c08-mirror", f"entry {i}: mirror endpoint answered 200 with allowed=false")
    over = m.get("maxbatch", "").isdigit() and len(dec) > int(m["maxbatch"])
    for key in ("batch_rest", "batch_grpc"):
        b = impl.get(key, "")
        got = [x.split(",")[0] for x in b.split(";")] if b and not b.startswith(("status", "err")) else None
        if over:
            # more entries than limit.max_batch_check_size: rejected as a whole, as a client error
            if got is not None or b not in ("status400", "err:InvalidArgument"):
                return ("c08-batch-limit", f"{key}: a batch of {len(dec)} entries (limit {m['maxbatch']}) answered {b[:80]}")
            continue
        if got is None:
            return ("c08-batch", f"{key} failed as a whole: {b}")
        if got != dec:
            return ("c08-batch", f"{key} decisions {got} differ from single decisions {dec}")
    return True


def oracle_c13_alive(cid, impl, m):
    """Streams that are judged for C13 by surviving: batches of every size up to the maximum
    through both transports (hcheck) and checks whose request is cancelled while the engine
    works (engine-life). A panic in a handler or in a goroutine of the engine ends the harness
    process, which ./check reports as a crash of the code under test with the last case as replay."""
    if "returned" in impl:
        return True if impl["returned"] == "1" else ("c13-hang", "cancelled check did not return")
    if "batch_rest" in impl:
        for key in ("batch_rest", "batch_grpc"):
            v = impl.get(key, "")
            if v.startswith("status5") or v in ("err:Internal", "err:Unknown") or "panic" in v:
                return ("c13-batch-5xx", f"{key} answered {v} for a well-formed batch")
        return True
    return None


def oracle_c13(cid, impl, m):
    """No panic, no 5xx / Internal; malformed requests are client errors; state unchanged
    on error; the answer class is one the classification model allows for the cell."""
    if "classes" not in m:
        return None
    c = impl.get("class", "")
    if c == "panic":
        return ("c13-panic", "the handler panicked")
    if c.startswith("server"):
        return ("c13-server-error", f"answered {c}")
    if c not in m["classes"].split(","):
        return ("c13-class", f"answered {c}, the handler model allows {m['classes']}")
    if impl.get("changed_on_error") != "0":
        return ("c13-state-changed", "stored state changed although the request was answered with an error")
    return True


def oracle_c16(cid, impl, m):
    """Names survive the mapping unchanged and unaliased. The spec columns of the model line are
    computed from the request alone (want/wantn/sc for rt, want/wqo/wexp for e2e), never through the
    model's own mapping.
    rt : err=none ⇒ ToTuple(FromTuple(b)) = b position-wise (rt = want; for tuples that set both
         subject fields the subject set is dropped: rt = wantn), id classes = string classes
         (Map(s)=Map(s') ⇔ s=s'), read-only and read-write mapper give the same ids, the read-only
         mapper leaves keto_uuid_mappings byte-identical; err≠none ⇒ nothing inserted.
    e2e: REST write ok ⇒ REST list = gRPC list = the written multiset, the list filtered by X and both
         expands of X return exactly the written strings; the read API inserted no mapping."""
    if impl.get("x_bigbatch"):
        return ("c16-big-batch", "one write above the mapping table's insert chunk size: " + impl["x_bigbatch"])
    if "err" in impl:
        if "sc" not in m or "wantn" not in m:
            return None
        if impl.get("rotbl") != "1":
            return ("c16-readonly-inserted", "ReadOnlyMapper.FromTuple/ToTuple changed keto_uuid_mappings")
        if impl.get("same") != "1":
            return ("c16-id-unstable", "read-only and read-write mapper disagree on the ids (or on the error) of the same batch")
        if impl["err"] != "none":
            if impl.get("new") != "0":
                return ("c16-error-inserted", f"FromTuple failed with {impl['err']} but inserted {impl.get('new')} mappings")
            return True
        if impl.get("ids") != m["sc"]:
            return ("c16-aliased", "ids of the batch are not equal exactly where the strings are equal")
        if impl.get("rt") != m["wantn"]:
            return ("c16-roundtrip", "ToTuple(FromTuple(b)) differs from b")
        if m.get("wf") == "1" and impl.get("rt") != m.get("want"):
            return ("c16-roundtrip", "ToTuple(FromTuple(b)) differs from b")
        if m.get("wf") != "1":
            return None          # a tuple with both subject fields: outside "valid API tuples" (see report)
        return True
    if "wr" in impl:
        if impl["wr"] != "ok":
            return None if impl["wr"] == m.get("wr") else ("c16-write-status", f"write answered {impl['wr']}, expected {m.get('wr')}")
        if "want" not in m:
            return None
        if impl.get("rdtbl") != "1":
            return ("c16-readonly-inserted", "list/expand requests changed keto_uuid_mappings")
        for k, w in (("rest", "want"), ("grpc", "want"), ("qo", "wqo"), ("exp", "wexp"), ("expg", "wexp")):
            if impl.get(k) != m.get(w):
                return ("c16-e2e-" + k, f"{k} does not return the written strings")
        if m.get("wf") != "1":
            return None
        return True
    return None


def oracle_c16_store(cid, impl, m):
    """Names after rolled-back and retried writes (stream store-faults): every complete listing returns exactly
    the strings the specification predicts for the relationships stored (a name written by a request that was
    rolled back and then written again must still be readable), and the mapping table is the model's."""
    if "spec" not in m:
        return None
    for i in _store_items(m):
        msg = _la_ok(i, impl, m)
        if msg:
            return ("c16-names-after-rollback", msg)
        if impl.get(f"s{i}") == "ok" and impl.get(f"u{i}") is not None and m.get(f"u{i}") is not None and impl[f"u{i}"] != m[f"u{i}"]:
            return ("c16-mapping-table", f"item {i} ({m.get(f'k{i}')}): mapping table {impl[f'u{i}']} but the model predicts {m[f'u{i}']}")
    return True


def oracle_c16_tree(cid, impl, m):
    """ToTree: the trees returned by REST and gRPC expand (UUIDs mapped back to strings, node by node) are the
    engine's tree - every name in the right node, at every depth and sibling position."""
    if "tree" not in impl:
        return None
    if impl.get("transports_agree", "1") != "1":
        return ("c16-tree", f"REST / gRPC expand trees differ from the engine's tree: rest={impl.get('x_rest', '')[:200]} "
                            f"grpc={impl.get('x_grpc', '')[:200]} engine={impl['tree'][:200]}")
    return True


def oracle_c14(cid, impl, m):
    """Concurrently served requests answer what they answer alone."""
    if "same" in impl:
        if impl["same"] != "1":
            return ("c14-interference", "a request answered differently when served concurrently: " + impl.get("x_diff", "")[:300])
        return True
    if "raced" in impl:
        return True
    return None


def _conc_part(tag, what, pred):
    def orc(cid, impl, m):
        if "same" not in impl:
            return None
        d = impl.get("x_diff", "")
        if impl["same"] != "1" and pred(d):
            return (tag, what + ": " + d[:300])
        return True
    return orc


# the conc stream judged for other properties: only the part of a disagreement that is theirs
oracle_c08_conc = _conc_part("c08-depth-not-own", "a check request answered differently when served next to other requests "
                             "(the same relationship under other request depths)", lambda d: d.startswith("check "))
oracle_c11_conc = _conc_part("c11-schema-error-tenant", "a check on a declared permission of an accepted document answers differently "
                             "from the identical permission of another tenant's document", lambda d: d.startswith("tenant-twin"))
oracle_c16_conc = _conc_part("c16-name-not-found", "what a tenant wrote under a name is not found under that name (checks / listings differ "
                             "from the twin tenant's)", lambda d: d.startswith("network-twin"))


def oracle_c09_names(cid, impl, m):
    """Expand through REST and gRPC returns the written strings (names with separators, +, %XX): the expand part of the
    end-to-end name check of C16."""
    if "wr" not in impl or impl["wr"] != "ok" or "wexp" not in m:
        return None
    for k in ("exp", "expg"):
        if impl.get(k) != m.get("wexp"):
            return ("c09-expand-names", f"{k}: the expansion does not return the written strings")
    return True


def oracle_c19(cid, impl, m):
    """Every sampled set of visible namespaces is one the model reaches after some
    prefix of the history (never partial, never the invalid version), and the final
    state is the model's (keep-last-good / new valid version takes effect)."""
    if "states" not in m or "obs" not in impl:
        return None
    allowed = set(m["states"].split("|"))
    for st in impl["obs"].split("|"):
        if st not in allowed:
            return ("c19-partial-state", f"observed visible namespaces {st!r}, not a state of any prefix of the history {sorted(allowed)}")
    if impl.get("final") != m.get("final"):
        return ("c19-final", f"final visible namespaces {impl.get('final')!r}, model {m.get('final')!r}")
    return True


# ---------------------------------------------------------------- store oracles (C04 C05 C06 C07 C17)
# Columns (see lean/Driver/Store.lean): per item i of a history  s<i> status, o<i> observation, d<i> table in shard
# order, m<i> table as sorted multiset, u<i> mapping table, f<i> other networks untouched (impl and model: the
# correspondence); k<i> op code, sm<i> state of the multiset SPECIFICATION, so<i> the specification's answer to a
# complete listing, pp<i> page size in force, tk<i> token kind (model only: what the oracles judge the impl against).

_EMPTY = ("0:cbf29ce484222325", "0:")       # digest of the empty table (hashed, verbose)


def _store_items(m):
    n = int(m.get("ops", "0"))
    return [i for i in range(n) if f"k{i}" in m]


def _la_ok(i, impl, m):
    """A complete listing against the specification: accepted iff the spec accepts, same multiset."""
    so = m.get(f"so{i}")
    if so is None:
        return None
    st = impl.get(f"s{i}")
    if so == "rej":
        if st == "ok":
            return f"item {i}: listing accepted ({impl.get(f'o{i}')}) but the specification rejects the request"
        return None
    if st != "ok":
        return f"item {i}: listing answered {st} but the specification expects {so}"
    got = impl.get(f"o{i}", "").split("/")[0]
    if got != so:
        return f"item {i}: listing returned {got}, the multiset specification says {so}"
    return None


def oracle_c04(cid, impl, m):
    """After every request the table is, as a multiset per network, what the multiset specification predicts;
    every complete listing (any query shape) returns exactly the matching relationships; rejected writes have
    no effect (the specification's state does not move on a rejected request)."""
    if "spec" not in m:
        return None
    for i in _store_items(m):
        st = impl.get(f"s{i}")
        if st in ("internal", "panic") and m.get(f"k{i}") != "RM":
            return ("c04-internal", f"item {i} ({m.get(f'k{i}')}): answered {st} without an injected fault")
        if impl.get(f"m{i}") != m.get(f"sm{i}"):
            return ("c04-deviation", f"item {i} ({m.get(f'k{i}')}, status {st}): stored multiset {impl.get(f'm{i}')} "
                                     f"but the specification predicts {m.get(f'sm{i}')}")
        msg = _la_ok(i, impl, m)
        if msg:
            return ("c04-list", msg)
    return True


def oracle_c05(cid, impl, m):
    """All or nothing under injected statement faults: a request that is not answered ok leaves the relationship
    table (order and multiset) and the mapping table exactly as before; an ok request applies completely
    (multiset = specification)."""
    if impl.get("x_nil_probe"):
        return ("c05-nil-entry", impl["x_nil_probe"])
    if "spec" not in m:
        return None
    prev = None
    for i in _store_items(m):
        st = impl.get(f"s{i}")
        cur = (impl.get(f"d{i}"), impl.get(f"m{i}"), impl.get(f"u{i}"))
        if st != "ok":
            if prev is None:
                if not (cur[0] in _EMPTY and cur[1] in _EMPTY and cur[2] in _EMPTY):
                    return ("c05-partial", f"item {i} ({m.get(f'k{i}')}): answered {st} but the empty database changed: {cur}")
            elif cur != prev:
                return ("c05-partial", f"item {i} ({m.get(f'k{i}')}): answered {st} but the database changed: {prev} -> {cur}")
        else:
            if impl.get(f"m{i}") != m.get(f"sm{i}"):
                return ("c05-partial", f"item {i} ({m.get(f'k{i}')}): answered ok but stored {impl.get(f'm{i}')}, "
                                       f"complete application gives {m.get(f'sm{i}')}")
        prev = cur
    return True


def oracle_c06(cid, impl, m):
    """Isolation: no request changes the rows of another network (f<i> = 1, computed by the harness from the
    table before/after, shard ids included) and every complete listing in a network returns exactly that
    network's matching relationships (no leak)."""
    if "spec" not in m:
        return None
    for i in _store_items(m):
        if impl.get(f"f{i}") != "1":
            return ("c06-frame", f"item {i} ({m.get(f'k{i}')}): rows of another network changed")
        if impl.get(f"m{i}") != m.get(f"sm{i}"):
            return ("c06-frame", f"item {i} ({m.get(f'k{i}')}): stored multiset {impl.get(f'm{i}')} but the per-network "
                                 f"specification predicts {m.get(f'sm{i}')}")
        msg = _la_ok(i, impl, m)
        if msg:
            return ("c06-leak", msg)
    return True


def oracle_c07(cid, impl, m):
    """Pagination: a complete listing returns every match exactly once (= the specification's multiset), in
    ceil(n/s') pages (at least one) of at most s' rows; a single page has at most s' rows; a negative page size
    and a malformed token are client errors; completed interleaved iterations return every untouched row
    exactly once (x_it<i>, computed by the harness from the table dumps)."""
    if "spec" not in m:
        return None
    for i in _store_items(m):
        k = m.get(f"k{i}")
        if k not in ("L", "LA", "PL"):
            continue
        st = impl.get(f"s{i}")
        pp = m.get(f"pp{i}")
        if pp == "neg":
            if st not in ("bad", "notfound"):      # a client error (404 if the query also names an unknown namespace)
                return ("c07-negative-size", f"item {i} ({k}): negative page size answered {st}")
            continue
        if m.get(f"tk{i}") == "b":
            if st not in ("bad", "notfound"):
                return ("c07-bad-token", f"item {i} ({k}): malformed page token answered {st}")
            continue
        sc, tk = m.get(f"sc{i}"), m.get(f"tk{i}")
        if st != "ok":
            if k in ("L", "PL") and sc is not None and tk in ("e", "n"):
                return ("c07-valid-token-rejected", f"item {i} ({k}): an acceptable page request with "
                        f"{'the token returned by an earlier page' if tk == 'n' else 'no token'} answered {st}")
            continue
        obs = impl.get(f"o{i}", "")
        if k in ("L", "PL") and sc is not None and tk == "e":
            n = int(obs.split("/")[0].split(":")[0])
            if n != min(int(pp), int(sc)):
                return ("c07-first-page", f"item {i} ({k}): first page has {n} rows, {sc} relationships match, page size {pp}")
            if obs.endswith("/-") != (int(sc) <= int(pp)):
                return ("c07-token", f"item {i} ({k}): first page of {n} rows, {sc} matches, page size {pp}: "
                                     f"token {'empty' if obs.endswith('/-') else 'present'}")
        if k == "LA":
            msg = _la_ok(i, impl, m)
            if msg:
                return ("c07-listing", msg)
            parts = obs.split("/")
            n = int(parts[0].split(":")[0])
            npages, maxlen, s = int(parts[1]), int(parts[2]), int(pp)
            if maxlen > s:
                return ("c07-page-size", f"item {i}: a page of {maxlen} rows with page size {s}")
            want = max(1, -(-n // s))
            if npages != want:
                return ("c07-token", f"item {i}: {n} rows in {npages} pages with page size {s}, expected {want} "
                                     "(token empty iff last page)")
        else:
            n = int(obs.split("/")[0].split(":")[0])
            if n > int(pp):
                return ("c07-page-size", f"item {i} ({k}): a page of {n} rows with page size {pp}")
            if n < int(pp) and not obs.endswith("/-"):
                return ("c07-token", f"item {i} ({k}): a page of {n} < {pp} rows carries a next-page token")
    for key, v in impl.items():
        if key.startswith("x_it") and v != "1":
            return ("c07-interleaved", f"{key}={v}: an untouched matching row was not returned exactly once")
    return True


def oracle_c07_expand(cid, impl, m):
    """Internal consumer of the pagination (expand): every child of every page exactly once - the
    implementation's tree is the model's tree (which lists every stored tuple of a node once), no subject
    set is expanded twice, nothing reachable is missing when no depth cut happened."""
    if impl.get("x_fault_swallowed"):
        return ("c07-internal-page-error-swallowed", "expand (internal page loop): " + impl["x_fault_swallowed"])
    v = oracle_c09(cid, impl, m)
    if v is None or v is True:
        return v
    tag, msg = v
    if tag in ("expand-dfs-order",):
        return None          # C09's known finding, not a pagination matter
    return ("c07-internal-" + tag, "expand (internal page loop): " + msg)


def oracle_c07_engine(cid, impl, m):
    """Internal consumers of the pagination (check): the traverser's pages of subject sets and the pages of
    the tuple-to-subject-set listing must yield every row once: the decision equals the reference semantics."""
    v = oracle_c01(cid, impl, m)
    if v is None or v is True:
        return v
    return ("c07-internal-" + v[0], "check over a node wider than a page: " + v[1])


def oracle_c17(cid, impl, m):
    """The read API leaves every table byte-identical (changed = 0 on the implementation; the model's reads are
    state preserving by C17_readonly)."""
    if "changed" not in impl:
        return None
    if impl["changed"] != "0":
        return ("c17-changed", "the database differs after a sequence of read-API requests"
                               + (f" (write requests accepted by: {impl['x_write_accepted']})" if impl.get("x_write_accepted") else ""))
    if impl.get("x_read_wrote"):
        return ("c17-read-wrote", f"lost-mapping probe: {impl['x_read_wrote']}")
    if impl.get("x_write_accepted"):
        return ("c17-write-served", f"a write request was answered as carried out by the read/syntax API: {impl['x_write_accepted']}")
    return True


STORE_RULE = ("histories of 5-40 requests against one registry (tables cleared between cases): REST PUT/DELETE/PATCH, gRPC "
              "Transact/Delete, direct Persister calls; valid and invalid arguments (unknown namespace, no subject, both subjects, "
              "unknown action, null delta, malformed requests), duplicates, insert+delete of the same tuple in one patch, delete "
              "lists up to 250; all 2^4 query shapes x {subject id, subject set}; adversarial UTF-8 strings interned per case; "
              "observations after most writes: complete listing (REST / gRPC / deprecated gRPC query form), single pages with sizes "
              "0,1,..,n+1,100,101,negative,huge and tokens none/previous/random/nil/junk, exists, full table dump in shard order "
              "after every item; non-trivial = at least one successful write and one ok listing; distinct = distinct protocol lines")



# ---------------------------------------------------------------- expand oracle (C09)

def _ids(s):
    return set(x for x in (s or "").split(",") if x != "")


def oracle_c09(cid, impl, m):
    """Expand is sound (leaves within reach), complete within the effective depth (a miss
    is the known finding only if the implementation's tree is the model's tree), complete
    when no depth cut happened, equal to the check engine's answers when no cut happened
    and the configuration has no rewrites, and the transports return the engine's tree."""
    # structural clauses judged on the implementation's own tree: height within the
    # effective depth, no subject set expanded (given children) twice
    t = impl.get("tree")
    if t and t not in ("nil", "diverged") and m.get("eff"):
        depth, maxd, seen, stack, i2 = 0, 0, set(), [], 0
        name = ""
        import re as _re
        for tok in _re.finditer(r"U([^(),]*)\(|L([^(),]*)|\)|,", t):
            if tok.group(0).startswith("U"):
                depth += 1
                maxd = max(maxd, depth)
                if tok.group(1) in seen:
                    return ("c09-expanded-twice", f"subject set {tok.group(1)} is expanded more than once in the tree")
                seen.add(tok.group(1))
            elif tok.group(0).startswith("L"):
                maxd = max(maxd, depth + 1)
            elif tok.group(0) == ")":
                depth -= 1
        if maxd > int(m["eff"]):
            return ("c09-too-deep", f"tree height {maxd} exceeds the effective depth {m['eff']}")

    if "tree" not in m or "reach" not in m or "tree" not in impl or "leaves" not in impl:
        return None
    if impl.get("transports_agree", "1") != "1":
        return ("c09-transports", f"REST / gRPC / engine trees differ: rest={impl.get('x_rest', '')[:200]} grpc={impl.get('x_grpc', '')[:200]} engine={impl['tree'][:200]}")
    if impl["tree"].startswith(("error:", "panic:", "setup:", "map:")) or "?" in impl["tree"]:
        return ("c09-error", f"expand failed: {impl['tree'][:200]}")
    leaves, reach, reachd = _ids(impl["leaves"]), _ids(m["reach"]), _ids(m.get("reachd"))
    if not leaves <= reach:
        return ("c09-unsound", f"subject ids {sorted(leaves - reach)} are in the tree but not reachable from the subject set")
    if m.get("cuts") == "0" and impl["tree"] == m["tree"]:
        if leaves != reach:
            return ("c09-incomplete-unbound", f"no depth cut, yet reachable subject ids {sorted(reach - leaves)} are missing")
        if "checkleaves" in impl and _ids(impl["checkleaves"]) != leaves:
            return ("c09-check-differs", f"check allows {impl['checkleaves']} but the subject-id leaves are {impl['leaves']} (no rewrites, no depth cut)")
    if not reachd <= leaves:
        missing = sorted(reachd - leaves)
        if impl["tree"] == m["tree"]:
            return ("expand-dfs-order", f"subject ids {missing} are reachable within the effective depth but missing from the tree (first met at a deeper position, marked visited there)")
        return ("c09-incomplete", f"subject ids {missing} are reachable within the effective depth but missing, and the tree is not the model's")
    return True


EXPAND_RULE = ("tuple graphs over 1-3 namespaces (legacy namespaces without relations, or OPL-shaped ones declaring the relations "
               "the tuples use, loaded through the real parser): random graphs, chains up to 9, layered diamonds, cycles, the shape of "
               "the known finding, duplicate rows, one state in 25 with 101-250 children below one node; every state is expanded at "
               "global depth 400 (request depths 1..8 decide) and at one of the global depths 1..8 in turn (request depths -1, 0, 1..g, > g), "
               "with the default and with small page sizes; non-trivial = the tree is a union node and at least 2 storage calls were made; "
               "distinct = distinct protocol lines")




# ---------------------------------------------------------------- opl oracles (C10, C12)

def oracle_c10(cid, impl, m):
    """C10: (a) documents derived from the grammar, in every spelling, are accepted and denote the
    generating declarations (relations, types, truth table of every permission);
    (b) the truth table of a parsed permission equals the TypeScript reading of its source.
    Known deviations are attributed only if the implementation equals the faithful model."""
    gen = impl.get("gen")
    if gen == "grammar":
        if impl.get("nerr") != "0":
            if (impl.get("v_arraycomma") == "1" and impl.get("errs", "").startswith("expected-identifier-or-brace@")
                    and impl.get("nerr") == m.get("nerr") and impl.get("errs") == m.get("errs")):
                return ("array-generic-trailing-comma", "relation declared as Array<T> followed by ',' is rejected")
            return ("c10-rejected", f"grammar-derived document rejected: {impl.get('errs')}")
        if impl.get("decl_ok") != "1":
            return ("c10-decls", "parsed relations/types differ from the declared ones")
        if impl.get("sem_ok") != "1":
            return ("c10-semantics", "a parsed permission does not have the truth table of its TypeScript source")
        return True
    if "tt" in impl and "ts" in m:
        tt, ts = impl["tt"], m["ts"]
        same_as_model = impl.get("tt") == m.get("tt") and impl.get("nerr") == m.get("nerr")
        if tt == "err":
            if m.get("dneg") == "1" and same_as_model:
                return ("double-negation-rejected", "'!!x' is valid TypeScript but is rejected")
            return ("c10-rejected", f"expression rejected: {impl.get('errs')}")
        if tt == ts:
            return True
        if m.get("mixed") == "1" and same_as_model and tt == m.get("l2r"):
            return ("precedence-left-to-right", f"truth table {tt} is the left-to-right reading; TypeScript reads {ts}")
        return ("c10-semantics", f"truth table {tt} but TypeScript reads {ts}")
    return None


def oracle_c12(cid, impl, m):
    """C12: no panic (lexer, Parse, ToAPI/ToProto/Error()); errors or namespaces; every error inside the
    input with start not after end, 1 <= line(start) <= line(end) <= rows+1; REST and gRPC endpoints agree;
    lexer/parser steps linear (model counters, tied by the correspondence); type-check steps linear
    (violated: known finding)."""
    if impl.get("hang") == "1":
        return ("c12-hang", "Parse / the lexer did not return within the watchdog time")
    if "toks" in m:                       # lex op
        return True if impl.get("panic") == "0" else ("c12-panic", "the lexer panicked")
    if "nerr" not in m:
        return None
    if impl.get("panic") != "0":
        return ("c12-panic", "Parse / ParseError API panicked")
    if impl.get("endpoints_agree") != "1":
        return ("c12-endpoints", "REST and gRPC syntax endpoints returned different errors")
    if impl.get("stale") == "1":
        return ("c12-stale-errors", "the errors of the previous document render differently after this document was parsed "
                                    "(positions / message / source rows of a diagnosis must belong to its own input)")
    if impl["nerr"] == "0" and "ns" not in impl:
        return ("c12-neither", "neither errors nor namespaces")
    for e in impl.get("errs", "").split(";"):
        if "@" not in e:
            continue
        a, b = e.split("@", 1)[1].split("-")
        sl, sc = map(int, a.split(":"))
        el, ec = map(int, b.split(":"))
        if not (1 <= sl <= el):
            return ("c12-positions", f"error position {e}: start line after end line or < 1")
        if "rows" in m and el > int(m["rows"]) + 1:
            return ("c12-positions", f"error position {e} beyond the input ({m['rows']} lines)")
    if impl.get("errs") == m.get("errs"):
        for o in m.get("offs", "").split(";"):
            if "-" in o:
                a, b = map(int, o.split("-"))
                if not (a <= b <= int(m["len"])):
                    return ("c12-positions", f"error item {o} outside the input of {m['len']} bytes")
    n = int(m.get("len", "0"))
    if int(m.get("lsteps", "0")) > 16 * n + 10 or int(m.get("psteps", "0")) > 100 * int(m.get("nitems", "0")) + 90:
        return ("c12-superlinear", f"lexer/parser steps {m.get('lsteps')}/{m.get('psteps')} exceed the linear bound for {n} bytes")
    if int(m.get("tcsteps", "0")) > 40 * n + 40 and impl.get("nerr") == m.get("nerr"):
        return ("typecheck-exponential", f"type check took {m.get('tcsteps')} steps on {n} bytes ({impl.get('nerr')} errors)")
    return True


def oracle_c06_engine(cid, impl, m):
    """Checks in network A while network B (same database) holds the queried tuple itself
    and direct memberships for every subject set of A: the answer must be the one the
    model computes from A's tuples alone (the correspondence), and equal the reference
    semantics on A when limits are not binding."""
    if impl.get("x_expand_leak"):
        return ("c06-expand-leak", "expand in network A changed when network B was filled: " + impl["x_expand_leak"][:400])
    if impl.get("res", "").startswith("network-leak"):
        return ("c06-leak", "listing network A returned rows that were written to network B only: " + impl.get("x_detail", ""))
    return oracle_c01(cid, impl, m)


def oracle_c11_converse(cid, impl, m):
    """C11, converse: an accepted document in which ONE reference (type namespace; T or R of SubjectSet<T,R> in the
    direct / (…|…)[] / Array<…> positions; relation of includes; name of this.permits.X(ctx); traversed relation and
    target of traverse in both spellings) is replaced by an undeclared name is rejected, with an error at the token
    the model's TypeCheck.blame names (C11_tc_rejects_at: the replaced token; for a traverse target the traversed
    relation's token, which is what the deferred check keeps). Counterparts: a traverse target declared only on
    the traversed type is accepted, one declared only on the enclosing class is rejected."""
    if impl.get("gen") in ("collide", "collide-declared") and "nerr" in impl and impl.get("hang") != "1" and impl.get("panic") != "1":
        # documents in which "namespace ++ relation" of a declared relation and of the undeclared reference coincide
        if impl["gen"] == "collide" and int(impl["nerr"]) == 0:
            return ("c11-undeclared-accepted", "a reference to an undeclared relation is accepted (the document declares another "
                                               "namespace/relation pair whose names concatenate to the same string)")
        if impl["gen"] == "collide-declared" and int(impl["nerr"]) > 0:
            return ("c11-valid-rejected", f"a document whose references are all declared is rejected: {impl.get('errs')}")
        return True
    if "mustreject" not in m:
        return None
    if impl.get("hang") == "1" or impl.get("panic") == "1" or "nerr" not in impl:
        return ("c11-no-answer", "Parse did not return (hang / panic) on a reference-mutated document")
    nerr = int(impl["nerr"])
    kind = impl.get("x_kind", "?")
    if m.get("mustaccept") == "1":
        if nerr > 0:
            return ("c11-valid-rejected", f"{kind}: a traverse target declared on the traversed type is rejected: {impl.get('errs')}")
        return True
    if nerr == 0:
        return ("c11-undeclared-accepted", f"{kind}: the reference at {impl.get('mut')} is undeclared and the document is accepted")
    blame = m.get("blame", "none")
    if blame == "none":
        return ("c11-error-position", f"{kind}: the model has no deferred check for the reference at {impl.get('mut')}")
    entries = [e for e in impl.get("errs", "").split(";") if e]
    at = [e.split("@", 1)[1] for e in entries if "@" in e]
    if blame not in at:
        if any(e.startswith("+") for e in entries):
            return None                      # more than 32 errors, only the first 32 are spelled out
        return ("c11-error-position", f"{kind}: no error points at {blame} (reference at {impl.get('mut')}); errors: {impl.get('errs')}")
    return True


ENGINE_RULE = ("configs from an OPL-shaped grammar (1-4 namespaces, related relations with plain and SubjectSet types, "
               "permissions over includes/permits/traverse/!/&&/||, rendered to OPL and loaded through the real parser, "
               "or legacy namespaces without relations), 0-54 tuples biased to declared relations, chains, cycles, duplicates; "
               "non-trivial = the check issued at least 2 storage calls (an expansion or a rewrite was evaluated); "
               "distinct = distinct protocol lines")

PROPS = {
    "C09": {
        "lean_module": "Keto.Props.C09",
        "theorems": ["Keto.C09_depth_sites_tie", "Keto.C09_edges_sound", "Keto.C09_once", "Keto.C09_depth",
                     "Keto.C09_terminates", "Keto.C09_leaves_subset_reach", "Keto.C09_complete_unbound_partial",
                     "Keto.C09_ids_eq_reach_partial", "Keto.C09_leaves_eq_check", "Keto.C09_mem_iff_reach",
                     "Keto.C09_legacy_plain", "Keto.C09_reachWithin_spec", "Keto.C09_reachAll_spec",
                     "Keto.C09_leaves_column_partial", "Keto.C09_order_counterexample"],
        "streams": [{"name": "expand", "n": {"quick": 400, "thorough": 2000}, "oracle": oracle_c09, "thorough_seeds": 3},
                    {"name": "mapper", "n": {"quick": 300, "thorough": 1500}, "oracle": oracle_c09_names, "thorough_seeds": 2}],
        "rule": EXPAND_RULE + "; stream mapper (see C16): expand through the REST and gRPC routes over names with separators, + and %XX",
        "partial": "completeness within the effective depth is violated (known finding F-expand-order); proved instead: completeness whenever the run made no depth cut (cuts = 0)",
        "assumptions": ["limit.max_read_depth >= 1 (required by the configuration schema) for C09_depth"],
    },
    "C04": {
        "lean_module": "Keto.Props.C04",
        "theorems": ["Keto.Store.C04_chunk_sizes_pos", "Keto.Store.C04_chunking_unobservable",
                     "Keto.Store.C04_chunk_sizes_irrelevant", "Keto.Store.C04_refines", "Keto.Store.C04_refines_init",
                     "Keto.Store.C04_observations", "Keto.Store.C04_rejected_no_effect", "Keto.Store.C04_invalid_rejected"],
        "streams": [{"name": "store", "n": {"quick": 300, "thorough": 3000}, "oracle": oracle_c04, "thorough_seeds": 3},
                    {"name": "store-nets", "n": {"quick": 150, "thorough": 1500}, "oracle": oracle_c04, "thorough_seeds": 3}],
        "rule": STORE_RULE,
        "partial": "",
        "assumptions": ["C04_observations: the table is well formed (WF: shard order, distinct non-nil shard ids) and every request "
                        "gets fresh shard ids (FreshRun) - the database's primary key and uuid.NewV4",
                        "strings are interned by the harness: that UUIDv5(network, string) is injective is C16's business",
                        "visibility to check/expand is by construction: the engine model reads the same table"],
    },
    "C05": {
        "lean_module": "Keto.Props.C05",
        "theorems": ["Keto.Store.C05_all_or_nothing", "Keto.Store.C05_error_iff", "Keto.Store.C05_kth_statement_fails",
                     "Keto.Store.C05_requests_all_or_nothing", "Keto.Store.C05_apply_chunk_independent",
                     "Keto.Store.C05_single_tx", "Keto.Store.C05_handlers_one_write"],
        "streams": [{"name": "store-faults", "n": {"quick": 300, "thorough": 1500}, "oracle": oracle_c05, "thorough_seeds": 3},
                    {"name": "store", "n": {"quick": 200, "thorough": 2000}, "oracle": oracle_c05, "thorough_seeds": 2}],
        "rule": ("histories of 3-8 requests with sqlite triggers that abort an INSERT of a row with relation 'poison', a DELETE of a "
                 "stored row with relation 'dpoison', a mapping INSERT of 'poison-string': exactly the chunk holding the poison fails; "
                 "insert lists of 1,2,5,99,100,101 and (3 cases per run) 3000/3001, delete lists of 3,99,100,101,200,201 with the "
                 "poison at index 0/middle/last, combined with inserts in the same request; all write kinds; full dump of both "
                 "tables before/after; twice per 300 cases a request with > 15000 distinct strings (two mapping INSERTs) one of "
                 "which is the poison string; non-trivial = at least one request rolled back; stream store (see C04): requests "
                 "with an invalid member at any position (unknown namespace, no subject, null tuple, null delta, unknown action) "
                 "are rejected as a whole"),
        "partial": "",
        "assumptions": ["the database's transaction contract (working copy committed at the end, dropped on error) is trusted; "
                        "only sqlite is exercised",
                        "reader isolation is the database's, under the premise C05_single_tx (every writing call of the persister "
                        "runs inside Transaction; regenerated SQL fact table); concurrent readers are not sampled by this stream"],
    },
    "C06": {
        "lean_module": ["Keto.Props.C06", "Keto.Proofs.FactsTieSql"],
        "theorems": ["Keto.FactsTie.sqlNid_tie", "Keto.Store.C06_frame", "Keto.Store.C06_frame_single", "Keto.Store.C06_no_leak", "Keto.Store.C06_sql_nid"],
        "streams": [{"name": "engine-c06", "n": {"quick": 120, "thorough": 1200}, "oracle": oracle_c06_engine, "thorough_seeds": 2}, {"name": "store-nets", "n": {"quick": 300, "thorough": 3000}, "oracle": oracle_c06, "thorough_seeds": 3}],
        "rule": STORE_RULE + "; 2-3 networks (Persisters with different network ids, handlers built on each) over ONE database run "
                "interleaved histories with the same strings, tuples and queries, including delete-by-empty-query; f<i> compares the "
                "rows (shard ids included) of all other networks before/after every item",
        "partial": "",
        "assumptions": ["check/expand isolation is the engine component's (the traversal SQL's nid predicates are in its fact tie); "
                        "the mapping table is global by design"],
    },
    "C07": {
        "lean_module": ["Keto.Props.C07", "Keto.Props.C07expand"],
        "theorems": ["Keto.C07_expand_fault_free", "Keto.C07_expand_never_partial", "Keto.C07_expand_fault_iff",
                     "Keto.C07_expand_single_fault", "Keto.C07_expand_single_fault_beyond", "Keto.C07_expand_fault_column",
                     "Keto.C07_expand_fault_column_le", "Keto.expandF_nofault", "Keto.expandF_fault",
                     "Keto.Store.C07_static", "Keto.Store.C07_listAll", "Keto.Store.C07_each_once", "Keto.Store.C07_interleaved",
                     "Keto.Store.C07_interleaved_histories", "Keto.Store.C07_negative_size_rejected",
                     "Keto.Store.C07_negative_size_rejected_api", "Keto.Store.C07_bad_token_rejected",
                     "Keto.Store.C07_bad_token_rejected_api"],
        "streams": [{"name": "store", "n": {"quick": 300, "thorough": 3000}, "oracle": oracle_c07, "thorough_seeds": 3},
                    {"name": "expand", "n": {"quick": 150, "thorough": 1000}, "oracle": oracle_c07_expand, "thorough_seeds": 2},
                    {"name": "engine-wide", "n": {"quick": 10, "thorough": 80}, "oracle": oracle_c07_engine, "thorough_seeds": 2}],
        "rule": STORE_RULE + "; internal consumers of the pagination: stream expand (nodes with more children than a page, small page "
                "sizes) and stream engine-wide (more than 1000 subject sets on one object#relation: pages of the traverser; more than 100 "
                "parents on a traversed relation and page sizes 1-3: pages of the tuple-to-subject-set listing); iterations with small page sizes over tables of >= 4 rows are interleaved with inserts and deletes "
                "of other rows between the fetches",
        "partial": "",
        "assumptions": ["WF: the table is in shard order with distinct non-nil shard ids (preserved by every request that gets fresh "
                        "ids: run_WF)", "the internal consumers (expand, tuple-to-subject-set, traverser) are the engine component's"],
    },
    "C17": {
        "lean_module": "Keto.Props.C17",
        "theorems": ["Keto.Store.C17_readOnly_mapper", "Keto.Store.C17_mapQuery_preserves", "Keto.Store.C17_reads_preserve",
                     "Keto.Store.C17_readonly", "Keto.Store.C17_only_writes_change"],
        "streams": [{"name": "store-readonly", "n": {"quick": 300, "thorough": 3000}, "oracle": oracle_c17, "thorough_seeds": 3}],
        "rule": ("3-10 writes, then a byte-level snapshot of keto_relation_tuples and keto_uuid_mappings (+ row counts of every "
                 "other table), then 5-25 read-API requests with never-seen and known names: REST GET list, gRPC "
                 "ListRelationTuples, Persister Get/Exists, REST GET/POST check (+openapi variants), batch check, expand, list "
                 "namespaces, OPL syntax check, and the gRPC Check/BatchCheck/Expand/ListNamespaces/syntax methods; then write requests "
                 "(PUT/PATCH/DELETE, gRPC Transact/Delete) sent to the read and syntax routers and to the read and syntax gRPC servers "
                 "as the daemon builds them (in-memory connection); every fourth case (in a database of its own): a stored relationship whose "
                 "names lost their rows in keto_uuid_mappings, then REST and gRPC list requests filtering by exactly those names; changed = the "
                 "snapshot differs afterwards; non-trivial = at least one successful write before the snapshot"),
        "partial": "",
        "assumptions": ["the tie 'every handler of the read routers uses ReadOnlyMapper and only Get/Exists/Traverse*' is the "
                        "route/mapper-use fact table's (handlers component)"],
    },
    "C14": {
        "lean_module": ["Keto.Props.C14"],
        "theorems": ["Keto.C14_noninterference", "Keto.C14_progress", "Keto.C14_complete_runs", "Keto.C14_schedule_independent",
                     "Keto.C14_other_requests_irrelevant", "Keto.C14_cells_consistent", "Keto.C14_prewarmed_readonly",
                     "Keto.C14_lazy_cells_write_once", "Keto.C14_prewarm_tie", "Keto.C14_lazyInit_tie", "Keto.C14_lockUse_tie", "Keto.C14_engine_stateless_tie",
                     "Keto.C14_shared_local_counterexample"],
        "streams": [{"name": "conc", "n": {"quick": 40, "thorough": 400}, "oracle": oracle_c14, "thorough_seeds": 3},
                    {"name": "conc-race", "n": {"quick": 10, "thorough": 60}, "oracle": oracle_c14, "thorough_seeds": 2, "race": True}],
        "rule": "conc: 4-15 read requests (check, batch check, expand, paginated list following tokens) over a random stored state, each alone and then all concurrently (GOMAXPROCS 2/4/16), answers compared; conc-race: the same from a FRESH registry per round (concurrent first requests) plus concurrent writers, binary built with -race; non-trivial = at least 2 concurrent requests",
        "partial": "the theorem covers logical isolation (request-local state, write-once registry cells created before serving) and the extracted locking discipline; race freedom of every other memory location is sampled by the Go race detector (a test, not a proof)",
        "assumptions": ["the abstraction of a request into steps that write only request-local state or publish a request-independent registry member is read off the code (facts: lazy getters, Init pre-warming, lock use), not derived mechanically"],
    },
    "C19": {
        "lean_module": ["Keto.Props.C19", "Keto.Props.C19remove"],
        "theorems": ["Keto.C19_legacy_with_removes", "Keto.C19_legacy_with_removes_every_prefix", "Keto.C19_legacy_with_removes_agrees",
                     "Keto.C19_legacy_removed_gone", "Keto.C19_legacy_comes_back", "Keto.C19_opl_comes_back", "Keto.C19_legacy_remove_other",
                     "Keto.C19_unrelated_reload_invisible_legacy", "Keto.C19_unrelated_reload_invisible_opl",
                     "Keto.C19_rebuild_loses_last_good_counterexample",
                     "Keto.C19_legacy", "Keto.C19_legacy_every_prefix", "Keto.C19_legacy_invalid_keeps", "Keto.C19_legacy_valid_takes_effect",
                     "Keto.C19_opl_single", "Keto.C19_opl_single_every_prefix", "Keto.C19_opl_global", "Keto.C19_opl_event",
                     "Keto.C19_opl_never_partial", "Keto.C19_opl_one_entry_per_file", "Keto.C19_opl_multi_counterexample",
                     "Keto.C19_atomic_step", "Keto.C19_lockUse_tie"],
        "streams": [{"name": "watch", "n": {"quick": 14, "thorough": 120}, "oracle": oracle_c19, "thorough_seeds": 2}],
        "rule": "real watchers (fsnotify) on a temporary directory: histories of 3-6 versions (2/3 valid) over 1-3 files, OPL (.ts) and legacy (.json/.yaml/.toml), each version written by atomic rename; a sampler polls Namespaces() every 0.3 ms; after each write the harness waits for 120 ms of quiescence; non-trivial = at least 3 versions",
        "partial": "'eventually' is observed with a timeout; fsnotify delivery is trusted; multi-file OPL directories are all-or-nothing (known finding)",
        "assumptions": ["file removal and non-atomic saves are outside the property's quantifier"],
    },
    "C16": {
        "lean_module": "Keto.Props.C16",
        "theorems": ["Keto.C16_constants", "Keto.C16_batch_lookup", "Keto.C16_batch_lookup_all",
                     "Keto.C16_roundtrip", "Keto.C16_roundtrip_pos", "Keto.C16_roundtrip_normalized",
                     "Keto.C16_unaliased", "Keto.C16_unaliased_tuples", "Keto.C16_same_string_same_id",
                     "Keto.C16_readonly_no_insert", "Keto.C16_error_no_insert", "Keto.C16_table_invariant",
                     "Keto.C16_query_roundtrip", "Keto.C16_known_after_write", "Keto.C16_known_readonly",
                     "Keto.C16_tree", "Keto.C16_seedOrder_perm", "Keto.C16_one_derivation"],
        "streams": [{"name": "mapper", "n": {"quick": 300, "thorough": 1500}, "oracle": oracle_c16, "thorough_seeds": 3},
                    {"name": "store-faults", "n": {"quick": 150, "thorough": 800}, "oracle": oracle_c16_store, "thorough_seeds": 2},
                    {"name": "expand", "n": {"quick": 150, "thorough": 1000}, "oracle": oracle_c16_tree, "thorough_seeds": 2},
                    {"name": "conc", "n": {"quick": 15, "thorough": 120}, "oracle": oracle_c16_conc, "thorough_seeds": 2}],
        "rule": ("batches of 1..250 API tuples (sizes 1/2/3, 49-51, 99-101, 149-151, 199-201, 249/250 emphasised, 40% uniform) in four "
                 "modes: all names fresh and distinct (up to 500 distinct ids = 5 lookup pages), a pool of 1-8 adversarial names "
                 "(heavy repeats, same name as object and subject), mixed, names already in the table plus new ones; names from an "
                 "adversarial list (empty, spaces, separators : # @ ( ), NFC/NFD pairs, Cyrillic/Latin look-alikes, case and "
                 "trailing-space variants, NUL, BOM, zero-width, RTL override, astral planes, SQL/JSON/URL metacharacters, "
                 "UUID-looking names incl. the UUID text of another name, 10 kB names differing in one byte, byte strings that are "
                 "not UTF-8 (direct mapper calls only)); 1 in 6 tuples uses one string as object and subject, 1 in 8 repeats an "
                 "earlier tuple; 12% of the batches contain a nil tuple / a tuple without subject / an unknown namespace; "
                 "3 of 4 cases: ReadOnlyMapper.FromTuple→ToTuple, then Mapper.FromTuple→ToTuple on in-memory sqlite with a dump "
                 "of keto_uuid_mappings before/after; 1 of 4: REST PATCH/PUT → REST list, gRPC list, REST list filtered by object, "
                 "REST and gRPC expand, field by field; a new database every 40 cases; "
                 "non-trivial = more than one tuple, or object = subject; distinct = distinct protocol lines; "
                 "stream store-faults (see C05): names written by a request that is rolled back and then written again; "
                 "stream expand (see C09): trees of every shape through Mapper.ToTree (REST, gRPC) against the engine's tree"),
        "partial": "",
        "assumptions": ["UUIDv5(network id, ·) is a parameter h of the model; C16_roundtrip / C16_unaliased assume h injective on the "
                        "strings of the batch and of the table (InjOn, an explicit hypothesis; the example with a colliding h shows it is "
                        "necessary); the model's concrete h in the driver is injective on the strings of the line",
                        "the table invariants (primary key on id, rows written by the mapper) are hypotheses of the round trip, "
                        "established for the empty table and preserved by every mapper operation (C16_table_invariant)",
                        "REST/gRPC end-to-end cases use valid UTF-8 only (JSON replaces other bytes by U+FFFD, see C18); the store is "
                        "taken as a multiset (C04); sqlite only",
                        "a tuple that sets both subject_id and subject_set (JSON only) is outside 'valid API tuples': the mapper keeps "
                        "subject_id and silently drops the subject set (model: ApiTuple.normalize; oracle answers None for such cases)"],
    },
    "C13": {
        "lean_module": "Keto.Props.C13",
        "theorems": ["Keto.HT.C13_no_server_no_panic", "Keto.HT.C13_cells_nonempty", "Keto.HT.C13_malformed_rejected",
                     "Keto.HT.C13_table_functional"],
        "streams": [{"name": "hfuzz", "n": {"quick": 2500, "thorough": 25000}, "oracle": oracle_c13, "thorough_seeds": 3},
                    {"name": "hcheck", "n": {"quick": 150, "thorough": 1500}, "oracle": oracle_c13_alive, "thorough_seeds": 2},
                    {"name": "engine-life", "n": {"quick": 60, "thorough": 600}, "oracle": oracle_c13_alive, "thorough_seeds": 2}],
        "rule": "every applicable (endpoint, mutation) cell of 19 REST/gRPC endpoints x 25 mutation kinds (unknown namespace, no/both subjects, null body, null element, wrong JSON types, negative/huge/non-numeric max-depth and page_size, bad token, empty/70 kB/non-UTF-8 strings, truncated/empty body, extra fields, absent proto sub-messages, unknown action, oversized batch, wrong method, missing namespace) with random concrete instances against the real routers (httptest, with recover) and gRPC handler methods; table dumps before/after; non-trivial = mutation other than 'valid'",
        "partial": "the model is a finite classification (endpoint x mutation kind -> allowed answer classes), not a model of JSON/HTTP decoding; it is validated against the real handlers on every run",
        "assumptions": ["negroni/httprouter, net/http, encoding/json and grpc are exercised, not modelled"],
    },
    "C08": {
        "lean_module": "Keto.Props.C08",
        "theorems": ["Keto.H.C08_agree", "Keto.H.C08_engine_results_ok", "Keto.H.C08_mirror_status",
                     "Keto.H.C08_unknown_namespace_never_allowed", "Keto.H.C08_batch_pointwise", "Keto.H.C08_batch_decisions",
                     "Keto.H.C08_batch_limit"],
        "streams": [{"name": "hcheck", "n": {"quick": 300, "thorough": 3000}, "oracle": oracle_c08, "thorough_seeds": 3},
                    {"name": "conc", "n": {"quick": 15, "thorough": 120}, "oracle": oracle_c08_conc, "thorough_seeds": 2}],
        "rule": "OPL configuration with relations, a traverse permission and a permission with !; random stored states (via the real mapper); entries with subject id / subject set / no subject, known and unknown namespaces, undeclared relations, names with separators and empty names, max-depth parameters; every entry through REST GET and POST (mirror and always-200), gRPC Check, and batches of 1-10 entries (10 = the configured maximum) through REST and gRPC batch check; request depths include values beyond 32 bits in the query string; the engine's own result for the mapped tuple is handed to the model; non-trivial = at least one allowed entry",
        "partial": "",
        "assumptions": ["the handler model is parametric in the engine's result; its link to the engine model is C08_engine_results_ok"],
    },
    "C18": {
        "lean_module": "Keto.Props.C18",
        "theorems": ["Keto.C18_json_tags_tie", "Keto.C18_json_keys",
                     "Keto.C18_url_tuple", "Keto.C18_url_tuple_side_condition", "Keto.C18_url_query",
                     "Keto.C18_proto_tuple", "Keto.C18_proto_tuple_side_condition", "Keto.C18_proto_query",
                     "Keto.C18_json_tuple", "Keto.C18_json_query", "Keto.C18_subject_kind_preserved",
                     "Keto.C18_string_dom", "Keto.C18_string_dom_tight", "Keto.C18_string_dom_iff",
                     "Keto.C18_reject", "Keto.C18_reject_subject", "Keto.C18_parse_image",
                     "Keto.C18_idempotent_partial", "Keto.C18_trim_counterexample", "Keto.C18_trim_class_exact"],
        "streams": [{"name": "enc", "n": {"quick": 6000, "thorough": 60000}, "oracle": oracle_c18, "thorough_seeds": 3}],
        "rule": ("tuples / queries / strings over an alphabet weighted towards : # @ ( ) (40%), space % & = + ; / ? quotes, "
                 "control characters, NUL, multi-byte and combining runes (25%), letters/digits (35%); lengths 0 (18%), 1-3, 4-9, "
                 "10-49, 200-999 (2%); tuples with id / set / no / both subjects; parse inputs = printed tuples, mutated printed "
                 "tuples, hand-assembled shapes around the separators and parentheses, noise; decoder inputs = url.Values / "
                 "proto messages / JSON objects with missing, duplicate, null, mistyped and junk members; every case runs the real "
                 "ketoapi functions and the real net/url, encoding/json, protobuf wire codecs; "
                 "non-trivial = every case except byte strings that are not UTF-8; distinct = distinct protocol lines"),
        "partial": "C18_idempotent_partial: print/re-parse is the identity on every parse result outside TrimClass "
                   "(subject set, empty relation, object ending with a parenthesis); known finding F-trim",
        "assumptions": ["strings are sequences of Unicode scalar values (valid UTF-8); byte strings that are not UTF-8 are "
                        "outside the model (JSON replaces them by U+FFFD, proto refuses to marshal them; URL query keeps them)",
                        "net/url escaping, encoding/json and the protobuf wire format are exercised by the harness, not modelled",
                        "encoding/json's case-insensitive key matching is not modelled (generator uses exact keys)"],
    },
    "C11": {
        "lean_module": ["Keto.Props.C11", "Keto.Props.C11tc"],
        "theorems": ["Keto.C11_forward_partial", "Keto.C11_build_no_schema", "Keto.C11_forward_partial_storage_only",
                     "Keto.C11_wellFormedB_sound", "Keto.C11_ttu_subjectset_counterexample",
                     "Keto.C11_tc_errors_exact", "Keto.C11_tc_namespace", "Keto.C11_tc_subjectset", "Keto.C11_tc_current_relation",
                     "Keto.C11_tc_traverse_target", "Keto.C11_tc_traverse_undeclared", "Keto.C11_tc_rejects_at", "Keto.C11_tc_accepts_iff",
                     "Keto.C11_parse_accepts_iff", "Keto.C11_parse_rejects", "Keto.C11_src_permission", "Keto.C11_src_type_union",
                     "Keto.C11_src_relation_decl", "Keto.C11_checks_cover", "Keto.C11_parse_typeOk", "Keto.C11_accepted_wellFormed",
                     "Keto.C11_forward_typed", "Keto.C11_forward_parse", "Keto.C11_plainTraversals_needed"],
        "streams": [{"name": "opl", "n": {"quick": 3000, "thorough": 20000}, "oracle": oracle_c11_converse, "thorough_seeds": 3, "env": {"VERIF_OPL_WATCHDOG_MS": "20000"}}, {"name": "engine-c11", "n": {"quick": 200, "thorough": 1200}, "oracle": oracle_c11, "thorough_seeds": 2},
                    {"name": "conc", "n": {"quick": 15, "thorough": 120}, "oracle": oracle_c11_conc, "thorough_seeds": 2}],
        "rule": ENGINE_RULE + "; stores conform to the declared types; judged = configuration accepted by the real OPL type checker, conforming store, query on a declared relation",
        "partial": "forward direction: for every byte string the parser model accepts, TypeOk holds; TypeOk + PlainTraversals (traversed relations have only plain-namespace types) + conforming store give WellFormed, hence no schema error for any check (C11_forward_parse); without PlainTraversals the statement is false (C11_plainTraversals_needed = known finding F-ttu-type); converse: every failing deferred check yields an error at the offending token, acceptance iff all checks hold (C11_tc_accepts_iff)",
        "assumptions": [],
    },
    "C15": {
        "lean_module": ["Keto.Props.C15", "Keto.Props.C15cg", "Keto.Props.C15calls", "Keto.Proofs.FactsTieChan"],
        "theorems": ["Keto.C15_calls_bounded", "Keto.C15_calls_bounded_of_le", "Keto.C15_calls_bounded_upper",
                     "Keto.C15_check_terminates", "Keto.C15_build_terminates", "Keto.C15_fuel_irrelevant",
                     "Keto.CG.C15_cg_one_at_a_time", "Keto.CG.C15_cg_result", "Keto.CG.C15_cg_result_quiet", "Keto.CG.C15_cg_result_prefix",
                     "Keto.CG.C15_cg_ctx", "Keto.CG.C15_cg_no_leak", "Keto.CG.C15_cg_drain_progress", "Keto.CG.C15_cg_done_only_drain",
                     "Keto.CG.cg_no_drop", "Keto.FactsTie.chanSites_tie"],
        "streams": [{"name": "cg", "n": {"quick": 400, "thorough": 4000}, "oracle": oracle_c15_cg, "thorough_seeds": 3},
                    {"name": "engine-life", "n": {"quick": 60, "thorough": 600}, "oracle": oracle_c15_life, "thorough_seeds": 3,
                     "ignore": ["res", "calls"]},
                    {"name": "engine-wide", "n": {"quick": 10, "thorough": 80}, "oracle": oracle_c15_wide, "thorough_seeds": 2}],
        "rule": "cg: scripted check functions (NotMember/Unknown/IsMember/error, random delays, a check that cancels the context) through the real concurrent checkgroup; engine-life: real engine with the real concurrent checkgroup, request cancelled before start / at the k-th storage call, k-th storage call failing; non-trivial = at least 2 checks / 2 storage calls; engine-wide: nodes with more than 1000 subject sets / more than 100 traversed parents and page sizes 1-3 (every check under a watchdog)",
        "partial": "'returns promptly' is observed with a timeout, goroutine release by counting goroutines; storage-call bound is the model's structural bound",
        "assumptions": [],
    },
    "C03": {
        "lean_module": ["Keto.Props.C03", "Keto.Proofs.FactsTieRead"],
        "theorems": ["Keto.C03_batch_length", "Keto.C03_batch_pointwise", "Keto.C03_batch_entries",
                     "Keto.FactsTie.readCallShapes_tie", "Keto.C03_no_allow_pos", "Keto.C03_single_error_never_allowed", "Keto.C03_invert_keeps_error",
                     "Keto.C03_and_error_not_member", "Keto.C03_error_never_member", "Keto.C03_checkIsMember_true",
                     "Keto.C03_fault_answer_exact_all", "Keto.C03_fault_independent_all",
                     "Keto.build_err_not_member"],
        "streams": [{"name": "engine-c03", "n": {"quick": 150, "thorough": 500}, "oracle": oracle_c03, "thorough_seeds": 2},
                    {"name": "engine-life", "n": {"quick": 40, "thorough": 300}, "oracle": oracle_c03_batch, "thorough_seeds": 2},
                    {"name": "engine-wide", "n": {"quick": 10, "thorough": 60}, "oracle": oracle_c03_stmt, "thorough_seeds": 2}],
        "rule": ENGINE_RULE + "; for every generated case the k-th storage call fails for every k up to min(N,14), transiently and persistently; and each case is re-run with one stored row at a time made undecodable, so that the queries that fetch it fail while rows are scanned (a fault below the Manager/Traverser interface); statement-level faults: the k-th SQL statement of a check (k up to 14) is cancelled right before it is sent - a fault below the Manager/Traverser interface - and the answer is compared with the model's for the failure of the storage call the statement belongs to, on the small cases and on the very wide nodes of stream engine-wide; stream engine-life: Engine.BatchCheck over 2-6 queries on the same state with the k-th storage call of the whole batch failing, or the request cancelled there (one line per entry)",
        "partial": "",
        "assumptions": [],
    },
    "C01": {
        "lean_module": ["Keto.Props.C01", "Keto.Props.C01complete", "Keto.Props.C01ref", "Keto.Props.C01neg", "Keto.Props.C01exact"],
        "theorems": ["Keto.C01_exact_all", "Keto.C01_exact_all_iff", "Keto.C01_exact_all_refEval", "Keto.C01_exact_all_engine",
                     "Keto.C01_sound_all", "Keto.C01_complete_all", "Keto.C01_open_not_answered", "Keto.C01_exact_limit_counterexample",
                     "Keto.C01_not_stratified_not_answered", "Keto.build_exact",
                     "Keto.tr_fa_exclusive", "Keto.refEval_sound_all", "Keto.refEval_complete_all", "Keto.refEval_decides",
                     "Keto.refEval_fuel_independent", "Keto.tr_iff_mem_pos", "Keto.tr_of_mem_all", "Keto.fa_not_mem",
                     "Keto.C01_engine_iff_tr_pos", "Keto.refEval_not_stratified_bad",
                     "Keto.refEval_sound_pos", "Keto.refEval_complete_pos", "Keto.refEval_iff_Mem_pos", "Keto.C01_engine_eq_ref_pos",
                     "Keto.C01_depth_sites_tie", "Keto.C01_sound_pos", "Keto.build_sound", "Keto.Cfg.pos_of_posB",
                     "Keto.C01_complete_pos_general", "Keto.C01_exact_pos_general", "Keto.C01_complete_pos", "Keto.C01_exact_pos",
                     "Keto.C01_complete_pos_strict", "Keto.C01_complete_norewrite", "Keto.C01_complete_strict_counterexample"],
        "streams": [{"name": "engine-c01", "n": {"quick": 250, "thorough": 1000}, "oracle": oracle_c01, "thorough_seeds": 2},
                    {"name": "engine-wide", "n": {"quick": 10, "thorough": 80}, "oracle": oracle_c01, "thorough_seeds": 2},
                    {"name": "hcheck", "n": {"quick": 150, "thorough": 1500}, "oracle": oracle_c01_batch, "thorough_seeds": 2}],
        "rule": ENGINE_RULE + "; stream hcheck (see C08): the engine's batch entry point against its single checks, batches of 1-10 "
                "entries with duplicates and entries that print alike (a subject id spelled like a subject set)",
        "partial": "exactness of the engine model is proved for ALL configurations, '!' included (C01_exact_all: no error and no limit event anywhere in the run imply isMember iff Tr, otherwise Fa; Tr/Fa = the stratified semantics of Keto/Spec/Stratified.lean, proved mutually exclusive, equal to Mem on the positive fragment), in default mode and in strict mode on stores that conform to the declared types; the executable reference evaluator used as run-time oracle is proved sound and complete against the same semantics (refEval_decides) and the engine model is proved to agree with it whenever it answers (C01_exact_all_refEval); on non-stratified instances (p = !p) neither Tr nor Fa holds and the engine cannot finish without error or limit event (C01_open_not_answered). What remains sampled, not proved: that the Go code is the model (correspondence streams), and goroutine schedules - the sequential checkgroup semantics is proved to be what the concurrent group computes (C15_cg_*), and every fourth case also runs with the real concurrent group",
        "assumptions": [],
    },
    "C02": {
        "lean_module": "Keto.Props.C02",
        "theorems": ["Keto.C02_effDepth_bounds", "Keto.C02_clamp", "Keto.C02_clamp_explicit", "Keto.C02_fail_closed_pos", "Keto.C02_width_sites_tie"],
        "streams": [{"name": "engine-c02", "n": {"quick": 40, "thorough": 150}, "oracle": oracle_c02, "thorough_seeds": 2},
                    {"name": "hcheck", "n": {"quick": 300, "thorough": 3000}, "oracle": oracle_c02_transports, "thorough_seeds": 2}],
        "rule": ENGINE_RULE + "; every stored state is checked over a grid of (request depth, global depth, width); stream hcheck (see C08): "
                "the request depth through every transport under global limits 3, 5, 7, 8",
        "partial": "",
        "assumptions": [],
    },
}

OPL_RULE = ("stream opl, per 20 cases: 5 documents generated from the OPL grammar (1-4 namespaces, related blocks with "
            "T[] / (A|B)[] / Array<A|B> / SubjectSet<N,'r'> types, permissions over includes/permits/traverse with "
            "!/&&/||, rendered over ALL spellings: quoted names, dot/bracket access, optional ': Context' / ': boolean', "
            "(p)=> / p=>, trailing commas, ,/;/newline separators, //, /* */, /** */ comments, \\t\\r\\v\\f, import header); "
            "7 byte-level mutations of such documents (truncate, delete, insert invalid/valid UTF-8, insert fragments such as "
            "/* \" ' !( ((((, random byte, duplicate/cut a slice, swap, 1-200 byte runs), each as a lex op AND a parse op; "
            "2 token soups around a plausible skeleton; 1 nesting case (depth 1-14 of ( / ! / !( around the limit 10); "
            "every 100th: a 1k/10k/100k identifier, string, comment or white-space run; 5 expression ops (TS boolean "
            "expression over <=5 atoms, <=9 operators, minimal and redundant parentheses, mixing || and && in 2/3 of them, "
            "!! in 1/10) parsed inside a one-permission class: truth table of the parsed AST vs TypeScript; corpus first. "
            "non-trivial = non-empty input; distinct = distinct protocol lines")

PROPS["C10"] = {
    "lean_module": "Keto.Props.C10",
    "theorems": ["Keto.C10_expr_l2r", "Keto.C10_expr_partial", "Keto.C10_access", "Keto.C10_decls", "Keto.C10_separators",
                 "Keto.C10_precedence_counterexample", "Keto.C10_double_negation_counterexample",
                 "Keto.C10_array_comma_counterexample",
                 "Keto.Opl.spec_all", "Keto.Opl.parseAtom_spec", "Keto.Opl.related_decl", "Keto.TS.evalL2R_unmixed"],
    "streams": [{"name": "opl", "env": {"VERIF_OPL_WATCHDOG_MS": "20000"}, "n": {"quick": 4000, "thorough": 20000}, "oracle": oracle_c10, "thorough_seeds": 3}],
    "rule": OPL_RULE,
    "partial": "C10_expr_full (denote(parse(render e)) = evalTS e for every e) is not provable: the parser reads each "
               "parenthesis level strictly left to right (C10_expr_l2r, for ALL e); C10_expr_partial is the full statement "
               "under the decidable hypothesis `mixed e = false`; C10_precedence_counterexample is the witness a || b && c",
    "assumptions": ["the text of lexer error items is not modelled (a string literal spelling an error message exactly "
                    "would compare equal to it in `match`)"],
}
PROPS["C12"] = {
    "lean_module": "Keto.Props.C12",
    "theorems": ["Keto.C12_total", "Keto.C12_positions", "Keto.C12_lex_linear", "Keto.C12_parse_linear",
                 "Keto.C12_typecheck_exponential_counterexample", "Keto.Opl.lex_ok", "Keto.Opl.parseItems_ok",
                 "Keto.Opl.parseItems_steps"],
    "streams": [{"name": "opl", "env": {"VERIF_OPL_WATCHDOG_MS": "20000"}, "n": {"quick": 4000, "thorough": 20000}, "oracle": oracle_c12, "thorough_seeds": 3}],
    "rule": OPL_RULE,
    "partial": "linear time holds for lexer and parser (C12_lex_linear, C12_parse_linear) and is violated by the type check "
               "(C12_typecheck_exponential_counterexample: k^11 steps on 152+21k bytes)",
    "assumptions": [],
}
